/-
C01 — collections: maps (`make`, `m[k]`, `v, ok := m[k]`, `m[k] = e`, `delete`, `len`), slices with `append`,
`append(s, t...)`, `copy`, `cap`, sub-slices, and the two `range` loops (`makeExpr`, `indexExpr`, `lenExpr`,
`capExpr`, `callExpr`, `copyExpr`, `sliceExpr`, `defineStmt`, `assignFromTo`, `rangeStmt`, `mapRangeStmt`,
`sliceRangeStmt` in `/repo/goose.go`; `Binding.AddTo`, `MapIterExpr`, `SliceLoopExpr`, `RefExpr`, `DerefExpr`,
`StoreStmt` in `/repo/internal/coq/coq.go`).

Property theorems only (model: `Model/Coll.lean`; relation and simulation: `Lemmas/Coll.lean`,
`Lemmas/CollExp.lean`, `Lemmas/CollStmt.lean`; maps and iteration order: `Lemmas/CollMap.lean`,
`Lemmas/CollOrder.lean`; mutants and example programs: `Lemmas/CollTr.lean`).

Go has map objects that several variables may refer to, backing arrays shared by slices, `append` that writes
in place or reallocates depending on the capacity, and `range` over a map in an unspecified order.  GooseLang
has a heap of cells, `MapGet` returning a pair, `MapIter` applying a closure to every entry in some order,
slices as (pointer, length, capacity).  `coll_compile_correct` says: whenever the translator accepts a function
body — any nesting of blocks, conditionals and the two loops, any shadowing, any aliasing between maps and
between slices — then for EVERY growth function of `append` and EVERY iteration-order oracle (the same on both
sides), from every pair of related states: if Go returns `v` with heap `G'`, the emitted expression is not
stuck and evaluates to the value related to `v` with the heap related to `G'`.

What the statement does NOT cover (see the header of `Model/Coll.lean`): two mutating calls inside one
expression (known finding `evaluation-order`), assignment to `:=` variables (refused by goose), early returns,
`break`/`continue` (`Model/Core.lean`), struct and pointer data (`Model/Heap.lean`), wrap-around; the source
syntax is resolved (`m[k]` and `s[i]` are different constructors); when Go PANICS nothing is proved (the
examples `panics_are_stuck_examples` and the correspondence check find the emitted program stuck there).
Go's semantics of `range` over a map is defined here only for loops that leave the entries of the ranged map as
they were (Go leaves the visiting of entries added during the loop unspecified).
-/
import GooseVerif.Lemmas.CollTr
import GooseVerif.GL.Sem
import GooseVerif.Gen.Guards
import GooseVerif.Expected.Guards

set_option linter.unusedSimpArgs false

namespace GooseVerif.Props.C01Coll
open GooseVerif.Model.Coll
open GooseVerif.Model.Heap (look lookStk bindStk Res ofOpt)

/-- T-gen obligation: the functions of goose.go this model shares with the heap and scoping models (`makeExpr`,
`makeSliceExpr`, `indexExpr`, `sliceExpr`, `lenExpr`; `defineStmt`, `assignFromTo`, `varSpec`, `referenceTo`,
`pointerAssign`, `identExpr`) have, up to formatting, the committed text. -/
theorem coll_facts_ok :
    GooseVerif.Gen.Guards.heap = GooseVerif.Expected.Guards.heap ∧
    GooseVerif.Gen.Guards.scoping = GooseVerif.Expected.Guards.scoping ∧
    GooseVerif.Gen.Guards.coll = GooseVerif.Expected.Guards.coll := ⟨rfl, rfl, rfl⟩

/-- The growth function of the line protocol is the Lean interpreter's (`GL/Sem.lean`). -/
theorem growDouble_is_the_interpreters : growDouble = GooseVerif.GL.growCap := rfl

/-! ### the main theorem -/

/-- **Collections are translated soundly.**  For every function body `ss` accepted in the static environment
`ssc :: Γ`, every growth function `grow`, every iteration-order oracle `ord`, every Go state `(sc :: st, G)` and
target state `(env, H)` related by `Rel` (the static environment knows which names are `var` cells; `env` binds
each name, innermost first, to the related value or to its cell's location) and `HRel` (the heaps have the same
objects: arrays and maps with the same contents, cells with related values): if Go returns `v` with final heap
`G'`, then the translation evaluates (it is NOT STUCK) to `tv` with final heap `H'`, `v` is related to `tv` and
`G'` to `H'`.

The theorem holds for EVERY `grow` and `ord`; those that are Go are the growth functions with
`n ≤ grow c n` and the oracles returning a permutation of the entries (`coll_compile_correct_go`). -/
theorem coll_compile_correct (grow : Nat → Nat → Nat) (ord : List (Nat × Nat) → List (Nat × Nat))
    (ss : Stmts) (t : T) (v : Val) (G' : GHeap) (G : GHeap) (H : THeap)
    (sc : Scope) (st : Stack) (ssc : SScope) (Γ : SEnv) (env : Env)
    (hacc : tr (ssc :: Γ) ss = .ok t)
    (hrel : Rel (sc :: st) (ssc :: Γ) env) (hheap : HRel G H)
    (hgo : runGoIn grow ord (sc :: st) G ss = .ok (v, G')) :
    ∃ tv H', evalT grow ord env H t = some (tv, H') ∧ VRel v tv ∧ HRel G' H' := by
  obtain ⟨hfl, rfl⟩ := hrel
  unfold HRel at hheap
  subst hheap
  unfold runGoIn at hgo
  cases hx : execStmts grow ord (sc :: st) G ss with
  | panic => simp [hx] at hgo
  | bad => simp [hx] at hgo
  | ok out =>
    cases out with
    | normal st' G1 => simp [hx] at hgo
    | returned v1 G1 =>
      simp [hx] at hgo
      obtain ⟨rfl, rfl⟩ := hgo
      have hp := sound_stmts ss grow ord true ssc Γ sc st G t _ hacc hfl hx
      exact ⟨toT v1, heapT G1, hp.2, rfl, rfl⟩

/-- … as the brief states it: a growth function that gives at least what is needed, an oracle that permutes. -/
theorem coll_compile_correct_go (grow : Nat → Nat → Nat) (_hgrow : ∀ c n, n ≤ grow c n)
    (ord : List (Nat × Nat) → List (Nat × Nat)) (_hord : ∀ es, (ord es).Perm es)
    (ss : Stmts) (t : T) (v : Val) (G' : GHeap) (G : GHeap) (H : THeap)
    (sc : Scope) (st : Stack) (ssc : SScope) (Γ : SEnv) (env : Env)
    (hacc : tr (ssc :: Γ) ss = .ok t)
    (hrel : Rel (sc :: st) (ssc :: Γ) env) (hheap : HRel G H)
    (hgo : runGoIn grow ord (sc :: st) G ss = .ok (v, G')) :
    ∃ tv H', evalT grow ord env H t = some (tv, H') ∧ VRel v tv ∧ HRel G' H' :=
  coll_compile_correct grow ord ss t v G' G H sc st ssc Γ env hacc hrel hheap hgo

/-- A function without parameters, from the empty state: translate-and-run agrees with Go. -/
theorem coll_compile_correct_closed (grow : Nat → Nat → Nat) (ord : List (Nat × Nat) → List (Nat × Nat))
    (ss : Stmts) (t : T) (v : Val) (G' : GHeap)
    (hacc : tr emptyEnv ss = .ok t) (hgo : runGo grow ord ss = .ok (v, G')) :
    runT grow ord t = some (toT v, heapT G') := by
  have hrel : Rel [[]] [[]] [] := ⟨rfl, rfl⟩
  obtain ⟨tv, H', he, hv, hh⟩ := coll_compile_correct grow ord ss t v G' [] [] [] [] [] [] [] hacc hrel rfl hgo
  rw [hv, hh] at he
  exact he

/-- … in particular a returned NUMBER is the same number, and the emitted expression is never stuck when Go
returns normally. -/
theorem returned_number_agrees (grow : Nat → Nat → Nat) (ord : List (Nat × Nat) → List (Nat × Nat))
    (ss : Stmts) (t : T) (n : Nat) (G' : GHeap)
    (hacc : tr emptyEnv ss = .ok t) (hgo : runGo grow ord ss = .ok (.num n, G')) :
    ∃ H', runT grow ord t = some (.base (.num n), H') :=
  ⟨heapT G', coll_compile_correct_closed grow ord ss t (.num n) G' hacc hgo⟩

theorem accepted_never_stuck (grow : Nat → Nat → Nat) (ord : List (Nat × Nat) → List (Nat × Nat))
    (ss : Stmts) (t : T) (v : Val) (G' : GHeap)
    (hacc : tr emptyEnv ss = .ok t) (hgo : runGo grow ord ss = .ok (v, G')) : runT grow ord t ≠ none := by
  rw [coll_compile_correct_closed grow ord ss t v G' hacc hgo]
  simp

/-- the value of the translation, from the value Go computes -/
theorem trVal_of_goVal (grow : Nat → Nat → Nat) (ord : List (Nat × Nat) → List (Nat × Nat))
    (ss : Stmts) (t : T) (v : Val) (hacc : tr emptyEnv ss = .ok t) (hgo : goVal grow ord ss = some v) :
    trVal grow ord ss = some (toT v) := by
  unfold goVal at hgo
  cases hr : runGo grow ord ss with
  | panic => simp [hr] at hgo
  | bad => simp [hr] at hgo
  | ok q =>
    obtain ⟨v1, G1⟩ := q
    simp [hr] at hgo
    subst hgo
    simp [trVal, runTr, hacc, coll_compile_correct_closed grow ord ss t v1 G1 hacc hr]

/-- "Same contents of everything reachable": in related heaps a map reference is the location of a block with
exactly the map's entries, a slice is the triple over the block with exactly the array's cells, a `var`
variable's cell holds the related value. -/
theorem reachable_agrees {G : GHeap} {H : THeap} (hh : HRel G H) :
    (∀ o es, getMap G o = some es → getMap H o = some es) ∧
    (∀ o vs, getArr G o = some vs → getArr H o = some vs) ∧
    (∀ o w, getCell G o = some w → getCell H o = some (toT w)) ∧
    (∀ p l, readSl H p l = readSl G p l) := by
  unfold HRel at hh
  subst hh
  refine ⟨?_, ?_, ?_, ?_⟩
  · intro o es h; simp [h]
  · intro o vs h; simp [h]
  · intro o w h; simp [h]
  · intro p l; simp

/-! ### the simp set that runs a program with symbolic numbers -/

/-! ### corollaries: maps -/

/-- **A map is a reference.**  `m := make(map[uint64]uint64); n := m; n[k] = x; return m[j]`: for all `k x j`, every
growth function and oracle, Go returns `x` if `j = k` and 0 otherwise — the insert through `n` is seen through
`m` — and so does the translation; and `m[k] = x; var n = m; delete(n, k); return len(m)` returns 0 on both sides:
the delete through the `var` variable `n` is seen through `m`. -/
theorem map_is_a_reference (grow : Nat → Nat → Nat) (ord : List (Nat × Nat) → List (Nat × Nat)) (k x j : Nat) :
    (goVal grow ord (exMapRef k x j) = some (.num (if j = k then x else 0)) ∧
      trVal grow ord (exMapRef k x j) = some (.base (.num (if j = k then x else 0)))) ∧
    (goVal grow ord (exMapRefDelete k x) = some (.num 0) ∧
      trVal grow ord (exMapRefDelete k x) = some (.base (.num 0))) := by
  have g1 : goVal grow ord (exMapRef k x j) = some (.num (if j = k then x else 0)) := by
    simp [goVal, runGo, runGoIn, exMapRef, seqS, execStmts, execStmt, evalR, evalE, bindStk, lookStk, look, ofOpt,
      asNum, asMap, getMap, mapIns, mapFind]
    by_cases h : k = j <;> simp [h, eq_comm]
  have g2 : goVal grow ord (exMapRefDelete k x) = some (.num 0) := by
    simp [goVal, runGo, runGoIn, exMapRefDelete, seqS, execStmts, execStmt, evalR, evalE, bindStk, lookStk, look, ofOpt,
      asNum, asMap, getMap, getCell, mapIns, mapDel, mapFind]
  exact ⟨⟨g1, trVal_of_goVal grow ord _ _ _ rfl g1⟩, ⟨g2, trVal_of_goVal grow ord _ _ _ rfl g2⟩⟩

/-- **An absent key reads as zero**, and **the second result of a lookup says whether the key is present.**
`m := make(…); m[k] = x; v, ok := m[j]; var r uint64 = 0; if ok { r = v + 1 }; return r`: Go and the translation
return `x + 1` if `j = k` (present: `ok`, `v = x`) and 0 otherwise (absent: `!ok`). -/
theorem lookup_ok_iff_present (grow : Nat → Nat → Nat) (ord : List (Nat × Nat) → List (Nat × Nat)) (k x j : Nat) :
    goVal grow ord (exLookup2 k x j) = some (.num (if j = k then x + 1 else 0)) ∧
    trVal grow ord (exLookup2 k x j) = some (.base (.num (if j = k then x + 1 else 0))) := by
  have g1 : goVal grow ord (exLookup2 k x j) = some (.num (if j = k then x + 1 else 0)) := by
    by_cases h : k = j
    · subst h
      simp [goVal, runGo, runGoIn, exLookup2, seqS, execStmts, execStmt, evalR, evalE, bindStk, bindStkO, lookStk, look,
        ofOpt, asNum, asMap, asBool, getMap, getCell, mapIns, mapFind, popOut]
    · have h' : ¬ j = k := fun e => h e.symm
      simp [goVal, runGo, runGoIn, exLookup2, seqS, execStmts, execStmt, evalR, evalE, bindStk, bindStkO, lookStk, look,
        ofOpt, asNum, asMap, asBool, getMap, getCell, mapIns, mapFind, popOut, h, h']
  exact ⟨g1, trVal_of_goVal grow ord _ _ _ rfl g1⟩

/-- … the same facts about the association list itself: a lookup finds a value iff the key is among the keys;
an absent key gives `none`, which `m[k]` reads as 0 and `v, ok := m[k]` as `(0, false)`. -/
theorem lookup_ok_iff_present_entries (es : List (Nat × Nat)) (k : Nat) :
    ((mapFind es k).isSome = true ↔ k ∈ keys es) ∧ (k ∉ keys es → (mapFind es k).getD 0 = 0) := by
  refine ⟨mapFind_isSome es k, ?_⟩
  intro h
  rw [(mapFind_none es k).mpr h]
  rfl

theorem absent_key_reads_zero (grow : Nat → Nat → Nat) (ord : List (Nat × Nat) → List (Nat × Nat)) (k x j : Nat)
    (h : j ≠ k) :
    goVal grow ord (exMapRef k x j) = some (.num 0) ∧ trVal grow ord (exMapRef k x j) = some (.base (.num 0)) := by
  have := (map_is_a_reference grow ord k x j).1
  simpa [h] using this

/-- **After `delete(m, k)` the key is gone**: `m[k] = x; delete(m, k); _, ok := m[k]; var r = m[k]; if ok { r = 99 };
return r` returns 0 on both sides, for every `k`, `x`. -/
theorem delete_then_get (grow : Nat → Nat → Nat) (ord : List (Nat × Nat) → List (Nat × Nat)) (k x : Nat) :
    goVal grow ord (exDeleteGet k x) = some (.num 0) ∧ trVal grow ord (exDeleteGet k x) = some (.base (.num 0)) := by
  have g1 : goVal grow ord (exDeleteGet k x) = some (.num 0) := by
    simp [goVal, runGo, runGoIn, exDeleteGet, seqS, execStmts, execStmt, evalR, evalE, bindStk, bindStkO, lookStk, look,
      ofOpt, asNum, asMap, asBool, getMap, getCell, mapIns, mapDel, mapFind, popOut]
  exact ⟨g1, trVal_of_goVal grow ord _ _ _ rfl g1⟩

/-- … on the entries: after a delete the key is not found and every other key is found as before; after an
insert the key is found with the new value and every other key as before. -/
theorem delete_then_get_entries (es : List (Nat × Nat)) (k k' x : Nat) :
    mapFind (mapDel es k) k' = (if k' = k then none else mapFind es k') ∧
    mapFind (mapIns es k x) k' = (if k' = k then some x else mapFind es k') :=
  ⟨mapFind_del es k k', mapFind_ins es k x k'⟩

/-- **`len(m)` counts the distinct keys.**  For every history of inserts and deletes from the empty map: the
keys of the entries have no duplicates, a key is among them iff the history leaves a value for it, and so the
length of the entries — what `len(m)` and `MapLen` return — is the number of distinct keys present. -/
theorem len_counts_distinct_keys (h : List MapOp) :
    (keys (stateOf h)).Nodup ∧ (∀ k, k ∈ keys (stateOf h) ↔ (valueOf h k).isSome = true) ∧
    (stateOf h).length = (keys (stateOf h)).length := by
  refine ⟨stateOf_nodup h, ?_, (length_keys _).symm⟩
  intro k
  rw [← mapFind_isSome, stateOf_find]

/-- … each step: an insert adds one to the length iff the key is new, a delete removes one iff it is present. -/
theorem len_step {es : List (Nat × Nat)} (hn : (keys es).Nodup) (k x : Nat) :
    (mapIns es k x).length = (if k ∈ keys es then es.length else es.length + 1) ∧
    (mapDel es k).length = (if k ∈ keys es then es.length - 1 else es.length) :=
  ⟨length_ins es k x, length_del hn k⟩

/-- … and in a program: `m[k1] = 1; m[k2] = 2; m[k1] = 3; return len(m)` returns 1 if `k1 = k2` and 2 otherwise. -/
theorem len_example (grow : Nat → Nat → Nat) (ord : List (Nat × Nat) → List (Nat × Nat)) (k1 k2 : Nat) :
    goVal grow ord (exLen k1 k2) = some (.num (if k1 = k2 then 1 else 2)) ∧
    trVal grow ord (exLen k1 k2) = some (.base (.num (if k1 = k2 then 1 else 2))) := by
  have g1 : goVal grow ord (exLen k1 k2) = some (.num (if k1 = k2 then 1 else 2)) := by
    by_cases h : k1 = k2
    · subst h
      simp [goVal, runGo, runGoIn, exLen, seqS, execStmts, execStmt, evalR, evalE, bindStk, lookStk, look,
        ofOpt, asNum, asMap, getMap, mapIns]
    · simp [goVal, runGo, runGoIn, exLen, seqS, execStmts, execStmt, evalR, evalE, bindStk, lookStk, look,
        ofOpt, asNum, asMap, getMap, mapIns, h]
  exact ⟨g1, trVal_of_goVal grow ord _ _ _ rfl g1⟩

/-! ### corollaries: append -/

/-- **Which case of `append` applies is decided by the capacity alone** — not by the growth function, not by
the contents of the heap.  If `len + 1 ≤ cap` the result has the SAME pointer and capacity, no object is
allocated, and only the cell at index `len` of the shared array changes; otherwise the result points to a NEW
object of capacity `grow cap (len + 1)` and every existing object is as before.  (`appendOp` is what both the
Go semantics and `SliceAppend` in the target semantics execute.) -/
theorem append_case_decided_by_cap {α : Type} (grow : Nat → Nat → Nat) (H : List (Obj α)) (p : Ptr) (l c x : Nat)
    (q : Ptr × Nat × Nat) (H' : List (Obj α)) (h : appendOp grow H p l c [x] = some (q, H')) :
    (l + 1 ≤ c → q = (p, l + 1, c) ∧ H'.length = H.length ∧
        ∃ o off vs, p = some (o, off) ∧ getArr H o = some vs ∧ off + l < vs.length ∧
          H' = H.set o (.arr (vs.take (off + l) ++ [x] ++ vs.drop (off + l + 1)))) ∧
    (¬ l + 1 ≤ c → q = (some (H.length, 0), l + 1, grow c (l + 1)) ∧ ∃ arr, H' = H ++ [.arr arr] ∧
        ∀ o, o < H.length → H'[o]? = H[o]?) := by
  unfold appendOp at h
  constructor
  · intro hle
    simp only [List.length_singleton, hle, if_true] at h
    cases p with
    | none => simp [Ptr.shift, writeSl] at h
    | some oo =>
      obtain ⟨o, off⟩ := oo
      simp only [Ptr.shift, writeSl, List.length_singleton] at h
      cases hg : getArr H o with
      | none => simp [hg] at h
      | some vs =>
        simp only [hg, Option.bind_some] at h
        split at h
        · next hlt =>
          simp at h
          obtain ⟨rfl, rfl⟩ := h
          exact ⟨rfl, by simp, o, off, vs, rfl, hg, by omega, by simp⟩
        · simp at h
  · intro hgt
    simp only [List.length_singleton, hgt, if_false] at h
    cases hr : readSl H p l with
    | none => simp [hr] at h
    | some old =>
      simp [hr] at h
      obtain ⟨rfl, rfl⟩ := h
      refine ⟨rfl, _, rfl, ?_⟩
      intro o ho
      rw [List.getElem?_append_left ho]

/-- **An append that fits writes into the shared array.**  `s := make([]uint64, 2, 3); t := append(s, x);
t[0] = y; return s[0] + 100*len(s)`: for every growth function, Go and the translation return `y + 200` — the
store through the NEW slice is seen through the old one (one array), whose length is still 2.  And two appends
to the same slice write the same cell: `t := append(s, x); u := append(s, y); return t[2]` returns `y`. -/
theorem append_in_place_aliases (grow : Nat → Nat → Nat) (ord : List (Nat × Nat) → List (Nat × Nat)) (x y : Nat) :
    (goVal grow ord (exAppendFits x y) = some (.num (y + 200)) ∧
      trVal grow ord (exAppendFits x y) = some (.base (.num (y + 200)))) ∧
    (goVal grow ord (exAppendTwice x y) = some (.num y) ∧
      trVal grow ord (exAppendTwice x y) = some (.base (.num y))) := by
  have g1 : goVal grow ord (exAppendFits x y) = some (.num (y + 200)) := by
    simp [goVal, runGo, runGoIn, exAppendFits, seqS, execStmts, execStmt, evalR, evalE, bindStk, lookStk, look, ofOpt,
      asNum, asSl, appendOp, readSl, writeSl, getArr, setElemAt, elemAt, Ptr.shift]
  have g2 : goVal grow ord (exAppendTwice x y) = some (.num y) := by
    simp [goVal, runGo, runGoIn, exAppendTwice, seqS, execStmts, execStmt, evalR, evalE, bindStk, lookStk, look, ofOpt,
      asNum, asSl, appendOp, readSl, writeSl, getArr, setElemAt, elemAt, Ptr.shift]
  exact ⟨⟨g1, trVal_of_goVal grow ord _ _ _ rfl g1⟩, ⟨g2, trVal_of_goVal grow ord _ _ _ rfl g2⟩⟩

/-- **An append that does not fit copies.**  `s := make([]uint64, 2); t := append(s, x); t[0] = y;
return s[0] + 100*t[0] + 10000*t[2]`: for every growth function, Go and the translation return
`100*y + 10000*x` — the store through the new slice is NOT seen through the old one. -/
theorem append_grown_does_not_alias (grow : Nat → Nat → Nat) (ord : List (Nat × Nat) → List (Nat × Nat)) (x y : Nat) :
    goVal grow ord (exAppendGrows x y) = some (.num (0 + (y * 100 + x * 10000))) ∧
    trVal grow ord (exAppendGrows x y) = some (.base (.num (0 + (y * 100 + x * 10000)))) := by
  have g1 : goVal grow ord (exAppendGrows x y) = some (.num (0 + (y * 100 + x * 10000))) := by
    simp [goVal, runGo, runGoIn, exAppendGrows, seqS, execStmts, execStmt, evalR, evalE, bindStk, lookStk, look, ofOpt,
      asNum, asSl, appendOp, readSl, writeSl, getArr, setElemAt, elemAt, Ptr.shift]
  exact ⟨g1, trVal_of_goVal grow ord _ _ _ rfl g1⟩

/-! ### corollaries: the loops -/

/-- **The iteration order of `range` over a map cannot be observed by accumulating bodies** (source side).  If
every `range` over a map in `ss` has a body that only adds expressions over the loop variables to `var`
variables (`Stmts.rangesOK`, defined syntactically in `Model/Coll.lean`), then Go's outcome — value and heap, or
panic — is the same for any two oracles that return permutations of the entries: the oracle can be dropped from
the statement for such programs. -/
theorem range_order_irrelevant (grow : Nat → Nat → Nat) (ord1 ord2 : List (Nat × Nat) → List (Nat × Nat))
    (h1 : ∀ es, (ord1 es).Perm es) (h2 : ∀ es, (ord2 es).Perm es)
    (ss : Stmts) (hok : ss.rangesOK = true) (st : Stack) (G : GHeap) :
    runGoIn grow ord1 st G ss = runGoIn grow ord2 st G ss := by
  unfold runGoIn
  rw [exec_ord_stmts grow ord1 ord2 h1 h2 ss hok st G]

/-- … and on the target side: if such a program is accepted and Go returns `v` under SOME permutation oracle,
the emitted expression evaluates to the related value and heap under EVERY permutation oracle. -/
theorem range_order_irrelevant_target (grow : Nat → Nat → Nat) (ord1 ord2 : List (Nat × Nat) → List (Nat × Nat))
    (h1 : ∀ es, (ord1 es).Perm es) (h2 : ∀ es, (ord2 es).Perm es)
    (ss : Stmts) (hok : ss.rangesOK = true) (t : T) (v : Val) (G' : GHeap)
    (hacc : tr emptyEnv ss = .ok t) (hgo : runGo grow ord1 ss = .ok (v, G')) :
    runT grow ord2 t = some (toT v, heapT G') := by
  have hgo2 : runGo grow ord2 ss = .ok (v, G') := by
    unfold runGo at hgo ⊢
    rw [← range_order_irrelevant grow ord1 ord2 h1 h2 ss hok]
    exact hgo
  exact coll_compile_correct_closed grow ord2 ss t v G' hacc hgo2

/-- An instance: `m[1] = a; m[2] = b; m[7] = c; for k, v := range m { acc = acc + k*3 + v }` gives `30 + a + b + c`
under every permutation oracle, on both sides. -/
theorem range_example (grow : Nat → Nat → Nat) (ord : List (Nat × Nat) → List (Nat × Nat))
    (h : ∀ es, (ord es).Perm es) (a b c : Nat) :
    goVal grow ord (exRange a b c) = some (.num (1 * 3 + a + (2 * 3 + b) + (7 * 3 + c))) ∧
    trVal grow ord (exRange a b c) = some (.base (.num (1 * 3 + a + (2 * 3 + b) + (7 * 3 + c)))) := by
  have hid : ∀ es : List (Nat × Nat), (id es).Perm es := fun es => List.Perm.refl es
  have g0 : goVal grow id (exRange a b c) = some (.num (1 * 3 + a + (2 * 3 + b) + (7 * 3 + c))) := by
    simp [goVal, runGo, runGoIn, exRange, acc, seqS, execStmts, execStmt, evalR, evalE, bindStk, lookStk, look, ofOpt,
      asNum, asMap, getMap, getCell, mapIns, loopGo, loopScope, bindO, bodyOut, Nat.add_assoc]
  have g1 : goVal grow ord (exRange a b c) = some (.num (1 * 3 + a + (2 * 3 + b) + (7 * 3 + c))) := by
    unfold goVal runGo at g0 ⊢
    rw [range_order_irrelevant grow ord id h hid (exRange a b c) rfl]
    exact g0
  exact ⟨g1, trVal_of_goVal grow ord _ _ _ rfl g1⟩

/-- **The condition is needed**: with the body `acc = acc*2 + k` (not of the accumulating form) two permutation
oracles give different results, in Go and in the translation alike. -/
theorem order_observable_without_condition :
    exRangeOrdered.rangesOK = false ∧
    goVal growDouble id exRangeOrdered = some (.num 4) ∧ goVal growDouble List.reverse exRangeOrdered = some (.num 5) ∧
    trVal growDouble id exRangeOrdered = some (.base (.num 4)) ∧
    trVal growDouble List.reverse exRangeOrdered = some (.base (.num 5)) := ⟨rfl, rfl, rfl, rfl, rfl⟩

/-- The Go semantics of this model is DEFINED only for loops over a map that leave the entries of the ranged map as
they were: a body that inserts into, or deletes from, the ranged map is outside the model (`Res.bad`), although goose
accepts it — so the main theorem says nothing about such programs.  (Go: "if a map entry is created during iteration,
that entry may be produced during the iteration or may be skipped".) -/
theorem mutating_the_ranged_map_is_outside_the_model :
    (runGo growDouble id exRangeInsert = .bad ∧ ∃ t, tr emptyEnv exRangeInsert = .ok t) ∧
    (runGo growDouble id exRangeDelete = .bad ∧ ∃ t, tr emptyEnv exRangeDelete = .ok t) :=
  ⟨⟨rfl, _, rfl⟩, ⟨rfl, _, rfl⟩⟩

/-- **`range` over a slice goes in index order and reads each element when its iteration starts.**
`s[0] = a; s[1] = b; s[2] = c; for i, x := range s { acc = acc*10 + x*2 + i }` returns
`((0*10 + a*2 + 0)*10 + b*2 + 1)*10 + c*2 + 2` on both sides (for every `a b c`); and a body that writes `s[2] = 7`
in the first iteration makes the last iteration read 7: `for _, x := range s { acc = acc*10 + x; s[2] = 7 }` over
three zeros returns 7. -/
theorem slice_range_in_order (grow : Nat → Nat → Nat) (ord : List (Nat × Nat) → List (Nat × Nat)) (a b c : Nat) :
    (goVal grow ord (exSliceRange a b c) = some (.num (((0 * 10 + (a * 2 + 0)) * 10 + (b * 2 + 1)) * 10 + (c * 2 + 2))) ∧
      trVal grow ord (exSliceRange a b c) =
        some (.base (.num (((0 * 10 + (a * 2 + 0)) * 10 + (b * 2 + 1)) * 10 + (c * 2 + 2))))) ∧
    (goVal grow ord exSliceRangeWrite = some (.num 7) ∧ trVal grow ord exSliceRangeWrite = some (.base (.num 7))) := by
  have g1 : goVal grow ord (exSliceRange a b c) =
      some (.num (((0 * 10 + (a * 2 + 0)) * 10 + (b * 2 + 1)) * 10 + (c * 2 + 2))) := by
    simp [goVal, runGo, runGoIn, exSliceRange, seqS, execStmts, execStmt, evalR, evalE, bindStk, lookStk, look, ofOpt,
      asNum, asSl, getArr, getCell, setElemAt, elemAt, loopGo, loopScope, bindO, bodyOut, List.range, List.range.loop]
  have g2 : goVal grow ord exSliceRangeWrite = some (.num 7) := by
    simp [goVal, runGo, runGoIn, exSliceRangeWrite, seqS, execStmts, execStmt, evalR, evalE, bindStk, lookStk, look, ofOpt,
      asNum, asSl, getArr, getCell, setElemAt, elemAt, loopGo, loopScope, bindO, bodyOut, List.range, List.range.loop]
  exact ⟨⟨g1, trVal_of_goVal grow ord _ _ _ rfl g1⟩, ⟨g2, trVal_of_goVal grow ord _ _ _ rfl g2⟩⟩

/-! ### what is emitted -/

/-- `m := make(…); m[1] = 2; v, ok := m[1]; var acc uint64 = m[1] + uint64(len(m)); for k := range m { acc = acc + k };
    delete(m, 1); if ok { acc = acc + v }; return acc` -/
def exLookup2_1 : Stmts :=
  seqS [.define "m" (.e (.mkMap false)), .mapSet (.var "m") (.lit 1) (.lit 2),
        .lookup2 (some "v") (some "ok") (.var "m") (.lit 1),
        .declare "acc" (.e (.add (.mapGet (.var "m") (.lit 1)) (.mapLen (.var "m")))),
        .rangeMap (some "k") none (.var "m") (seqS [acc (.var "k")] .nil),
        .delete (.var "m") (.lit 1),
        .ite (.var "ok") (seqS [acc (.var "v")] .nil) .nil]
    (.ret (.var "acc"))

/-- The emitted text for the two lookups, the insert, the delete, `len`, the loop over a map with one blank
binder, and a `var` accumulator: `Fst (MapGet …)` for the one-result form, `let: ("v", "ok") := MapGet …` for the
two-result form. -/
theorem emitted_forms :
    tr emptyEnv exLookup2_1 = .ok
      (.letIn "m" .newMap
        (.seq (.mapInsert (.var "m") (.lit 1) (.lit 2))
          (.let2 (some "v") (some "ok") (.mapGet (.var "m") (.lit 1))
            (.letIn "acc" (.refTo .u64 (.add (.fst (.mapGet (.var "m") (.lit 1))) (.mapLen (.var "m"))))
              (.seq (.mapIter (.var "m") (some "k") none
                      (.store .u64 (.var "acc") (.add (.load .u64 (.var "acc")) (.var "k"))))
                (.seq (.mapDelete (.var "m") (.lit 1))
                  (.seq (.ite (.var "ok") (.store .u64 (.var "acc") (.add (.load .u64 (.var "acc")) (.var "v"))) .unit)
                    (.load .u64 (.var "acc"))))))))) := rfl
/-! ### rejections -/

/-- goose's refusals in this fragment are the model's, with goose's messages: assignment to a `:=` variable;
`m[k] = e` and `delete(m, k)` on the DEFINED map type `M` (`assignFromTo` and `callExpr` look at the type itself,
not at its underlying type); a map whose key type is not `uint64` (or `string`).  Reading, `len`, the two-result lookup and `range` on `M` are accepted. -/
theorem rejects_like_goose :
    tr emptyEnv exAssignDef = .error "variable x is not assignable" ∧
    tr emptyEnv exSetDefined = .error "index update to unexpected target of type" ∧
    tr emptyEnv exDeleteDefined = .error "delete on non-map" ∧
    tr emptyEnv exMapKey = .error "maps must be from uint64 or string" ∧
    (∃ t, tr emptyEnv exDefinedReads = .ok t) ∧
    goVal growDouble id exDefinedReads = some (.num 6) ∧ trVal growDouble id exDefinedReads = some (.base (.num 6)) :=
  ⟨rfl, rfl, rfl, rfl, ⟨_, rfl⟩, rfl, rfl⟩

/-! ### mutation witnesses -/

/-- **Mutant 1: `m[k]` translated without `Fst`.**  `m[1] = 5; return m[1] + 1`: Go returns 6, goose's translation
returns 6, the mutant is stuck (it adds 1 to a pair). -/
theorem mutant_no_fst_is_stuck :
    ∃ t, tr emptyEnv exGet = .ok t ∧ goVal growDouble id exGet = some (.num 6) ∧
      runTVal growDouble id t = some (.base (.num 6)) ∧ runTVal growDouble id (rewrite ruleNoFst t) = none :=
  ⟨_, rfl, rfl, rfl, rfl⟩

/-- **Mutant 2: the two results of `v, ok := m[k]` swapped.**  `m[1] = 5; v, _ := m[1]; return v`: Go returns 5,
the mutant returns `#true`; with `if ok { r = v }` it is stuck (a number as a condition). -/
theorem mutant_swapped_lookup_is_wrong :
    (∃ t, tr emptyEnv exLookupValue = .ok t ∧ goVal growDouble id exLookupValue = some (.num 5) ∧
      runTVal growDouble id t = some (.base (.num 5)) ∧
      runTVal growDouble id (rewrite ruleSwapLookup t) = some (.base (.bool true))) ∧
    (∃ t, tr emptyEnv exLookupSwap = .ok t ∧ goVal growDouble id exLookupSwap = some (.num 5) ∧
      runTVal growDouble id t = some (.base (.num 5)) ∧ runTVal growDouble id (rewrite ruleSwapLookup t) = none) :=
  ⟨⟨_, rfl, rfl, rfl, rfl⟩, ⟨_, rfl, rfl, rfl, rfl⟩⟩

/-- **Mutant 3: `s = append(s, e)` as the in-place store `SliceSet s (slice.len s) e`.**  With len = cap
(`var s = make([]uint64, 1); s = append(s, 7); return s[1]`) Go returns 7, goose's translation returns 7, the
mutant is stuck: there is no cell behind the capacity. -/
theorem mutant_append_in_place_is_wrong :
    ∃ t, tr emptyEnv exAppendAssign = .ok t ∧ goVal growDouble id exAppendAssign = some (.num 7) ∧
      runTVal growDouble id t = some (.base (.num 7)) ∧ runTVal growDouble id (rewrite ruleAppendInPlace t) = none :=
  ⟨_, rfl, rfl, rfl, rfl⟩

/-- **Mutant 4: the body of `MapIter` receiving (value, key).**  `m[1] = 5; for k, v := range m { acc = acc + k*3 + v }`:
Go returns 8, the mutant 16. -/
theorem mutant_swapped_iter_is_wrong :
    ∃ t, tr emptyEnv exIter = .ok t ∧ goVal growDouble id exIter = some (.num 8) ∧
      runTVal growDouble id t = some (.base (.num 8)) ∧
      runTVal growDouble id (rewrite ruleSwapIter t) = some (.base (.num 16)) :=
  ⟨_, rfl, rfl, rfl, rfl⟩

/-- **Mutant 5: `ForSlice` binding (element, index).**  Over `[1, 2, 3]` with `acc = acc*10 + x*2 + i`: Go returns 258,
the mutant 147. -/
theorem mutant_swapped_forslice_is_wrong :
    ∃ t, tr emptyEnv (exSliceRange 1 2 3) = .ok t ∧ goVal growDouble id (exSliceRange 1 2 3) = some (.num 258) ∧
      runTVal growDouble id t = some (.base (.num 258)) ∧
      runTVal growDouble id (rewrite ruleSwapForSlice t) = some (.base (.num 147)) :=
  ⟨_, rfl, rfl, rfl, rfl⟩

/-- **Mutant 6: a `var` variable used without the load.**  `exIter` again: the accumulator's location is added to a
number: stuck. -/
theorem mutant_no_load_is_stuck :
    ∃ t, tr emptyEnv exIter = .ok t ∧ runTVal growDouble id (rewrite ruleNoLoad t) = none := ⟨_, rfl, rfl⟩

/-- Hence the theorem fails for each mutant: it is not true that the rewritten translation of every accepted
program returns the number Go returns. -/
theorem mutants_not_sound :
    (¬ ∀ ss t n, tr emptyEnv ss = .ok t → goVal growDouble id ss = some (.num n) →
        runTVal growDouble id (rewrite ruleNoFst t) = some (.base (.num n))) ∧
    (¬ ∀ ss t n, tr emptyEnv ss = .ok t → goVal growDouble id ss = some (.num n) →
        runTVal growDouble id (rewrite ruleSwapLookup t) = some (.base (.num n))) ∧
    (¬ ∀ ss t n, tr emptyEnv ss = .ok t → goVal growDouble id ss = some (.num n) →
        runTVal growDouble id (rewrite ruleAppendInPlace t) = some (.base (.num n))) ∧
    (¬ ∀ ss t n, tr emptyEnv ss = .ok t → goVal growDouble id ss = some (.num n) →
        runTVal growDouble id (rewrite ruleSwapIter t) = some (.base (.num n))) := by
  refine ⟨?_, ?_, ?_, ?_⟩
  · intro hall
    have h := hall exGet _ 6 rfl rfl
    revert h
    decide
  · intro hall
    have h := hall exLookupValue _ 5 rfl rfl
    revert h
    decide
  · intro hall
    have h := hall exAppendAssign _ 7 rfl rfl
    revert h
    decide
  · intro hall
    have h := hall exIter _ 8 rfl rfl
    revert h
    decide

/-! ### panics (sampled, not proved in general) -/

/-- Where Go panics — an index out of range, a slice bound beyond the capacity — goose accepts and the emitted
expression is stuck.  (Only these instances; the correspondence check samples more.) -/
theorem panics_are_stuck_examples :
    (runGo growDouble id exOutOfRange = .panic ∧ ∃ t, tr emptyEnv exOutOfRange = .ok t ∧ runT growDouble id t = none) ∧
    (runGo growDouble id exSliceBeyondCap = .panic ∧
      ∃ t, tr emptyEnv exSliceBeyondCap = .ok t ∧ runT growDouble id t = none) :=
  ⟨⟨rfl, _, rfl, rfl⟩, ⟨rfl, _, rfl, rfl⟩⟩

/-! ### the hypotheses are satisfiable by non-trivial programs and states -/

-- the oracles used above are permutations; so is the line protocol's
example : ∀ es : List (Nat × Nat), (id es).Perm es := fun es => List.Perm.refl es
example : ∀ es : List (Nat × Nat), (List.reverse es).Perm es := fun es => List.reverse_perm es
theorem protocol_oracle_is_a_permutation : ∀ es : List (Nat × Nat), (ordAsc es).Perm es := ordAsc_perm

-- growth functions with `n ≤ grow c n`: the interpreter's, and "exactly what is needed"
example : ∀ c n, n ≤ growDouble c n := by
  intro c n
  unfold growDouble
  exact Nat.le_max_left _ _
example : ∀ c n : Nat, n ≤ (fun _ n => n) c n := fun _ n => Nat.le_refl n

-- `append_case_decided_by_cap`: an append that fits, one that does not
example : appendOp growDouble ([.arr [1, 2, 0]] : List (Obj Val)) (some (0, 0)) 2 3 [9] =
    some ((some (0, 0), 3, 3), [.arr [1, 2, 9]]) := rfl
example : appendOp growDouble ([.arr [1, 2]] : List (Obj Val)) (some (0, 0)) 2 2 [9] =
    some ((some (1, 0), 3, 4), [.arr [1, 2], .arr [1, 2, 9, 0]]) := rfl
-- `len_step`: entries without duplicate keys; `absent_key_reads_zero`: two different keys
example : (keys [(1, 2), (4, 8)]).Nodup := by decide
example : (3 : Nat) ≠ 5 := by decide

-- accepted, returns normally, from the empty state; the range condition holds for a program with loops
example : (exRange 1 2 3).rangesOK = true := rfl

/-- The program with everything, both sides computed: value, and the final heaps object by object (the map with
the key 3 deleted through the other name, the `var` variables' cells, the array shared by `s` and the first
append, the array of the grown append). -/
theorem all_example :
    runGo growDouble ordAsc exAll = .ok (.num 915,
      [.map [(1, 2)], .cell (.map 0), .arr [6, 7, 7], .cell (.sl (some (4, 0)) 5 6), .arr [0, 6, 7, 0, 6, 0],
       .cell (.num 908)]) ∧
    runTr growDouble ordAsc exAll = some (.base (.num 915),
      [.map [(1, 2)], .cell (.base (.loc 0 0)), .arr [6, 7, 7], .cell (.sl (.loc 4 0) 5 6), .arr [0, 6, 7, 0, 6, 0],
       .cell (.base (.num 908))]) := ⟨by decide +kernel, by decide +kernel⟩

example : ∃ t v G', tr emptyEnv exAll = .ok t ∧ runGo growDouble ordAsc exAll = .ok (v, G') ∧ exAll.rangesOK = true :=
  ⟨_, _, _, rfl, all_example.1, rfl⟩

/-- A non-empty related state: object 0 is the map `{1 ↦ 2, 4 ↦ 8}`, object 1 the array `[5, 6, 7]`, object 2 the
cell of the `var` variable `acc` holding 10; the `:=` variables `m` and `s` refer to the map and to the slice
`array[1:2]` of capacity 2. -/
def exG : GHeap := [.map [(1, 2), (4, 8)], .arr [5, 6, 7], .cell (.num 10)]
def exH : THeap := [.map [(1, 2), (4, 8)], .arr [5, 6, 7], .cell (.base (.num 10))]
def exStack : Stack := [[("acc", .cell 2), ("s", .val (.sl (some (1, 1)) 1 2)), ("m", .val (.map 0))]]
def exSEnv : SEnv := [[("acc", true, .u64), ("s", false, .sl), ("m", false, .map)]]
def exEnv : Env := [("acc", .base (.loc 2 0)), ("s", .sl (.loc 1 1) 1 2), ("m", .base (.loc 0 0))]

theorem exState_heap : HRel exG exH := rfl
theorem exState_scopes : Rel exStack exSEnv exEnv := ⟨rfl, rfl⟩

/-- `t := append(s, 9); for k, v := range m { acc = acc + k*3 + v }; delete(m, 1); return acc + t[1] + uint64(len(m))`
    in that state -/
def exInState : Stmts :=
  seqS [.define "t" (.append (.var "s") (.lit 9)),
        .rangeMap (some "k") (some "v") (.var "m") (seqS [acc (.add (.mul (.var "k") (.lit 3)) (.var "v"))] .nil),
        .delete (.var "m") (.lit 1)]
    (.ret (.add (.var "acc") (.add (.idx (.var "t") (.lit 1)) (.mapLen (.var "m")))))

example : ∃ t v G', tr exSEnv exInState = .ok t ∧ runGoIn growDouble ordAsc exStack exG exInState = .ok (v, G') ∧
    HRel exG exH ∧ Rel exStack exSEnv exEnv :=
  ⟨_, _, _, rfl, rfl, exState_heap, exState_scopes⟩

/-- … and the theorem applied to it: the append writes 9 over the 7 of the shared array, the loop adds
3 + 2 + 12 + 8 to the cell, the delete leaves one entry. -/
theorem in_state_example :
    ∃ tv H', evalT growDouble ordAsc exEnv exH
        (.letIn "t" (.sliceAppend (.var "s") (.lit 9))
          (.seq (.mapIter (.var "m") (some "k") (some "v")
                  (.store .u64 (.var "acc") (.add (.load .u64 (.var "acc")) (.add (.mul (.var "k") (.lit 3)) (.var "v")))))
            (.seq (.mapDelete (.var "m") (.lit 1))
              (.add (.load .u64 (.var "acc")) (.add (.sliceGet (.var "t") (.lit 1)) (.mapLen (.var "m"))))))) =
          some (tv, H') ∧
      VRel (.num 45) tv ∧ HRel [.map [(4, 8)], .arr [5, 6, 9], .cell (.num 35)] H' :=
  coll_compile_correct growDouble ordAsc exInState _ (.num 45) [.map [(4, 8)], .arr [5, 6, 9], .cell (.num 35)]
    exG exH _ _ _ _ exEnv rfl exState_scopes exState_heap rfl

end GooseVerif.Props.C01Coll
