/-
C12 — MemFs ≡ DirFs ≡ reference model on all valid histories.

Property theorems only (helpers: `Lemmas/MemFs.lean`). `Ref` (Model/Fs.lean) is the reference
model of the property statement. `MemFs` (Model/MemFs.lean) and `DirFs` over the OS model
(Model/DirFs.lean) are hand-written from mem.go / dir.go; `facts_ok` pins every declaration of
package filesys (canonical text, system calls with evaluated flags) to what they were written from.
-/
import GooseVerif.Lemmas.MemFs
import GooseVerif.Lemmas.DirFs
import GooseVerif.Model.DirFs
import GooseVerif.Gen.FsFacts
import GooseVerif.Expected.FsFacts

namespace GooseVerif.Props.C12
open GooseVerif.Model.Fs GooseVerif

/-- T-gen obligation: machine/filesys is what the models were written from. -/
theorem facts_ok : Gen.Fs.fsDecls = Expected.Fs.fsDecls ∧ Gen.Fs.fsCalls = Expected.Fs.fsCalls := ⟨rfl, rfl⟩

/-- MemFs refines the reference model: on every valid history (no documented precondition is
violated) it returns exactly the reference model's results, descriptors renamed `k ↦ k+1`. -/
theorem memfs_refines (ops : List Op) (hv : Ref.valid Ref.empty ops = true) :
    (MemFs.empty.run (ops.map shiftOp)).2 = (Ref.empty.run ops).2.map shiftOut := by
  have h : ∀ o ∈ (Ref.empty.run ops).2, o ≠ .invalid := by
    intro o ho heq
    simp only [Ref.valid, Bool.not_eq_true', List.contains_eq_mem, decide_eq_false_iff_not] at hv
    exact hv (heq ▸ ho)
  exact (mem_run_sim ops _ _ memSim_empty h).1

/-! ### what the reference model promises (the clauses of the property, on `Ref`) -/

/-- Create fails without side effects iff the name exists. -/
theorem create_exclusive (s : Ref) (d n : String) (hd : s.dirs.contains d = true) :
    (s.lookup d n).isSome = true ↔ s.step (.create d n) = (s, .nofd) := by
  simp only [Ref.step, hd, Bool.not_true, Bool.false_eq_true, ↓reduceIte]
  cases h : s.lookup d n with
  | none => simp
  | some ino => simp

/-- Every Create/Open yields a fresh descriptor: never one that is currently open. -/
theorem descriptors_fresh (s : Ref) (hwf : ∀ e ∈ s.fds, e.1 < s.nfds) (op : Op) (k : Nat)
    (h : (s.step op).2 = .fd k) : aget s.fds k = none := by
  have hk : k = s.nfds := by
    cases op <;> simp only [Ref.step] at h <;> (repeat' split at h) <;> simp_all
  subst hk
  cases hg : aget s.fds s.nfds with
  | none => rfl
  | some v =>
    obtain ⟨k', hk'⟩ := aget_mem _ _ _ hg
    simp only [aget, Option.map_eq_some_iff] at hg
    obtain ⟨e, he, _⟩ := hg
    have hm := List.mem_of_find?_eq_some he
    have hkey := List.find?_some he
    have := hwf e hm
    simp at hkey
    omega

/-- Hard links share contents: after a successful Link both names denote the same inode. -/
theorem link_shares (s : Ref) (od on nd nn : String) (h : (s.step (.link od on nd nn)).2 = .bool true) :
    (s.step (.link od on nd nn)).1.lookup nd nn = s.lookup od on ∧ (s.lookup od on).isSome = true := by
  simp only [Ref.step] at h ⊢
  by_cases hc : (!s.dirs.contains od || !s.dirs.contains nd) = true
  · rw [if_pos hc] at h; cases h
  · rw [if_neg hc] at h ⊢
    cases hl : s.lookup od on with
    | none => simp [hl] at h
    | some ino =>
      simp only [hl] at h ⊢
      cases hl2 : s.lookup nd nn with
      | some _ => simp [hl2] at h
      | none =>
        simp only [Ref.lookup, Option.isSome_some, and_true]
        exact aget_aset_same (κ := String × String) _ _ _

/-- A deleted file stays readable through open descriptors: Delete changes neither the
descriptor table nor any inode. -/
theorem delete_keeps_open (s : Ref) (d n : String) :
    (s.step (.delete d n)).1.fds = s.fds ∧ (s.step (.delete d n)).1.inodes = s.inodes := by
  simp only [Ref.step]; split <;> simp

/-- ReadAt returns exactly the bytes of `[off, off+len)` that exist. -/
theorem readat_exact (data : Bytes) (off len : Nat) :
    (readRange data off len).length = min len (data.length - off) ∧
    ∀ i, i < (readRange data off len).length → (readRange data off len)[i]? = data[off + i]? := by
  constructor
  · simp [readRange]
  · intro i hi
    simp only [readRange, List.length_take, List.length_drop] at hi
    simp only [readRange, List.getElem?_take, List.getElem?_drop]
    rw [if_pos (by omega)]

/-- List returns exactly the names in that directory (as a sorted list). -/
theorem list_exact (s : Ref) (d n : String) (hd : s.dirs.contains d = true) :
    ∃ ns, (s.step (.list d)).2 = .names ns ∧ (n ∈ ns ↔ ∃ ino, ((d, n), ino) ∈ s.dirents) := by
  have hmem : d ∈ s.dirs := by simpa using hd
  refine ⟨namesIn s.dirents d, by simp [Ref.step, hmem], ?_⟩
  simp only [namesIn, sortNames, List.mem_mergeSort, List.mem_map, List.mem_filter]
  constructor
  · rintro ⟨e, ⟨he, hde⟩, rfl⟩
    refine ⟨e.2, ?_⟩
    have : e.1.1 = d := by simpa using hde
    rw [← this]; exact he
  · rintro ⟨ino, h⟩
    exact ⟨((d, n), ino), ⟨h, by simp⟩, rfl⟩

/-! ### non-vacuity -/

example : Ref.valid Ref.empty
    [.mkdir "d", .create "d" "a", .append 0 [1, 2, 3], .open_ "d" "a", .readAt 1 1 5, .delete "d" "a", .readAt 1 0 2] = true := by decide
example : (Ref.empty.run
    [.mkdir "d", .create "d" "a", .append 0 [1, 2, 3], .open_ "d" "a", .readAt 1 1 5, .delete "d" "a", .readAt 1 0 2]).2
    = [.ok, .fd 0, .ok, .fd 1, .bytes [2, 3], .ok, .bytes [1, 2]] := by decide
example : (MemFs.empty.run ([.mkdir "d", .create "d" "a", .append 0 [1, 2, 3], .open_ "d" "a", .readAt 1 1 5].map shiftOp)).2
    = [.ok, .fd 1, .ok, .fd 2, .bytes [2, 3]] := by decide

/-! ### DirFs refines the reference model (helpers: `Lemmas/DirFs.lean`)

The simulation relation is `Lemmas.DirFs.DirSim`: inode numbers and inode contents are equal on
both sides (both allocate one inode per successful Create and one per AtomicCreate; an undisturbed
AtomicCreate leaves no temporary file behind, so its inode is always brand new), the entries of a
directory are the reference model's entries of that directory, descriptors are numbered by creation
index on both sides: no renaming at all.

One hypothesis beyond validity: the history hands out at most `internalFd` = 2^32 descriptors
(`(Ref.empty.run ops).1.nfds ≤ internalFd`; implied by `ops.length ≤ internalFd`). The model of
`AtomicCreate` opens its temporary file in the descriptor slot `internalFd`; a client descriptor
with that very number would be overwritten and closed by it (`internalFd_bound_needed` below), so
without the bound the statement is false for the model `Os` as written. -/

open GooseVerif.Lemmas.DirFs in
/-- DirFs refines the reference model: on every valid history (no documented precondition is
violated) that hands out at most 2^32 descriptors, the directory-backed file system, as the system
calls it issues over the OS model (AtomicCreate undisturbed), returns exactly the reference model's
replies. No renaming of descriptors. -/
theorem dirfs_refines (ops : List Op) (hv : Ref.valid Ref.empty ops = true)
    (hfd : (Ref.empty.run ops).1.nfds ≤ internalFd) :
    (DirFs.run Os.empty ops).2 = (Ref.empty.run ops).2 := by
  have h : ∀ o ∈ (Ref.empty.run ops).2, o ≠ .invalid := by
    intro o ho heq
    simp only [Ref.valid, Bool.not_eq_true', List.contains_eq_mem, decide_eq_false_iff_not] at hv
    exact hv (heq ▸ ho)
  exact (dir_run_sim ops _ _ dirSim_empty hfd h).1

/- The statement without the bound,
     theorem dirfs_refines' (ops : List Op) (hv : Ref.valid Ref.empty ops = true) :
         (DirFs.run Os.empty ops).2 = (Ref.empty.run ops).2
   does not hold for `Model/DirFs.lean` as written: see `internalFd_bound_needed`. It would hold
   if the internal descriptor of `acRun` were taken outside the range of client descriptors
   (e.g. a separate slot in `Os`), which is a change of the model, not of this proof. -/

open GooseVerif.Lemmas.DirFs in
/-- The bound in the form "the history has at most 2^32 operations". -/
theorem dirfs_refines_of_length (ops : List Op) (hv : Ref.valid Ref.empty ops = true)
    (hlen : ops.length ≤ internalFd) :
    (DirFs.run Os.empty ops).2 = (Ref.empty.run ops).2 := by
  apply dirfs_refines ops hv
  have := ref_nfds_run_le Ref.empty ops
  simp only [Ref.empty, Nat.zero_add] at this
  exact Nat.le_trans this hlen

/-- The final states are related too (`DirSim`), in particular every name holds the same contents
on both sides and the root directory holds no leftover temporary file. -/
theorem dirfs_final_related (ops : List Op) (hv : Ref.valid Ref.empty ops = true)
    (hfd : (Ref.empty.run ops).1.nfds ≤ internalFd) :
    Lemmas.DirFs.DirSim (Ref.empty.run ops).1 (DirFs.run Os.empty ops).1 := by
  have h : ∀ o ∈ (Ref.empty.run ops).2, o ≠ .invalid := by
    intro o ho heq
    simp only [Ref.valid, Bool.not_eq_true', List.contains_eq_mem, decide_eq_false_iff_not] at hv
    exact hv (heq ▸ ho)
  exact (Lemmas.DirFs.dir_run_sim ops _ _ Lemmas.DirFs.dirSim_empty hfd h).2

/-- MemFs and DirFs agree: on every valid history (at most 2^32 descriptors) they return the same
replies, up to the descriptor renaming `k ↦ k+1` of `memfs_refines`. -/
theorem dirfs_memfs_agree (ops : List Op) (hv : Ref.valid Ref.empty ops = true)
    (hfd : (Ref.empty.run ops).1.nfds ≤ internalFd) :
    (MemFs.empty.run (ops.map shiftOp)).2 = (DirFs.run Os.empty ops).2.map shiftOut := by
  rw [memfs_refines ops hv, dirfs_refines ops hv hfd]

/-- The bound on descriptors is needed by the model: two states related by the simulation relation
(all invariants included) where the client descriptor `internalFd` is open; after an AtomicCreate
the reference model still reads through it, `DirFs` over `Os` panics (the slot was reused for the
temporary file and closed). -/
theorem internalFd_bound_needed :
    Lemmas.DirFs.DirSim Lemmas.DirFs.collisionRef Lemmas.DirFs.collisionOs ∧
    (Lemmas.DirFs.collisionRef.run [.atomic "d" "b" [], .readAt internalFd 0 1]).2 = [.ok, .bytes [7]] ∧
    (DirFs.run Lemmas.DirFs.collisionOs [.atomic "d" "b" [], .readAt internalFd 0 1]).2 = [.ok, .panic] :=
  ⟨Lemmas.DirFs.collision_related, by decide, by decide⟩

/-! ### non-vacuity of the DirFs theorems

A valid history with mkdir, create, append, close, open, readAt, link, atomic, list, delete; the
replies of the three models are computed. (`List` sorts with `List.mergeSort`, which does not
evaluate by `decide`; the expected replies keep `sortNames` applied to a literal and the two sorted
lists are computed separately.) -/

def demoOps : List Op :=
  [.mkdir "d", .create "d" "a", .append 0 [1, 2, 3], .close 0, .open_ "d" "a", .readAt 1 1 5,
   .link "d" "a" "d" "b", .atomic "d" "a" [9], .list "d", .readAt 1 0 2, .delete "d" "a",
   .open_ "d" "b", .readAt 2 0 3, .list "d", .create "d" "b", .link "d" "b" "d" "b"]

def demoOut : List Out :=
  [.ok, .fd 0, .ok, .ok, .fd 1, .bytes [2, 3], .bool true, .ok, .names (sortNames ["a", "b"]),
   .bytes [1, 2], .ok, .fd 2, .bytes [1, 2, 3], .names (sortNames ["b"]), .nofd, .bool false]

theorem sortNames_ab : sortNames ["a", "b"] = ["a", "b"] := List.mergeSort_of_pairwise (by decide)
theorem sortNames_b : sortNames ["b"] = ["b"] := List.mergeSort_singleton _

/-- The expected replies, with the sorted lists computed. -/
theorem demoOut_eq : demoOut =
    [.ok, .fd 0, .ok, .ok, .fd 1, .bytes [2, 3], .bool true, .ok, .names ["a", "b"],
     .bytes [1, 2], .ok, .fd 2, .bytes [1, 2, 3], .names ["b"], .nofd, .bool false] := by
  simp only [demoOut, sortNames_ab, sortNames_b]

example : Ref.valid Ref.empty demoOps = true := by rfl
example : (Ref.empty.run demoOps).1.nfds ≤ internalFd := by decide
example : (Ref.empty.run demoOps).2 = demoOut := by rfl
example : (DirFs.run Os.empty demoOps).2 = demoOut := by rfl
example : (MemFs.empty.run (demoOps.map shiftOp)).2 = demoOut.map shiftOut := by rfl
/-- The theorems apply to it. -/
example : (DirFs.run Os.empty demoOps).2 = (Ref.empty.run demoOps).2 :=
  dirfs_refines demoOps (by rfl) (by decide)
example : (MemFs.empty.run (demoOps.map shiftOp)).2 = (DirFs.run Os.empty demoOps).2.map shiftOut :=
  dirfs_memfs_agree demoOps (by rfl) (by decide)

end GooseVerif.Props.C12
