import GooseVerif.Model.Fs
namespace GooseVerif.Props.C12
theorem placeholder : True := trivial
end GooseVerif.Props.C12
