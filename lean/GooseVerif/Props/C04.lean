/-
C04 — Order of the emitted top-level declarations (`Ctx.Decls`, `/repo/interface.go`).

Property theorems only (model: `Model/Deps.lean`, helpers: `Lemmas/Deps.lean`).
Declarations are numbered in (sorted file, position) order; a name resolves to the LAST
declaration that defines it; emission is a depth-first post-order traversal whose `generated`
set is marked before the dependencies are visited.  Hence every declaration is emitted exactly
once whatever the dependencies (cycles, self-references), and when the dependency graph is
acyclic apart from self-loops every declaration comes after everything it mentions.
-/
import GooseVerif.Lemmas.Deps
import GooseVerif.Gen.PrinterFacts
import GooseVerif.Lemmas.Names
import GooseVerif.Expected.PrinterFacts

namespace GooseVerif.Props.C04
open GooseVerif.Model.Deps

/-- T-gen obligation: `Ctx.Decls` (recording of names and dependencies, last-writer name table,
depth-first emission with the generated set marked before recursion), `sortedFiles` and the
dependency tracker are, up to formatting, what Model/Deps.lean was written from. -/
theorem emission_facts_ok : GooseVerif.Gen.Printer.emission = GooseVerif.Expected.Printer.emission := rfl

/-- `coq.MethodName` (receiver type ++ "__" ++ method) is the committed expectation. -/
theorem naming_facts_ok : GooseVerif.Gen.Printer.naming = GooseVerif.Expected.Printer.naming := rfl

/-- Distinct (type, method) pairs get distinct Coq names, as long as type names contain no double
underscore and do not end in an underscore. -/
theorem method_names_distinct (t t' m m' : List Char) (h : Lemmas.Names.Clean t) (h' : Lemmas.Names.Clean t')
    (e : Lemmas.Names.methodName t m = Lemmas.Names.methodName t' m') : t = t' ∧ m = m' :=
  Lemmas.Names.methodName_injective t t' m m' h h' e

/-- A function whose name contains no double underscore cannot collide with a method's name. -/
theorem function_and_method_names_distinct (f t m : List Char) (hf : Lemmas.Names.splitDU f = none)
    (ht : Lemmas.Names.Clean t) : f ≠ Lemmas.Names.methodName t m :=
  Lemmas.Names.function_name_differs f t m hf ht

/-- Without that condition names do collide (known finding `method-name-collision`). -/
theorem unclean_names_collide :
    Lemmas.Names.methodName "T_".toList "x".toList = Lemmas.Names.methodName "T".toList "_x".toList :=
  Lemmas.Names.unclean_names_collide.1

/-- Every declaration is emitted exactly once, whatever the dependencies (including cycles and
self-dependencies): the emission order is a permutation of `0 .. n-1`. -/
theorem emit_once (ds : List DeclInfo) : (emitOrder ds).Perm (List.range ds.length) := by
  obtain ⟨hnd, hlt, hall, _⟩ := emitOrder_spec ds (fun _ => 0)
  rw [List.perm_ext_iff_of_nodup hnd List.nodup_range]
  intro a
  exact ⟨fun h => List.mem_range.2 (hlt a h), fun h => hall a (List.mem_range.1 h)⟩

/-- Definition before use.  If the resolved dependency graph is acyclic apart from self-loops
(acyclicity is stated through a rank function that strictly decreases along every edge `i → j`
with `j ≠ i`; for a finite graph this is equivalent to the absence of cycles), then every
declaration `j` mentioned by a declaration `i ≠ j` is emitted strictly earlier than `i`.
"Earlier" is stated with `List.idxOf` (position of the first occurrence); by `emit_once` both `i`
and `j` occur exactly once in `emitOrder ds`, so the positions are the positions. -/
theorem emit_before_use (ds : List DeclInfo) (rank : Nat → Nat)
    (hacyclic : ∀ i, i < ds.length → ∀ j ∈ adj ds i, j ≠ i → rank j < rank i) :
    ∀ i j, i < ds.length → j ∈ adj ds i → j ≠ i →
      (emitOrder ds).idxOf j < (emitOrder ds).idxOf i := by
  intro i j hi hj hne
  obtain ⟨_, _, hall, hsorted⟩ := emitOrder_spec ds rank
  exact (hsorted hacyclic i (hall i hi) j hj hne).2

/-- The same, in "split" form: the output is `pre ++ i :: post` with `j` in `pre`. -/
theorem emit_before_use_split (ds : List DeclInfo) (rank : Nat → Nat)
    (hacyclic : ∀ i, i < ds.length → ∀ j ∈ adj ds i, j ≠ i → rank j < rank i) :
    ∀ i j, i < ds.length → j ∈ adj ds i → j ≠ i →
      ∃ pre post, emitOrder ds = pre ++ i :: post ∧ j ∈ pre := by
  intro i j hi hj hne
  obtain ⟨hnd, _, hall, hsorted⟩ := emitOrder_spec ds rank
  obtain ⟨_, hlt⟩ := hsorted hacyclic i (hall i hi) j hj hne
  obtain ⟨pre, post, e⟩ := List.append_of_mem (hall i hi)
  refine ⟨pre, post, e, ?_⟩
  rw [e] at hlt hnd
  have hip : i ∉ pre := fun h => (List.nodup_append.1 hnd).2.2 i h i (List.mem_cons_self ..) rfl
  by_cases hjp : j ∈ pre
  · exact hjp
  · rw [List.idxOf_append, List.idxOf_append, if_neg hjp, if_neg hip, List.idxOf_cons_self] at hlt
    omega

/-- A declaration that mentions itself (a recursive function, a recursive type) is harmless:
it is still emitted exactly once, and the ordering theorem neither needs nor constrains the edge
`i → i` — here for a package whose only dependencies are self-references. -/
theorem self_reference_harmless (ds : List DeclInfo)
    (hself : ∀ i, i < ds.length → ∀ j ∈ adj ds i, j = i) :
    (emitOrder ds).Perm (List.range ds.length) ∧
      ∀ i j, i < ds.length → j ∈ adj ds i → j ≠ i →
        (emitOrder ds).idxOf j < (emitOrder ds).idxOf i :=
  ⟨emit_once ds,
   emit_before_use ds (fun _ => 0) (fun i hi j hj hne => absurd (hself i hi j hj) hne)⟩

/-- The collision rule: a name resolves to the LAST declaration that defines it (so when two
declarations define the same name, mentions of it count as dependencies on the later one). -/
theorem resolution_is_last_writer (ds : List DeclInfo) (s : String) (i : Nat) :
    nameTable ds s = some i →
      i < ds.length ∧ (∃ d, ds[i]? = some d ∧ s ∈ d.names) ∧
        ∀ j d, i < j → ds[j]? = some d → s ∉ d.names :=
  nameTable_some

/-- When different declarations define disjoint sets of names (the case for every Go package
that type-checks, apart from `_` and `init`), every name resolves to the declaration defining
it. -/
theorem distinct_names_resolve (ds : List DeclInfo)
    (hd : ∀ (i j : Nat) (di dj : DeclInfo), ds[i]? = some di → ds[j]? = some dj → i ≠ j →
      ∀ s, s ∈ di.names → s ∉ dj.names) :
    ∀ i d, ds[i]? = some d → ∀ s ∈ d.names, nameTable ds s = some i := by
  intro i d hi s hs
  obtain ⟨k, hk⟩ := nameTable_isSome (List.mem_of_getElem? hi) hs
  obtain ⟨_, ⟨d', hd', hs'⟩, _⟩ := nameTable_some hk
  by_cases hik : i = k
  · rw [hik]; exact hk
  · exact absurd hs' (hd i k d d' hi hd' hik s hs)

/-! ### Const and var groups (`declUnits`) -/

/-- Every spec of a group with several specs is a unit of its own, in source order, and nothing else is added:
the units of a package are its single declarations and the specs of its groups. -/
theorem units_of_group (specs : List DeclInfo) (h : 2 ≤ specs.length) : unitsOf (.group specs) = specs := by
  simp only [unitsOf]
  rw [if_neg (by omega)]

theorem units_append (a b : List TopDecl) : declUnits (a ++ b) = declUnits a ++ declUnits b := by
  simp [declUnits, List.flatMap_append]

theorem spec_is_a_unit (pre post : List TopDecl) (specs : List DeclInfo) (h : 2 ≤ specs.length) (k : Nat) (d : DeclInfo)
    (hk : specs[k]? = some d) :
    (declUnits (pre ++ .group specs :: post))[(declUnits pre).length + k]? = some d := by
  have e : declUnits (pre ++ .group specs :: post) = declUnits pre ++ (specs ++ declUnits post) := by
    rw [units_append]
    simp [declUnits, List.flatMap_cons, units_of_group specs h]
  rw [e, List.getElem?_append_right (by omega)]
  have hlt : k < specs.length := by
    rcases Nat.lt_or_ge k specs.length with h' | h'
    · exact h'
    · rw [List.getElem?_eq_none h'] at hk; cases hk
  simp only [Nat.add_sub_cancel_left]
  rw [List.getElem?_append_left hlt]
  exact hk

/-- **Definition before use at the level of specs.**  Whatever the declarations of the package are — functions, types,
const and var groups in any order, a spec mentioning specs later in its own group or in other groups — if the dependency
graph of the UNITS is acyclic apart from self-loops, every unit comes after the units it mentions.  (Instance of
`emit_before_use` at the units `declUnits` yields; `Decls` and the hook both walk exactly these.) -/
theorem specs_emitted_before_use (tops : List TopDecl) (rank : Nat → Nat)
    (hacyclic : ∀ i, i < (declUnits tops).length → ∀ j ∈ adj (declUnits tops) i, j ≠ i → rank j < rank i) :
    ∀ i j, i < (declUnits tops).length → j ∈ adj (declUnits tops) i → j ≠ i →
      (emitOrder (declUnits tops)).idxOf j < (emitOrder (declUnits tops)).idxOf i :=
  emit_before_use (declUnits tops) rank hacyclic

/-- `const ( A = B + 1; B = 1 )`: as units of their own, `B` is emitted before `A` … -/
example : emitOrder (declUnits [.group [⟨["A"], ["B"]⟩, ⟨["B"], []⟩]]) = [1, 0] := by decide

/-- … while the group as one unit keeps the source order `A, B` whatever the specs mention (the defect repaired by
374b9a4: the only unit depends on itself, and its specs are printed as written). -/
example : declGroups [.group [⟨["A"], ["B"]⟩, ⟨["B"], []⟩]] = [⟨["A", "B"], ["B"]⟩] := by decide

/-- Two groups that mention each other spec by spec (`A → X`, `Y → B`): acyclic at the level of specs, a 2-cycle at the
level of groups.  The units come out in a valid order: `B, X, A, Y`. -/
example : emitOrder (declUnits [.group [⟨["A"], ["B", "X"]⟩, ⟨["B"], []⟩], .group [⟨["X"], []⟩, ⟨["Y"], ["B"]⟩]]) = [1, 2, 0, 3] := by
  decide

example : ∀ i, i < 4 → ∀ j ∈ adj (declUnits [.group [⟨["A"], ["B", "X"]⟩, ⟨["B"], []⟩], .group [⟨["X"], []⟩, ⟨["Y"], ["B"]⟩]]) i, j ≠ i →
    (fun k => [1, 0, 0, 1].getD k 0) j < (fun k => [1, 0, 0, 1].getD k 0) i := by decide

/-- a group of one spec, or none, is the unit it always was -/
example : declUnits [.group [⟨["A"], ["B"]⟩], .group [], .single ⟨["f"], ["A"]⟩] = [⟨["A"], ["B"]⟩, ⟨[], []⟩, ⟨["f"], ["A"]⟩] := by decide

/-! ### Non-vacuity: concrete packages, evaluated by the kernel -/

/-- Two files: `a.go` declares `A` (mentions `Z`), `B`, `K`; `z.go` declares `Z` (mentions `B`). -/
def zigzag : List DeclInfo :=
  [⟨["A"], ["Z"]⟩, ⟨["B"], []⟩, ⟨["K"], []⟩, ⟨["Z"], ["B", "unresolved"]⟩]

/-- `A` pulls `Z` forward across the file boundary, `Z` pulls `B` forward: `B, Z, A, K`. -/
example : emitOrder zigzag = [1, 3, 0, 2] := by decide

example : adj zigzag 0 = [3] ∧ adj zigzag 3 = [1] := by decide

/-- the hypothesis of `emit_before_use` is satisfiable on it -/
example : ∀ i, i < zigzag.length → ∀ j ∈ adj zigzag i, j ≠ i →
    (fun k => [2, 0, 0, 1].getD k 0) j < (fun k => [2, 0, 0, 1].getD k 0) i := by decide

/-- A 2-cycle with a self-loop: both declarations are still emitted once (the one reached first
comes last). -/
example : emitOrder [⟨["A"], ["B", "A"]⟩, ⟨["B"], ["A"]⟩] = [1, 0] := by decide

/-- Name collision: both declarations define `init`; the mention resolves to the later one. -/
example : nameTable [⟨["init"], []⟩, ⟨["init", "C"], []⟩, ⟨["D"], ["init"]⟩] "init" = some 1 := by
  decide

end GooseVerif.Props.C04
