/-
C02 — outside the subset goose rejects instead of mistranslating.

Property theorems only.  The guards that make goose reject are (a) the calls of its error
reporters, whose inventory is regenerated from /repo on every run and compared with the committed
expectation (`guards_ok`: deleting, moving or re-wording a guard breaks this obligation), and (b) the
decision logic of the control-flow translation, for which `reject_or_faithful` holds for EVERY
statement list: the control-flow model (Model/Tr.lean, tied to goose.go by `control_flow_facts_ok`
and by the structural correspondence on random skeletons) either refuses, or builds an expression
that computes what Go's control flow computes.
-/
import GooseVerif.Lemmas.Tr
import GooseVerif.Props.C01Core
import GooseVerif.Props.C01Heap
import GooseVerif.Props.C02Tuple
import GooseVerif.Props.C02Conv
import GooseVerif.Props.C02Global
import GooseVerif.Gen.Guards
import GooseVerif.Expected.Guards

namespace GooseVerif.Props.C02
open GooseVerif.Model.Tr GooseVerif

/-- T-gen obligation: every call of ctx.unsupported / todo / futureWork / nope / noExample in the
translator, by enclosing function and message, is the committed inventory. -/
theorem guards_ok : Gen.Guards.guards = Expected.Guards.guards := rfl

/-- The control-flow decision functions are the ones the model was written from. -/
theorem control_flow_facts_ok : Gen.Guards.controlFlow = Expected.Guards.controlFlow := rfl

/-- **Reject or faithful**, for every statement list of any shape and every usage: goose's
control-flow translation either reports a conversion error, or produces an expression that agrees
with Go's control flow on every interpretation, state and fuel. -/
theorem reject_or_faithful {σ ν : Type} (I : Interp σ ν) (ss : Stmts) (u : Usage) :
    (∃ msg, trStmts ss u = .error msg) ∨
    (∃ t, trStmts ss u = .ok t ∧ ∀ f s, Sound u (exec I f ss s) (evalT I f t s)) := by
  cases h : trStmts ss u with
  | error msg => exact .inl ⟨msg, rfl⟩
  | ok t => exact .inr ⟨t, rfl, fun f s => trStmts_sound I ss u t h f s⟩

/-- A `return` that is not in tail position of the function is never given a meaning. -/
theorem return_in_the_middle_rejected (e : Nat) (rest : Stmts) (u : Usage) (hrest : rest ≠ .nil) :
    ∃ msg, trStmts (.cons (.ret e) rest) u = .error msg := by
  cases rest with
  | nil => exact absurd rfl hrest
  | cons s r =>
    refine ⟨"return in unsupported position", ?_⟩
    simp [trStmts, trStmtsWith, trInBlockWith, Stmts.isNil]

/-- the shapes of DESIGN Appendix B that must be refused -/
example : ∃ msg, trStmts (.cons (.ite 0 (.cons (.ret 1) .nil) (.cons (.atom 2) .nil)) (.cons (.atom 3) (.cons (.ret 4) .nil))) .returned = .error msg :=
  ⟨_, rfl⟩
example : ∃ msg, trStmts (.cons (.ite 0 (.cons (.ite 1 (.cons (.ret 1) .nil) .nil) .nil) .nil) (.cons (.ret 2) .nil)) .returned = .error msg :=
  ⟨_, rfl⟩
example : ∃ msg, trStmts (.cons (.loop 0 (.cons (.ret 1) .nil)) (.cons (.ret 2) .nil)) .returned = .error msg :=
  ⟨_, rfl⟩
example : ∃ msg, trStmts (.cons .brk (.cons (.ret 2) .nil)) .returned = .error msg :=
  ⟨_, rfl⟩

/-- Weakening the guard `endsWithReturn` (an else-less `if` counted as "always returns") turns a
rejection into a silent mistranslation: the theorem above is false for that variant. -/
theorem weakened_guard_mistranslates :
    ∃ ss t, trStmts' ss .returned = .ok t ∧ (∃ msg, trStmts ss .returned = .error msg) ∧
      exec witnessInterp 0 ss () = .returned 2 () ∧ evalT witnessInterp 0 t () = some (.unit, ()) :=
  ⟨mutantWitness, _, rfl, ⟨_, rfl⟩, rfl, rfl⟩

/-! ### reject or faithful for the composed model and for heap data

The same statement for the two larger models of `Props/C01Core.lean` and `Props/C01Heap.lean`: every program of the fragment is
either refused with a conversion error (assignment, `x += e`, `x++` to a variable that is not assignable, `return` or
`break` where goose cannot express them, an unsupported assignment operator, a name-binding post statement, a store through
a pointer expression goose cannot take a reference of, …) or translated faithfully.  For the composed model the one shape
that is ACCEPTED AND WRONG — a loop variable hiding a visible name, the listed known finding — is excluded by `loopVarsFresh`
and shown to be necessary in `Props.C01Core.loopVarsFresh_needed`. -/

theorem core_reject_or_faithful (b : Model.Core.Stmts) (params : List (String × Model.Core.W)) :
    (∃ msg, Model.Core.tr (Model.Core.paramSEnv params) b = .error msg) ∨
    (∃ t, Model.Core.tr (Model.Core.paramSEnv params) b = .ok t ∧
      (b.loopVarsFresh (Model.Core.paramSEnv params) = true →
        ∀ fuel, Model.Core.runT fuel params t = Model.Core.expected (Model.Core.runGo fuel params b))) := by
  cases h : Model.Core.tr (Model.Core.paramSEnv params) b with
  | error msg => exact .inl ⟨msg, rfl⟩
  | ok t => exact .inr ⟨t, rfl, fun hf fuel => (Props.C01Core.core_compile_correct b params fuel t h hf).1⟩

theorem heap_reject_or_faithful (ss : Model.Heap.Stmts) :
    (∃ msg, Model.Heap.tr Model.Heap.emptyEnv ss = .error msg) ∨
    (∃ t, Model.Heap.tr Model.Heap.emptyEnv ss = .ok t ∧
      ∀ v G', Model.Heap.runGo ss = .ok (v, G') →
        ∃ tv H' R', Model.Heap.runT t = some (tv, H') ∧ Model.Heap.VRel R' v tv ∧ Model.Heap.HRel R' G' H') := by
  cases h : Model.Heap.tr Model.Heap.emptyEnv ss with
  | error msg => exact .inl ⟨msg, rfl⟩
  | ok t => exact .inr ⟨t, rfl, fun v G' hgo => Props.C01Heap.heap_compile_correct_closed ss t v G' h hgo⟩

end GooseVerif.Props.C02
