/-
C03 — compiler correctness for goose's translation of the concurrency constructs, over ALL programs of the
fragment and ALL schedules (model: `Model/Conc.lean`; helpers: `Lemmas/Conc*.lean`).

Source "ConcGo": closed functions `func cK() uint64` built from `new(sync.Mutex)`, `new(sync.WaitGroup)`,
`sync.NewCond(mu)`, `var x uint64 = e` (shared cells, captured by reference), `y := e` (let-bound), `x = e`,
`Lock/Unlock`, `Add/Done/Wait`, `Wait/Signal/Broadcast`, `go func() { … }()` (nested spawns allowed),
`if/else`, `for cond { … }`, final `return e`; values `BitVec 64`.  Target: the GooseLang fragment goose emits
(`lock.new`, `lock.newCond`, `waitgroup.New`, `ref_to`, `![uint64T]`, `<-[uint64T]`, `lock.acquire/release`,
`waitgroup.Add/Done/Wait`, `lock.condWait/condSignal/condBroadcast`, `Fork`, `let:`, `;;`, `if:`, `for:`).
Translator `tr`: what `/repo/goose.go` does — tied to the real goose by `pylib/conccorr.py` (the tree goose emits
is EXACTLY what `tr` prints, rejections and messages included; the outcome set of the Lean scheduler on the
emitted text equals the outcome set of the model's Go semantics; native Go outcomes are among them).

Both semantics are small-step over a thread pool and ONE heap; a schedule is a list of labels
`(thread id, choice)`; the choice matters only for `Signal` (index of the parked waiter that is woken; 0 = the
longest waiting one = FIFO = what Go's runtime and `GL/Sem.lean` do; `Fifo sched` = all choices are 0).  The
simulation preserves labels, so every theorem below holds for the any-waiter reading of `Signal` (all schedules)
AND for the FIFO reading (FIFO schedules are mapped to FIFO schedules): under the same reading on both sides the
behaviours coincide; every FIFO behaviour of the target is an any-waiter behaviour of the source.

Granularity: one statement (evaluate the expression, then store) is one atomic step on the Go side, and the
corresponding effect step on the GooseLang side is atomic too.  For data-race-free programs this is no loss
(it is the granularity of `GL/Explore.lean`); for racy programs neither side models Go's memory model.

Hypotheses, exactly: `tr p = .ok t` (goose accepts; acceptance includes that every name resolves to an object
of the right kind — otherwise the Go type checker rejects the program).  Nothing else.
-/
import GooseVerif.Lemmas.ConcTarget

namespace GooseVerif.Props.C03Conc
open GooseVerif.Model.Conc
open GooseVerif.Model.Core (W Exp Cond look)

/-- All choices are 0: `Signal` wakes the longest-waiting goroutine. -/
def Fifo (sched : List Label) : Prop := ∀ lab ∈ sched, lab.2 = 0

/-! ## 1. The simulation -/

/-- What the relation `CRel` says (by definition): the SAME heap — cells, mutex states, wait-group counters,
condition variables with their waiter lists; the bijection of addresses is the identity because both sides
allocate at the end of the heap —, as many threads on both sides, thread `i` related to thread `i`, and thread
0 of the Go side is the main thread. -/
theorem crel_spelled_out (c : GCfg) (d : TCfg) :
    CRel c d ↔ (c.heap = d.heap ∧ (c.threads.length = d.threads.length ∧
      ∀ (i : Nat) (s : Thread) (t : TThread), c.threads[i]? = some s → d.threads[i]? = some t → TRel s t) ∧
      ∃ t, c.threads[0]? = some t ∧ t.ret.isSome = true) := Iff.rfl

/-- What the thread relation `TRel` says for a RUNNING Go thread (by definition): the GooseLang thread is, up to
administrative steps (`Join`), in a canonical state `t0`: its control is the translation (`trStmts`, with the
usage `u` the frames determine) of the rest of the Go thread's current block, evaluated in the image of Go's
environment (`tenv`: a `:=` name ↦ its number, every other name ↦ the SAME address), and its frames are the
translations of Go's frames (`KRel`: the rest of every enclosing block in its saved environment, loop frames for
loop bodies) — or the Go thread is a finished goroutine and so is the GooseLang thread. -/
theorem trel_running_spelled_out (s : Thread) (t : TThread) (hs : s.st = .run) :
    TRel s t ↔ ∃ t0, Join t t0 ∧
      ((∃ u K term, KRel (botUsage s.ret) s.k u K ∧ trStmts (senv s.env) s.cur u = .ok term ∧
          t0 = ⟨.eval term (tenv s.env), K⟩ ∧ (s.cur = .nil → s.k = [])) ∨
       (s.cur = .nil ∧ s.k = [] ∧ s.ret = none ∧ ∃ v, t0 = ⟨.ret v, []⟩)) := by
  unfold TRel
  rw [hs]
  constructor
  · rintro ⟨t0, hc, hj⟩; exact ⟨t0, hj, hc⟩
  · rintro ⟨t0, hj, hc⟩; exact ⟨t0, hc, hj⟩

/-- A parked / woken / returned Go thread against the GooseLang thread: the `wakeK`/`acquireK` frames of
`lock.condWait` on top of frames related to the rest of the Go thread; the returned number. -/
theorem trel_waiting_spelled_out (s : Thread) (t : TThread) :
    (∀ c l, s.st = .parked c l → (TRel s t ↔ ∃ K', t = ⟨.ret .unit, .wakeK c :: .acquireK l :: K'⟩ ∧
        TRelRun s.cur s.env s.k s.ret ⟨.ret .unit, K'⟩)) ∧
    (∀ l, s.st = .relock l → (TRel s t ↔ ∃ K', t = ⟨.ret .unit, .acquireK l :: K'⟩ ∧
        TRelRun s.cur s.env s.k s.ret ⟨.ret .unit, K'⟩)) ∧
    (∀ v, s.st = .done v → (TRel s t ↔ t = ⟨.ret (.num v), []⟩)) := by
  refine ⟨fun c l h => ?_, fun l h => ?_, fun v h => ?_⟩ <;> (unfold TRel; rw [h])

/-- **`conc_step_simulation`.**  `CRel` relates the initial configurations of every accepted program; every
step of Go thread `i` (with its choice) is matched by a run of GooseLang thread `i` with the same choice —
`n ≥ 0` administrative steps, then ONE effect step — ending in a related configuration; conversely every step
of the GooseLang pool (strict reading) is an administrative step that stays related to the same Go
configuration, or is matched by the same step of the Go pool; stuck and blocked GooseLang threads are stuck and
blocked Go threads; related configurations agree on the heap, the number of threads, and on whether (and what)
the main thread has returned.  (A bisimulation up to administrative steps.) -/
theorem conc_step_simulation :
    (∀ p t, tr p = .ok t → CRel (ginit p) (tinit t)) ∧
    (∀ c d c' lab, CRel c d → gcstep c lab = .ok c' →
      ∃ n d', trun .strict d (List.replicate (n + 1) lab) = some d' ∧ CRel c' d') ∧
    (∀ c d d' lab, CRel c d → tcstep .strict d lab = .ok d' →
      CRel c d' ∨ ∃ c', gcstep c lab = .ok c' ∧ CRel c' d') ∧
    (∀ c d lab, CRel c d → tcstep .strict d lab = .stuck → gcstep c lab = .stuck) ∧
    (∀ c d lab, CRel c d → tcstep .strict d lab = .blocked → gcstep c lab = .blocked) ∧
    (∀ c d, CRel c d → c.heap = d.heap ∧ c.threads.length = d.threads.length ∧
      mainDone TThread.doneV d = mainDone Thread.doneV c) :=
  ⟨fun _ _ h => crel_init h, fun _ _ _ _ h hs => crel_forward h hs, fun _ _ _ _ h hs => crel_backward h hs,
   fun _ _ _ h hs => crel_stuck h hs, fun _ _ _ h hs => crel_blocked h hs,
   fun _ _ h => ⟨h.1, h.2.1.1, crel_mainDone h⟩⟩

/-- The thread-level core of the simulation: at an effect point (no administrative step possible) the step
functions of the two sides AGREE — same new heap, related new thread states, related spawned threads, blocked
iff blocked, stuck iff stuck — for every heap, thread id and choice. -/
theorem conc_thread_steps_agree (s : Thread) (t : TThread) (h : TRel s t) (hn : astep t = none) (hp : Heap) (i ch : Nat) :
    ResRel (gstep hp i ch s) (estep .strict hp i ch t) := trel_normal h hn hp i ch

/-- Administrative steps are silent: they do not touch the heap, spawn nothing, and keep the relation. -/
theorem conc_admin_steps_silent (s : Thread) (t t' : TThread) (h : TRel s t) (ha : astep t = some t') (mode : Mode) (hp : Heap)
    (i ch : Nat) : tstep mode hp i ch t = .ok hp t' none ∧ TRel s t' :=
  ⟨by simp [tstep, ha], trel_admin h ha⟩

/-- non-vacuity: the initial configurations of the counter program are related, and its first Go step is matched -/
example : CRel (ginit exCounter) (tinit (trOf exCounter)) ∧ ∃ c', gcstep (ginit exCounter) (0, 0) = .ok c' :=
  ⟨crel_init (tr_of_accepted (by decide)), _, rfl⟩

/-! ## 2. Go outcomes ⊆ GooseLang outcomes, every schedule -/

/-- Every Go schedule is matched by a GooseLang schedule over the same labels ending in a related configuration. -/
theorem conc_runs_forward (p : Prog) (t : T) (h : tr p = .ok t) (sched : List Label) (c : GCfg)
    (hr : grun (ginit p) sched = some c) :
    ∃ sched' d, trun .strict (tinit t) sched' = some d ∧ CRel c d ∧ (∀ lab ∈ sched', lab ∈ sched) := by
  obtain ⟨ns, _, d, hrun, hrel⟩ := run_forward (crel_init h) sched hr
  refine ⟨_, d, hrun, hrel, ?_⟩
  intro lab hl
  simp only [List.mem_flatMap, List.mem_replicate] at hl
  obtain ⟨pr, hpr, _, rfl⟩ := hl
  exact (List.of_mem_zip hpr).1

/-- **`conc_compile_correct`.**  For every accepted program and EVERY schedule: if the Go program, run under
the schedule, returns `v`, then some interleaving of the emitted program returns `v` — in the strict reading of
condition variables (over the same labels: a FIFO schedule is matched by a FIFO schedule) AND in Perennial's
reading (`condWait` = release; acquire, Signal/Broadcast no-ops).  No side condition is needed for the Perennial
part: a spurious wake-up is allowed to happen exactly when the real one does (see `perennial_converse_fails` for
the converse). -/
theorem conc_compile_correct (p : Prog) (t : T) (h : tr p = .ok t) (sched : List Label) (c : GCfg) (v : W)
    (hr : grun (ginit p) sched = some c) (hv : mainDone Thread.doneV c = some v) :
    (∃ sched' d, trun .strict (tinit t) sched' = some d ∧ mainDone TThread.doneV d = some v ∧
      (Fifo sched → Fifo sched')) ∧
    (∃ sched' d, trun .perennial (tinit t) sched' = some d ∧ mainDone TThread.doneV d = some v) := by
  obtain ⟨sched', d, hrun, hrel, hlab⟩ := conc_runs_forward p t h sched c hr
  have hdv : mainDone TThread.doneV d = some v := by rw [crel_mainDone hrel]; exact hv
  refine ⟨⟨sched', d, hrun, hdv, fun hf lab hl => hf lab (hlab lab hl)⟩, ?_⟩
  obtain ⟨sched'', _, hrun', hwf⟩ := per_run (wf_init t) sched' hrun
  exact ⟨sched'', erC d, hrun', by rw [erC_mainDone hwf]; exact hdv⟩

/-- Go's fatal errors are preserved too: if under some schedule a Go thread dies (unlock of an unlocked mutex,
negative wait-group counter, `Wait` without the mutex), some interleaving of the emitted program gets stuck. -/
theorem conc_stuck_preserved (p : Prog) (t : T) (h : tr p = .ok t) (sched : List Label) (c : GCfg)
    (hr : grun (ginit p) sched = some c) (hs : GStuck c) :
    ∃ sched' d, trun .strict (tinit t) sched' = some d ∧ TStuck .strict d := by
  obtain ⟨sched', d, hrun, hrel, _⟩ := conc_runs_forward p t h sched c hr
  obtain ⟨lab, hl⟩ := hs
  obtain ⟨n, d', hrun', _, hst⟩ := crel_forward_stuck hrel hl
  exact ⟨sched' ++ List.replicate n lab, d', poolRun_append hrun hrun', lab, hst⟩

/-- non-vacuity: `mu.Unlock()` of a free mutex is fatal in Go after the one step that creates the mutex -/
example : ∃ c, grun (ginit exUnlockFree) (expand [(0, 1)]) = some c ∧ GStuck c :=
  ⟨_, rfl, (0, 0), rfl⟩

/-- Every strict behaviour of ANY term is a Perennial behaviour (no hypothesis on the term at all). -/
theorem strict_behaviours_are_perennial (t : T) (sched : List Label) (d : TCfg) (v : W)
    (hr : trun .strict (tinit t) sched = some d) (hv : mainDone TThread.doneV d = some v) :
    ∃ sched' d', sched'.Sublist sched ∧ trun .perennial (tinit t) sched' = some d' ∧ mainDone TThread.doneV d' = some v := by
  obtain ⟨sched', hsub, hrun', hwf⟩ := per_run (wf_init t) sched hr
  exact ⟨sched', erC d, hsub, hrun', by rw [erC_mainDone hwf]; exact hv⟩

/-- non-vacuity: an explicit Go schedule of the hand-off program returning 7 (the goroutine runs first) -/
example : ∃ c, grun (ginit exHandoff) (expand [(0, 5), (1, 5), (0, 5)]) = some c ∧ mainDone Thread.doneV c = some 7 :=
  goReturnsB_sound (by decide)

/-- … and one in which the main thread parks first and is woken by the Signal -/
example : ∃ c, grun (ginit exHandoff) (expand [(0, 8), (1, 5), (0, 6)]) = some c ∧ mainDone Thread.doneV c = some 7 :=
  goReturnsB_sound (by decide)

set_option maxRecDepth 100000 in
/-- The converse of the Perennial inclusion FAILS without the waiting loop: `mu.Lock(); cv.Wait(); mu.Unlock();
return x` with nobody to signal never returns in Go (every schedule: no value), but the emitted program
returns 1 in Perennial's reading (the wait wakes up spuriously).  With `for cond { cv.Wait() }` around every wait
— what `go vet`-clean code and all templates do — a spurious wake-up only re-checks the condition. -/
theorem perennial_converse_fails :
    tr exBareWait = .ok (trOf exBareWait) ∧
    (∀ sched c, grun (ginit exBareWait) sched = some c → mainDone Thread.doneV c = none) ∧
    (∃ sched c, grun (ginit exBareWait) sched = some c ∧ GDeadlock c) ∧
    (∃ sched d, trun .perennial (tinit (trOf exBareWait)) sched = some d ∧ mainDone TThread.doneV d = some 1) := by
  refine ⟨tr_of_accepted (by decide), fun sched c hr => ?_, ?_, ?_⟩
  · have := inv_sound (S := reachSet 1 100 (ginit exBareWait)) (P := fun c => (mainDone Thread.doneV c).isNone)
      (by decide) sched c hr
    simpa using this
  · refine ⟨expand [(0, 5)], ?_⟩
    have h : goDeadlocksB exBareWait (expand [(0, 5)]) = true := by decide
    unfold goDeadlocksB at h
    cases hr : grun (ginit exBareWait) (expand [(0, 5)]) with
    | none => simp [hr] at h
    | some c =>
      simp only [hr] at h
      refine ⟨c, rfl, ?_⟩
      simp only [deadlockB, Bool.and_eq_true, List.all_eq_true] at h
      refine ⟨by simpa using h.1, fun lab => ?_⟩
      rcases label_norm c lab with hb | ⟨lab', hmem, heq⟩
      · exact hb
      · rw [heq]
        have := h.2 lab' hmem
        cases hs : gcstep c lab' with
        | blocked => rfl
        | ok _ => simp [hs] at this
        | stuck => simp [hs] at this
  · exact ⟨_, returnsB_sound (sched := expand [(0, 20)]) (by decide)⟩

/-! ## 3. No new deadlock, no new result -/

/-- Every GooseLang schedule (strict reading) is matched by a Go schedule — its effect steps, in order — ending
in a related configuration. -/
theorem conc_runs_backward (p : Prog) (t : T) (h : tr p = .ok t) (sched : List Label) (d : TCfg)
    (hr : trun .strict (tinit t) sched = some d) :
    ∃ sched' c, sched'.Sublist sched ∧ grun (ginit p) sched' = some c ∧ CRel c d :=
  run_backward (crel_init h) sched hr

/-- **`conc_no_new_deadlock`.**  Strict reading.  Every configuration the emitted program reaches is related to
a configuration the Go program reaches (under a sub-schedule: FIFO if the given one is): if it is deadlocked so
is Go's, if a thread is stuck so is Go's, and a value returned is a value Go returns under that schedule.
Hence: if NO schedule of the Go program deadlocks or gets stuck, no interleaving of the emitted program does,
and every result of the emitted program is a result of the Go program. -/
theorem conc_no_new_deadlock (p : Prog) (t : T) (h : tr p = .ok t) :
    (∀ sched d, trun .strict (tinit t) sched = some d →
      ∃ sched' c, sched'.Sublist sched ∧ grun (ginit p) sched' = some c ∧
        (TDeadlock .strict d → GDeadlock c) ∧ (TStuck .strict d → GStuck c) ∧
        (∀ v, mainDone TThread.doneV d = some v → mainDone Thread.doneV c = some v)) ∧
    ((∀ sched c, grun (ginit p) sched = some c → ¬ GDeadlock c ∧ ¬ GStuck c) →
      ∀ sched d, trun .strict (tinit t) sched = some d →
        ¬ TDeadlock .strict d ∧ ¬ TStuck .strict d ∧
        ∀ v, mainDone TThread.doneV d = some v → ∃ sched' c, grun (ginit p) sched' = some c ∧ mainDone Thread.doneV c = some v) := by
  have key : ∀ sched d, trun .strict (tinit t) sched = some d →
      ∃ sched' c, sched'.Sublist sched ∧ grun (ginit p) sched' = some c ∧
        (TDeadlock .strict d → GDeadlock c) ∧ (TStuck .strict d → GStuck c) ∧
        (∀ v, mainDone TThread.doneV d = some v → mainDone Thread.doneV c = some v) := by
    intro sched d hr
    obtain ⟨sched', c, hsub, hrun, hrel⟩ := conc_runs_backward p t h sched d hr
    refine ⟨sched', c, hsub, hrun, ?_, ?_, ?_⟩
    · rintro ⟨hm, hb⟩
      exact ⟨by rw [← crel_mainDone hrel]; exact hm, fun lab => crel_blocked hrel (hb lab)⟩
    · rintro ⟨lab, hs⟩
      exact ⟨lab, crel_stuck hrel hs⟩
    · intro v hv; rw [← crel_mainDone hrel]; exact hv
  refine ⟨key, fun hsafe sched d hr => ?_⟩
  obtain ⟨sched', c, _, hrun, hd, hs, hv⟩ := key sched d hr
  obtain ⟨h1, h2⟩ := hsafe sched' c hrun
  exact ⟨fun hdl => h1 (hd hdl), fun hst => h2 (hs hst), fun v hdv => ⟨sched', c, hrun, hv v hdv⟩⟩

/-- **Schedule-independent programs.**  If under every schedule the Go program neither deadlocks nor gets stuck
and returns nothing but `v`, then every interleaving of the emitted program (strict reading) neither deadlocks
nor gets stuck and returns nothing but `v`. -/
theorem conc_schedule_independent (p : Prog) (t : T) (h : tr p = .ok t) (v : W)
    (hgo : ∀ sched c, grun (ginit p) sched = some c → ¬ GDeadlock c ∧ ¬ GStuck c ∧ ∀ w, mainDone Thread.doneV c = some w → w = v) :
    ∀ sched d, trun .strict (tinit t) sched = some d →
      ¬ TDeadlock .strict d ∧ ¬ TStuck .strict d ∧ ∀ w, mainDone TThread.doneV d = some w → w = v := by
  intro sched d hr
  obtain ⟨h1, h2, h3⟩ := (conc_no_new_deadlock p t h).2 (fun s c hc => ⟨(hgo s c hc).1, (hgo s c hc).2.1⟩) sched d hr
  refine ⟨h1, h2, fun w hw => ?_⟩
  obtain ⟨sched', c, hrun, hc⟩ := h3 w hw
  exact (hgo sched' c hrun).2.2 w hc

/-- The FIFO refinement: a FIFO run of the emitted program is matched by a FIFO run of the Go program (so every
target behaviour under FIFO wake-up is a source behaviour, under the FIFO and a fortiori the any-waiter reading). -/
theorem conc_fifo_refines (p : Prog) (t : T) (h : tr p = .ok t) (sched : List Label) (d : TCfg)
    (hr : trun .strict (tinit t) sched = some d) (hf : Fifo sched) :
    ∃ sched' c, Fifo sched' ∧ grun (ginit p) sched' = some c ∧ CRel c d := by
  obtain ⟨sched', c, hsub, hrun, hrel⟩ := conc_runs_backward p t h sched d hr
  exact ⟨sched', c, fun lab hl => hf lab (hsub.subset hl), hrun, hrel⟩

set_option maxRecDepth 100000 in
/-- The hypothesis of `conc_no_new_deadlock` / `conc_schedule_independent` is met by the counter with mutex and
wait group (every schedule: no deadlock, no stuck thread, only 12), by the condition hand-off (only 7), by the
two waiters released by one Broadcast (only 1, any-waiter reading included) and by the two-way hand-off (only 5):
checked on the closed set of reachable configurations (`safe_sound`). -/
theorem go_side_is_safe :
    (∀ sched c, grun (ginit exCounter) sched = some c → ¬ GDeadlock c ∧ ¬ GStuck c ∧ ∀ w, mainDone Thread.doneV c = some w → w = 12) ∧
    (∀ sched c, grun (ginit exHandoff) sched = some c → ¬ GDeadlock c ∧ ¬ GStuck c ∧ ∀ w, mainDone Thread.doneV c = some w → w = 7) ∧
    (∀ sched c, grun (ginit exTwoWaiters) sched = some c → ¬ GDeadlock c ∧ ¬ GStuck c ∧ ∀ w, mainDone Thread.doneV c = some w → w = 1) ∧
    (∀ sched c, grun (ginit exPingPong) sched = some c → ¬ GDeadlock c ∧ ¬ GStuck c ∧ ∀ w, mainDone Thread.doneV c = some w → w = 5) := by
  refine ⟨fun sched c hr => ?_, fun sched c hr => ?_, fun sched c hr => ?_, fun sched c hr => ?_⟩
  · obtain ⟨h1, h2, h3⟩ := safe_sound (S := reachSet 1 2000 (ginit exCounter)) (okV := fun v => v == 12) (by decide) sched c hr
    exact ⟨h1, h2, fun w hw => by simpa using h3 w hw⟩
  · obtain ⟨h1, h2, h3⟩ := safe_sound (S := reachSet 1 2000 (ginit exHandoff)) (okV := fun v => v == 7) (by decide) sched c hr
    exact ⟨h1, h2, fun w hw => by simpa using h3 w hw⟩
  · obtain ⟨h1, h2, h3⟩ := safe_sound (S := reachSet 3 2000 (ginit exTwoWaiters)) (okV := fun v => v == 1) (by decide) sched c hr
    exact ⟨h1, h2, fun w hw => by simpa using h3 w hw⟩
  · obtain ⟨h1, h2, h3⟩ := safe_sound (S := reachSet 1 2000 (ginit exPingPong)) (okV := fun v => v == 5) (by decide) sched c hr
    exact ⟨h1, h2, fun w hw => by simpa using h3 w hw⟩

set_option maxRecDepth 100000 in
/-- … and therefore every interleaving of what goose emits for them is safe and yields that value. -/
theorem emitted_side_is_safe :
    (∀ sched d, trun .strict (tinit (trOf exCounter)) sched = some d →
      ¬ TDeadlock .strict d ∧ ¬ TStuck .strict d ∧ ∀ w, mainDone TThread.doneV d = some w → w = 12) ∧
    (∀ sched d, trun .strict (tinit (trOf exHandoff)) sched = some d →
      ¬ TDeadlock .strict d ∧ ¬ TStuck .strict d ∧ ∀ w, mainDone TThread.doneV d = some w → w = 7) ∧
    (∀ sched d, trun .strict (tinit (trOf exTwoWaiters)) sched = some d →
      ¬ TDeadlock .strict d ∧ ¬ TStuck .strict d ∧ ∀ w, mainDone TThread.doneV d = some w → w = 1) :=
  ⟨conc_schedule_independent _ _ (tr_of_accepted (by decide)) 12 go_side_is_safe.1,
   conc_schedule_independent _ _ (tr_of_accepted (by decide)) 7 go_side_is_safe.2.1,
   conc_schedule_independent _ _ (tr_of_accepted (by decide)) 1 go_side_is_safe.2.2.1⟩

/-! ## 4. Captured variables are shared -/

set_option maxRecDepth 100000 in
/-- **`captured_variables_are_shared`.**  On the Go side a `go` statement starts the goroutine in the SPAWNER'S
environment — every captured `var` is bound to the same cell address in both — and touches nothing; on the
GooseLang side `Fork` evaluates the body in the spawner's environment (in both readings).  Consequence on a
program: `var x = 0; …; go func() { mu.Lock(); x = 1; mu.Unlock(); wg.Done() }(); wg.Wait(); return x` — the
store by the goroutine is read by the spawner after the join: EVERY Go schedule and EVERY interleaving of the
emitted program returns 1 (and nothing deadlocks or is stuck), and some schedule does return. -/
theorem captured_variables_are_shared :
    (∀ (h : Heap) (i ch : Nat) (t : Thread) (body rest : Stmts), t.st = .run → t.cur = .cons (.go body) rest →
      gstep h i ch t = .ok h (t.next rest t.env) (some { st := .run, cur := body, env := t.env, k := [], ret := none })) ∧
    (∀ (mode : Mode) (h : Heap) (i ch : Nat) (b : T) (ρ : TEnv) (k : List TFrame),
      tstep mode h i ch ⟨.eval (.fork b) ρ, k⟩ = .ok h ⟨.ret .unit, k⟩ (some ⟨.eval b ρ, []⟩)) ∧
    (∀ sched c, grun (ginit exCaptured) sched = some c →
      ¬ GDeadlock c ∧ ¬ GStuck c ∧ ∀ w, mainDone Thread.doneV c = some w → w = 1) ∧
    (∀ sched d, trun .strict (tinit (trOf exCaptured)) sched = some d →
      ¬ TDeadlock .strict d ∧ ¬ TStuck .strict d ∧ ∀ w, mainDone TThread.doneV d = some w → w = 1) ∧
    (∃ sched c, grun (ginit exCaptured) sched = some c ∧ mainDone Thread.doneV c = some 1) ∧
    (∃ sched d, trun .strict (tinit (trOf exCaptured)) sched = some d ∧ mainDone TThread.doneV d = some 1) := by
  have hgo : ∀ sched c, grun (ginit exCaptured) sched = some c →
      ¬ GDeadlock c ∧ ¬ GStuck c ∧ ∀ w, mainDone Thread.doneV c = some w → w = 1 := by
    intro sched c hr
    obtain ⟨h1, h2, h3⟩ := safe_sound (S := reachSet 1 2000 (ginit exCaptured)) (okV := fun v => v == 1) (by decide) sched c hr
    exact ⟨h1, h2, fun w hw => by simpa using h3 w hw⟩
  refine ⟨?_, fun _ _ _ _ _ _ _ => rfl, hgo, conc_schedule_independent _ _ (tr_of_accepted (by decide)) 1 hgo,
    ⟨_, goReturnsB_sound (sched := expand [(0, 5), (1, 4), (0, 2)]) (by decide)⟩, ?_⟩
  · intro h i ch t body rest hst hcur
    unfold gstep
    rw [hst]; simp only [hcur, gstepStmt]
  · obtain ⟨c, hr, hv⟩ := goReturnsB_sound (p := exCaptured) (sched := expand [(0, 5), (1, 4), (0, 2)]) (v := 1) (by decide)
    obtain ⟨⟨sched', d, hrun, hdv, _⟩, _⟩ := conc_compile_correct _ _ (tr_of_accepted (by decide)) _ c 1 hr hv
    exact ⟨sched', d, hrun, hdv⟩

set_option maxRecDepth 100000 in
/-- **Mutation witness: capture by value is unsound.**  If the translation COPIED the captured cell at the
`Fork` (`let: "x" := ref_to uint64T (![uint64T] "x") in Fork …`), the program above, which returns 1 under every
Go schedule, would return 0. -/
theorem captured_copy_is_unsound :
    tr exCaptured = .ok (trOf exCaptured) ∧
    (∀ sched c w, grun (ginit exCaptured) sched = some c → mainDone Thread.doneV c = some w → w = 1) ∧
    (∃ sched d, trun .strict (tinit (mutCopyCaptured "x" (trOf exCaptured))) sched = some d ∧
      mainDone TThread.doneV d = some 0) :=
  ⟨tr_of_accepted (by decide), fun sched c w hr hw => (captured_variables_are_shared.2.2.1 sched c hr).2.2 w hw,
   _, returnsB_sound (sched := expand [(0, 19), (1, 10), (0, 3)]) (by decide)⟩

/-! ## 5. Mutation witnesses -/

set_option maxRecDepth 100000 in
/-- **Broadcast translated as Signal deadlocks.**  Two waiters, one `Broadcast`: Go completes under every
schedule (`go_side_is_safe`), the correct translation therefore too (`emitted_side_is_safe`); with
`lock.condBroadcast` replaced by `lock.condSignal` there is an interleaving (strict reading) that deadlocks:
both waiters park, the single signal wakes one, the other sleeps forever and the join never passes. -/
theorem broadcast_as_signal_deadlocks :
    tr exTwoWaiters = .ok (trOf exTwoWaiters) ∧
    (∀ sched c, grun (ginit exTwoWaiters) sched = some c → ¬ GDeadlock c ∧ ¬ GStuck c) ∧
    (∀ sched d, trun .strict (tinit (trOf exTwoWaiters)) sched = some d → ¬ TDeadlock .strict d) ∧
    (∃ sched d, trun .strict (tinit (mutBroadcastAsSignal (trOf exTwoWaiters))) sched = some d ∧ TDeadlock .strict d) :=
  ⟨tr_of_accepted (by decide), fun sched c hr => ⟨(go_side_is_safe.2.2.1 sched c hr).1, (go_side_is_safe.2.2.1 sched c hr).2.1⟩,
   fun sched d hr => (emitted_side_is_safe.2.2 sched d hr).1,
   _, deadlocksB_sound (sched := expand [(0, 22), (1, 10), (2, 10), (0, 12), (1, 13)]) (by decide)⟩

set_option maxRecDepth 100000 in
/-- **`wg.Add` dropped returns early.**  The one-worker counter returns 5 under every Go schedule; without the
`waitgroup.Add` the join passes at once and some interleaving returns 0. -/
theorem dropped_add_returns_early :
    tr exCounter1 = .ok (trOf exCounter1) ∧
    (∀ sched c w, grun (ginit exCounter1) sched = some c → mainDone Thread.doneV c = some w → w = 5) ∧
    (∃ sched d, trun .strict (tinit (mutDropAdd (trOf exCounter1))) sched = some d ∧ mainDone TThread.doneV d = some 0) := by
  refine ⟨tr_of_accepted (by decide), fun sched c w hr hw => ?_, _, returnsB_sound (sched := expand [(0, 19)]) (by decide)⟩
  obtain ⟨_, _, h3⟩ := safe_sound (S := reachSet 1 2000 (ginit exCounter1)) (okV := fun v => v == 5) (by decide) sched c hr
  simpa using h3 w hw

set_option maxRecDepth 100000 in
/-- **`Fork` replaced by a synchronous call deadlocks.**  In the two-way hand-off the goroutine waits for the
parent: Go returns 5 under every schedule; if the body is run in place of the `go` statement the only thread
parks itself and nothing can ever wake it. -/
theorem fork_as_call_deadlocks :
    tr exPingPong = .ok (trOf exPingPong) ∧
    (∀ sched c, grun (ginit exPingPong) sched = some c → ¬ GDeadlock c ∧ ¬ GStuck c ∧ ∀ w, mainDone Thread.doneV c = some w → w = 5) ∧
    (∃ sched d, trun .strict (tinit (mutForkAsCall (trOf exPingPong))) sched = some d ∧ TDeadlock .strict d) :=
  ⟨tr_of_accepted (by decide), go_side_is_safe.2.2.2, _, deadlocksB_sound (sched := expand [(0, 23)]) (by decide)⟩

/-! ## 6. Outcome sets of the templates, by exhaustive exploration of the model -/

set_option maxRecDepth 100000 in
/-- The memoised explorer on the Go semantics (FIFO labels), to completion: the counter with mutex and wait group
returns 12; the condition hand-off 7; the ordered accumulation 12 or 21; the nested spawn 3; a missing `Done`
deadlocks; `Unlock` of a free mutex is fatal. -/
theorem template_outcomes :
    goOutcomes 1 2000 exCounter = ([.value 12], true) ∧
    goOutcomes 1 2000 exHandoff = ([.value 7], true) ∧
    goOutcomes 1 2000 exOrder = ([.value 21, .value 12], true) ∧
    goOutcomes 1 2000 exNested = ([.value 3], true) ∧
    goOutcomes 1 2000 exMissingDone = ([.deadlock], true) ∧
    goOutcomes 1 2000 exUnlockFree = ([.stuck], true) := by
  refine ⟨by decide, by decide, by decide, by decide, by decide, by decide⟩

set_option maxRecDepth 100000 in
/-- The same explorer on the model's target semantics of what `tr` emits: strict reading and Perennial's. -/
theorem template_outcomes_emitted :
    tgtOutcomes .strict 1 4000 (trOf exHandoff) = ([.value 7], true) ∧
    tgtOutcomes .perennial 1 4000 (trOf exHandoff) = ([.value 7], true) ∧
    tgtOutcomes .strict 1 4000 (trOf exCounter1) = ([.value 5], true) := by
  refine ⟨by decide, by decide, by decide⟩

set_option maxRecDepth 100000 in
/-- The copying mutant returns 0 under EVERY interleaving (explorer, to completion). -/
theorem copy_mutant_outcomes :
    tgtOutcomes .strict 1 4000 (mutCopyCaptured "x" (trOf exCaptured)) = ([.value 0], true) := by decide

set_option maxRecDepth 100000 in
/-- What `tr` prints (the text `pylib/conccorr.py` compares with the parse tree of goose's output) for
`wg := new(sync.WaitGroup); wg.Add(2); go func() { wg.Done() }(); wg.Wait(); return 1` and for
`mu := new(sync.Mutex); mu.Unlock(); return 1`. -/
theorem canon_examples :
    (trOf exMissingDone).canon =
      "(let [7767] (app (g waitgroup.New) (lit unit)) (seq (app (g waitgroup.Add) (var 7767) (lit u64:2)) " ++
      "(seq (app (g Fork) (app (g waitgroup.Done) (var 7767))) (seq (app (g waitgroup.Wait) (var 7767)) (lit u64:1)))))" ∧
    (trOf exUnlockFree).canon =
      "(let [6d75] (app (g lock.new) (lit unit)) (seq (app (g lock.release) (var 6d75)) (lit u64:1)))" := by
  refine ⟨by decide, by decide⟩

/-! ## Rejections -/

/-- goose's rejections in this fragment are rejections of the model, with goose's messages. -/
theorem conc_rejections :
    tr ⟨.ofList [.goCall "helper"], .lit 1⟩ = .error "only function literal spawns are supported" ∧
    tr ⟨.ofList [.newMutex "mu", .lock "mu", .deferUnlock "mu"], .lit 1⟩ = .error "statement" ∧
    tr ⟨.ofList [.go (.ofList [.retVoid])], .lit 1⟩ = .error "return in unsupported position" ∧
    tr ⟨.ofList [.define "y" (.lit 1), .assign "y" (.lit 2)], .var "y"⟩ = .error "variable y is not assignable" ∧
    tr ⟨.ofList [.assign "z" (.lit 2)], .lit 1⟩ = .error "undeclared name z" := by
  refine ⟨rfl, rfl, rfl, rfl, rfl⟩

/-- A rejected program has no translation, so none of the theorems above says anything about it; an accepted
one is covered in full: reject or faithful. -/
theorem conc_reject_or_faithful (p : Prog) :
    (∃ m, tr p = .error m) ∨ (∃ t, tr p = .ok t ∧ CRel (ginit p) (tinit t)) := by
  cases h : tr p with
  | error m => exact .inl ⟨m, rfl⟩
  | ok t => exact .inr ⟨t, rfl, crel_init h⟩

end GooseVerif.Props.C03Conc
