/-
C01 — Control-flow translation (`stmts`, `stmtInBlock`, `ifStmt`, `endsWithReturn` in
`/repo/goose.go`).

Property theorems only (model: `Model/Tr.lean`, helpers: `Lemmas/Tr.lean`).

Go has early `return`, `break` and `continue`; GooseLang has none of them.  goose turns a list of
statements into ONE expression whose VALUE encodes the control effect: `return e` is "the value
is e", `break`/`continue` are the values `Break`/`Continue` of a loop body, `a ;; b` throws the
value of `a` away.  The theorem says: whenever goose accepts a statement list — of any shape and
any nesting of conditionals, loops and blocks — the expression it builds computes exactly what
Go's control flow computes, for every meaning of the atomic statements, conditions and returned
expressions.  The `rejects_*` examples are the shapes goose must (and does) refuse, and
`mutant_unsound` shows that weakening `endsWithReturn` breaks the theorem.
-/
import GooseVerif.Lemmas.Tr
import GooseVerif.Lemmas.Arith
import GooseVerif.Props.C01Scope
import GooseVerif.Props.C01Core
import GooseVerif.Props.C01Heap
import GooseVerif.Props.C01Coll
import GooseVerif.Props.C01Fun
import GooseVerif.Gen.Guards
import GooseVerif.Expected.Guards
import GooseVerif.Gen.OpTables
import GooseVerif.Expected.OpTables

namespace GooseVerif.Props.C01
open GooseVerif.Model.Tr

/-! ### the tie to the code (T-gen): regenerated from /repo on every run -/

/-- The functions the control-flow model was written from (`stmts`, `stmtInBlock`, `stmt`, `ifStmt`,
`endsWithReturn`, `stmtsEndWithReturn`, `blockStmt`, `branchStmt`, `returnExpr`) are, up to
formatting, the committed expectation. -/
theorem control_flow_facts_ok : Gen.Guards.controlFlow = Expected.Guards.controlFlow := rfl

/-- The functions the scoping model (Model/Scope.lean; theorems in Props/C01Scope.lean: `scoping_sound`,
`leak_is_unsound`, …) was written from — `varSpec`, `varDeclStmt`, `defineStmt`, `assignStmt`,
`assignFromTo`, `pointerAssign`, `identExpr`, `referenceTo` — are the committed expectation. -/
theorem scoping_facts_ok : Gen.Guards.scoping = Expected.Guards.scoping := rfl

/-- The operator tables of `binExpr`, `assignStmt` and of the printer are the committed expectation. -/
theorem op_tables_facts_ok :
    Gen.OpTables.binExprOps = Expected.OpTables.binExprOps ∧ Gen.OpTables.assignOps = Expected.OpTables.assignOps ∧
    Gen.OpTables.coqBinOps = Expected.OpTables.coqBinOps := ⟨rfl, rfl, rfl⟩

/-! ### unsigned 64/32/8-bit wrap-around and conversions -/

/-- Every row of the translator's operator table (Go token ↦ printer constant ↦ printed notation, all
three regenerated from the source) sends a Go operator to the GooseLang operator of the same meaning. -/
theorem op_table_rows_agree : Gen.OpTables.binExprOps.all Lemmas.Arith.rowOk = true := by decide

/-- For w = 64, 32, 8 and ALL operands: the GooseLang operator computes Go's wrap-around sum,
difference, product, truncated quotient and remainder (divisor ≠ 0), bitwise and/or/xor, and shifts by
any count (a count ≥ w gives 0). -/
theorem arithmetic_preserved {w : Nat} (hw : Lemmas.Arith.Supported w) (op : Lemmas.Arith.Op) (a b r : BitVec w)
    (h : Lemmas.Arith.goArith op a b = some r) :
    GL.evalBinop op.name (GL.mkInt w a.toNat) (GL.mkInt w b.toNat) = some (GL.mkInt w r.toNat) :=
  Lemmas.Arith.arith_sound hw op a b r h

/-- … and Go's unsigned comparisons. -/
theorem comparison_preserved {w : Nat} (hw : Lemmas.Arith.Supported w) (op : Lemmas.Arith.Op) (a b : BitVec w) (r : Bool)
    (h : Lemmas.Arith.goCompare op a b = some r) :
    GL.evalBinop op.name (GL.mkInt w a.toNat) (GL.mkInt w b.toNat) = some (.bool r) :=
  Lemmas.Arith.compare_sound hw op a b r h

/-- `to_uN` is Go's conversion between unsigned widths (truncation or zero extension). -/
theorem conversion_preserved {w v : Nat} (a : BitVec w) : GL.mkInt v a.toNat = GL.mkInt v (a.setWidth v).toNat :=
  Lemmas.Arith.conversion_sound a

/-- The functions that decide which width a conversion, a literal and `++`/`--` are emitted at
(`integerConversion`, `getIntegerType`, `basicLiteral`, `incDecStmt`) are the committed expectation. -/
theorem width_facts_ok : Gen.Guards.widths = Expected.Guards.widths := rfl

/-- `integerConversion`'s decision — emit the operand unchanged when source and target widths are
equal, `to_u<target>` otherwise — yields Go's conversion in both cases, for all three widths. -/
theorem conversion_decision {ws wt : Nat} (hs : Lemmas.Arith.Supported ws) (a : BitVec ws) :
    (if ws = wt then GL.mkInt ws a.toNat else GL.mkInt wt a.toNat) = GL.mkInt wt (a.setWidth wt).toNat := by
  split
  · rename_i h; subst h; simp [GL.mkInt, BitVec.toNat_setWidth]
  · exact Lemmas.Arith.conversion_sound a

example : Lemmas.Arith.goArith .sub (3 : BitVec 8) 5 = some 254 := by decide
example : Lemmas.Arith.goArith .shl (1 : BitVec 32) 40 = some 0 := by decide

/-! ### control flow -/

/-- **Soundness of the control-flow translation.**  If goose translates the statement list `ss`
for usage `u` into `t`, then for every interpretation, fuel and start state:
* Go falls off the end in state `s'` → `t` evaluates in `s'` to `#()` (function body),
  to `Continue` (loop body), to some value (local use);
* Go returns `v` in state `s'`       → the usage is "function body" and `t` evaluates to `v` in `s'`;
* Go breaks / continues in `s'`      → the usage is "loop body" and `t` evaluates to
  `Break` / `Continue` in `s'`.
Nothing is claimed when the Go execution runs out of fuel (a unit of fuel is one loop
iteration, on both sides). -/
theorem control_flow_sound {σ ν : Type} (I : Interp σ ν) (ss : Stmts) (u : Usage) (t : Tgt)
    (h : trStmts ss u = .ok t) (f : Nat) (s : σ) :
    (∀ s', exec I f ss s = .normal s' →
      (u = .returned → evalT I f t s = some (.unit, s')) ∧
      (u = .loop → evalT I f t s = some (.cont, s')) ∧
      (u = .local → ∃ v, evalT I f t s = some (v, s'))) ∧
    (∀ v s', exec I f ss s = .returned v s' →
      u = .returned ∧ evalT I f t s = some (.val v, s')) ∧
    (∀ s', exec I f ss s = .broke s' → u = .loop ∧ evalT I f t s = some (.brk, s')) ∧
    (∀ s', exec I f ss s = .continued s' → u = .loop ∧ evalT I f t s = some (.cont, s')) := by
  have hs := trStmts_sound I ss u t h f s
  refine ⟨fun s' e => ?_, fun v s' e => ?_, fun s' e => ?_, fun s' e => ?_⟩ <;>
    (rw [e] at hs; exact hs)

/-- The same with the test `endsWithReturn` abstracted: the translator is sound for ANY test
`ewr` such that a list satisfying it never falls off its end.  (`endsWithReturn` is such a test:
`ewr_not_normal`.) -/
theorem control_flow_sound_with {σ ν : Type} (I : Interp σ ν) (ewr : Stmts → Bool)
    (hewr : ∀ ss, ewr ss = true → ∀ f s s', exec I f ss s ≠ .normal s')
    (ss : Stmts) (u : Usage) (t : Tgt) (h : trStmtsWith ewr ss u = .ok t) (f : Nat) (s : σ) :
    Sound u (exec I f ss s) (evalT I f t s) :=
  sound_stmts I ewr hewr ss u t h f s

/-- `endsWithReturn ss` really means "`ss` never falls off its end". -/
theorem endsWithReturn_never_normal {σ ν : Type} (I : Interp σ ν) (ss : Stmts)
    (h : endsWithReturn ss = true) (f : Nat) (s s' : σ) : exec I f ss s ≠ .normal s' :=
  ewr_not_normal I ss h f s s'

/-- A translated function body yields the function's result: the returned value, or `#()` when
the body falls off its end. -/
theorem function_body_sound {σ ν : Type} (I : Interp σ ν) (ss : Stmts) (t : Tgt)
    (h : trStmts ss .returned = .ok t) (f : Nat) (s : σ) :
    (∀ v s', exec I f ss s = .returned v s' → evalT I f t s = some (.val v, s')) ∧
    (∀ s', exec I f ss s = .normal s' → evalT I f t s = some (.unit, s')) ∧
    (∀ s', exec I f ss s ≠ .broke s') ∧ (∀ s', exec I f ss s ≠ .continued s') := by
  obtain ⟨h1, h2, h3, h4⟩ := control_flow_sound I ss .returned t h f s
  exact ⟨fun v s' e => (h2 v s' e).2, fun s' e => (h1 s' e).1 rfl,
    fun s' e => absurd (h3 s' e).1 (by decide), fun s' e => absurd (h4 s' e).1 (by decide)⟩

/-- An accepted translation never gets stuck (e.g. on a loop body whose value is neither `Break`
nor `Continue`): if the Go execution does not run out of fuel, the evaluation succeeds. -/
theorem accepted_never_stuck {σ ν : Type} (I : Interp σ ν) (ss : Stmts) (u : Usage) (t : Tgt)
    (h : trStmts ss u = .ok t) (f : Nat) (s : σ) (hf : exec I f ss s ≠ .fuel) :
    evalT I f t s ≠ none := by
  obtain ⟨h1, h2, h3, h4⟩ := control_flow_sound I ss u t h f s
  cases ho : exec I f ss s with
  | normal s' =>
    obtain ⟨hr, hl, hloc⟩ := h1 s' ho
    cases u
    · obtain ⟨v, hv⟩ := hloc rfl; simp [hv]
    · simp [hr rfl]
    · simp [hl rfl]
  | returned v s' => simp [(h2 v s' ho).2]
  | broke s' => simp [(h3 s' ho).2]
  | continued s' => simp [(h4 s' ho).2]
  | fuel => exact absurd ho hf

/-! ### Shapes goose must reject -/

/-- `x; return 1; y` — a `return` in the middle of a list. -/
theorem rejects_return_in_middle :
    trStmts (.cons (.atom 0) (.cons (.ret 1) (.cons (.atom 2) .nil))) .returned
      = .error "return in unsupported position" := rfl

/-- `for c { return 1 }` — `return` inside a loop body. -/
theorem rejects_return_in_loop :
    trStmts (.cons (.loop 0 (.cons (.ret 1) .nil)) .nil) .returned
      = .error "return in unsupported position" := rfl

/-- `for c { if a { return 1 }; x }` — also through a conditional. -/
theorem rejects_return_in_loop_if :
    trStmts (.cons (.loop 0 (.cons (.ite 1 (.cons (.ret 1) .nil) .nil) (.cons (.atom 2) .nil))) .nil)
      .returned = .error "return in unsupported position" := rfl

/-- `break` in a function body, outside of any loop. -/
theorem rejects_break_outside_loop :
    trStmts (.cons (.atom 0) (.cons .brk .nil)) .returned
      = .error "break/continue in unsupported position" := rfl

/-- `for c { break; x }` — `break` in the middle of a loop body. -/
theorem rejects_break_in_middle :
    trStmts (.cons (.loop 0 (.cons .brk (.cons (.atom 1) .nil))) .nil) .returned
      = .error "break/continue in unsupported position" := rfl

/-- `if a { return 1 } else { x }; return 2` — early return in an `if` with an else branch. -/
theorem rejects_early_return_with_else :
    trStmts (.cons (.ite 0 (.cons (.ret 1) .nil) (.cons (.atom 1) .nil)) (.cons (.ret 2) .nil))
      .returned = .error "early return in if with an else branch" := rfl

/-- `if a { if b { return 1 } }; return 2` — the inner `if` has no else, so the outer then-branch
does not "end with return" and the inner `return` is in an unsupported position. -/
theorem rejects_nested_early_return :
    trStmts mutantWitness .returned = .error "return in unsupported position" := rfl

/-- `if a { { return 1 } }; return 2` — `endsWithReturn` does not look into blocks. -/
theorem rejects_early_return_in_block :
    trStmts (.cons (.ite 0 (.cons (.block (.cons (.ret 1) .nil)) .nil) .nil) (.cons (.ret 2) .nil))
      .returned = .error "return in unsupported position" := rfl

/-! ### Shapes goose accepts, with their translations -/

/-- `if a { return 1 }; x; return 2` ↦ `if a then return 1 else (x;; return 2)`. -/
theorem accepts_early_return :
    trStmts (.cons (.ite 0 (.cons (.ret 1) .nil) .nil) (.cons (.atom 5) (.cons (.ret 2) .nil)))
      .returned = .ok (.ite 0 (.retv 1) (.seq (.atom 5) (.retv 2))) := rfl

/-- `if a { if b { return 1 } else { return 2 } }; return 3` — a nested early return is fine when
BOTH inner branches return. -/
theorem accepts_nested_early_return :
    trStmts (.cons (.ite 0 (.cons (.ite 1 (.cons (.ret 1) .nil) (.cons (.ret 2) .nil)) .nil) .nil)
      (.cons (.ret 3) .nil)) .returned
      = .ok (.ite 0 (.ite 1 (.retv 1) (.retv 2)) (.retv 3)) := rfl

/-- `if a { return 1 } else if b { return 2 } else { x }` at the end of a function: anything
goes; the branch that falls off its end gets `return #()`. -/
theorem accepts_if_chain_at_end :
    trStmts (.cons (.ite 0 (.cons (.ret 1) .nil)
      (.cons (.ite 1 (.cons (.ret 2) .nil) (.cons (.atom 3) .nil)) .nil)) .nil) .returned
      = .ok (.ite 0 (.retv 1) (.ite 1 (.retv 2) (.seq (.atom 3) .unit))) := rfl

/-- `for c { if a { break }; x }` in a function body ↦
`(for c { if a then Break else (x;; Continue) });; return #()`. -/
theorem accepts_break_through_if :
    trStmts (.cons (.loop 0 (.cons (.ite 1 (.cons .brk .nil) .nil) (.cons (.atom 2) .nil))) .nil)
      .returned = .ok (.seq (.loop 0 (.ite 1 .brk (.seq (.atom 2) .cont))) .unit) := rfl

/-- `if a { x } else { y }; z` without control effects ↦ `(if a then x else y);; z`. -/
theorem accepts_if_in_middle :
    trStmts (.cons (.ite 0 (.cons (.atom 1) .nil) (.cons (.atom 2) .nil)) (.cons (.atom 3) .nil))
      .local = .ok (.seq (.ite 0 (.atom 1) (.atom 2)) (.atom 3)) := rfl

/-- `{ x; return 1 }` — a block at the end passes the usage on. -/
theorem accepts_block_at_end :
    trStmts (.cons (.block (.cons (.atom 0) (.cons (.ret 1) .nil))) .nil) .returned
      = .ok (.seq (.atom 0) (.retv 1)) := rfl

/-- The empty list: `return #()` in a function body and locally, `Continue` in a loop body. -/
theorem accepts_empty :
    trStmts .nil .returned = .ok .unit ∧ trStmts .nil .local = .ok .unit ∧
      trStmts .nil .loop = .ok .cont := ⟨rfl, rfl, rfl⟩

/-! ### Mutation witness -/

/-- The theorem really depends on the guard `left && right` of `endsWithReturn`: with the mutant
`endsWithReturn'` (an `if` without else "ends with return" when its then-branch does) the
translator accepts `if a { if b { return 1 } }; return 2`, and with `a` true and `b` false Go
returns `2` while the translation evaluates to `#()`. -/
theorem mutant_unsound :
    ∃ (ss : Stmts) (t : Tgt), trStmts' ss .returned = .ok t ∧
      exec witnessInterp 0 ss () = .returned 2 () ∧
      evalT witnessInterp 0 t () = some (.unit, ()) :=
  ⟨mutantWitness, .ite 0 (.ite 1 (.retv 1) .unit) (.retv 2), rfl, rfl, rfl⟩

/-- Hence soundness FAILS for the mutated translator. -/
theorem mutant_not_sound :
    ¬ ∀ (I : Interp Unit Nat) (ss : Stmts) (t : Tgt), trStmts' ss .returned = .ok t →
        ∀ f s v s', exec I f ss s = .returned v s' → evalT I f t s = some (.val v, s') := by
  intro hall
  obtain ⟨ss, t, h1, h2, h3⟩ := mutant_unsound
  have := hall witnessInterp ss t h1 0 () 2 () h2
  rw [h3] at this
  cases this

end GooseVerif.Props.C01
