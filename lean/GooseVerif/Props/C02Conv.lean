/-
C02 — Go conversions `T(x)`: reject or faithful, with the one known exception made explicit.

Property theorems and examples only (model: Model/Conv.lean, lemmas: Lemmas/Conv.lean).

`Conv.decide` mirrors `callExpr` (the identifiers `uint64|uint32|uint8|byte`), `integerConversion`,
`getIntegerType` and the conversion branch of `methodExpr` in `/repo/goose.go` / `/repo/types.go`;
`goConv` is what Go computes.  Whenever goose accepts a conversion Go allows, the emitted GooseLang
operation computes Go's result (`conv_reject_or_faithful`) — except for the class `knownNamedInt`
(goose issue #14, pinned by the repository's test-suite as a known failing test): a conversion to a
DEFINED integer type of a different width is emitted as the identity (`known_named_int_is_wrong`).
(`from` is a keyword of Lean: the source type is `src`.)
-/
import GooseVerif.Lemmas.Conv
import GooseVerif.Gen.Guards
import GooseVerif.Expected.Guards

namespace GooseVerif.Props.C02Conv
open GooseVerif.Model

/-- T-gen obligation: `callExpr` (which spellings go to `integerConversion`), `integerConversion`, `getIntegerType`, the conversion
branch of `methodExpr`, `isString` and `isByteSlice` have, up to formatting, the committed text `Conv.decide` was written from.
The other tie is the correspondence stream pylib/convcorr.py: every conversion over the type universe that Go allows is
translated by the real goose, and rejected / emitted as the identity / `to_u<w>` / `StringToBytes` / `StringFromBytes` exactly
as the model decides. -/
theorem conv_facts_ok : GooseVerif.Gen.Guards.conv = GooseVerif.Expected.Guards.conv := rfl
open GooseVerif.Model.Conv (Basic Under Ty Spelling Val Decision goConv repWidth)
open GooseVerif.Lemmas.Conv

/-- **Reject or faithful**: for every spelling `sp` (possible for the target), all types `to`, `src`, every
value `v` of the source type (a typed source: `srcUntyped = false`): if Go allows the conversion and yields `r`,
and the pair is not in the known class `knownNamedInt`, then goose either rejects the conversion or emits
an operation that yields `r` on `v`. -/
theorem conv_reject_or_faithful (sp : Spelling) (to src : Ty) (v r : Val)
    (hwf : sp.wf to = true) (hv : v.hasType src.under = true)
    (hgo : goConv to.under src.under v = some r)
    (hk : knownNamedInt to src = false) :
    Conv.decide sp to src false = .reject ∨ (Conv.decide sp to src false).apply v = some r := by
  cases sp with
  | ident =>
    cases hw : Conv.identWidth to with
    | none => simp [Spelling.wf, hw] at hwf
    | some width =>
      simp only [Conv.decide, hw]
      rw [← hgo]
      exact integerConversion_faithful hw hv
  | other =>
    simp only [Conv.decide, Bool.false_eq_true, if_false]
    exact methodExprConv_faithful hv hgo hk

/-- The known class is really mistranslated: `type U32 uint32; U32(x)` with `x : uint64 = 2^32 + 5` is the
identity in GooseLang (the 64-bit word `2^32 + 5`), while Go yields the 32-bit `5`. -/
theorem known_named_int_is_wrong :
    let to : Ty := ⟨true, .basic .u32⟩
    let src : Ty := ⟨false, .basic .u64⟩
    let v : Val := .w64 (2 ^ 32 + 5)
    knownNamedInt to src = true ∧ Spelling.other.wf to = true ∧ v.hasType src.under = true ∧
      Conv.decide .other to src false = .identity ∧
      goConv to.under src.under v = some (.w32 5) ∧
      (Conv.decide .other to src false).apply v = some (.w64 (2 ^ 32 + 5)) ∧
      (Conv.decide .other to src false).apply v ≠ goConv to.under src.under v := by
  decide

/-- With the `ident` spelling (`uint64(x)`, `uint32(x)`, `uint8(x)`, `byte(x)`), the identity is emitted only
between kinds of one and the same represented width. -/
theorem ident_spelling_never_identity_across_widths (to src : Ty) (srcUntyped : Bool)
    (h : Conv.decide .ident to src srcUntyped = .identity) :
    ∃ w, repWidth to.under = some w ∧ repWidth src.under = some w := by
  simp only [Conv.decide] at h
  cases hw : Conv.identWidth to with
  | none => simp [hw] at h
  | some width =>
    simp only [hw, Conv.integerConversion] at h
    cases srcUntyped with
    | true => simp at h
    | false =>
      cases hg : Conv.getIntegerType src.under with
      | none => simp [hg] at h
      | some w =>
        simp only [hg, Bool.false_eq_true, if_false] at h
        by_cases hww : w = width
        · subst hww
          exact ⟨w, (identWidth_repWidth hw).2, getIntegerType_repWidth hg⟩
        · simp [hww] at h

/-- Spelled in any way other than the four identifiers, a conversion to a predeclared numeric type
(`uint16(x)`, `int64(x)`, `float64(x)`, `int(x)`, `uint(x)`, `(uint64)(x)`, `(uint32)(x)`, `(uint8)(x)`,
an alias of one of them) is rejected, whatever the source. -/
theorem unsupported_numeric_targets_rejected (b : Basic) (hb : b.isNumeric = true) (src : Ty) (srcUntyped : Bool) :
    Conv.decide .other ⟨false, .basic b⟩ src srcUntyped = .reject := by
  cases b <;> simp [Basic.isNumeric] at hb <;>
    simp [Conv.decide, Conv.methodExprConv, Conv.isByteSlice, Conv.isString, Basic.isNumeric]

/-- The eight predeclared numeric types of the model, one by one. -/
theorem unsupported_numeric_targets_rejected_each (src : Ty) (srcUntyped : Bool) :
    Conv.decide .other ⟨false, .basic .u16⟩ src srcUntyped = .reject ∧
    Conv.decide .other ⟨false, .basic .i64⟩ src srcUntyped = .reject ∧
    Conv.decide .other ⟨false, .basic .f64⟩ src srcUntyped = .reject ∧
    Conv.decide .other ⟨false, .basic .int⟩ src srcUntyped = .reject ∧
    Conv.decide .other ⟨false, .basic .uint⟩ src srcUntyped = .reject ∧
    Conv.decide .other ⟨false, .basic .u64⟩ src srcUntyped = .reject ∧
    Conv.decide .other ⟨false, .basic .u32⟩ src srcUntyped = .reject ∧
    Conv.decide .other ⟨false, .basic .u8⟩ src srcUntyped = .reject :=
  ⟨unsupported_numeric_targets_rejected _ rfl _ _, unsupported_numeric_targets_rejected _ rfl _ _,
   unsupported_numeric_targets_rejected _ rfl _ _, unsupported_numeric_targets_rejected _ rfl _ _,
   unsupported_numeric_targets_rejected _ rfl _ _, unsupported_numeric_targets_rejected _ rfl _ _,
   unsupported_numeric_targets_rejected _ rfl _ _, unsupported_numeric_targets_rejected _ rfl _ _⟩

/-- The extent of issue #14 in the code as it is: a conversion to a DEFINED type over any predeclared numeric
type (or `bool`) is the identity whatever the source is — also for the kinds `goConv` does not represent
(`type U16 uint16; U16(x)`, `type F float64; F(x)` with `x : uint64`), about which the main theorem is silent. -/
theorem defined_numeric_target_always_identity (b : Basic) (hb : b ≠ .str) (src : Ty) (srcUntyped : Bool) :
    Conv.decide .other ⟨true, .basic b⟩ src srcUntyped = .identity := by
  cases b <;> simp at hb <;>
    simp [Conv.decide, Conv.methodExprConv, Conv.isByteSlice, Conv.isString]

/-- Go's `string(n)` for an integer `n` (a rune conversion) is rejected: target of underlying type `string`
(defined or not, any possible spelling), source any predeclared numeric kind or a defined type over one;
also for an untyped integer constant. -/
theorem string_of_integer_rejected (sp : Spelling) (to src : Ty) (srcUntyped : Bool) (b : Basic)
    (hwf : sp.wf to = true) (hto : to.under = .basic .str)
    (hsrc : srcUntyped = true ∨ (src.under = .basic b ∧ b.isNumeric = true)) :
    Conv.decide sp to src srcUntyped = .reject := by
  obtain ⟨td, tu⟩ := to
  obtain ⟨sd, su⟩ := src
  simp only at hto hsrc
  subst hto
  cases sp with
  | ident => cases td <;> simp [Spelling.wf, Conv.identWidth] at hwf
  | other =>
    rcases hsrc with h | ⟨h, hb⟩
    · subst h; simp [Conv.decide, Conv.methodExprConv, Conv.isByteSlice, Conv.isString]
    · subst h
      cases srcUntyped <;> cases b <;> simp [Basic.isNumeric] at hb <;>
        simp [Conv.decide, Conv.methodExprConv, Conv.isByteSlice, Conv.isString]

/-! ## Non-vacuity: the accepted conversions, on concrete values -/

/-- `byte(x)`, `x : uint64`: `to_u8`, and the value is truncated (`0x1234` ↦ `0x34`), as in Go. -/
example :
    Conv.decide .ident ⟨false, .basic .u8⟩ ⟨false, .basic .u64⟩ false = .toU 8 ∧
    (Decision.toU 8).apply (.w64 0x1234) = some (.w8 0x34) ∧
    goConv (.basic .u8) (.basic .u64) (.w64 0x1234) = some (.w8 0x34) := by decide

/-- `uint64(x)` for `x` of a defined type over `uint32`: `to_u64` (zero-extension). -/
example :
    Conv.decide .ident ⟨false, .basic .u64⟩ ⟨true, .basic .u32⟩ false = .toU 64 ∧
    (Decision.toU 64).apply (.w32 0xffffffff) = some (.w64 0xffffffff) ∧
    goConv (.basic .u64) (.basic .u32) (.w32 0xffffffff) = some (.w64 0xffffffff) := by decide

/-- `uint64(x)`, `x : int`: the identity (goose represents `int` as a 64-bit word). -/
example : Conv.decide .ident ⟨false, .basic .u64⟩ ⟨false, .basic .int⟩ false = .identity := by decide

/-- `[]byte(n)` for `n` of a defined string type: `StringToBytes`. -/
example :
    Conv.decide .other ⟨false, .bytes⟩ ⟨true, .basic .str⟩ false = .stringToBytes ∧
    Decision.stringToBytes.apply (.str [104, 105]) = some (.bytes [104, 105]) ∧
    goConv .bytes (.basic .str) (.str [104, 105]) = some (.bytes [104, 105]) := by decide

/-- `string(b)` for `b` of a defined `[]byte` type: `StringFromBytes`. -/
example :
    Conv.decide .other ⟨false, .basic .str⟩ ⟨true, .bytes⟩ false = .stringFromBytes ∧
    Decision.stringFromBytes.apply (.bytes [104, 105]) = some (.str [104, 105]) ∧
    goConv (.basic .str) .bytes (.bytes [104, 105]) = some (.str [104, 105]) := by decide

/-- `U64(x)` for `type U64 uint64` and `x : uint64`: the identity, and faithful. -/
example :
    Conv.decide .other ⟨true, .basic .u64⟩ ⟨false, .basic .u64⟩ false = .identity ∧
    knownNamedInt ⟨true, .basic .u64⟩ ⟨false, .basic .u64⟩ = false ∧
    Decision.identity.apply (.w64 7) = goConv (.basic .u64) (.basic .u64) (.w64 7) := by decide

/-- `uint64(x)`, `x : int64` and `x : uint16`: rejected ("casts from unsupported type"); an untyped constant: rejected. -/
example :
    Conv.decide .ident ⟨false, .basic .u64⟩ ⟨false, .basic .i64⟩ false = .reject ∧
    Conv.decide .ident ⟨false, .basic .u64⟩ ⟨false, .basic .u16⟩ false = .reject ∧
    Conv.decide .ident ⟨false, .basic .u64⟩ ⟨false, .basic .u64⟩ true = .reject := by decide

/-- The main theorem, instantiated (its hypotheses are satisfiable on an accepted, value-changing conversion). -/
example : (Conv.decide .ident ⟨false, .basic .u8⟩ ⟨false, .basic .u64⟩ false).apply (.w64 0x1234) = some (.w8 0x34) := by
  have h := conv_reject_or_faithful .ident ⟨false, .basic .u8⟩ ⟨false, .basic .u64⟩ (.w64 0x1234) (.w8 0x34)
    (by decide) (by decide) (by decide) (by decide)
  rcases h with h | h
  · exact absurd h (by decide)
  · exact h

end GooseVerif.Props.C02Conv
