/-
C11 — Disk contents persist across reopen; I/O failures are never silent.

Property theorems only (helpers: `Lemmas/Disk.lean`). Model: `fileOpen` / `fileClose` /
`fileImpl` over the OS-file model of `Model/Disk.lean` (`pread`, `pwrite`, `ftruncate`; a killed
process keeps what it wrote, because `pwrite` goes to the page cache). Real power loss and the
host file system's durability are outside the model; `Barrier` is tied to `fsync` by T-gen.
Fault surfacing: every `unix.*` error result is followed by a panic/return in the pinned bodies
(`facts_ok`), and the correspondence injects failures with strace.
-/
import GooseVerif.Lemmas.Disk
import GooseVerif.Lemmas.ShortWrite
import GooseVerif.Gen.DiskFacts
import GooseVerif.Expected.DiskFacts

namespace GooseVerif.Props.C11
open GooseVerif.Model.Disk GooseVerif

abbrev BS : Nat := Gen.Disk.blockSize

/-- T-gen obligation: machine/disk is what the model was written from (bodies incl. the error
handling after every system call; calls with evaluated flags `O_RDWR|O_CREAT = 66`, mode 0666). -/
theorem facts_ok :
    Gen.Disk.diskDecls = Expected.Disk.diskDecls ∧ Gen.Disk.diskCalls = Expected.Disk.diskCalls :=
  ⟨rfl, rfl⟩

/-- Barrier is `fsync` on the disk's descriptor and nothing else. -/
theorem barrier_calls_fsync :
    (Gen.Disk.diskCalls.find? (fun p => p.1 == "FileDisk.Barrier")).map (·.2) = some "golang.org/x/sys/unix.Fsync(_)" := by
  decide +kernel

/-! ### opening an existing image of any previous length -/

/-- The opened disk has exactly the requested number of blocks and a file of exactly that many
bytes; every retained byte is preserved and every new byte is zero. -/
theorem open_any_length (img : Bytes) (n : Nat) :
    (fileOpen BS img n).numBlocks = n ∧ (fileOpen BS img n).file.length = n * BS ∧
    ∀ i, i < n * BS → (fileOpen BS img n).file[i]? = some (img.getD i 0) :=
  ⟨fileOpen_numBlocks BS img n, fileOpen_length BS img n, fun i hi => fileOpen_getElem BS img n i hi⟩

/-- The same at block level: the registers of the opened disk are those the image determines. -/
theorem open_blocks (img : Bytes) (n : Nat) : fileBlocks BS (fileOpen BS img n) = regsOfImage BS img n :=
  fileBlocks_open BS img n

/-- After opening, the disk is a register array for every later history (C09's refinement applies). -/
theorem open_then_refines (img : Bytes) (n : Nat) (ops : List Op) (h : Heap)
    (hv : validRun BS (regsOfImage BS img n, h) ops = true) :
    (run BS (fileImpl BS) (fileOpen BS img n, h) ops).2 = (run BS (specImpl BS) (regsOfImage BS img n, h) ops).2 := by
  have hs : FileSim BS (fileOpen BS img n) (regsOfImage BS img n) := by
    rw [← fileBlocks_open]
    exact fileSim_of_length BS _ (by rw [fileOpen_length, fileOpen_numBlocks])
  exact (run_refines (file_refines' BS) ops _ _ h hs hv).1

/-! ### persistence across close / kill and reopen -/

/-- Every block equals the last value written: run any valid history, close (or be killed) at any
point, reopen with `m` blocks — the registers are those of the specification after the same
history, cut or zero-extended to `m`. With `m = n` nothing changes. -/
theorem reopen_preserves (img : Bytes) (n m : Nat) (ops : List Op) (h : Heap)
    (hv : validRun BS (regsOfImage BS img n, h) ops = true) :
    let d' := (run BS (fileImpl BS) (fileOpen BS img n, h) ops).1.1
    let r' := (run BS (specImpl BS) (regsOfImage BS img n, h) ops).1.1
    fileBlocks BS (fileOpen BS (fileClose d') m) = r'.take m ++ List.replicate (m - r'.length) (List.replicate BS 0) := by
  intro d' r'
  have hs : FileSim BS (fileOpen BS img n) (regsOfImage BS img n) := by
    rw [← fileBlocks_open]
    exact fileSim_of_length BS _ (by rw [fileOpen_length, fileOpen_numBlocks])
  have hsim : FileSim BS d' r' := (run_refines (file_refines' BS) ops _ _ h hs hv).2.2
  rw [fileBlocks_open]
  simp only [fileClose, hsim.1]
  exact regsOfImage_flatten BS r' hsim.2.1 m

/-- Reopening with the same size is the identity on the disk state. -/
theorem reopen_same (d : FileSt) (hlen : d.file.length = d.numBlocks * BS) :
    fileOpen BS (fileClose d) d.numBlocks = d :=
  fileOpen_same BS d hlen

/-! ### non-vacuity (block size 2 for readability) -/

/-- an image of exactly `numBlocks` bytes (3 bytes, 3 blocks) is resized: 6 bytes, old bytes kept -/
example : (fileOpen 2 [9, 9, 9] 3).file = [9, 9, 9, 0, 0, 0] := by decide
example : (fileOpen 2 [1, 2, 3, 4, 5, 6, 7] 2).file = [1, 2, 3, 4] := by decide
example : fileBlocks 2 (fileOpen 2 [1, 2, 3] 3) = [[1, 2], [3, 0], [0, 0]] := by decide

/-! ### short transfers are never a success (repair 256b1fc)

`pread` may hand over fewer bytes than asked for without an error.  Whatever positive number of bytes each call hands
over (`ks`: one limit per call), the loop of `ReadTo` returns exactly the block when the image holds it, and never returns
normally when the block lies partly or wholly beyond the end of the image (an image somebody truncated while the disk was
open): the call that transfers nothing panics.  Before the repair the byte count was ignored: the correspondence check
(`extrunc`, `fsize` scenarios of pylib/c11.py) observed a normal return with a partly stale buffer. -/

theorem short_reads_are_completed (file : Bytes) (off len : Nat) (ks : List Nat)
    (hfile : off + len ≤ file.length) (hk : len ≤ ks.length) :
    readLoop file off len ks [] = some (pread file off len) := by
  have := readLoop_complete file off len ks 0 hfile (Nat.zero_le _) (by omega)
  simpa [pread] using this

theorem read_beyond_the_end_never_succeeds (file : Bytes) (off len : Nat) (ks : List Nat)
    (hoff : off ≤ file.length) (hfile : file.length < off + len) :
    readLoop file off len ks [] = none :=
  readLoop_short_file file off len ks [] hfile (by simpa using hoff)

/-- … and in the model of `ReadTo` itself: a block that the image does not hold completely is refused. -/
theorem readTo_refuses_incomplete_block (d : FileSt) (a : Nat) (buf : Bytes) (hb : buf.length = BS) (ha : a < d.numBlocks)
    (hshort : d.file.length < a * BS + BS) : (fileImpl BS).readTo d a buf = none := by
  simp only [fileImpl, hb, ne_eq, not_true_eq_false, ↓reduceIte]
  rw [if_neg (by omega), if_pos]
  rw [pread_length]
  have hbs : 0 < BS := by decide
  have : d.file.length - a * BS < BS := by omega
  exact Nat.lt_of_le_of_lt (Nat.min_le_right _ _) this

example : readLoop [1, 2, 3, 4, 5, 6, 7, 8] 2 5 [0, 1, 0, 3, 9] [] = some [3, 4, 5, 6, 7] := by decide
example : readLoop [1, 2, 3, 4] 2 5 [0, 1, 0, 3, 9] [] = none := by decide

/-! ### The size check of `NewFileDisk`

The model computes byte offsets in unbounded `Nat`; the code computes `a * BlockSize` in `uint64` and converts it to
`int64`.  `NewFileDisk` refuses block counts above `math.MaxInt64 / BlockSize` (`openable`), and for every disk it does
open the two computations agree at every in-range address: the product neither wraps around `2^64` nor exceeds the
largest file offset, for the block's last byte included.  Before the repair a disk of `2^53` blocks opened and the blocks
`1` and `2^52 + 1` were one block (the `huge` stream of the correspondence check). -/

theorem openable_offsets_exact (n a : Nat) (hopen : openable BS n = true) (ha : a < n) :
    a * BS + BS ≤ maxOff ∧ (a * BS) % 2 ^ 64 = a * BS := by
  have hn : n ≤ maxOff / BS := by simpa [openable] using hopen
  have h1 : (a + 1) * BS ≤ n * BS := Nat.mul_le_mul_right BS (by omega)
  have h2 : n * BS ≤ maxOff := by
    have := Nat.mul_le_mul_right BS hn
    exact Nat.le_trans this (Nat.div_mul_le_self maxOff BS)
  have h3 : a * BS + BS ≤ maxOff := by
    have : (a + 1) * BS = a * BS + BS := Nat.succ_mul a BS
    omega
  refine ⟨h3, Nat.mod_eq_of_lt ?_⟩
  have : maxOff < 2 ^ 64 := by decide
  omega

/-- distinct in-range blocks of an opened disk have disjoint byte ranges below the offset limit: no aliasing -/
theorem openable_blocks_disjoint (n a b : Nat) (hopen : openable BS n = true) (ha : a < n) (hb : b < n) (hab : a < b) :
    (a * BS) % 2 ^ 64 + BS ≤ (b * BS) % 2 ^ 64 := by
  rw [(openable_offsets_exact n a hopen ha).2, (openable_offsets_exact n b hopen hb).2]
  have : (a + 1) * BS ≤ b * BS := Nat.mul_le_mul_right BS (by omega)
  have h : (a + 1) * BS = a * BS + BS := Nat.succ_mul a BS
  omega

/-- the refused sizes are exactly those whose byte length is not a file offset -/
theorem not_openable_iff (n : Nat) : openable BS n = false ↔ maxOff < n * BS := by
  have hbs : 0 < BS := by decide
  simp only [openable, decide_eq_false_iff_not, Nat.not_le]
  constructor
  · intro h
    have := (Nat.div_lt_iff_lt_mul hbs).mp h
    exact this
  · intro h
    exact (Nat.div_lt_iff_lt_mul hbs).mpr h

theorem open_checked (img : Bytes) (n : Nat) :
    fileOpenChecked BS img n = if n * BS ≤ maxOff then some (fileOpen BS img n) else none := by
  unfold fileOpenChecked
  cases h : openable BS n
  · have h1 := (not_openable_iff n).mp h
    have h2 : ¬ (n * BS ≤ maxOff) := Nat.not_le.mpr h1
    simp [h2]
  · have hn : ¬ (openable BS n = false) := by simp [h]
    have h1 := mt (not_openable_iff n).mpr hn
    have h2 : n * BS ≤ maxOff := Nat.not_lt.mp h1
    simp [h2]

example : openable BS (2 ^ 51 - 1) = true := by decide
example : openable BS (2 ^ 51) = false := by decide
example : openable BS (2 ^ 53) = false ∧ ((2 ^ 52 + 1) * BS) % 2 ^ 64 = 1 * BS := by decide

/-! ### a failed or empty transfer inside `Write`'s retry loop is never silent (Model/ShortWrite; the loop's other theorems are in Props/C09)

Whatever the kernel transferred before — any number of short, non-empty transfers that leave the block incomplete — an error or a
transfer of zero bytes ends `Write` in a panic, never in a normal return. -/

open GooseVerif.Model.ShortWrite in
theorem write_failure_never_silent (v : List Byte) (off : Nat) (f : File) (pre rest : List Ans) (bad : Ans)
    (hpre : ∀ a ∈ pre, ∃ k, a = .wrote k ∧ 0 < k) (hshort : (pre.map Ans.count).sum < v.length)
    (hbad : bad = .err ∨ bad = .wrote 0) :
    ∃ g, writeLoop v off f 0 (pre ++ bad :: rest) = some (.panic g) :=
  loop_failure_surfaces v off bad rest hbad pre f 0 hpre (by omega)

open GooseVerif.Model.ShortWrite in
example : ∃ g, writeLoop [1, 2, 3, 4] 8 (fun _ => 9) 0 ([.wrote 1, .wrote 2] ++ .wrote 0 :: [.wrote 4]) = some (.panic g) :=
  write_failure_never_silent [1, 2, 3, 4] 8 _ [.wrote 1, .wrote 2] [.wrote 4] (.wrote 0)
    (by intro a ha; simp at ha; rcases ha with rfl | rfl <;> exact ⟨_, rfl, by omega⟩) (by decide) (Or.inr rfl)

end GooseVerif.Props.C11
