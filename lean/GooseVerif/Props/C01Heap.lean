/-
C01 — heap data: struct pointers, struct values, pointers to integer cells, slices, and the aliasing between
them (`selectExpr`/`structSelector`, `structLiteral`, `unaryExpr`, `derefExpr`, `newExpr`, `makeExpr`,
`indexExpr`, `lenExpr`, `sliceExpr`, `variable`, `referenceTo`, `varSpec`, `defineStmt`, `assignFromTo` in
`/repo/goose.go`; `StructFieldAccessExpr`, `StructLiteral`, `DerefExpr`, `StoreStmt`, `RefExpr` in
`/repo/internal/coq/coq.go`).

Property theorems only (model: `Model/Heap.lean`; relation and simulation: `Lemmas/Heap.lean`,
`Lemmas/HeapExp.lean`, `Lemmas/HeapStmt.lean`, `Lemmas/HeapTr.lean`).

Go has objects (structs, integer cells, arrays behind slices), pointers to them, struct VALUES that are
copied, and variables that can all be assigned.  GooseLang has one flat heap of blocks of cells, locations
(block, offset), tuples, and immutable `let:`-bindings.  goose translates `&T{…}` to `struct.new` (one cell
per field), `p.f` to a load at the field's offset, `v.f` on a struct value to a projection, a `var` variable
to a block of its own holding the FLATTENED value, slices to (pointer, length, capacity).
`heap_compile_correct` says: whenever the translator accepts a function body — any nesting of blocks and
conditionals, any shadowing, any aliasing between pointers, struct copies and sub-slices — then from every
pair of related states the emitted expression is not stuck, returns the value related to Go's, and leaves a
heap in which every Go object is again related to its block, under an extension of the same bijection.

What the statement does NOT cover (see the header of `Model/Heap.lean`): `append`, `&x`, the `nil` literal,
pointer comparison, loops and early returns; numbers are unbounded; when Go PANICS nothing is proved (the
examples `panics_are_stuck_examples` and the correspondence check find the emitted program stuck there).
-/
import GooseVerif.Lemmas.HeapTr
import GooseVerif.Gen.Guards
import GooseVerif.Expected.Guards

namespace GooseVerif.Props.C01Heap
open GooseVerif.Model.Heap

/-- T-gen obligation: the functions of goose.go the heap model was written from (`selectorExpr`, `structSelector`,
`fieldSelection`, `structLiteral`, `unaryExpr`, `derefExpr`, `newExpr`, `makeExpr`, `indexExpr`, `sliceExpr`, `refExpr`, …;
`assignFromTo`/`pointerAssign` and the variable forms are in `scoping`) have, up to formatting, the committed text. -/
theorem heap_facts_ok :
    GooseVerif.Gen.Guards.heap = GooseVerif.Expected.Guards.heap ∧
    GooseVerif.Gen.Guards.scoping = GooseVerif.Expected.Guards.scoping := ⟨rfl, rfl⟩

/-! ### the main theorem -/

/-- **Heap data is translated soundly.**  `R` is the bijection between Go objects and GooseLang blocks
(`R[o]` is the block of object `o`; `HRel.nodup`: no block twice).  For every function body `ss` accepted in
the static environment `ssc :: Γ`, for every Go state `(sc :: st, G)` and target state
`((esc :: envs).flatten, H)` related by `R` — the scopes level by level (`Rel`), the heaps object by object,
field by offset (`HRel`) —: if Go returns `v` with final heap `G'`, then the translation evaluates (it is
NOT STUCK) to some `tv` with final heap `H'`, and for an EXTENSION `R'` of `R` (`Pre R R'`: old objects
keep their blocks) `v` is related to `tv` and every object of `G'` is related to its block of `H'`. -/
theorem heap_compile_correct (ss : Stmts) (t : T) (v : Val) (G' : GHeap)
    (R : List Nat) (G : GHeap) (H : THeap)
    (sc : Scope) (st : Stack) (ssc : SScope) (Γ : SEnv) (esc : Env) (envs : List Env)
    (hacc : tr (ssc :: Γ) ss = .ok t)
    (hrel : Rel R H (sc :: st) (ssc :: Γ) (esc :: envs)) (hheap : HRel R G H)
    (hgo : runGoIn (sc :: st) G ss = .ok (v, G')) :
    ∃ tv H' R', evalT (esc :: envs).flatten H t = some (tv, H') ∧ Pre R R' ∧ VRel R' v tv ∧ HRel R' G' H' := by
  unfold runGoIn at hgo
  cases hx : execStmts (sc :: st) G ss with
  | panic => simp [hx] at hgo
  | bad => simp [hx] at hgo
  | ok out =>
    cases out with
    | normal st' G1 => simp [hx] at hgo
    | returned v1 G1 =>
      simp [hx] at hgo
      obtain ⟨rfl, rfl⟩ := hgo
      have hp := sound_stmts ss true ssc Γ sc st esc envs R G H t _ hacc hrel hheap hx
      obtain ⟨_, tv, H', R', he, hpre, hv, hh⟩ := hp
      exact ⟨tv, H', R', by simpa using he, hpre, hv, hh⟩

/-- A function without parameters, from the empty state: translate-and-run agrees with Go. -/
theorem heap_compile_correct_closed (ss : Stmts) (t : T) (v : Val) (G' : GHeap)
    (hacc : tr emptyEnv ss = .ok t) (hgo : runGo ss = .ok (v, G')) :
    ∃ tv H' R', runT t = some (tv, H') ∧ VRel R' v tv ∧ HRel R' G' H' := by
  have hrel : Rel [] [] [[]] [[]] [[]] := .cons .nil .nil
  have hheap : HRel [] [] [] := ⟨rfl, by simp, by simp, by simp⟩
  obtain ⟨tv, H', R', he, _, hv, hh⟩ :=
    heap_compile_correct ss t v G' [] [] [] [] [] [] [] [] [] hacc hrel hheap hgo
  exact ⟨tv, H', R', by simpa [runT] using he, hv, hh⟩

/-- … in particular a returned NUMBER is the same number, and the emitted expression is never stuck when Go
returns normally. -/
theorem returned_number_agrees (ss : Stmts) (t : T) (n : Nat) (G' : GHeap)
    (hacc : tr emptyEnv ss = .ok t) (hgo : runGo ss = .ok (.num n, G')) :
    ∃ H', runT t = some (.base (.num n), H') := by
  obtain ⟨tv, H', R', he, hv, _⟩ := heap_compile_correct_closed ss t (.num n) G' hacc hgo
  have := hv.num_inv
  subst this
  exact ⟨H', he⟩

theorem accepted_never_stuck (ss : Stmts) (t : T) (v : Val) (G' : GHeap)
    (hacc : tr emptyEnv ss = .ok t) (hgo : runGo ss = .ok (v, G')) : runT t ≠ none := by
  obtain ⟨tv, H', _, he, _, _⟩ := heap_compile_correct_closed ss t v G' hacc hgo
  simp [he]

/-- The model's translator is goose's behaviour wherever it accepts: `trGoose` (which also accepts the known
shape `v := T{…}; v.f = e`) gives the same expression.  So the theorems speak about what goose emits. -/
theorem tr_le_trGoose (Γ : SEnv) (ss : Stmts) (t : T) (hacc : tr Γ ss = .ok t) : trGoose Γ ss = .ok t :=
  trStmts_guard_le ss true Γ t hacc

/-- "Same contents of everything reachable": what a returned `*T` points to.  In the final states of
`heap_compile_correct`, a non-nil Go pointer is the location (block `R'[o]`, offset 0); that block holds the
object's `a`, `b` and a cell related to its `n` — to which the same applies again. -/
theorem reachable_struct_agrees {R : List Nat} {G : GHeap} {H : THeap} (hh : HRel R G H) {o a b : Nat} {n : Option Nat}
    {tv : TVal} (hv : VRel R (.ptrS (some o)) tv) (ho : G[o]? = some (.str a b n)) :
    ∃ blk w, tv = .base (.loc blk 0) ∧ R[o]? = some blk ∧ H[blk]? = some [.num a, .num b, w] ∧ PRel R n w := by
  have hs : getStr G o = .ok (a, b, n) := by simp [getStr, ho]
  exact deref_ptrS hh hv hs

/-- … and a returned slice: the block of its array holds exactly the array's numbers, the slice value has the
same offset, length and capacity. -/
theorem reachable_slice_agrees {R : List Nat} {G : GHeap} {H : THeap} (hh : HRel R G H) {o off l c : Nat}
    {vs : List Nat} {tv : TVal} (hv : VRel R (.sl o off l c) tv) (hc : 0 < c) (ho : G[o]? = some (.arr vs)) :
    ∃ blk, tv = .sl (.loc blk off) l c ∧ R[o]? = some blk ∧ H[blk]? = some (vs.map BVal.num) := by
  have hs : getArr G o = .ok vs := by simp [getArr, ho]
  exact slice_block hh hv hc hs

/-! ### corollaries -/

/-- **Aliasing is preserved (1): pointer equality.**  Under a bijection without repetitions two Go pointers
of the same type (`*T`, possibly nil, or `*uint64`) are equal iff their translations are equal. -/
theorem aliasing_preserved {R : List Nat} (hn : R.Nodup) {v1 v2 : Val} {tv1 tv2 : TVal}
    (h1 : VRel R v1 tv1) (h2 : VRel R v2 tv2)
    (hty : (v1.ty = .ptrT ∧ v2.ty = .ptrT) ∨ (v1.ty = .ptrN ∧ v2.ty = .ptrN)) : v1 = v2 ↔ tv1 = tv2 := by
  have key : ∀ {o1 o2 b1 b2 : Nat}, R[o1]? = some b1 → R[o2]? = some b2 → (o1 = o2 ↔ b1 = b2) := by
    intro o1 o2 b1 b2 e1 e2
    constructor
    · intro h; subst h; rw [e1] at e2; cases e2; rfl
    · intro h; subst h
      exact (List.getElem?_inj (lt_of_getElem? e1) hn).mp (by rw [e1, e2])
  rcases hty with ⟨t1, t2⟩ | ⟨t1, t2⟩
  · cases v1 <;> simp [Val.ty] at t1
    cases v2 <;> simp [Val.ty] at t2
    next o1 o2 =>
    obtain ⟨w1, rfl, p1⟩ := h1
    obtain ⟨w2, rfl, p2⟩ := h2
    cases o1 with
    | none =>
      cases o2 with
      | none => simp [PRel] at p1 p2; subst p1 p2; simp
      | some o2 =>
        obtain ⟨b2, _, rfl⟩ := p2
        simp [PRel] at p1; subst p1; simp
    | some o1 =>
      obtain ⟨b1, e1, rfl⟩ := p1
      cases o2 with
      | none => simp [PRel] at p2; subst p2; simp
      | some o2 =>
        obtain ⟨b2, e2, rfl⟩ := p2
        simpa using key e1 e2
  · cases v1 <;> simp [Val.ty] at t1
    cases v2 <;> simp [Val.ty] at t2
    next o1 o2 =>
    obtain ⟨b1, e1, rfl⟩ := h1
    obtain ⟨b2, e2, rfl⟩ := h2
    simpa using key e1 e2

/-- **Aliasing is preserved (2): a store through one pointer is visible through another exactly when Go says
so.**  `p := &T{a: 1, b: 2}; q := p; r := &T{a: 1, b: 2}; p.a = k; return T{a: q.a, b: r.a}`: for every `k`
Go returns `{k, 1}` — the alias `q` sees the store, the equal-looking but distinct `r` does not — and the
translation returns `(#k, (#1, (null, #())))`. -/
theorem store_visible_through_alias_only (k : Nat) :
    (∃ t, tr emptyEnv (exAlias k) = .ok t) ∧
    goVal (exAlias k) = some (.str k 1 none) ∧
    trVal (exAlias k) = some (.str (.num k) (.num 1) .null) :=
  ⟨⟨_, rfl⟩, rfl, rfl⟩

/-- **Struct values are copied.**  For all numbers: (1) `var v T = T{a, b}; var w T = v; w.a = k;
return T{a: v.a, b: w.a}` returns `{a, k}`: mutating the copy leaves the original unchanged; (2) `w := *p`
copies the struct out of the object: a later `p.a = k` is not seen through `w`; (3) `*q = *p` copies INTO an
object: a later `q.a = k` is not seen through `p`.  On both sides. -/
theorem struct_values_are_copied (a b k : Nat) :
    (goVal (exCopyVar a b k) = some (.str a k none) ∧
      trVal (exCopyVar a b k) = some (.str (.num a) (.num k) .null)) ∧
    (goVal (exCopyDeref a b k) = some (.str k a none) ∧
      trVal (exCopyDeref a b k) = some (.str (.num k) (.num a) .null)) ∧
    (goVal (exCopyStore a b k) = some (.str a k none) ∧
      trVal (exCopyStore a b k) = some (.str (.num a) (.num k) .null)) :=
  ⟨⟨rfl, rfl⟩, ⟨rfl, rfl⟩, ⟨rfl, rfl⟩⟩

/-- **Sub-slices share their array.**  `s := make([]uint64, 5); t := s[1:4]; t[1] = 7; return s[j]`: for every
`j < 5` both sides return 7 if `j = 2` (the shifted index 1 + 1) and 0 otherwise — the write through the
sub-slice is seen through the original at the shifted index, and only there.  And with `s[2:]` followed by
`[:2]`: the final heaps are the array `[0, 0, 0, 7, 0]` and the block of the same five cells. -/
theorem subslices_share :
    (∀ j, j < 5 →
      goVal (exSubslice j) = some (.num (if j = 2 then 7 else 0)) ∧
      trVal (exSubslice j) = some (.base (.num (if j = 2 then 7 else 0)))) ∧
    runGo exSubsliceWhole = .ok (.sl 0 0 5 5, [.arr [0, 0, 0, 7, 0]]) ∧
    runTr exSubsliceWhole = some (.sl (.loc 0 0) 5 5, [[.num 0, .num 0, .num 0, .num 7, .num 0]]) := by
  refine ⟨?_, by decide, by decide⟩
  intro j hj
  have : j = 0 ∨ j = 1 ∨ j = 2 ∨ j = 3 ∨ j = 4 := by omega
  rcases this with rfl | rfl | rfl | rfl | rfl <;> exact ⟨by decide, by decide⟩

/-- **A fresh allocation is disjoint from everything that exists** (expressions).  In the situation of the
theorem, for any expression: Go's heap only grows (`G' = G ++ dG`: no existing object changes), the target
heap only grows (`H' = H ++ dH`: no existing block changes — neither an object's nor a variable's), the
bijection only grows, and every NEW block of the bijection lies beyond the old target heap — so it is
different from every block of an existing object and from every block of a `var` variable. -/
theorem fresh_allocation_is_disjoint (e : Exp) (t : T) (τ : Ty) (v : Val) (G' : GHeap)
    (R : List Nat) (G : GHeap) (H : THeap) (stk : Stack) (Γ : SEnv) (envs : List Env)
    (hacc : trE Γ e = .ok (t, τ)) (hrel : Rel R H stk Γ envs) (hheap : HRel R G H)
    (hgo : evalE stk G e = .ok (v, G')) :
    ∃ tv dG dR dH, evalT envs.flatten H t = some (tv, H ++ dH) ∧ G' = G ++ dG ∧
      VRel (R ++ dR) v tv ∧ HRel (R ++ dR) G' (H ++ dH) ∧
      (∀ b ∈ dR, H.length ≤ b ∧ b ∉ R ∧ ∀ y o, (y, TVal.base (.loc b o)) ∉ envs.flatten) := by
  obtain ⟨R', H', tv, he, ⟨dR, dH, rfl, rfl, hd⟩, hv, _, hh⟩ := sound_exp e R G H stk Γ envs t τ v G' hacc hrel hheap hgo
  obtain ⟨dG, rfl⟩ := evalE_grows stk e G v G' hgo
  refine ⟨tv, dG, dR, dH, he, rfl, hv, hh, ?_⟩
  intro b hb
  have hge := hd b hb
  refine ⟨hge, ?_, ?_⟩
  · intro hm
    have := hheap.bound b hm
    omega
  · intro y o hm
    have := hrel.bound hheap.bound y b o hm
    omega

/-- … and in a program: objects allocated by `&T{…}`, `new`, `make` and a second `&T{…}` with equal contents
are pairwise different: stores into the later three leave the first unchanged, on both sides. -/
theorem fresh_allocation_example :
    goVal exFresh = some (.str 1 2 none) ∧ trVal exFresh = some (.str (.num 1) (.num 2) .null) :=
  ⟨by decide, by decide⟩

/-- A linked structure, a `var` pointer variable and a shadowing block, both sides computed: the store
through `r.n` is seen through `q`; the inner `r` is a different object; `p.n` is `q`'s location. -/
theorem linked_example :
    runGo exLinked = .ok (.str 7 1 (some 0), [.str 7 0 none, .str 1 0 (some 0), .str 9 0 none]) ∧
    runTr exLinked = some (.str (.num 7) (.num 1) (.loc 0 0),
      [[.num 7, .num 0, .null], [.num 1, .num 0, .loc 0 0], [.loc 1 0], [.num 9, .num 0, .null]]) := by
  decide

/-- What is emitted for `var v T = T{a: 1, b: 2}; v.a = 5; return v.a`: the store goes to the variable's own
block (`"v"`), the read loads the block and projects. -/
theorem var_struct_field_text :
    tr emptyEnv exVarStore = .ok
      (.letIn "v" (.refTo .str (.mk false true true false (.lit 1) (.lit 2) .unit))
        (.seq (.storeF .a (.var "v") (.lit 5)) (.getF .a (.load .str (.var "v"))))) := rfl

/-! ### rejections -/

/-- goose's refusals in this fragment are the model's, with goose's messages. -/
theorem rejects_like_goose :
    tr emptyEnv (seqS [.define "x" (.lit 1), .assign "x" (.lit 2)] (.ret (.var "x"))) =
      .error "variable x is not assignable" ∧
    tr emptyEnv exDerefStore = .error "reference to other types of expressions" ∧
    trGoose emptyEnv exDerefStore = .error "reference to other types of expressions" := ⟨rfl, rfl, rfl⟩

/-- **Known finding `store-through-let-bound-value` as a theorem.**  goose accepts
`v := T{a: 1, b: 2}; v.a = 5; return v.a` and emits `struct.storeF T "a" "v" #5` with `"v"` bound to a TUPLE:
Go returns 5, the emitted program is stuck.  The model's translator refuses the program. -/
theorem store_through_let_bound_is_stuck :
    (∃ t, trGoose emptyEnv exLetStore = .ok t ∧ runT t = none) ∧
    goVal exLetStore = some (.num 5) ∧
    tr emptyEnv exLetStore = .error msgLetBoundStore :=
  ⟨⟨_, rfl, by decide⟩, by decide, rfl⟩

/-! ### mutation witnesses -/

/-- **Mutant 1: `v.f` on a struct value translated with `struct.loadF`.**  `var v T = T{a: 1, b: 2}; v.a = 5;
return v.a`: Go returns 5, goose's translation returns 5, the mutant is stuck (a load through a tuple). -/
theorem mutant_get_as_load_is_stuck :
    ∃ t, tr emptyEnv exVarStore = .ok t ∧ goVal exVarStore = some (.num 5) ∧
      runTVal t = some (.base (.num 5)) ∧ runTVal (rewrite ruleGetAsLoad t) = none :=
  ⟨_, rfl, by decide, by decide, by decide⟩

/-- **Mutant 2: `*p = v` stores only the first field.**  `p := &T{a: 1, b: 2}; *p = T{a: 3, b: 4}; return p.b`:
Go returns 4, the mutant returns 2. -/
theorem mutant_store_first_field_is_wrong :
    ∃ t, tr emptyEnv exStoreWhole = .ok t ∧ goVal exStoreWhole = some (.num 4) ∧
      runTVal t = some (.base (.num 4)) ∧ runTVal (rewrite ruleStoreFirstField t) = some (.base (.num 2)) :=
  ⟨_, rfl, by decide, by decide, by decide⟩

/-- **Mutant 3: `s[a:b]` without the offset.**  `s := make([]uint64, 3); s[1] = 7; t := s[1:3]; return t[0]`: Go
returns 7, the mutant (`SliceTake s 3`) returns 0. -/
theorem mutant_subslice_without_offset_is_wrong :
    ∃ t, tr emptyEnv exSubRead = .ok t ∧ goVal exSubRead = some (.num 7) ∧
      runTVal t = some (.base (.num 7)) ∧ runTVal (rewrite ruleSubsliceNoOffset t) = some (.base (.num 0)) :=
  ⟨_, rfl, by decide, by decide, by decide⟩

/-- **Mutant 4: `v.f = e` on a `var` struct variable written through a loaded copy** (`struct.storeF T "f"
(![struct.t T] "v") e` instead of `… "v" e`): stuck. -/
theorem mutant_store_on_copy_is_stuck :
    ∃ t, tr emptyEnv exVarStore = .ok t ∧ runTVal (rewrite ruleStoreFOnCopy t) = none :=
  ⟨_, rfl, by decide⟩

/-- Hence the theorem fails for each mutant: it is not true that the rewritten translation of every accepted
program returns the number Go returns. -/
theorem mutants_not_sound :
    (¬ ∀ ss t n, tr emptyEnv ss = .ok t → goVal ss = some (.num n) →
        runTVal (rewrite ruleGetAsLoad t) = some (.base (.num n))) ∧
    (¬ ∀ ss t n, tr emptyEnv ss = .ok t → goVal ss = some (.num n) →
        runTVal (rewrite ruleStoreFirstField t) = some (.base (.num n))) ∧
    (¬ ∀ ss t n, tr emptyEnv ss = .ok t → goVal ss = some (.num n) →
        runTVal (rewrite ruleSubsliceNoOffset t) = some (.base (.num n))) := by
  refine ⟨?_, ?_, ?_⟩
  · intro hall
    have h := hall exVarStore _ 5 rfl (by decide)
    revert h
    decide
  · intro hall
    have h := hall exStoreWhole _ 4 rfl (by decide)
    revert h
    decide
  · intro hall
    have h := hall exSubRead _ 7 rfl (by decide)
    revert h
    decide

/-! ### panics (sampled, not proved in general) -/

/-- Where Go panics — a nil dereference, an index out of range — goose accepts and the emitted expression is
stuck.  (Only these instances; the correspondence check samples more.) -/
theorem panics_are_stuck_examples :
    (runGo exNilDeref = .panic ∧ ∃ t, tr emptyEnv exNilDeref = .ok t ∧ runT t = none) ∧
    (runGo exOutOfRange = .panic ∧ ∃ t, tr emptyEnv exOutOfRange = .ok t ∧ runT t = none) :=
  ⟨⟨by decide, _, rfl, by decide⟩, ⟨by decide, _, rfl, by decide⟩⟩

/-! ### the hypotheses are satisfiable by non-trivial programs and states -/

-- accepted, returns normally, from the empty state
example : ∃ t v G', tr emptyEnv exLinked = .ok t ∧ runGo exLinked = .ok (v, G') := ⟨_, _, _, rfl, rfl⟩
example : ∃ t v G', tr emptyEnv (exAlias 5) = .ok t ∧ runGo (exAlias 5) = .ok (v, G') := ⟨_, _, _, rfl, rfl⟩

/-- A non-empty related state: Go object 0 is the struct `{1, 2, nil}` and lives in target block 1; the `:=`
variable `p` points to it; the `var` variable `x` holds 7 in its own block 0 (which is not in `R`). -/
def exR : List Nat := [1]
def exG : GHeap := [.str 1 2 none]
def exH : THeap := [[.num 7], [.num 1, .num 2, .null]]
def exStack : Stack := [[("x", .num 7), ("p", .ptrS (some 0))]]
def exSEnv : SEnv := [[("x", true, .u64), ("p", false, .ptrT)]]
def exEnvs : List Env := [[("x", .base (.loc 0 0)), ("p", .base (.loc 1 0))]]

theorem exState_heap : HRel exR exG exH where
  len := rfl
  nodup := by simp [exR]
  bound := by simp [exR, exH]
  obj := by
    intro o x hx
    match o with
    | 0 =>
      simp [exG] at hx
      subst hx
      exact ⟨1, _, rfl, rfl, .null, rfl, rfl⟩
    | o + 1 => simp [exG] at hx

theorem exState_scopes : Rel exR exH exStack exSEnv exEnvs :=
  .cons
    (.cell "x" (.num 7) (.base (.num 7)) .u64 0
      (.val "p" (.ptrS (some 0)) (.base (.loc 1 0)) .ptrT .nil ⟨.loc 1 0, rfl, 1, rfl, rfl⟩ rfl)
      rfl rfl (by simp [exR]) rfl (by intro y hy; simp at hy))
    .nil

/-- `p.a = x; x = p.b; return T{a: p.a, b: x}` in that state -/
def exInState : Stmts :=
  seqS [.storeF (.var "p") .a (.var "x"), .assign "x" (.sel (.var "p") .b)] (.ret (valT (.sel (.var "p") .a) (.var "x")))

example : ∃ t v G', tr exSEnv exInState = .ok t ∧ runGoIn exStack exG exInState = .ok (v, G') ∧
    HRel exR exG exH ∧ Rel exR exH exStack exSEnv exEnvs :=
  ⟨_, _, _, rfl, rfl, exState_heap, exState_scopes⟩

/-- … and the theorem applied to it: the translation evaluates to the related struct value. -/
theorem in_state_example :
    ∃ tv H' R', evalT exEnvs.flatten exH
        (.seq (.storeF .a (.var "p") (.load .u64 (.var "x")))
          (.seq (.store .u64 (.var "x") (.loadF .b (.var "p")))
            (.mk false true true false (.loadF .a (.var "p")) (.load .u64 (.var "x")) .unit))) = some (tv, H') ∧
      Pre exR R' ∧ VRel R' (.str 7 2 none) tv ∧ HRel R' [.str 7 2 none] H' :=
  heap_compile_correct exInState _ (.str 7 2 none) [.str 7 2 none] exR exG exH _ _ _ _ _ _ rfl
    exState_scopes exState_heap (by decide)

end GooseVerif.Props.C01Heap
