/-
C02 — package-level variables `var g T = init`: reject or faithful.

Property theorems and examples only (model: Model/Global.lean, lemmas: Lemmas/Global.lean).

goose translates the global as `Definition g : expr := <init>` and every use of `g` as that
definition: the initialiser is evaluated again at every use (`runGoose`).  Go evaluates it once, when
the package is initialised (`runGo`).  `holdsReference` is the check of `globalVarDecl` in
`/repo/goose.go`: a global whose type is or contains (through struct fields and array elements) a
pointer, slice, map, channel, function or interface is rejected.  Whenever the guard lets a global
through, every sequence of uses observes under the translation what it observes in Go
(`global_faithful_without_references`); without the guard it does not
(`reference_global_unfaithful`).

`Init.wellTyped` (all the elements of an array literal have one type) is what Go's type checker
guarantees before goose sees the program; `Init.ty` takes the element type of an array literal from
its first element, so the theorems about arbitrary initialisers assume it.
-/
import GooseVerif.Lemmas.Global
import GooseVerif.Gen.Guards
import GooseVerif.Expected.Guards

namespace GooseVerif.Props.C02Global
open GooseVerif.Model.Global

/-- T-gen obligation: `globalVarDecl` (the guard), `holdsReference` (pointer, slice, map, channel, function, interface; struct
fields and array elements looked into), `constSpec` (the initialiser becomes the body of a definition) and `variable` (a use of
the global is that definition) have, up to formatting, the committed text the model was written from.  The other tie is the
correspondence stream pylib/globalcorr.py: goose refuses a generated global exactly when `holdsReference` holds for its type. -/
theorem global_facts_ok : GooseVerif.Gen.Guards.globals = GooseVerif.Expected.Guards.globals := rfl

/-- An initialiser the guard accepts allocates nothing, and its value does not depend on the heap
it is evaluated in. -/
theorem no_reference_no_allocation (init : Init) (hw : init.wellTyped = true)
    (hr : holdsReference init.ty = false) (h h' : Heap) :
    (init.eval h).2 = h ∧ (init.eval h).1 = (init.eval h').1 := by
  rw [Init.eval_noref init hw hr h, Init.eval_noref init hw hr h']
  exact ⟨rfl, rfl⟩

/-- **Faithful under the guard**: for every (well-typed) initialiser whose type the guard accepts
and every list of uses, evaluating the initialiser again before every use (the translation)
observes exactly what Go observes, which evaluates it once. -/
theorem global_faithful_without_references (init : Init) (hw : init.wellTyped = true)
    (hr : holdsReference init.ty = false) (us : List Use) :
    runGoose init us = runGo init us := by
  have hev : ∀ h : Heap, init.eval h = ((init.eval []).1, h) := Init.eval_noref init hw hr
  have h0 : (init.eval []).2 = [] := by rw [hev []]
  unfold runGoose runGo
  rw [h0]
  exact runGooseFrom_eq_runFrom init _ hev us []

/-- **The guard is needed**: a global pointer (`var g = new(uint64)`; store 5 through it, load
through it: Go observes 5, the translation loads from a fresh cell and observes 0), and a global
struct with a pointer field (`var g = S{p: new(uint64), n: 1}`): the type is a struct, not a
reference, and the guard has to look inside it. -/
theorem reference_global_unfaithful :
    (runGo (.alloc (.lit 0)) [.store [] 5, .load []] = [some 5, some 5]
      ∧ runGoose (.alloc (.lit 0)) [.store [] 5, .load []] = [some 5, some 0]
      ∧ holdsReference (Init.alloc (.lit 0)).ty = true)
    ∧ (runGo (.mk [.alloc (.lit 0), .lit 1]) [.store [0] 7, .load [0]] = [some 7, some 7]
      ∧ runGoose (.mk [.alloc (.lit 0), .lit 1]) [.store [0] 7, .load [0]] = [some 7, some 0]
      ∧ (Init.mk [.alloc (.lit 0), .lit 1]).ty = .struct [.ref .num, .num]
      ∧ holdsReference (Init.mk [.alloc (.lit 0), .lit 1]).ty = true) := by
  decide

/-- both initialisers of `reference_global_unfaithful` are well typed: only the guard stands between
them and the unfaithful translation -/
theorem reference_global_wellTyped :
    (Init.alloc (.lit 0)).wellTyped = true ∧ (Init.mk [.alloc (.lit 0), .lit 1]).wellTyped = true := by
  decide

/-- The guard looks inside structs and arrays, to any depth. -/
theorem guard_looks_inside :
    holdsReference (.struct [.num, .array 2 (.struct [.ref .num])]) = true := by
  decide

/-- a struct holds a reference exactly when one of its fields does -/
theorem guard_struct_iff (fs : List Ty) :
    holdsReference (.struct fs) = true ↔ ∃ f, f ∈ fs ∧ holdsReference f = true := by
  rw [holdsReference_struct]
  exact holdsReferenceList_iff fs

/-- an array holds a reference exactly when its element type does (whatever its length, as in the
Go code) -/
theorem guard_array_iff (n : Nat) (e : Ty) :
    holdsReference (.array n e) = true ↔ holdsReference e = true := by
  rw [holdsReference_array]

/-- a reference type is rejected, a number is accepted -/
theorem guard_base : (∀ t, holdsReference (.ref t) = true) ∧ holdsReference .num = false := by
  constructor
  · intro t; simp [holdsReference]
  · simp [holdsReference]

/-- the decided equality of types `Init.wellTyped` uses is equality -/
theorem wellTyped_uses_equality (t t' : Ty) : Ty.beq t t' = true ↔ t = t' := Ty.beq_iff t t'

/-- `Init.wellTyped` is needed where `Init.ty` is used for an array literal: the type of
`[2]T{0, new(…)}` (not a Go program) is computed from its first element, the guard accepts it, and
the two semantics differ. -/
theorem wellTyped_needed :
    holdsReference (Init.arr [.lit 0, .alloc (.lit 0)]).ty = false
    ∧ (Init.arr [.lit 0, .alloc (.lit 0)]).wellTyped = false
    ∧ runGo (.arr [.lit 0, .alloc (.lit 0)]) [.store [1] 5, .load [1]] = [some 5, some 5]
    ∧ runGoose (.arr [.lit 0, .alloc (.lit 0)]) [.store [1] 5, .load [1]] = [some 5, some 0] := by
  decide

/-- Non-vacuity: `var g = S{n: 3, a: [2]P{{4, 5}, {6, 7}}, m: 8}` — a nested struct/array without
references; it is well typed, the guard accepts it, and both semantics read the same numbers (a
path that leaves the value, or leads to a tuple, reads nothing). -/
example :
    let init : Init := .mk [.lit 3, .arr [.mk [.lit 4, .lit 5], .mk [.lit 6, .lit 7]], .lit 8]
    let us : List Use := [.readNum [0], .readNum [1, 0, 1], .readNum [1, 1, 0], .readNum [2],
      .readNum [1], .readNum [3]]
    init.wellTyped = true ∧ holdsReference init.ty = false
    ∧ runGo init us = [some 3, some 5, some 6, some 8, none, none]
    ∧ runGoose init us = [some 3, some 5, some 6, some 8, none, none] := by
  decide

/-- the main theorem instantiated on that initialiser, its hypotheses discharged by computation -/
example (us : List Use) :
    runGoose (.mk [.lit 3, .arr [.mk [.lit 4, .lit 5], .mk [.lit 6, .lit 7]], .lit 8]) us
      = runGo (.mk [.lit 3, .arr [.mk [.lit 4, .lit 5], .mk [.lit 6, .lit 7]], .lit 8]) us :=
  global_faithful_without_references _ (by decide) (by decide) us

end GooseVerif.Props.C02Global
