/-
C18 — test_gen emits exactly one Go and one Coq test per test function.

Property theorems only (helpers: `Lemmas/TestGen.lean`). Model: `Model/TestGen.lean`.
"Test function" is the language both regular expressions of cmd/test_gen accept
(`matchHeader_iff`): a line  func<ws>[failing_]test<alnum⁺>(…  — that this coincides with the
top-level functions of a gofmt-formatted package is checked by the correspondence against
go/parser (it does not for header-like lines inside raw strings / block comments: known finding).
-/
import GooseVerif.Lemmas.TestGen
import GooseVerif.Gen.TestGenFacts
import GooseVerif.Expected.TestGenFacts

namespace GooseVerif.Props.C18
open GooseVerif.Model.TestGen GooseVerif

/-- T-gen obligation: the two regular expressions (coq mode, go mode) are the ones modelled. -/
theorem regexes_ok :
    Gen.TestGen.regexes =
      ["(?:^func\\s)(?P<fail>(failing_)?)(?P<name>test[[:alnum:]]+)(?:\\(.*)",
       "(?:^func\\s)(?P<fail>(failing_)?)(?:test)(?P<name>[[:alnum:]]+)(?:\\(.*)"] := rfl

/-- T-gen obligation: both modes skip the same files (backup, gold, _test.go; names not ending in .go or starting with _ or .). -/
theorem filters_ok :
    Gen.TestGen.suffixFilters = ["~", ".gold.v", "_test.go", ".go", "~", ".gold.v", "_test.go", ".go"] ∧
    Gen.TestGen.prefixFilters = ["_", ".", "_", "."] := ⟨rfl, rfl⟩

/-- T-gen obligation: main() and the emitted headers/footers are what the model was written from. -/
theorem facts_ok : Gen.TestGen.mainBody = Expected.TestGen.mainBody ∧ Gen.TestGen.constants = Expected.TestGen.constants :=
  ⟨rfl, rfl⟩

/-- T-gen obligation: `inBothViews` asks `go/build` whether a file is in the package with and without the build tag `goose` and
keeps it only if both say yes — the meaning of the model's parameter `File.excluded`. -/
theorem build_view_facts_ok : Gen.TestGen.inBothViewsBody = Expected.TestGen.inBothViewsBody := rfl

/-- A file that build constraints exclude contributes nothing in either mode, whatever it contains (repair 6f8ef23). -/
theorem excluded_files_contribute_nothing (pre post : List File) (f : File) (hx : f.excluded = true) :
    testsOf (pre ++ f :: post) = testsOf (pre ++ post) ∧ genCoq (pre ++ f :: post) = genCoq (pre ++ post) ∧
      genGo (pre ++ f :: post) = genGo (pre ++ post) := by
  have hs : (!skippedFile f) = false := by simp [skippedFile, hx]
  refine ⟨?_, ?_, ?_⟩ <;> simp [testsOf, genCoq, genGo, List.filter_append, List.filter_cons, hs]

/-- The language of test-function headers (what both regular expressions accept). -/
theorem match_iff (line : List Char) (h : Header) :
    matchHeader line = some h ↔
      ∃ w rest, line = "func".toList ++ [w] ++ (if h.failing then "failing_".toList else []) ++
                       "test".toList ++ h.suffix ++ '(' :: rest ∧
        isWs w = true ∧ h.suffix ≠ [] ∧ h.suffix.all isAlnum = true :=
  matchHeader_iff line h

/-- Exactly one test per matching line, in source order, nothing else — Go file … -/
theorem one_per_function_go (files : List File) :
    genGo files = goHeader ++ String.join ((testsOf files).map goEntry) ++ goFooter :=
  genGo_eq files

/-- … and Coq file (grouped per scanned file, each group under a comment naming the file). -/
theorem one_per_function_coq (files : List File) :
    genCoq files = coqHeader ++ String.join ((files.filter (fun f => !skippedFile f)).map (fun f =>
      s!"(* {f.name} *)\n" ++ String.join ((f.lines.filterMap matchHeader).map coqEntry) ++ "\n")) := rfl

/-- Both generators emit tests for the same functions, in the same order: they share the scanner,
the matcher and (regenerated fact `filters_ok`) the file filter. -/
theorem generators_agree (files : List File) :
    testsOf files = (files.filter (fun f => !skippedFile f)).flatMap (fun f => f.lines.filterMap matchHeader) := rfl

/-- Failing tests are marked as expected failures in Coq, and only they. -/
theorem failing_marked (h : Header) :
    coqEntry h = (if h.failing then "Fail " else "") ++ "Example " ++ h.name ++ "_ok : " ++ h.fullName ++ " #() ~~> #true := t.\n" := by
  cases hf : h.failing <;> simp [coqEntry, hf, Header.fullName, toString]

/-! ### non-vacuity -/

example : matchHeader "func testAdd64Equals() bool {".toList = some { failing := false, suffix := "Add64Equals".toList } := by decide
example : matchHeader "func failing_testFunctionOrdering() bool {".toList = some { failing := true, suffix := "FunctionOrdering".toList } := by decide
example : matchHeader "func (t T) testMethod() bool {".toList = none := by decide
example : matchHeader "func disabled_testX() bool {".toList = none := by decide
example : matchHeader "\tfunc testIndented() bool {".toList = none := by decide
example : matchHeader "func test_under() bool {".toList = none := by decide

end GooseVerif.Props.C18
