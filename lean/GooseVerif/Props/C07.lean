/-
C07 — goose never crashes: output or structured, located errors.

Property theorems only. What is proved here is the aggregation logic and the inventory tie; that
no raw panic escapes is established by fix d90bde0 (every panic inside a declaration's translation
becomes a located `impossible(go)` error) together with the regenerated inventory of the places
that can raise one, and is exercised by the corpus correspondence (standard library, probes).
-/
import GooseVerif.Model.Workers
import GooseVerif.Gen.PanicSites
import GooseVerif.Expected.PanicSites

namespace GooseVerif.Props.C07
open GooseVerif.Model.Workers GooseVerif

/-- T-gen obligation: the inventory of raw-panic sites (explicit `panic`, unchecked type
assertions, constant indexing of AST child lists) per function of the translator packages is the
reviewed one: a new site changes this obligation and the check then searches for an input that
reaches it. -/
theorem crash_sites_inventory : Gen.PanicSites.sites = Expected.PanicSites.sites := rfl

/-- An error in one declaration does not stop the other errors from being reported: the errors of
a package are exactly the errors of its failing declarations, in source order … -/
theorem errors_independent (files : List (List DeclResult)) (e : String) :
    e ∈ collectErrors files ↔ ∃ f ∈ files, ∃ d ∈ f, d.err = some e := by
  simp only [collectErrors, List.mem_filterMap, List.mem_flatten]
  constructor
  · rintro ⟨d, ⟨f, hf, hd⟩, he⟩; exact ⟨f, hf, d, hd, he⟩
  · rintro ⟨f, hf, d, hd, he⟩; exact ⟨d, ⟨f, hf, hd⟩, he⟩

/-- … and their number is the number of failing declarations (none is dropped or merged). -/
theorem errors_count (files : List (List DeclResult)) :
    (collectErrors files).length = ((files.flatten).filter (fun d => d.err.isSome)).length := by
  simp only [collectErrors]
  induction files.flatten with
  | nil => rfl
  | cons d ds ih =>
    cases h : d.err <;> simp [List.filterMap_cons, List.filter_cons, h, ih]

/-- adding a failing declaration anywhere leaves the other errors in place -/
theorem errors_append (f1 f2 : List (List DeclResult)) :
    collectErrors (f1 ++ f2) = collectErrors f1 ++ collectErrors f2 := by
  simp [collectErrors, List.flatten_append, List.filterMap_append]

example : collectErrors [[{ err := none, out := ["a"] }, { err := some "e1", out := [] }], [{ err := some "e2", out := [] }]] = ["e1", "e2"] := by decide

end GooseVerif.Props.C07
