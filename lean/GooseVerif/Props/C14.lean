/-
C14 — Filesystem operations are linearizable under concurrency.

Property theorems only (helpers: `Lemmas/Lock.lean`, `Lemmas/MemFsConc.lean`, `Lemmas/MemFs.lean`).
MemFs: the generic lock theorem instantiated with the protocol whose lock modes come from the
regenerated lock summaries; its sequential specification is `MemFs.step`, which refines the
reference model (C12). DirFs: every operation except `List` and `AtomicCreate` is one system call;
the kernel's atomicity of `openat(O_EXCL)`, `linkat`, `unlinkat`, `renameat`, `write`, `pread`
is assumed, not proved. The Go scheduler and data races are exercised by the stress
correspondence (porcupine against the reference model; race detector).
-/
import GooseVerif.Lemmas.MemFsConc
import GooseVerif.Lemmas.MemFs
import GooseVerif.Gen.FsFacts
import GooseVerif.Expected.FsFacts

namespace GooseVerif.Props.C14
open GooseVerif.Model.Lock GooseVerif.Model.MemFsConc GooseVerif.Model.Fs GooseVerif

/-- T-gen obligation: every exported MemFs method locks the mutex first and unlocks it by `defer`;
the helpers that touch the maps take no lock themselves … -/
theorem lock_summaries_ok :
    Gen.Fs.memFsLocks =
      [("MemFs.Append", "W"), ("MemFs.AtomicCreate", "W"), ("MemFs.Close", "W"), ("MemFs.Create", "W"),
       ("MemFs.Delete", "W"), ("MemFs.Link", "W"), ("MemFs.List", "W"), ("MemFs.Mkdir", "W"),
       ("MemFs.Open", "W"), ("MemFs.ReadAt", "W"),
       ("MemFs.checkDir", "none:uses validDirs"), ("MemFs.checkMode", "none:uses openFiles"),
       ("MemFs.newFd", "none:uses lastFd,openFiles"), ("MemFs.nextInode", "none:uses inodes")] := rfl

/-- … and are what the sequential model was written from (so the helpers are called from locked
methods only, and descriptor allocation happens inside the critical section). -/
theorem facts_ok : Gen.Fs.fsDecls = Expected.Fs.fsDecls := rfl

/-- Every method is a writer of the mutex protocol. -/
theorem modes_from_code (op : Op) : memFsProtocol.mode op = .W := all_writers op

/-- MemFs is linearizable: for every set of goroutines, programs and schedules the order of mutex
acquisitions is a linearisation — every completed call returned what it returns in the sequential
replay, and real-time order is respected. -/
theorem memfs_linearizable (progs : Nat → List Op)
    (s : Sys MemFs Op Out (Option Out)) (h : Reachable memFsProtocol MemFs.empty progs s) :
    (s.lin.map (·.1)).Nodup ∧
    (∀ id r, Event.resp id r ∈ s.trace → lookupId (replay memFsProtocol MemFs.empty s.lin.reverse).2 id = some r) ∧
    (∀ a b, RespBeforeInv s.trace a b → a ∈ s.lin.map (·.1) ∧ (b ∈ s.lin.map (·.1) → LinBefore s.lin a b)) :=
  locked_linearizable memFsProtocol readers_read_only MemFs.empty progs s h

/-- The sequential specification used by the replay is the sequential MemFs model … -/
theorem seq_spec (s : MemFs) (op : Op) : runAlone memFsProtocol op s = s.step op := runAlone_eq s op

/-- … which refines the reference model on valid histories (C12): concurrent Create of one name
succeeds exactly once (`C12.create_exclusive`), descriptors handed out are distinct
(`C12.descriptors_fresh`), appends are applied atomically and none is lost. -/
theorem seq_refines_ref (ops : List Op) (hv : Ref.valid Ref.empty ops = true) :
    (MemFs.empty.run (ops.map shiftOp)).2 = (Ref.empty.run ops).2.map shiftOut := by
  have h : ∀ o ∈ (Ref.empty.run ops).2, o ≠ .invalid := by
    intro o ho heq
    simp only [Ref.valid, Bool.not_eq_true', List.contains_eq_mem, decide_eq_false_iff_not] at hv
    exact hv (heq ▸ ho)
  exact (mem_run_sim ops _ _ memSim_empty h).1

end GooseVerif.Props.C14
