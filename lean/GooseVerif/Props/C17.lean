/-
C17 — goose command: exit status, file placement and partial output.

Property theorems only. Model: `Model/Cmd.lean` — the loop of `translate` over the per-package
results and `writeFileIfChanged`; the translator's results are inputs (C01–C07), the output path
is `Header.importToPath` (C08).
-/
import GooseVerif.Model.Cmd
import GooseVerif.Gen.CmdFacts
import GooseVerif.Expected.CmdFacts

namespace GooseVerif.Props.C17
open GooseVerif.Model.Cmd GooseVerif.Model.Header GooseVerif

/-- T-gen obligation: cmd/goose (translate, writeFileIfChanged, the flags) and the loader
configuration (`-tags goose`, one goroutine per package) are what the model was written from. -/
theorem facts_ok :
    Gen.Cmd.cmdDecls = Expected.Cmd.cmdDecls ∧ Gen.Cmd.loaderFunctions = Expected.Cmd.loaderFunctions := ⟨rfl, rfl⟩

def Writable (pkgs : List Pkg) : Prop := ∀ p ∈ pkgs, p.prior ≠ .unwritable

theorem loop_exit (ign : Bool) (pkgs : List Pkg) (hw : Writable pkgs) (se : Bool) (w u : List String) :
    (loop ign pkgs se w u).exit = 0 ↔ se = false ∧ ∀ p ∈ pkgs, p.hasErr = false := by
  induction pkgs generalizing se w u with
  | nil => cases se <;> simp [loop]
  | cons p ps ih =>
    have hw' : Writable ps := fun q hq => hw q (List.mem_cons_of_mem _ hq)
    have hp : p.prior ≠ .unwritable := hw p List.mem_cons_self
    simp only [loop]
    split
    · rename_i hc
      rw [ih hw']
      simp only [Bool.and_eq_true] at hc
      simp [hc.1]
    · rename_i hc
      split
      · rw [ih hw']; cases se <;> cases he : p.hasErr <;> simp_all
      · rw [ih hw']; cases se <;> cases he : p.hasErr <;> simp_all
      · rw [ih hw']; cases se <;> cases he : p.hasErr <;> simp_all
      · rename_i hpr; exact absurd hpr hp

theorem loop_written (ign : Bool) (pkgs : List Pkg) (hw : Writable pkgs) (se : Bool) (w u : List String) :
    (loop ign pkgs se w u).written =
      w.reverse ++ ((pkgs.filter (fun p => (!p.hasErr || (ign && !p.noOutput)) && p.prior != .same)).map outPath) := by
  induction pkgs generalizing se w u with
  | nil => simp [loop]
  | cons p ps ih =>
    have hw' : Writable ps := fun q hq => hw q (List.mem_cons_of_mem _ hq)
    have hp : p.prior ≠ .unwritable := hw p List.mem_cons_self
    simp only [loop]
    split
    · rename_i hc
      rw [ih hw']
      simp only [Bool.and_eq_true] at hc
      have hf : (!p.hasErr || (ign && !p.noOutput)) = false := by
        have h1 := hc.1; have h2 := hc.2
        cases hi : ign <;> cases hn : p.noOutput <;> simp_all
      simp [List.filter_cons, hf]
    · rename_i hc
      have hc' : (!p.hasErr || (ign && !p.noOutput)) = true := by
        cases he : p.hasErr <;> cases hi : ign <;> cases hn : p.noOutput <;> simp_all
      split
      · rename_i hpr; rw [ih hw']; simp [List.filter_cons, hc', hpr]
      · rename_i hpr; rw [ih hw']; simp [List.filter_cons, hc', hpr]
      · rename_i hpr; rw [ih hw']; simp [List.filter_cons, hc', hpr]
      · rename_i hpr; exact absurd hpr hp

/-- goose exits 0 exactly when every matched package translated without error (no pattern
error, and nothing in the way of the output files). -/
theorem exit_zero_iff (patternErr ign : Bool) (pkgs : List Pkg) (hw : Writable pkgs) :
    (run patternErr ign pkgs).exit = 0 ↔ patternErr = false ∧ ∀ p ∈ pkgs, p.hasErr = false := by
  unfold run
  cases patternErr
  · simp only [Bool.false_eq_true, ↓reduceIte, true_and]
    have := loop_exit ign pkgs hw false [] []
    simpa using this
  · simp

/-- Files (re)written: one per package that translated (or any package, under -ignore-errors)
whose existing file does not already have that content, at the path derived from its import
path; a package with a conversion error writes nothing without -ignore-errors, and a package that
has no translation at all (load error, refused for reaching two FFIs) writes nothing ever. -/
theorem files_written (ign : Bool) (pkgs : List Pkg) (hw : Writable pkgs) :
    (run false ign pkgs).written =
      (pkgs.filter (fun p => (!p.hasErr || (ign && !p.noOutput)) && p.prior != .same)).map (fun p => importToPath p.pkgPath) := by
  have := loop_written ign pkgs hw false [] []
  simp only [run, Bool.false_eq_true, ↓reduceIte, List.reverse_nil, List.nil_append] at this ⊢
  rw [this]
  rfl

/-- A file whose content would not change is not rewritten. -/
theorem unchanged_not_rewritten (ign : Bool) (pkgs : List Pkg) (hw : Writable pkgs) (p : Pkg)
    (hp : p ∈ pkgs) (hs : p.prior = .same)
    (hinj : ∀ q ∈ pkgs, outPath q = outPath p → q.prior = .same) :
    outPath p ∉ (run false ign pkgs).written := by
  rw [files_written ign pkgs hw]
  simp only [List.mem_map, List.mem_filter, not_exists, not_and]
  intro q ⟨hq, hc⟩ heq
  have := hinj q hq (by simpa [outPath] using heq)
  simp [this] at hc

/-- A pattern error stops everything. -/
theorem pattern_error (ign : Bool) (pkgs : List Pkg) :
    (run true ign pkgs).exit = 1 ∧ (run true ign pkgs).written = [] := by simp [run]

/-! ### non-vacuity -/

example : (run false false
    [{ pkgPath := "m/a", hasErr := false, prior := .absent }, { pkgPath := "m/b", hasErr := true, prior := .different },
     { pkgPath := "m/c", hasErr := false, prior := .same }]).exit = 1 := by decide

end GooseVerif.Props.C17
