/-
C17 — goose command: exit status, file placement and partial output.

Property theorems only. Model: `Model/Cmd.lean` — the loop of `translate` over the per-package
results and `writeFileIfChanged`; the translator's results are inputs (C01–C07), the output path
is `Header.importToPath` (C08).
-/
import GooseVerif.Model.Cmd
import GooseVerif.Gen.CmdFacts
import GooseVerif.Expected.CmdFacts

namespace GooseVerif.Props.C17
open GooseVerif.Model.Cmd GooseVerif.Model.Header GooseVerif

/-- T-gen obligation: cmd/goose (translate, writeFileIfChanged, the flags) and the loader
configuration (`-tags goose`, one goroutine per package) are what the model was written from. -/
theorem facts_ok :
    Gen.Cmd.cmdDecls = Expected.Cmd.cmdDecls ∧ Gen.Cmd.loaderFunctions = Expected.Cmd.loaderFunctions := ⟨rfl, rfl⟩

def Writable (pkgs : List Pkg) : Prop := ∀ p ∈ pkgs, p.prior ≠ .unwritable

theorem loop_exit (ign : Bool) (pkgs : List Pkg) (hw : Writable pkgs) (se : Bool) (w u : List String) :
    (loop ign pkgs se w u).exit = 0 ↔ se = false ∧ ∀ p ∈ pkgs, p.hasErr = false := by
  induction pkgs generalizing se w u with
  | nil => cases se <;> simp [loop]
  | cons p ps ih =>
    have hw' : Writable ps := fun q hq => hw q (List.mem_cons_of_mem _ hq)
    have hp : p.prior ≠ .unwritable := hw p List.mem_cons_self
    simp only [loop]
    split
    · rename_i hc
      rw [ih hw']
      simp only [Bool.and_eq_true] at hc
      simp [hc.1]
    · rename_i hc
      split
      · rw [ih hw']; cases se <;> cases he : p.hasErr <;> simp_all
      · rw [ih hw']; cases se <;> cases he : p.hasErr <;> simp_all
      · rw [ih hw']; cases se <;> cases he : p.hasErr <;> simp_all
      · rename_i hpr; exact absurd hpr hp

theorem loop_written (ign : Bool) (pkgs : List Pkg) (hw : Writable pkgs) (se : Bool) (w u : List String) :
    (loop ign pkgs se w u).written =
      w.reverse ++ ((pkgs.filter (fun p => (!p.hasErr || (ign && !p.noOutput)) && p.prior != .same)).map outPath) := by
  induction pkgs generalizing se w u with
  | nil => simp [loop]
  | cons p ps ih =>
    have hw' : Writable ps := fun q hq => hw q (List.mem_cons_of_mem _ hq)
    have hp : p.prior ≠ .unwritable := hw p List.mem_cons_self
    simp only [loop]
    split
    · rename_i hc
      rw [ih hw']
      simp only [Bool.and_eq_true] at hc
      have hf : (!p.hasErr || (ign && !p.noOutput)) = false := by
        have h1 := hc.1; have h2 := hc.2
        cases hi : ign <;> cases hn : p.noOutput <;> simp_all
      simp [List.filter_cons, hf]
    · rename_i hc
      have hc' : (!p.hasErr || (ign && !p.noOutput)) = true := by
        cases he : p.hasErr <;> cases hi : ign <;> cases hn : p.noOutput <;> simp_all
      split
      · rename_i hpr; rw [ih hw']; simp [List.filter_cons, hc', hpr]
      · rename_i hpr; rw [ih hw']; simp [List.filter_cons, hc', hpr]
      · rename_i hpr; rw [ih hw']; simp [List.filter_cons, hc', hpr]
      · rename_i hpr; exact absurd hpr hp

/-- the output paths of the matched packages are pairwise different -/
def Distinct (pkgs : List Pkg) : Prop := (pkgs.map outPath).Nodup

/-- When no two packages share an output path the collision test of the loop never fires. -/
theorem loopC_eq_loop (ign : Bool) (pkgs : List Pkg) (hd : Distinct pkgs) (se : Bool) (w u seen : List String)
    (hs : ∀ p ∈ pkgs, outPath p ∉ seen) : loopC ign pkgs se w u seen = loop ign pkgs se w u := by
  induction pkgs generalizing se w u seen with
  | nil => simp [loopC, loop]
  | cons p ps ih =>
    have hd2 : (outPath p :: ps.map outPath).Nodup := by unfold Distinct at hd; rwa [List.map_cons] at hd
    have hd' : Distinct ps := (List.nodup_cons.mp hd2).2
    have hpn : ∀ q ∈ ps, outPath q ≠ outPath p := by
      intro q hq heq
      exact (List.nodup_cons.mp hd2).1 (heq ▸ List.mem_map_of_mem (f := outPath) hq)
    have hps : outPath p ∉ seen := hs p List.mem_cons_self
    have hs' : ∀ q ∈ ps, outPath q ∉ seen := fun q hq => hs q (List.mem_cons_of_mem _ hq)
    have hs'' : ∀ q ∈ ps, outPath q ∉ outPath p :: seen := by
      intro q hq hm
      rcases List.mem_cons.mp hm with h | h
      · exact hpn q hq h
      · exact hs' q hq h
    simp only [loopC, loop]
    split
    · exact ih hd' _ _ _ _ hs'
    · have hc : seen.contains (outPath p) = false := by simpa using hps
      simp only [hc, Bool.false_eq_true, ↓reduceIte]
      split
      · exact ih hd' _ _ _ _ hs''
      · exact ih hd' _ _ _ _ hs''
      · exact ih hd' _ _ _ _ hs''
      · rfl

theorem run_eq_loop (ign : Bool) (pkgs : List Pkg) (hd : Distinct pkgs) :
    run false ign pkgs = loop ign pkgs false [] [] := by
  simp only [run, Bool.false_eq_true, ↓reduceIte]
  exact loopC_eq_loop ign pkgs hd false [] [] [] (by simp)

/-- goose exits 0 exactly when every matched package translated without error (no pattern
error, nothing in the way of the output files, no two packages with the same output path). -/
theorem exit_zero_iff (patternErr ign : Bool) (pkgs : List Pkg) (hw : Writable pkgs) (hd : Distinct pkgs) :
    (run patternErr ign pkgs).exit = 0 ↔ patternErr = false ∧ ∀ p ∈ pkgs, p.hasErr = false := by
  cases patternErr
  · rw [run_eq_loop ign pkgs hd]
    have := loop_exit ign pkgs hw false [] []
    simpa using this
  · simp [run]

/-- Two packages whose import paths map to the same output file (`m/a-b` and `m/a_b`): the run fails and the second
translation does not overwrite the first (before repair c3c81c9 the command exited 0 with one file). -/
theorem colliding_packages_fail (ign : Bool) (p q : Pkg) (hp : p.hasErr = false) (hq : q.hasErr = false)
    (hpp : p.prior = .absent) (hsame : outPath q = outPath p) :
    (run false ign [p, q]).exit = 1 ∧ (run false ign [p, q]).written = [outPath p] := by
  simp [run, loopC, hp, hq, hpp, hsame]

/-- Files (re)written: one per package that translated (or any package, under -ignore-errors)
whose existing file does not already have that content, at the path derived from its import
path; a package with a conversion error writes nothing without -ignore-errors, and a package that
has no translation at all (load error, refused for reaching two FFIs) writes nothing ever. -/
theorem files_written (ign : Bool) (pkgs : List Pkg) (hw : Writable pkgs) (hd : Distinct pkgs) :
    (run false ign pkgs).written =
      (pkgs.filter (fun p => (!p.hasErr || (ign && !p.noOutput)) && p.prior != .same)).map (fun p => importToPath p.pkgPath) := by
  rw [run_eq_loop ign pkgs hd]
  have := loop_written ign pkgs hw false [] []
  simp only [List.reverse_nil, List.nil_append] at this
  rw [this]
  rfl

/-- A file whose content would not change is not rewritten. -/
theorem unchanged_not_rewritten (ign : Bool) (pkgs : List Pkg) (hw : Writable pkgs) (hd : Distinct pkgs) (p : Pkg)
    (hp : p ∈ pkgs) (hs : p.prior = .same)
    (hinj : ∀ q ∈ pkgs, outPath q = outPath p → q.prior = .same) :
    outPath p ∉ (run false ign pkgs).written := by
  rw [files_written ign pkgs hw hd]
  simp only [List.mem_map, List.mem_filter, not_exists, not_and]
  intro q ⟨hq, hc⟩ heq
  have := hinj q hq (by simpa [outPath] using heq)
  simp [this] at hc

/-- A pattern error stops everything. -/
theorem pattern_error (ign : Bool) (pkgs : List Pkg) :
    (run true ign pkgs).exit = 1 ∧ (run true ign pkgs).written = [] := by simp [run]

/-! ### non-vacuity

(Concrete runs — which need the string functions of `importToPath` to be evaluated — are compared with the real command by
pylib/c17.py through `driver cli`; here: the hypotheses of the theorems are satisfiable.) -/

example : Writable [{ pkgPath := "m/a", hasErr := false, prior := .absent }, { pkgPath := "m/b", hasErr := true, prior := .different }] := by
  intro p hp; simp at hp; rcases hp with rfl | rfl <;> simp
example : Distinct [] := List.nodup_nil
example : ∃ p q : Pkg, p.hasErr = false ∧ q.hasErr = false ∧ p.prior = .absent ∧ outPath q = outPath p :=
  ⟨{ pkgPath := "m/a_b", hasErr := false, prior := .absent }, { pkgPath := "m/a_b", hasErr := false, prior := .different }, rfl, rfl, rfl, rfl⟩

end GooseVerif.Props.C17
