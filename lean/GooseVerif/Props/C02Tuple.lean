/-
C02 — the multiple assignment `t0, t1, …, tn = f()`: reject or faithful.

Property theorems and examples only (model: Model/TupleAssign.lean, lemmas: Lemmas/TupleAssign.lean).

Go evaluates the operands of all targets before it assigns anything; goose's translation evaluates
each target when its turn comes.  `guard` is the check of `multipleAssignStmt` / `stableOperands`
in `/repo/goose.go`.  Whenever the guard lets a statement through, the translation computes the heap
Go computes (`tuple_assign_faithful`); without it the two differ (`guard_needed_*`).
-/
import GooseVerif.Lemmas.TupleAssign
import GooseVerif.Gen.Guards
import GooseVerif.Expected.Guards

namespace GooseVerif.Props.C02Tuple
open GooseVerif.Model.TupleAssign

/-- T-gen obligation: `multipleAssignStmt` (the loop over the targets, with `assigned` and `onlyVarsSoFar`), `stableOperands`
(which operands a later target may have), `assignFromTo` and `pointerAssign` (each target evaluated when its turn comes) have,
up to formatting, the committed text the model was written from.  The other tie is the correspondence stream
pylib/tuplecorr.py: goose accepts a generated multiple assignment exactly when `guard` does, and then returns what Go returns. -/
theorem tuple_facts_ok : GooseVerif.Gen.Guards.tuple = GooseVerif.Expected.Guards.tuple := rfl

/-- **Faithful under the guard**: for every environment of never-re-assigned variables, every layout
`slot` of maps/slices, every initial heap, all targets and values, and every assignment `cell` of
distinct heap cells to distinct re-assignable variables: if the guard accepts the targets, evaluating
every target when its turn comes (the translation) yields the heap that Go's
evaluate-all-operands-first semantics yields. -/
theorem tuple_assign_faithful (env : Env) (cell : String → Loc) (slot : Nat → Nat → Loc)
    (h : Heap) (ts : List Target) (vs : List Nat)
    (hinj : ∀ x y, cell x = cell y → x = y) :
    guard ts = true → trAssign env cell slot h ts vs = goAssign env cell slot h ts vs := by
  intro hg
  exact trAssign_eq_storeAll hinj h ts vs true [] true h (fun _ => rfl)
    (Unchanged.refl cell [] true h) hg

/-! ## The guard is needed

`cell x = x.length` (so `k`, `q`, `p` live in cell 1), `slot a b = 100 + 10*a + b`, the initial
heap is all zero. -/

/-- (i) `k, m[k] = 10, 20` with the map `m = 1`: Go stores 20 to `m[0]` (location 110, the `k` read
before the statement), the sequential translation to `m[10]`.  The guard rejects it. -/
theorem guard_needed_assigned_key :
    let ts := [Target.var "k", Target.index (.imm "m") (.mut "k")]
    let cell : String → Loc := fun x => x.length
    let slot : Nat → Nat → Loc := fun a b => 100 + 10 * a + b
    guard ts = false ∧
    goAssign (fun _ => 1) cell slot (fun _ => 0) ts [10, 20] 110 = 20 ∧
    trAssign (fun _ => 1) cell slot (fun _ => 0) ts [10, 20] 110 = 0 ∧
    trAssign (fun _ => 1) cell slot (fun _ => 0) ts [10, 20] 120 = 20 := by
  decide

/-- the same statement is rejected whichever way the key names the assigned variable -/
theorem guard_needed_assigned_key_imm :
    guard [Target.var "k", Target.index (.imm "m") (.imm "k")] = false := by decide

/-- (ii) `*p, m[q] = 5, 7` where `p` points to the cell of the re-assignable `q` (both 1) and the map
is `m = 2`: the store through `p` changes `q`, so Go stores 7 to `m[0]` (location 120) and the
translation to `m[5]` (location 125).  No variable is assigned by name; the guard rejects it because
a re-assignable operand follows a store. -/
theorem guard_needed_store_then_mut :
    let ts := [Target.deref (.imm "p"), Target.index (.imm "m") (.mut "q")]
    let env : Env := fun x => if x = "p" then 1 else 2
    let cell : String → Loc := fun x => x.length
    let slot : Nat → Nat → Loc := fun a b => 100 + 10 * a + b
    guard ts = false ∧
    goAssign env cell slot (fun _ => 0) ts [5, 7] 120 = 7 ∧
    trAssign env cell slot (fun _ => 0) ts [5, 7] 120 = 0 ∧
    trAssign env cell slot (fun _ => 0) ts [5, 7] 125 = 7 := by
  decide

/-- the same with a pointer indirection as the later target: `m[i], *q = 1, 9` where the slot of
`m[i]` happens to be the cell of `q` -/
theorem guard_needed_store_then_deref :
    let ts := [Target.index (.imm "m") (.imm "i"), Target.deref (.mut "q")]
    let cell : String → Loc := fun x => x.length
    let slot : Nat → Nat → Loc := fun _ _ => 1
    guard ts = false ∧
    goAssign (fun _ => 0) cell slot (fun _ => 0) ts [1, 9] 0 = 9 ∧
    trAssign (fun _ => 0) cell slot (fun _ => 0) ts [1, 9] 0 = 0 := by
  decide

/-- (iii) Not vacuous: `x, m[i], *p = …` with a re-assignable map variable `m` read after the
assignment of the other variable `x`, a never-re-assigned index and pointer.  The guard accepts it,
so the theorem applies for all environments, layouts, heaps and values. -/
theorem guard_accepts_example :
    let ts := [Target.var "x", Target.index (.mut "m") (.imm "i"), Target.deref (.imm "p")]
    guard ts = true ∧
    ∀ (env : Env) (cell : String → Loc) (slot : Nat → Nat → Loc) (h : Heap) (vs : List Nat),
      (∀ x y, cell x = cell y → x = y) →
      trAssign env cell slot h ts vs = goAssign env cell slot h ts vs :=
  ⟨by decide, fun env cell slot h vs hinj =>
    tuple_assign_faithful env cell slot h _ vs hinj (by decide)⟩

/-- … and on a concrete instance the statement does store three values (the heap is not left alone):
`x` in cell 1, `m` in cell 2 holding the map 3, `i = 4`, `p = 7`. -/
theorem guard_accepts_example_runs :
    let ts := [Target.var "x", Target.index (.mut "m") (.imm "i"), Target.deref (.imm "p")]
    let env : Env := fun x => if x = "i" then 4 else 7
    let cell : String → Loc := fun x => if x = "x" then 1 else 2
    let slot : Nat → Nat → Loc := fun a b => 100 + 10 * a + b
    let h : Heap := fun l => if l = 2 then 3 else 0
    let r := trAssign env cell slot h ts [11, 12, 13]
    r 1 = 11 ∧ r 134 = 12 ∧ r 7 = 13 ∧ r 2 = 3 := by
  decide

/-- more accepted shapes: a re-assignable pointer after another variable; stores after a store as
long as their operands are never-re-assigned -/
theorem guard_accepts_more :
    guard [Target.var "x", Target.deref (.mut "p")] = true ∧
    guard [Target.deref (.imm "p"), Target.index (.imm "m") (.imm "j"), Target.field (.imm "s") 1,
      Target.var "x", Target.blank] = true ∧
    guard [Target.index (.mut "m") (.mut "k"), Target.var "k"] = true := by
  decide

/-! ## The first target is never restricted -/

/-- a statement is never rejected because of its first target … -/
theorem guard_first_target_free (t : Target) : guard [t] = true := by
  cases t <;> rfl

/-- … and, more generally, the verdict does not depend on the operands of the first target: two
non-identifier first targets give the same verdict on the rest -/
theorem guard_first_target_operands (t t' : Target) (ts : List Target)
    (hi : t.isIdent = false) (hi' : t'.isIdent = false) :
    guard (t :: ts) = guard (t' :: ts) := by
  unfold GooseVerif.Model.TupleAssign.guard
  rw [guardFrom_first_nonident _ _ t ts hi, guardFrom_first_nonident _ _ t' ts hi']

/-- the verdict on `t :: ts` is the verdict of the loop on `ts`, started with what `t` records: the
variable it assigns by name and whether it is an identifier; `Target.stable` is not consulted -/
theorem guard_first_target_verdict (t : Target) (ts : List Target) :
    guard (t :: ts) = guardFrom false t.assigns t.isIdent ts := by
  cases t <;> rfl

/-! ## Variables only -/

/-- if every target is a variable or `_`, the guard accepts -/
theorem guard_all_vars (ts : List Target)
    (hall : ∀ t, t ∈ ts → t = .blank ∨ ∃ x, t = .var x) : guard ts = true := by
  apply guardFrom_all_ident
  intro t ht
  cases hall t ht with
  | inl hb => subst hb; rfl
  | inr hv => cases hv with | intro x hx => subst hx; rfl

end GooseVerif.Props.C02Tuple
