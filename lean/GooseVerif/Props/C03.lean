/-
C03 (the unbounded, parametric part) — the synchronisation shapes the race-free concurrent test
programs are built from are correct for ANY number of workers, ANY values and EVERY schedule.
(The exhaustive scheduler checks concrete emitted programs; this file is about the protocols.)

Property theorems only; the models are in `Model/SyncProto.lean`, the proofs in `Lemmas/SyncProto.lean`.
A schedule is any finite sequence of enabled steps (`Reachable`, or `run s sched = some s'`);
nothing is assumed about fairness except where a theorem says so.

Protocol 1 (`WG`, critical section `total = total + v_i`), with the registered count equal to the
number of workers (`initState init0 vs.length vs.length`, the correct translation of `wg.Add`):
  `wg_counts_unfinished`, `join_sees_all`, `no_deadlock_no_stuck`, `step_decreases_measure`,
  `schedules_are_finite`, `schedule_length_bounded`, `maximal_schedule_has_passed`,
  `every_state_completes`; mutation witnesses `add_mismatch_breaks_it` (concrete, by schedule) and
  `add_mismatch_breaks_it_general` (any `k < n`).
  The same for the variant with `wg.Add(1)` before each `go` (`WGInc`): `inc_…`.
Protocol 2 (`WG` with `acc = acc*10 + d_i`): `outcomes_are_permutations` and its converse
  `every_permutation_is_an_outcome` — the outcome set is exactly the set of orders.
  Both hold for an arbitrary critical-section update (`outcome_set_any_update`).
Protocol 3 (`Handoff`): `handoff_value`, `handoff_progress`, `handoff_spin_needs_starvation`;
  mutation witness `captured_copy_breaks_it`.

Hypotheses are only "the state is reachable from the initial state" (and what the clause names).
Each theorem is followed by an `example` exhibiting a reachable state that satisfies its
hypotheses (non-vacuity).
-/
import GooseVerif.Lemmas.SyncProto
import GooseVerif.Props.C03Conc
import GooseVerif.Gen.Guards
import GooseVerif.Expected.Guards

namespace GooseVerif.Props.C03
open GooseVerif.Model.SyncProto

/-- T-gen obligation: the translation of the concurrency constructs — `go` statements (`goStmt`,
`spawnExpr`: the literal's body inline under Fork, so captured variables are the parent's cells),
and the type-directed mapping of mutex, condition-variable and wait-group methods (`lockMethod`,
`condVarMethod`, `waitGroupMethod`: arguments passed through unchanged) — is, up to formatting,
the committed expectation the protocol models below were written against. -/
theorem concurrency_facts_ok : GooseVerif.Gen.Guards.concurrency = GooseVerif.Expected.Guards.concurrency := rfl

/-! ## Protocol 1 — workers under a mutex, joined by a wait group -/

/-- In every reachable state the counter is the number of workers that have not called `Done`,
and the lock is held iff exactly one worker is inside its critical section — that worker being
the holder (mutual exclusion). Whatever the critical section does. -/
theorem wg_counts_unfinished (crit : Nat → Nat → Nat) (vs : List Nat) (init0 : Nat) (s : WG.State)
    (h : WG.Reachable crit vs (WG.initState init0 vs.length vs.length) s) :
    s.wg = s.pcs.countP WG.notDone ∧
    (s.lock.isSome = true ↔ s.pcs.countP WG.inCS = 1) ∧ s.pcs.countP WG.inCS ≤ 1 ∧
    (∀ i, s.lock = some i → ∃ pc, s.pcs[i]? = some pc ∧ WG.inCS pc = true) ∧
    s.pcs.length = vs.length := by
  have hi := WG.inv_reachable h
  exact ⟨hi.wg, (WG.cs_iff hi.cs).1, (WG.cs_iff hi.cs).2, hi.cs.2, hi.len⟩

/-- non-vacuity: worker 1 holds the lock, worker 0 has not started -/
example : ∃ s, WG.Reachable WG.sumCrit [10, 20] (WG.initState 5 2 2) s ∧ s.lock = some 1 :=
  ⟨_, WG.reachable_of_run .init (sched := [.worker 1, .worker 1]) rfl, rfl⟩

/-- Once `wg.Wait()` has returned, the total is the initial value plus ALL the workers' values —
the same for every complete interleaving — and every worker is done. -/
theorem join_sees_all (vs : List Nat) (init0 : Nat) (s : WG.State)
    (h : WG.Reachable WG.sumCrit vs (WG.initState init0 vs.length vs.length) s)
    (hm : s.mainPassed = true) :
    s.total = init0 + vs.sum ∧ s.pcs.length = vs.length ∧ ∀ pc ∈ s.pcs, pc = .done := by
  have hi := WG.inv_reachable h
  have hw := hi.passed hm
  obtain ⟨l', hp, ht⟩ := WG.final_perm hi hw
  exact ⟨by rw [ht, WG.foldl_sumCrit, hp.sum_nat], hi.len, WG.all_done hi hw⟩

/-- non-vacuity: an interleaved schedule (worker 1 enters first, worker 0 finishes last) -/
example : ∃ s, WG.Reachable WG.sumCrit [10, 20] (WG.initState 5 2 2) s ∧ s.mainPassed = true ∧
    s.total = 35 :=
  ⟨_, WG.reachable_of_run .init
    (sched := [.worker 1, .worker 1, .worker 1, .worker 0, .worker 1, .worker 0, .worker 0, .worker 0, .main])
    rfl, rfl, rfl⟩

/-- No deadlock, no stuck thread: while main has not passed `Wait`, some thread can move, and no
worker ever is about to call `Done` on a zero counter. -/
theorem no_deadlock_no_stuck (crit : Nat → Nat → Nat) (vs : List Nat) (init0 : Nat) (s : WG.State)
    (h : WG.Reachable crit vs (WG.initState init0 vs.length vs.length) s)
    (hm : s.mainPassed = false) :
    (∃ a s', WG.step crit vs s a = some s') ∧ ∀ i, ¬ WG.StuckWorker s i :=
  ⟨WG.progress (WG.inv_reachable h) hm, WG.never_stuck (WG.inv_reachable h)⟩

/-- (the second half holds after `Wait` too) -/
theorem never_stuck (crit : Nat → Nat → Nat) (vs : List Nat) (init0 : Nat) (s : WG.State)
    (h : WG.Reachable crit vs (WG.initState init0 vs.length vs.length) s) (i : Nat) :
    ¬ WG.StuckWorker s i :=
  WG.never_stuck (WG.inv_reachable h) i

/-- non-vacuity: worker 0 is blocked on the lock held by worker 1, `mainPassed = false` -/
example : ∃ s, WG.Reachable WG.sumCrit [10, 20] (WG.initState 5 2 2) s ∧ s.mainPassed = false ∧
    WG.step WG.sumCrit [10, 20] s (.worker 0) = none :=
  ⟨_, WG.reachable_of_run .init (sched := [.worker 1]) rfl, rfl, rfl⟩

/-- Termination measure: every step, of any thread, from any state, strictly decreases
`WG.measure` (the steps the workers have left, plus one for main). -/
theorem step_decreases_measure (crit : Nat → Nat → Nat) (vs : List Nat) (s s' : WG.State) (a : WG.Action)
    (h : WG.step crit vs s a = some s') : WG.measure s' < WG.measure s :=
  WG.step_measure h

example : WG.step WG.sumCrit [10, 20] (WG.initState 5 2 2) (.worker 0) ≠ none := by decide

/-- Hence there is no infinite schedule … -/
theorem schedules_are_finite (crit : Nat → Nat → Nat) (vs : List Nat) :
    WellFounded (fun s' s : WG.State => ∃ a, WG.step crit vs s a = some s') :=
  WG.step_wf crit vs

/-- … a schedule from `s` has at most `measure s` steps (`4·n + 1` from the initial state) … -/
theorem schedule_length_bounded (crit : Nat → Nat → Nat) (vs : List Nat) (s s' : WG.State)
    (sched : List WG.Action) (h : WG.run crit vs s sched = some s') :
    sched.length + WG.measure s' ≤ WG.measure s :=
  WG.run_measure h

example : WG.measure (WG.initState 5 2 2) = 9 := by decide

/-- … and a maximal schedule (no thread can move) ends with `Wait` passed, hence (`join_sees_all`)
with the one result. -/
theorem maximal_schedule_has_passed (vs : List Nat) (init0 : Nat) (s : WG.State)
    (h : WG.Reachable WG.sumCrit vs (WG.initState init0 vs.length vs.length) s)
    (hmax : ∀ a, WG.step WG.sumCrit vs s a = none) :
    s.mainPassed = true ∧ s.total = init0 + vs.sum := by
  have hm : s.mainPassed = true := by
    cases hm : s.mainPassed with
    | true => rfl
    | false =>
      obtain ⟨a, s', hs⟩ := WG.progress (WG.inv_reachable h) hm
      rw [hmax a] at hs; cases hs
  exact ⟨hm, (join_sees_all vs init0 s h hm).1⟩

/-- non-vacuity: the sequential schedule is maximal -/
example : ∃ s, WG.Reachable WG.sumCrit [10, 20] (WG.initState 5 2 2) s ∧
    ∀ a, WG.step WG.sumCrit [10, 20] s a = none := by
  refine ⟨_, WG.reachable_of_run .init (sched := WG.seqSched [0, 1] ++ [.main]) rfl, ?_⟩
  intro a
  cases a with
  | main => rfl
  | worker i =>
    match i with
    | 0 => rfl
    | 1 => rfl
    | _ + 2 => rfl

/-- Every reachable state can be completed: some continuation ends with `Wait` passed. -/
theorem every_state_completes (crit : Nat → Nat → Nat) (vs : List Nat) (init0 : Nat) (s : WG.State)
    (h : WG.Reachable crit vs (WG.initState init0 vs.length vs.length) s) :
    ∃ sched s', WG.run crit vs s sched = some s' ∧ s'.mainPassed = true :=
  WG.completion (WG.inv_reachable h)

/-- Mutation witness (`wg.Add(2)` translated as registering 1): main can return 10 instead of 30,
and the second worker gets stuck calling `Done` on a zero counter. Both by exhibiting the schedule. -/
theorem add_mismatch_breaks_it :
    (∃ s, WG.Reachable WG.sumCrit [10, 20] (WG.initState 0 2 1) s ∧ s.mainPassed = true ∧
        s.total ≠ 0 + [10, 20].sum) ∧
    (∃ s, WG.Reachable WG.sumCrit [10, 20] (WG.initState 0 2 1) s ∧ WG.StuckWorker s 1) :=
  ⟨⟨_, WG.reachable_of_run .init
      (sched := [.worker 0, .worker 0, .worker 0, .worker 0, .main]) rfl, rfl, by decide⟩,
   ⟨_, WG.reachable_of_run .init
      (sched := [.worker 0, .worker 0, .worker 0, .worker 0, .worker 1, .worker 1, .worker 1]) rfl,
      rfl, rfl⟩⟩

/-- The same for any number of workers, any values, any critical section and any registered count
`k < n`: main can pass having seen only the first `k` workers while worker `k` has not even started,
and worker `k` can get stuck. -/
theorem add_mismatch_breaks_it_general (crit : Nat → Nat → Nat) (vs : List Nat) (init0 k : Nat)
    (hk : k < vs.length) :
    (∃ s, WG.Reachable crit vs (WG.initState init0 vs.length k) s ∧ s.mainPassed = true ∧
        s.total = (vs.take k).foldl crit init0 ∧ s.pcs[k]? = some .start) ∧
    (∃ s, WG.Reachable crit vs (WG.initState init0 vs.length k) s ∧ WG.StuckWorker s k) :=
  WG.mismatch crit vs init0 k hk

/-- … so the sum is wrong as soon as the missed values are not all zero. -/
theorem add_mismatch_wrong_sum (vs : List Nat) (init0 k : Nat) (hk : k < vs.length)
    (hpos : 0 < (vs.drop k).sum) :
    ∃ s, WG.Reachable WG.sumCrit vs (WG.initState init0 vs.length k) s ∧ s.mainPassed = true ∧
      s.total ≠ init0 + vs.sum := by
  obtain ⟨s, hr, hm, ht, _⟩ := (WG.mismatch WG.sumCrit vs init0 k hk).1
  refine ⟨s, hr, hm, ?_⟩
  have : vs.sum = (vs.take k).sum + (vs.drop k).sum := by
    rw [← List.sum_append, List.take_append_drop]
  rw [ht, WG.foldl_sumCrit]; omega

example : (1 : Nat) < [10, 20, 30].length ∧ 0 < ([10, 20, 30].drop 1).sum := by decide

/-! ### the variant with `wg.Add(1)` before each `go` -/

/-- The counter is the number of started workers that have not called `Done`, plus one while main
is between `Add(1)` and `go`; mutual exclusion as above. -/
theorem inc_wg_counts_unfinished (crit : Nat → Nat → Nat) (vs : List Nat) (init0 : Nat) (s : WGInc.State)
    (h : WGInc.Reachable crit vs (WGInc.initState init0) s) :
    s.wg = s.pcs.countP WG.notDone + (if s.addOne then 1 else 0) ∧
    (s.lock.isSome = true ↔ s.pcs.countP WG.inCS = 1) ∧ s.pcs.countP WG.inCS ≤ 1 ∧
    s.pcs.length ≤ vs.length := by
  have hi := WGInc.inv_reachable h
  exact ⟨hi.wg, (WG.cs_iff hi.cs).1, (WG.cs_iff hi.cs).2, hi.len⟩

/-- non-vacuity: worker 0 runs while main is between `Add(1)` and the second `go` -/
example : ∃ s, WGInc.Reachable WG.sumCrit [10, 20] (WGInc.initState 5) s ∧ s.addOne = true ∧
    s.lock = some 0 :=
  ⟨_, WGInc.reachable_of_run .init (sched := [.main, .main, .worker 0, .main]) rfl, rfl, rfl⟩

theorem inc_join_sees_all (vs : List Nat) (init0 : Nat) (s : WGInc.State)
    (h : WGInc.Reachable WG.sumCrit vs (WGInc.initState init0) s) (hm : s.mainPassed = true) :
    s.total = init0 + vs.sum ∧ s.pcs.length = vs.length ∧ ∀ pc ∈ s.pcs, pc = .done := by
  have hi := WGInc.inv_reachable h
  obtain ⟨hw, hl⟩ := hi.passed hm
  have hi' := WGInc.toWG hi hl
  obtain ⟨l', hp, ht⟩ := WG.final_perm hi' hw
  exact ⟨by rw [ht, WG.foldl_sumCrit, hp.sum_nat], hl, WG.all_done hi' hw⟩

example : ∃ s, WGInc.Reachable WG.sumCrit [10, 20] (WGInc.initState 5) s ∧ s.mainPassed = true ∧
    s.total = 35 :=
  ⟨_, WGInc.reachable_of_run .init
    (sched := [.main, .main, .worker 0, .main, .main, .worker 0, .worker 0, .worker 1, .worker 1,
               .worker 0, .worker 1, .worker 1, .main]) rfl, rfl, rfl⟩

theorem inc_no_deadlock_no_stuck (crit : Nat → Nat → Nat) (vs : List Nat) (init0 : Nat) (s : WGInc.State)
    (h : WGInc.Reachable crit vs (WGInc.initState init0) s) (hm : s.mainPassed = false) :
    (∃ a s', WGInc.step crit vs s a = some s') ∧ ∀ i, ¬ WG.StuckWorker s.toState i :=
  ⟨WGInc.progress (WGInc.inv_reachable h) hm, WGInc.never_stuck (WGInc.inv_reachable h)⟩

example : ∃ s, WGInc.Reachable WG.sumCrit [10, 20] (WGInc.initState 5) s ∧ s.mainPassed = false :=
  ⟨_, .init, rfl⟩

theorem inc_step_decreases_measure (crit : Nat → Nat → Nat) (vs : List Nat) (s s' : WGInc.State)
    (a : WG.Action) (h : WGInc.step crit vs s a = some s') :
    WGInc.measure vs s' < WGInc.measure vs s :=
  WGInc.step_measure h

theorem inc_schedules_are_finite (crit : Nat → Nat → Nat) (vs : List Nat) :
    WellFounded (fun s' s : WGInc.State => ∃ a, WGInc.step crit vs s a = some s') :=
  WGInc.step_wf crit vs

example : WGInc.step WG.sumCrit [10, 20] (WGInc.initState 5) .main ≠ none := by decide

/-! ## Protocol 2 — a schedule-dependent accumulator: the outcome set -/

/-- Every result is the digits folded in SOME order … -/
theorem outcomes_are_permutations (ds : List Nat) (init0 : Nat) (s : WG.State)
    (h : WG.Reachable WG.digitCrit ds (WG.initState init0 ds.length ds.length) s)
    (hm : s.mainPassed = true) :
    ∃ l' : List Nat, l'.Perm ds ∧ s.acc = l'.foldl (fun a d => a * 10 + d) init0 :=
  WG.final_perm (WG.inv_reachable h) ((WG.inv_reachable h).passed hm)

/-- … and every order is the result of some schedule: the outcome set of the emitted program is
exactly the set of permutations, as in Go. -/
theorem every_permutation_is_an_outcome (ds : List Nat) (init0 : Nat) (l' : List Nat) (h : l'.Perm ds) :
    ∃ s, WG.Reachable WG.digitCrit ds (WG.initState init0 ds.length ds.length) s ∧
      s.mainPassed = true ∧ s.acc = l'.foldl (fun a d => a * 10 + d) init0 :=
  WG.order_reachable WG.digitCrit ds init0 l' h

/-- non-vacuity and schedule dependence: with digits 1, 2 both 12 and 21 are outcomes -/
example : (∃ s, WG.Reachable WG.digitCrit [1, 2] (WG.initState 0 2 2) s ∧ s.mainPassed = true ∧ s.acc = 12) ∧
    (∃ s, WG.Reachable WG.digitCrit [1, 2] (WG.initState 0 2 2) s ∧ s.mainPassed = true ∧ s.acc = 21) :=
  ⟨⟨_, WG.reachable_of_run .init (sched := WG.seqSched [0, 1] ++ [.main]) rfl, rfl, rfl⟩,
   ⟨_, WG.reachable_of_run .init
      (sched := [.worker 1, .worker 1, .worker 1, .worker 0, .worker 0, .worker 1, .worker 0, .worker 0, .main])
      rfl, rfl, rfl⟩⟩

example : [2, 1].Perm [1, 2] := by decide

/-- Both directions for an arbitrary critical-section update `crit`. -/
theorem outcome_set_any_update (crit : Nat → Nat → Nat) (vs : List Nat) (init0 r : Nat) :
    (∃ s, WG.Reachable crit vs (WG.initState init0 vs.length vs.length) s ∧ s.mainPassed = true ∧
        s.total = r) ↔
    ∃ l' : List Nat, l'.Perm vs ∧ r = l'.foldl crit init0 := by
  constructor
  · rintro ⟨s, h, hm, rfl⟩
    exact WG.final_perm (WG.inv_reachable h) ((WG.inv_reachable h).passed hm)
  · rintro ⟨l', hp, rfl⟩
    exact WG.order_reachable crit vs init0 l' hp

/-! ## Protocol 3 — hand-off through a condition variable, spurious wake-ups allowed -/

/-- Whatever the schedule and however often `Wait` wakes up, main returns the worker's value. -/
theorem handoff_value (v r0 : Nat) (s : Handoff.State) (r : Nat)
    (h : Handoff.Reachable true v (Handoff.initState r0) s) (hf : s.mainPc = .gotResult r) : r = v :=
  (Handoff.inv_reachable h).got r hf

/-- non-vacuity: main takes the lock first, waits, wakes up spuriously, waits again, the worker
runs, main wakes up and returns 7 -/
example : ∃ s, Handoff.Reachable true 7 (Handoff.initState 0) s ∧ s.mainPc = .gotResult 7 :=
  ⟨_, Handoff.reachable_of_run .init
    (sched := [.main, .main, .main, .main, .worker, .worker, .worker, .worker, .main, .main]) rfl, rfl⟩

/-- No deadlock, no stuck thread: from every reachable state in which main has not returned, a
continuation of at most 7 steps (main gives the lock up if it has it, the worker runs to its end,
main re-acquires and sees `done`) makes main return the value. -/
theorem handoff_progress (v r0 : Nat) (s : Handoff.State)
    (h : Handoff.Reachable true v (Handoff.initState r0) s) (hf : Handoff.finished s = false) :
    ∃ sched s', Handoff.run true v s sched = some s' ∧ s'.mainPc = .gotResult v ∧ sched.length ≤ 7 :=
  Handoff.progress (Handoff.inv_reachable h) hf

/-- non-vacuity: main is inside `Wait` while the worker holds the lock -/
example : ∃ s, Handoff.Reachable true 7 (Handoff.initState 0) s ∧ Handoff.finished s = false ∧
    s.mainPc = .waiting ∧ s.lock = some .worker :=
  ⟨_, Handoff.reachable_of_run .init (sched := [.main, .main, .worker]) rfl, rfl, rfl, rfl⟩

/-- Spinning for ever needs a scheduler that starves the worker: the worker takes at most 4 steps
(each decreases `wLeft` and leaves main alone), and once it has finished every step is main's and
decreases `mLeft ≤ 2`. -/
theorem handoff_spin_needs_starvation (v r0 : Nat) (s s' : Handoff.State)
    (h : Handoff.Reachable true v (Handoff.initState r0) s) :
    (Handoff.step true v s .worker = some s' →
        Handoff.wLeft s'.workerPc < Handoff.wLeft s.workerPc ∧ s'.mainPc = s.mainPc) ∧
    (∀ t, s.workerPc = .unlocked → Handoff.step true v s t = some s' →
        s'.workerPc = .unlocked ∧ Handoff.mLeft s'.mainPc < Handoff.mLeft s.mainPc) :=
  ⟨Handoff.worker_step_decreases, fun _ hw hs => Handoff.after_worker_step (Handoff.inv_reachable h) hw hs⟩

example : ∃ s, Handoff.Reachable true 7 (Handoff.initState 0) s ∧ s.workerPc = .unlocked ∧
    Handoff.step true 7 s .main ≠ none :=
  ⟨_, Handoff.reachable_of_run .init (sched := [.worker, .worker, .worker, .worker]) rfl, rfl, by decide⟩

/-- Mutation witness (captured variables snapshotted: the worker writes its own copies): main
never sees `done`, so it never returns — every Go outcome is lost. -/
theorem captured_copy_breaks_it (v r0 : Nat) (s : Handoff.State)
    (h : Handoff.Reachable false v (Handoff.initState r0) s) :
    Handoff.finished s = false ∧ s.done = false :=
  ⟨(Handoff.copy_inv_reachable h).2, (Handoff.copy_inv_reachable h).1⟩

/-- non-vacuity: the worker has finished and set ITS flag; main is waiting, and the only step left
is main waking up to find `done = false` again -/
example : ∃ s, Handoff.Reachable false 7 (Handoff.initState 0) s ∧ s.workerPc = .unlocked ∧
    s.privDone = true ∧ s.privResult = 7 ∧ s.done = false ∧ s.mainPc = .waiting :=
  ⟨_, Handoff.reachable_of_run .init
    (sched := [.main, .main, .worker, .worker, .worker, .worker, .main, .main]) rfl,
    rfl, rfl, rfl, rfl, rfl⟩

end GooseVerif.Props.C03
