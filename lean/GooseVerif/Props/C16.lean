/-
C16 — Remaining machine primitives meet their modelled contracts.

Property theorems only. Models: `Model/Decimal.lean` (UInt64ToString), `Model/MapClear.lean`
(MapClear, Assume, Assert), `Model/WaitTimeout.lean` (the protocol of primitive.WaitTimeout).
Tie: `bodies_ok` pins the regenerated canonical bodies of machine/prims.go and of
primitive.WaitTimeout; the correspondence runs the real functions.
Timing ("no later than a bounded delay", "promptly") is runtime behaviour: the protocol model
carries the order of events only (see `waittimeout_can_return`); elapsed times are measured by
the correspondence and judged with slack — that part of the property is partial.
-/
import GooseVerif.Lemmas.Decimal
import GooseVerif.Lemmas.MapClear
import GooseVerif.Lemmas.WaitTimeout
import GooseVerif.Gen.PrimFacts

namespace GooseVerif.Props.C16
open GooseVerif.Model GooseVerif.Gen

/-- T-gen obligation: the functions this property is about have exactly these bodies now. -/
theorem bodies_ok :
    Prim.primBodies =
    [("UInt64ToString", "func (x uint64) string { return ‹fmt›.Sprintf(\"%d\", x) }"),
     ("Assume", "func (c bool) { if !c { panic(\"Assume condition violated\") } }"),
     ("Assert", "func (c bool) { if !c { panic(\"Assert condition violated\") } }"),
     ("MapClear", "func [M ~map[K]V, K comparable, V any](m M) { clear(m) }"),
     ("WaitTimeout", "func (cond *‹sync›.Cond, timeoutMs uint64) { ‹github.com/goose-lang/primitive›.WaitTimeout(cond, timeoutMs) }")] := rfl

/-- T-gen obligation: the protocol that `Model/WaitTimeout.lean` models is the body of
primitive.WaitTimeout in the module version /repo's go.mod selects. -/
theorem primitive_waittimeout_ok :
    Prim.primitiveWaitTimeout =
    "func (cond *‹sync›.Cond, timeoutMs uint64) { done := make(chan struct{}) go func() { cond.Wait() cond.L.Unlock() close(done) }() select { case <-‹time›.After(‹time›.Duration(timeoutMs) * ‹time›.Millisecond): cond.L.Lock() return case <-done: cond.L.Lock() return } }" := rfl

/-! ### UInt64ToString: canonical decimal rendering (proved for every natural number, hence every uint64) -/

theorem dec_roundtrip (n : Nat) : Decimal.parse (Decimal.dec n) = n := Decimal.parse_dec' n

theorem dec_injective (m n : Nat) (h : Decimal.dec m = Decimal.dec n) : m = n := Decimal.dec_injective' m n h

theorem dec_digits_only (n : Nat) : ∀ c ∈ Decimal.dec n, c.isDigit = true := Decimal.dec_digits_only' n

theorem dec_nonempty (n : Nat) : Decimal.dec n ≠ [] := Decimal.dec_ne_nil' n

theorem dec_no_leading_zero (n : Nat) : (Decimal.dec n).head? = some '0' → Decimal.dec n = ['0'] :=
  Decimal.dec_no_leading_zero' n

/-- The rendering has exactly as many characters as the number has digits: at most `k` below `10^k`, more than `k` from `10^k`
on.  A rendering that drops or pads a digit at some magnitude (a fixed buffer sized for another type) fails one of the two. -/
theorem dec_length_le (n k : Nat) (hk : 0 < k) (h : n < 10 ^ k) : (Decimal.dec n).length ≤ k := Decimal.dec_length_le' n k hk h

theorem dec_length_gt (n k : Nat) (h : 10 ^ k ≤ n) : k < (Decimal.dec n).length := Decimal.dec_length_gt' n k h

/-- For `uint64`: never more than 20 characters, and exactly 20 from `10^19` on (where a buffer of 19 — enough for `int64` — ends). -/
theorem dec_uint64_length (n : Nat) (h : n < 2 ^ 64) :
    (Decimal.dec n).length ≤ 20 ∧ (10 ^ 19 ≤ n → (Decimal.dec n).length = 20) := by
  have h1 := dec_length_le n 20 (by omega) (by omega)
  exact ⟨h1, fun h2 => by have := dec_length_gt n 19 h2; omega⟩

example : Decimal.dec (2 ^ 64 - 1) = "18446744073709551615".toList := by decide
example : Decimal.dec (10 ^ 19) = "10000000000000000000".toList := by decide

/-! ### MapClear: the map ends empty — for EVERY key type — and is still usable

The body is the builtin `clear(m)` (pinned above); its meaning is the Go specification's, so
`mapclear_empty` is true by definition of the model and the evidence that the real builtin behaves
so (also for NaN keys) is the correspondence check. The two `loop_delete_*` theorems are about the
body before the repair: right for reflexive key equality in every iteration order, wrong for every
key that equals nothing (the defect the correspondence check reported). -/

theorem mapclear_empty {κ ν : Type} (m : MapClear.GoMap κ ν) : MapClear.mapClear m = [] := rfl

theorem mapclear_usable {κ ν : Type} [DecidableEq κ] (m : MapClear.GoMap κ ν) (k : κ) (v : ν) :
    MapClear.lookup (MapClear.insert (MapClear.mapClear m) k v) k = some v :=
  MapClear.lookup_insert_nil k v

theorem loop_delete_clears_reflexive_keys {κ ν : Type} (eq : κ → κ → Bool) (order : List (κ × ν))
    (m : MapClear.GoMap κ ν) (hrefl : ∀ q ∈ m, eq q.1 q.1 = true) (hall : ∀ q ∈ m, q ∈ order) :
    MapClear.loopClear eq order m = [] :=
  MapClear.loopClear_empty_of_refl eq order m hrefl hall

theorem loop_delete_keeps_nan_keys {κ ν : Type} (eq : κ → κ → Bool) (order : List (κ × ν))
    (m : MapClear.GoMap κ ν) (q : κ × ν) (hq : q ∈ m) (hnan : ∀ k, eq q.1 k = false) :
    q ∈ MapClear.loopClear eq order m :=
  MapClear.loopClear_keeps_irreflexive eq order m q hq hnan

/-! ### Assume / Assert panic exactly when the argument is false -/

theorem assume_assert (c : Bool) :
    (MapClear.assumePanics c = true ↔ c = false) ∧ (MapClear.assertPanics c = true ↔ c = false) := by
  cases c <;> simp [MapClear.assumePanics, MapClear.assertPanics]

/-! ### WaitTimeout: every schedule of the protocol -/

/-- No interleaving unlocks a free mutex (Go's fatal "unlock of unlocked mutex"). -/
theorem waittimeout_no_fatal (s : WaitTimeout.St) (h : WaitTimeout.Reachable s) : s.fatal = false :=
  (WaitTimeout.inv_reachable s h).nofatal

/-- WaitTimeout returns with the caller's lock held, on both branches, under every interleaving
with the helper goroutine, the timer, signals and other well-behaved users of the lock. -/
theorem waittimeout_lock_held (s : WaitTimeout.St) (h : WaitTimeout.Reachable s) (hr : s.c = .returned) :
    s.holder = some .caller :=
  (WaitTimeout.inv_reachable s h).ownC.mpr (Or.inl hr)

/-- The helper goroutine (including a "ghost" one that outlives a timed-out call) locks the mutex
only transiently: whenever it is the ghost owner it is exactly between `Wait` returning and its
own `Unlock`. -/
theorem waittimeout_helper_transient (s : WaitTimeout.St) (h : WaitTimeout.Reachable s) :
    s.holder = some .helper ↔ s.h = .holding :=
  (WaitTimeout.inv_reachable s h).ownH

/-- The caller can always finish: from every reachable state in which it has not returned there
is a continuation (timer fires, helper releases, holders release, caller locks) after which it
has returned owning the lock — no interleaving leaves it stuck for good. Time bounds are not
expressible in this model. -/
theorem waittimeout_can_return (s : WaitTimeout.St) (h : WaitTimeout.Reachable s)
    (hc : s.c = .start ∨ s.c = .selecting ∨ s.c = .locking) :
    ∃ as, (WaitTimeout.run s as).c = .returned ∧ (WaitTimeout.run s as).holder = some .caller :=
  ⟨_, WaitTimeout.can_return' s (WaitTimeout.inv_reachable s h) hc⟩

/-! ### non-vacuity -/

example : Decimal.decString 18446744073709551615 = "18446744073709551615" := by decide
example : Decimal.decString 0 = "0" := by decide
example : Decimal.decString 1000 = "1000" := by decide
example : MapClear.mapClear [(1, "a"), (5, "b"), (9, "c")] = [] := rfl
/-- the old loop on ordinary keys, produced in the order 5, 9, 1 -/
example : MapClear.loopClear (fun a b : Nat => a == b) [(5, "b"), (9, "c"), (1, "a")] [(1, "a"), (5, "b"), (9, "c")] = [] := by decide
/-- the old loop with a NaN-like key (`none` equals nothing): it stays -/
example : MapClear.loopClear (fun a b : Option Nat => a.isSome && a == b) [(some 5, "b"), (none, "nan")] [(some 5, "b"), (none, "nan")] = [(none, "nan")] := by decide
/-- a timed-out call: the caller returns owning the lock while the helper is still parked (a ghost waiter) -/
example : (WaitTimeout.run WaitTimeout.init [.spawn, .helperWait, .envLock 0, .timerFire, .selectTimer, .envUnlock 0, .callerLock]).c = .returned
    ∧ (WaitTimeout.run WaitTimeout.init [.spawn, .helperWait, .envLock 0, .timerFire, .selectTimer, .envUnlock 0, .callerLock]).h = .parked := by decide
/-- a signalled call -/
example : (WaitTimeout.run WaitTimeout.init [.spawn, .helperWait, .wake, .helperLock, .helperUnlock, .helperClose, .selectDone, .callerLock]).c = .returned := by decide

end GooseVerif.Props.C16
