/-
C10 — Concurrent disk operations are linearizable per block.

Property theorems only (helpers: `Lemmas/Lock.lean`, `Lemmas/MemDiskConc.lean`).
`memDiskProtocol` models MemDisk's `ReadTo`/`Write` as critical sections whose lock modes are read
from the lock summaries regenerated from mem.go; block copies are two micro-steps each, so torn
blocks are expressible — and excluded by the theorem for every number of goroutines, every
program and every schedule. `Size` takes no lock: it reads `len(d.blocks)`, and `blocks` is
assigned by the constructor only (`size_lockfree_ok`), so it returns the same value wherever it
is linearised (C09 `size_const`). FileDisk: the kernel's atomicity of `pread`/`pwrite` on one
descriptor is assumed; in the OS-file model operations on distinct addresses commute.
Runtime behaviour (the Go scheduler, the memory model's data races) is exercised by the stress
correspondence with porcupine and the race detector; it is not modelled.
-/
import GooseVerif.Lemmas.Lock
import GooseVerif.Lemmas.MemDiskConc
import GooseVerif.Gen.DiskFacts
import GooseVerif.Expected.DiskFacts

namespace GooseVerif.Props.C10
open GooseVerif.Model.Lock GooseVerif.Model.MemDiskConc GooseVerif.Model.Disk GooseVerif

abbrev BS : Nat := Gen.Disk.blockSize

/-- T-gen obligation: how each MemDisk method uses the lock. `ReadTo` holds the read lock around
the bound check and the copy; `Write` checks its argument's length (one statement that touches no
shared field), then holds the write lock around the bound check and the copy; `Size` reads
`blocks` without the lock. -/
theorem lock_summaries_ok :
    Gen.Disk.memDiskLocks =
      [("MemDisk.Barrier", "none"), ("MemDisk.Close", "none"), ("MemDisk.Read", "none"),
       ("MemDisk.ReadTo", "R"), ("MemDisk.Size", "none:uses blocks"), ("MemDisk.Write", "W-late:1")] := rfl

/-- `blocks` is assigned in the constructor only, so the lock-free `Size` reads a constant. -/
theorem size_lockfree_ok : Gen.Disk.blocksAssignSites = ["NewMemDisk"] := rfl

theorem facts_ok : Gen.Disk.diskDecls = Expected.Disk.diskDecls := rfl

/-- The protocol's lock modes are the ones the code uses. -/
theorem modes_from_code :
    (memDiskProtocol BS).mode (.readTo 0 []) = .R ∧ (memDiskProtocol BS).mode (.write 0 []) = .W :=
  ⟨mode_readTo, mode_write⟩

/-- MemDisk is linearizable: for every set of goroutines, programs and schedules, the order of
lock acquisitions is a linearisation — each completed `ReadTo`/`Write` returned what it returns in
the sequential replay, and real-time order is respected. In particular a read returns one whole
block written by one write, never a mixture. -/
theorem memdisk_linearizable (blocks0 : List Bytes) (progs : Nat → List DOp)
    (s : Sys (List Bytes) DOp DRet DLoc) (h : Reachable (memDiskProtocol BS) blocks0 progs s) :
    (s.lin.map (·.1)).Nodup ∧
    (∀ id r, Event.resp id r ∈ s.trace → lookupId (replay (memDiskProtocol BS) blocks0 s.lin.reverse).2 id = some r) ∧
    (∀ a b, RespBeforeInv s.trace a b → a ∈ s.lin.map (·.1) ∧ (b ∈ s.lin.map (·.1) → LinBefore s.lin a b)) :=
  locked_linearizable (memDiskProtocol BS) (readers_read_only BS) blocks0 progs s h

/-- The sequential specification the replay uses is MemDisk's sequential model of C09
(which refines the register array): `ReadTo` … -/
theorem seq_spec_readTo (blocks : List Bytes) (a : Nat) (buf : Bytes) :
    runAlone (memDiskProtocol BS) (.readTo a buf) blocks =
      (blocks, match (memImpl BS).readTo blocks a buf with
               | some b => DRet.buf b
               | none => DRet.panic) :=
  runAlone_readTo BS blocks a buf

/-- … and `Write`. -/
theorem seq_spec_write (blocks : List Bytes) (hall : AllLen BS blocks) (a : Nat) (v : Bytes) :
    runAlone (memDiskProtocol BS) (.write a v) blocks =
      (match (memImpl BS).write blocks a v with
       | some b' => (b', DRet.ok)
       | none => (blocks, DRet.panic)) :=
  runAlone_write BS blocks hall a v

/-- FileDisk (OS-file model): writes to distinct addresses commute, so operations on distinct
addresses never interfere. -/
theorem file_writes_commute (d : FileSt) (r : Regs) (hs : FileSim BS d r) (a a' : Nat) (v v' : Bytes)
    (hne : a ≠ a') (d1 d2 e1 e2 : FileSt)
    (h1 : (fileImpl BS).write d a v = some d1) (h2 : (fileImpl BS).write d1 a' v' = some d2)
    (h3 : (fileImpl BS).write d a' v' = some e1) (h4 : (fileImpl BS).write e1 a v = some e2) :
    d2 = e2 :=
  file_writes_commute' BS d r hs a a' v v' hne d1 d2 e1 e2 h1 h2 h3 h4

/-! ### non-vacuity: a schedule in which a reader overlaps a writer's critical section is not a run -/

example : Reachable (memDiskProtocol 4) [[0, 0, 0, 0]] (fun t => if t = 0 then [.write 0 [1, 1, 1, 1]] else [])
    (initSys [[0, 0, 0, 0]] (fun t => if t = 0 then [.write 0 [1, 1, 1, 1]] else [])) := Reachable.init

end GooseVerif.Props.C10
