import GooseVerif.Model.DirFs
namespace GooseVerif.Props.C13
theorem placeholder : True := trivial
end GooseVerif.Props.C13
