/-
C13 — `AtomicCreate(dir, name, data)` is all-or-nothing, exact after return, durable before
visible, and does not disturb other names (sequential / crash / fault part).

Property theorems only (helpers: `Lemmas/AtomicCreate.lean`). The object is `acRun` of
`Model/DirFs.lean`: `DirFs.AtomicCreate` of machine/filesys/dir.go as the system calls it issues
(`openat(root, name.<pid>.<counter>.tmp, O_CREAT|O_WRONLY|O_TRUNC)`, `write` in a loop that
tolerates short writes, `fsync`, `renameat` to `dir/name`, deferred `close`) over the OS model `Os`.
A `Disturb` chooses the short-write pattern, a kill after `k` system calls (`stopAfter`), or a
failing `k`-th system call (`failAt`); every theorem quantifies over all of them, so "at every
instant" is the case `stopAfter = some k` for every `k` (a kill keeps the tree and the page
cache and only drops descriptors, which `content` does not look at).

Hypotheses, all explicit:
* `WF o0`: both content tables have one slot per inode and every directory entry refers to an
  existing inode. `WF Os.empty` holds, every `DirFs` method, every disturbed `acRun` and crashes
  preserve it (`wf_empty`, `wf_mkdirat`, `reachable_wf`, `wf_preserved`).
* `TmpNotLinked o0 n d' n'`: *if* the temporary name `n.<counter>.tmp` of this call already
  exists in the root (a leftover), its inode is not the one `d'/n'` points to (it is not a hard
  link of it). It holds in particular when the temporary name is fresh (`TmpNotLinked.of_fresh`),
  which the unique counter provides; it holds on every reachable state
  (`reachable_tmp_not_linked`). Leftovers under the very same temporary name are allowed
  (`O_TRUNC` empties them). It is needed for `all_or_nothing`, `durable_before_visible`, `frame`;
  it is *not* needed for `exact_after_return`, `ok_when_undisturbed`, `leftover_harmless`.
* `(aget o0.dirs d).isSome` (the directory exists) only where a normal return is claimed; without
  it the rename fails and the call panics leaving everything as it was (`missing_dir_panics`).
No hypothesis on the internal descriptor is needed (`openat` overwrites the slot).

The concurrency clause of C13 is handled elsewhere.
-/
import GooseVerif.Lemmas.AtomicCreate

namespace GooseVerif.Props.C13
open GooseVerif.Model.Fs GooseVerif.Lemmas.AtomicCreate

/-! ### the hypotheses are satisfiable and stable -/

theorem wf_empty : WF Os.empty := WF.empty

theorem wf_mkdirat (o : Os) (d : String) (h : WF o) : WF (o.mkdirat d).1 := h.mkdirat d

/-- Every reachable state (`Reach`: from the empty tree through the `DirFs` methods `Mkdir`, `Create`,
`Append`, `Close`, `Open`, `ReadAt`, `Delete`, `Link`, `AtomicCreate`, `List`, through `AtomicCreate`
calls disturbed in any way, and through process crashes) is well-formed. -/
theorem reachable_wf (o : Os) (h : Reach o) : WF o := h.wf_sep.1

/-- On every reachable state the files of the root (the temporary files, leftovers of interrupted
calls included) are linked in no sub-directory, so `TmpNotLinked` holds there for every call: the
hypothesis of `all_or_nothing`, `durable_before_visible`, `frame` is discharged on all reachable
states (no reasoning about the text of temporary names is involved). -/
theorem reachable_tmp_not_linked (o : Os) (h : Reach o) (n d' n' : String) : TmpNotLinked o n d' n' :=
  h.wf_sep.2.tmpNotLinked n d' n'

/-- Histories of `DirFs` operations reach reachable states. -/
theorem run_reachable (ops : List Op) : Reach (DirFs.run Os.empty ops).1 := Reach.empty.run ops

/-- Every run (however disturbed) leaves a well-formed state. -/
theorem wf_preserved (o0 : Os) (d n : String) (data : Bytes) (dist : Disturb) (hwf : WF o0) :
    WF (acRun o0 d n data dist).1 := acRun_wf o0 d n data dist hwf

/-- Every run consumes its temporary-name counter: no two calls share a temporary name. -/
theorem tmp_counter_advances (o0 : Os) (d n : String) (data : Bytes) (dist : Disturb) (hwf : WF o0) :
    (acRun o0 d n data dist).1.tmpCount = o0.tmpCount + 1 := acRun_tmpCount o0 d n data dist hwf

/-- A fresh temporary name is in particular not a hard link of anything. -/
theorem fresh_tmp_not_linked (o0 : Os) (n d' n' : String)
    (hfresh : aget o0.root (tmpName n o0.tmpCount) = none) : TmpNotLinked o0 n d' n' :=
  TmpNotLinked.of_fresh hfresh d' n'

/-! ### the property -/

/-- **All or nothing.** For every short-write pattern, every crash point and every failing system
call: `d/n` is as it was before, or contains exactly `data`. -/
theorem all_or_nothing (o0 : Os) (d n : String) (data : Bytes) (dist : Disturb)
    (hwf : WF o0) (htmp : TmpNotLinked o0 n d n) :
    content (acRun o0 d n data dist).1 d n = content o0 d n ∨
    content (acRun o0 d n data dist).1 d n = some data := by
  obtain ⟨t, ht, hB | hD⟩ := acRun_cases o0 d n data dist hwf
  · exact Or.inl (hB.1.content (ht.ne hwf htmp)).1
  · exact Or.inr hD.1.content_target.1

/-- The same for what is on stable storage (the state a power loss would leave, as far as file
contents go): the durable contents of `d/n` are as before, or exactly `data`. -/
theorem durable_all_or_nothing (o0 : Os) (d n : String) (data : Bytes) (dist : Disturb)
    (hwf : WF o0) (htmp : TmpNotLinked o0 n d n) :
    durableContent (acRun o0 d n data dist).1 d n = durableContent o0 d n ∨
    durableContent (acRun o0 d n data dist).1 d n = some data := by
  obtain ⟨t, ht, hB | hD⟩ := acRun_cases o0 d n data dist hwf
  · exact Or.inl (hB.1.content (ht.ne hwf htmp)).2
  · exact Or.inr hD.1.content_target.2

/-- **Exact after return.** Once the call returns, `d/n` contains exactly `data`, from any
well-formed initial state: whatever earlier interrupted calls left behind, even under the very
same temporary name, and whatever the short-write pattern. -/
theorem exact_after_return (o0 : Os) (d n : String) (data : Bytes) (dist : Disturb)
    (hwf : WF o0) (hok : (acRun o0 d n data dist).2 = .ok) :
    content (acRun o0 d n data dist).1 d n = some data := by
  obtain ⟨t, _, hB | hD⟩ := acRun_cases o0 d n data dist hwf
  · rcases hB.2.1 with h | ⟨h, _⟩ <;> rw [h] at hok <;> cases hok
  · exact hD.1.content_target.1

/-- The call does return when nothing kills it and no system call fails (short writes allowed),
provided the directory exists. -/
theorem ok_when_undisturbed (o0 : Os) (d n : String) (data : Bytes) (dist : Disturb)
    (hwf : WF o0) (hdir : (aget o0.dirs d).isSome)
    (hs : dist.stopAfter = none) (hf : dist.failAt = none) :
    (acRun o0 d n data dist).2 = .ok := by
  obtain ⟨t, _, hB | hD⟩ := acRun_cases o0 d n data dist hwf
  · rw [hB.2.2 hs hf] at hdir; cases hdir
  · rcases hD.2 with h | ⟨_, h⟩
    · exact h
    · rw [hs] at h; cases h

/-- Without the directory the rename fails: the call never returns normally (it panics unless
killed first) and `d/n` stays absent. -/
theorem missing_dir_panics (o0 : Os) (d n : String) (data : Bytes) (dist : Disturb)
    (hwf : WF o0) (hdir : aget o0.dirs d = none) :
    (acRun o0 d n data dist).2 ≠ .ok ∧
    (dist.stopAfter = none → (acRun o0 d n data dist).2 = .panic) ∧
    content (acRun o0 d n data dist).1 d n = none := by
  obtain ⟨t, _, hB | hD⟩ := acRun_cases o0 d n data dist hwf
  · refine ⟨?_, ?_, ?_⟩
    · rcases hB.2.1 with h | ⟨h, _⟩ <;> rw [h] <;> exact fun e => by cases e
    · intro hs
      rcases hB.2.1 with h | ⟨_, h⟩
      · exact h
      · rw [hs] at h; cases h
    · simp only [content, Os.lookup, Os.entries, hB.1.dirs, hdir, Option.bind_none, Option.map_none]
  · obtain ⟨es, hes, _⟩ := hD.1.dirs
    rw [hdir] at hes; cases hes

/-- **Durable before visible.** Whenever `d/n` has come to contain `data` through this call, the
durable contents of the file are `data` as well: the bytes were flushed (`fsync`) before the
name pointed to them (`renameat`). Holds also when the process is killed right after the rename. -/
theorem durable_before_visible (o0 : Os) (d n : String) (data : Bytes) (dist : Disturb)
    (hwf : WF o0) (htmp : TmpNotLinked o0 n d n)
    (hnew : content (acRun o0 d n data dist).1 d n = some data) (hold : content o0 d n ≠ some data) :
    durableContent (acRun o0 d n data dist).1 d n = some data := by
  obtain ⟨t, ht, hB | hD⟩ := acRun_cases o0 d n data dist hwf
  · rw [(hB.1.content (ht.ne hwf htmp)).1] at hnew; exact absurd hnew hold
  · exact hD.1.content_target.2

/-- In particular after a normal return the data is on stable storage. -/
theorem durable_after_return (o0 : Os) (d n : String) (data : Bytes) (dist : Disturb)
    (hwf : WF o0) (hok : (acRun o0 d n data dist).2 = .ok) :
    durableContent (acRun o0 d n data dist).1 d n = some data := by
  obtain ⟨t, _, hB | hD⟩ := acRun_cases o0 d n data dist hwf
  · rcases hB.2.1 with h | ⟨h, _⟩ <;> rw [h] at hok <;> cases hok
  · exact hD.1.content_target.2

/-- **Frame.** A call for `d/n` (however disturbed) leaves every other name `d'/n'` of every
sub-directory alone, volatile and durable contents, provided the temporary file is not a hard link
of `d'/n'` either. -/
theorem frame (o0 : Os) (d n : String) (data : Bytes) (dist : Disturb) (d' n' : String)
    (hwf : WF o0) (hne : (d', n') ≠ (d, n)) (htmp : TmpNotLinked o0 n d' n') :
    content (acRun o0 d n data dist).1 d' n' = content o0 d' n' ∧
    durableContent (acRun o0 d n data dist).1 d' n' = durableContent o0 d' n' := by
  obtain ⟨t, ht, hB | hD⟩ := acRun_cases o0 d n data dist hwf
  · exact hB.1.content (ht.ne hwf htmp)
  · exact hD.1.content_other hne (ht.ne hwf htmp)

/-- The frame property under the usual condition: the temporary name of the call is fresh. -/
theorem frame_fresh (o0 : Os) (d n : String) (data : Bytes) (dist : Disturb) (d' n' : String)
    (hwf : WF o0) (hne : (d', n') ≠ (d, n)) (hfresh : aget o0.root (tmpName n o0.tmpCount) = none) :
    content (acRun o0 d n data dist).1 d' n' = content o0 d' n' ∧
    durableContent (acRun o0 d n data dist).1 d' n' = durableContent o0 d' n' :=
  frame o0 d n data dist d' n' hwf hne (TmpNotLinked.of_fresh hfresh d' n')

/-- **Leftovers are harmless.** After a first call for `d/n` disturbed in any way (`dist1`
arbitrary: killed after any number of system calls, a failing call, short writes), a following
call for the same name with any `data'` that is not killed and meets no failing system call returns
and `d/n` contains exactly `data'`. No freshness hypothesis: the second call would even cope with a
leftover under its own temporary name. -/
theorem leftover_harmless (o0 : Os) (d n : String) (data data' : Bytes) (dist1 dist2 : Disturb)
    (hwf : WF o0) (hdir : (aget o0.dirs d).isSome)
    (hs : dist2.stopAfter = none) (hf : dist2.failAt = none) :
    (acRun (acRun o0 d n data dist1).1 d n data' dist2).2 = .ok ∧
    content (acRun (acRun o0 d n data dist1).1 d n data' dist2).1 d n = some data' := by
  have hwf1 := acRun_wf o0 d n data dist1 hwf
  have hdir1 := acRun_dir_isSome o0 d n data dist1 hwf hdir
  have hok := ok_when_undisturbed _ d n data' dist2 hwf1 hdir1 hs hf
  exact ⟨hok, exact_after_return _ d n data' dist2 hwf1 hok⟩

/-- The instance asked for: the first call is killed after `k` system calls, for any `k`. -/
theorem crash_then_retry (o0 : Os) (d n : String) (data data' : Bytes) (k : Nat)
    (hwf : WF o0) (hdir : (aget o0.dirs d).isSome) :
    (acRun (acRun o0 d n data { stopAfter := some k }).1 d n data' {}).2 = .ok ∧
    content (acRun (acRun o0 d n data { stopAfter := some k }).1 d n data' {}).1 d n = some data' :=
  leftover_harmless o0 d n data data' { stopAfter := some k } {} hwf hdir rfl rfl

/-! ### the same, hypothesis-free, on every reachable state -/

/-- All-or-nothing and durable-before-visible on every reachable state (any history of `DirFs`
operations, interrupted `AtomicCreate` calls and crashes), for every disturbance of the call. -/
theorem all_or_nothing_reachable (o0 : Os) (h : Reach o0) (d n : String) (data : Bytes) (dist : Disturb) :
    (content (acRun o0 d n data dist).1 d n = content o0 d n ∨
      content (acRun o0 d n data dist).1 d n = some data) ∧
    (content (acRun o0 d n data dist).1 d n = some data → content o0 d n ≠ some data →
      durableContent (acRun o0 d n data dist).1 d n = some data) :=
  ⟨all_or_nothing o0 d n data dist (reachable_wf o0 h) (reachable_tmp_not_linked o0 h n d n),
   durable_before_visible o0 d n data dist (reachable_wf o0 h) (reachable_tmp_not_linked o0 h n d n)⟩

theorem frame_reachable (o0 : Os) (h : Reach o0) (d n : String) (data : Bytes) (dist : Disturb)
    (d' n' : String) (hne : (d', n') ≠ (d, n)) :
    content (acRun o0 d n data dist).1 d' n' = content o0 d' n' ∧
    durableContent (acRun o0 d n data dist).1 d' n' = durableContent o0 d' n' :=
  frame o0 d n data dist d' n' (reachable_wf o0 h) hne (reachable_tmp_not_linked o0 h n d' n')

/-! ### non-vacuity: concrete states and runs -/

/-- A root with one sub-directory `d`. -/
def s0 : Os := (Os.empty.mkdirat "d").1

example : WF s0 := wf_mkdirat _ _ wf_empty
example : (aget s0.dirs "d").isSome := by decide
example : aget s0.root (tmpName "x" s0.tmpCount) = none := by decide
example : TmpNotLinked s0 "x" "d" "x" := fresh_tmp_not_linked _ _ _ _ (by decide)

/-- An undisturbed call returns and installs the data, volatile and durable. -/
example : (acRun s0 "d" "x" [1, 2, 3] {}).2 = .ok := by decide
example : content (acRun s0 "d" "x" [1, 2, 3] {}).1 "d" "x" = some [1, 2, 3] := by decide
example : durableContent (acRun s0 "d" "x" [1, 2, 3] {}).1 "d" "x" = some [1, 2, 3] := by decide

/-- Short writes (1 byte, then "0" treated as 1, then the rest): still everything is written. -/
example : (acRun s0 "d" "x" [1, 2, 3, 4] { shorts := [1, 0] }).2 = .ok ∧
    content (acRun s0 "d" "x" [1, 2, 3, 4] { shorts := [1, 0] }).1 "d" "x" = some [1, 2, 3, 4] := by decide

/-- A state with an old version of `d/x`; a kill before the rename (after open, write, fsync)
leaves the old version, a kill right after the rename shows the new one: both disjuncts occur. -/
def s1 : Os := (acRun s0 "d" "x" [9] {}).1

example : content s1 "d" "x" = some [9] := by decide
example : (acRun s1 "d" "x" [1, 2] { stopAfter := some 3 }).2 = .crashed ∧
    content (acRun s1 "d" "x" [1, 2] { stopAfter := some 3 }).1 "d" "x" = some [9] := by decide
example : (acRun s1 "d" "x" [1, 2] { stopAfter := some 4 }).2 = .crashed ∧
    content (acRun s1 "d" "x" [1, 2] { stopAfter := some 4 }).1 "d" "x" = some [1, 2] := by decide
/-- A failing `fsync` (system call 2): panic, old version kept. -/
example : (acRun s1 "d" "x" [1, 2] { failAt := some 2 }).2 = .panic ∧
    content (acRun s1 "d" "x" [1, 2] { failAt := some 2 }).1 "d" "x" = some [9] := by decide

/-- A leftover under the *same* temporary name as the next call (counter forced back), longer than
the new data: `O_TRUNC` makes the result exact. -/
def s2 : Os := { (acRun s1 "d" "x" [7, 7, 7, 7, 7] { stopAfter := some 2 }).1 with tmpCount := 1 }

example : (aget s2.root (tmpName "x" s2.tmpCount)).isSome := by decide
example : (acRun s2 "d" "x" [1, 2] {}).2 = .ok ∧
    content (acRun s2 "d" "x" [1, 2] {}).1 "d" "x" = some [1, 2] := by decide

/-- `TmpNotLinked` cannot be dropped from `all_or_nothing`: if the temporary name of the call is a
hard link of `d/x` (not reachable through `DirFs`, built here with `linkat` into the root), the
`O_TRUNC` of `openat` already empties `d/x`. -/
def s3 : Os := (s1.linkat (some "d") "x" none (tmpName "x" s1.tmpCount)).1

example : content s3 "d" "x" = some [9] ∧
    content (acRun s3 "d" "x" [1, 2] { stopAfter := some 1 }).1 "d" "x" = some [] := by decide

/-- Missing directory: panic. -/
example : (acRun Os.empty "d" "x" [1] {}).2 = .panic := by decide

end GooseVerif.Props.C13
