/-
C01 — accepted sequential programs keep their meaning: ONE compiler-correctness theorem for the composed
model `Model/Core.lean` (control flow + scoping + uint64 arithmetic; helpers and the simulation relation:
`Lemmas/Core.lean`).

Source "MiniGo": `uint64` expressions over + - * & | ^ << >>, conditions over < <= > >= == != && || !,
statements `x := e`, `var x uint64 = e`, `x = e`, `x op= e`, `x++`, `x--`, `if/else`, `return e`, `break`,
`continue`, blocks, and `for init; cond; post { body }` with every clause optional; Go's big-step semantics
over a stack of scopes.  Target: the GooseLang fragment goose emits for it (`let:`, `ref_to`, `![uint64T]`,
`<-[uint64T]`, `;;`, `if:`, `for:`, `Break`, `Continue`, `Skip`), with an environment/heap big-step
semantics.  Translator `tr`: what `/repo/goose.go` does — the model is tied to the real goose by
`pylib/corecorr.py` (the tree goose emits for a random MiniGo function is EXACTLY what `tr` prints, goose's
rejections and messages included; native Go, the model's Go semantics, the model's target semantics and the
Lean interpreter on the emitted text agree on the value).

`core_compile_correct`: for every function body, all parameter values and every fuel, if goose accepts the
body then the emitted expression evaluates to exactly Go's result — the returned number, `#()` when the
body falls off its end, out of fuel iff Go is out of fuel (fuel = loop iterations, counted identically on
both sides) — and neither side is ever stuck.

Hypotheses, exactly:
* `tr (paramSEnv params) b = .ok t` — goose ACCEPTS the body.  Acceptance includes that every name
  resolves (an undeclared name is an error of `tr`, as it is of the Go type checker), so no separate
  well-scopedness hypothesis is needed.  Nothing else that the Go compiler checks is assumed: a `:=` or
  `var` that redeclares a name in the same scope, unused variables, unreachable code and a missing final
  `return` are all covered by the theorem (redeclaration is treated as shadowing on both sides).
* `b.loopVarsFresh (paramSEnv params) = true` — no `for i := …` declares an `i` whose name is visible at
  the loop.  This is NOT something Go guarantees: it excludes the known finding `loop-variable-scope`
  (`ForLoopExpr.Coq` prints `let: "i" := … in (for: …);; rest`, so the loop variable stays bound in `rest`
  and hides an outer `i`).  `loopvar_hiding_is_unsound` proves that the hypothesis cannot be dropped.

Unobservable in MiniGo, hence not modelled: Go evaluates operands left to right and GooseLang right to left,
`&&`/`||` short-circuit (operands are pure and total: no division), Go ≥ 1.22 gives every iteration its own
copy of the loop variable while goose allocates one cell (no closures, no pointers).
-/
import GooseVerif.Lemmas.Core
import GooseVerif.Lemmas.Arith
import GooseVerif.Gen.Guards
import GooseVerif.Expected.Guards
import GooseVerif.Gen.PrinterFacts
import GooseVerif.Expected.PrinterFacts
import GooseVerif.Expected.OpTables

namespace GooseVerif.Props.C01Core
open GooseVerif.Model.Core

/-! ### the tie to the code (T-gen): regenerated from /repo on every run -/

/-- The functions the model was written from whose text is pinned — `stmts`, `stmtInBlock`, `stmt`, `ifStmt`,
`endsWithReturn`, `stmtsEndWithReturn`, `blockStmt`, `branchStmt`, `returnExpr`; `varSpec`, `varDeclStmt`,
`defineStmt`, `assignStmt`, `assignFromTo`, `pointerAssign`, `identExpr`, `referenceTo`; `incDecStmt`,
`basicLiteral`, `integerConversion`; the printers `BlockExpr.Coq`, `Binding.AddTo`, `ParenExpr.Coq`,
`IfExpr.Coq`, `ForLoopExpr.Coq`, `DerefExpr.Coq`, `StoreStmt.Coq`, `BinaryExpr.Coq`, `NotExpr.Coq`; the operator
tables of `binExpr`/`assignStmt`/the printer — are, up to formatting, the committed expectation.  (`forStmt`
and `loopVar` are tied by the correspondence `pylib/corecorr.py` only.) -/
theorem core_facts_ok :
    Gen.Guards.controlFlow = Expected.Guards.controlFlow ∧ Gen.Guards.scoping = Expected.Guards.scoping ∧
    Gen.Guards.widths = Expected.Guards.widths ∧ Gen.Printer.nesting = Expected.Printer.nesting ∧
    Gen.OpTables.binExprOps = Expected.OpTables.binExprOps ∧ Gen.OpTables.assignOps = Expected.OpTables.assignOps ∧
    Gen.OpTables.coqBinOps = Expected.OpTables.coqBinOps := ⟨rfl, rfl, rfl, rfl, rfl, rfl, rfl⟩

/-! ### the main theorem -/

/-- **Compiler correctness for the composed model.**  For every function body `b`, every parameter
environment and every fuel: if goose accepts `b` (and no loop variable hides a visible name), the emitted
expression, run on the same parameter values, yields exactly what Go yields — `return v` ↦ the number `v`,
falling off the end ↦ `#()`, out of fuel ↦ out of fuel — and Go itself is not stuck (so the emitted
expression is not stuck either). -/
theorem core_compile_correct (b : Stmts) (params : List (String × W)) (fuel : Nat) (t : Tgt)
    (hacc : tr (paramSEnv params) b = .ok t)
    (hfresh : b.loopVarsFresh (paramSEnv params) = true) :
    runT fuel params t = expected (runGo fuel params b) ∧ runGo fuel params b ≠ .stuck :=
  run_correct b params fuel t hacc hfresh

/-- The three outcomes spelled out. -/
theorem core_compile_correct_cases (b : Stmts) (params : List (String × W)) (fuel : Nat) (t : Tgt)
    (hacc : tr (paramSEnv params) b = .ok t) (hfresh : b.loopVarsFresh (paramSEnv params) = true) :
    (∀ v, runGo fuel params b = .ok (some v) → runT fuel params t = .ok (.num v)) ∧
    (runGo fuel params b = .ok none → runT fuel params t = .ok .unit) ∧
    (runGo fuel params b = .fuel ↔ runT fuel params t = .fuel) := by
  obtain ⟨h1, h2⟩ := core_compile_correct b params fuel t hacc hfresh
  refine ⟨fun v e => by rw [h1, e]; rfl, fun e => by rw [h1, e]; rfl, ?_⟩
  rw [h1]
  cases hg : runGo fuel params b with
  | ok o => cases o <;> simp [expected]
  | fuel => simp [expected]
  | stuck => exact absurd hg h2

/-- **An accepted translation never gets stuck** (no load from a non-location, no loop body whose value
is neither `Break` nor `Continue`, no arithmetic on a location, …), and neither does Go on an accepted
program (every name resolves, every assignment finds its variable). -/
theorem core_accepted_never_stuck (b : Stmts) (params : List (String × W)) (fuel : Nat) (t : Tgt)
    (hacc : tr (paramSEnv params) b = .ok t) (hfresh : b.loopVarsFresh (paramSEnv params) = true) :
    runT fuel params t ≠ .stuck ∧ runGo fuel params b ≠ .stuck := by
  obtain ⟨h1, h2⟩ := core_compile_correct b params fuel t hacc hfresh
  refine ⟨?_, h2⟩
  rw [h1]
  cases hg : runGo fuel params b with
  | ok o => cases o <;> simp [expected]
  | fuel => simp [expected]
  | stuck => exact absurd hg h2

/-- The general form behind the main theorem: in ANY related state (Go stack, static environment, target
environment split per scope, heap — `Rel`), for ANY usage (function body / loop body / local), an accepted
statement list computes what `Post` says: Go's outcome normal / returned / broke / continued is matched by
the value the usage wants / the returned number / `Break` / `Continue`, the enclosing scopes are related
again, Go is not stuck, and out of fuel ↦ out of fuel. -/
theorem core_sound_in_context (ss : Stmts) (u : Usage) (ssc : SScope) (Γ : SEnv) (esc : Env) (envs : List Env)
    (stk : Stack) (h : Heap) (t : Tgt) (f : Nat)
    (hacc : trStmts (ssc :: Γ) ss u = .ok t) (hfresh : ss.loopVarsFresh (ssc :: Γ) = true)
    (hrel : Rel h stk (ssc :: Γ) (esc :: envs)) :
    Post u Γ envs (exec f ss stk) (evalT f (esc ++ envs.flatten) h t) :=
  sound_stmts ss u ssc Γ esc envs stk h t f hacc hfresh hrel

/-- **Break and continue mean what Go means.**  For an accepted loop body (usage `loop`) in any related
state: Go ends the body with `break` ↦ the emitted body evaluates to `Break`; with `continue` or by falling
off its end ↦ to `Continue`; out of fuel ↦ out of fuel; Go never returns from it and is never stuck. -/
theorem core_loop_outcomes (body : Stmts) (ssc : SScope) (Γ : SEnv) (esc : Env) (envs : List Env)
    (stk : Stack) (h : Heap) (tb : Tgt) (f : Nat)
    (hacc : trStmts (ssc :: Γ) body .loop = .ok tb) (hfresh : body.loopVarsFresh (ssc :: Γ) = true)
    (hrel : Rel h stk (ssc :: Γ) (esc :: envs)) :
    match exec f body stk with
    | .ok (.broke _) => ∃ h', evalT f (esc ++ envs.flatten) h tb = .ok (.brk, h')
    | .ok (.continued _) => ∃ h', evalT f (esc ++ envs.flatten) h tb = .ok (.cont, h')
    | .ok (.normal _) => ∃ h', evalT f (esc ++ envs.flatten) h tb = .ok (.cont, h')
    | .ok (.returned _) => False
    | .fuel => evalT f (esc ++ envs.flatten) h tb = .fuel
    | .stuck => False :=
  loop_body_outcomes body ssc Γ esc envs stk h tb f hacc hfresh hrel

/-- … and the loop as a whole: Go's `for` and GooseLang's `for:` stop together (same heap/stack relation,
value `#()`), or run out of fuel together; iteration by iteration the body's `Break`/`Continue` decides as in
Go (`loop_sound`).  Stated for the loop in the state where its variable, if any, has been allocated. -/
theorem core_loop_runs (body : Stmts) (c : Option Cond) (post : Option Simple) (Γi ssc : SScope) (Γ : SEnv)
    (ei esc : Env) (envs : List Env) (tc tp tb : Tgt)
    (htc : trCondOpt (Γi :: ssc :: Γ) c = .ok tc) (htp : trPost (Γi :: ssc :: Γ) post = .ok tp)
    (htb : trStmts ([] :: Γi :: ssc :: Γ) body .loop = .ok tb)
    (hfresh : body.loopVarsFresh ([] :: Γi :: ssc :: Γ) = true)
    (f : Nat) (h : Heap) (stk : Stack) (hrel : Rel h stk (Γi :: ssc :: Γ) (ei :: esc :: envs)) :
    LoopPost (fun h' s' => Rel h' s' (Γi :: ssc :: Γ) (ei :: esc :: envs))
      (loopIter (condOf c) (postOf post) (fun f' st' => popOut (exec f' body ([] :: st'))) f stk)
      (evalT f (ei ++ (esc ++ envs.flatten)) h (.forLoop tc tp tb)) :=
  sound_loop_run (sound_stmts body) htc htp htb hfresh f h stk hrel

/-! ### scoping -/

/-- **What a block declares is not visible after it.**  For an accepted `{ b }; rest` (rest not empty):
the emitted expression is `(⟦b⟧);; ⟦rest⟧` where `⟦rest⟧` is the translation of `rest` in the static
environment of the block statement itself (nothing `b` declared is in it), and it is evaluated in the
environment in which the block was evaluated: whatever `b` bound is gone, only the heap is passed on. -/
theorem core_scoping (Γ : SEnv) (b rest : Stmts) (u : Usage) (t : Tgt)
    (hacc : trStmts Γ (.cons (.block b) rest) u = .ok t) (hne : rest.isNil = false) :
    ∃ tb tr', trStmts ([] :: Γ) b .local = .ok tb ∧ trStmts Γ rest u = .ok tr' ∧ t = .seq tb tr' ∧
      ∀ f env h, evalT f env h t =
        match evalT f env h tb with
        | .ok (_, h') => evalT f env h' tr'
        | .fuel => .fuel
        | .stuck => .stuck := by
  rw [trStmts_cons_nonIte _ _ _ _ rfl] at hacc
  simp only [hne, Bool.false_eq_true, if_false, trInBlock] at hacc
  cases htb : trStmts ([] :: Γ) b .local with
  | error m => simp [htb] at hacc
  | ok tb =>
    simp only [htb, Bind.scope] at hacc
    cases htr : trStmts Γ rest u with
    | error m => simp [htr] at hacc
    | ok r =>
      simp only [htr, Except.ok.injEq, Bind.addTo] at hacc
      subst hacc
      exact ⟨tb, r, rfl, rfl, rfl, fun f env h => rfl⟩

/-- The same for a conditional that is not an early return: `(if: c then ⟦A⟧ else ⟦B⟧);; ⟦rest⟧`, with
`⟦rest⟧` translated in the environment of the `if` and evaluated in the environment of the `if`. -/
theorem core_scoping_if (Γ : SEnv) (c : Cond) (thn els rest : Stmts) (u : Usage) (t : Tgt)
    (hacc : trStmts Γ (.cons (.ite c thn els) rest) u = .ok t) (hne : rest.isNil = false)
    (hnoret : endsWithReturn thn = false) :
    ∃ tc ta tb tr', trStmts ([] :: Γ) thn .local = .ok ta ∧ trStmts ([] :: Γ) els .local = .ok tb ∧
      trStmts Γ rest u = .ok tr' ∧ t = .seq (.ite tc ta tb) tr' := by
  simp only [trStmts] at hacc
  cases htc : trC Γ c with
  | error m => simp [htc] at hacc
  | ok tc =>
    simp only [htc, trIf, hne, hnoret, Bool.false_eq_true, if_false] at hacc
    cases hta : trStmts ([] :: Γ) thn .local with
    | error m => simp [hta] at hacc
    | ok ta =>
      cases htb : trStmts ([] :: Γ) els .local with
      | error m => simp [hta, htb] at hacc
      | ok tb =>
        cases htr : trStmts Γ rest u with
        | error m => simp [hta, htb, htr] at hacc
        | ok r =>
          simp only [hta, htb, htr, Except.ok.injEq] at hacc
          exact ⟨tc, ta, tb, r, rfl, rfl, rfl, hacc.symm⟩

/-- The same for a loop: the statements after it are translated in the static environment of the `for`
statement — neither the loop variable nor anything the body declares is in it — and follow the loop in a
`;;`.  (Dynamically the `let:` of the loop variable extends over them: known finding `loop-variable-scope`,
see `loopvar_hiding_is_unsound`.) -/
theorem core_scoping_loop (Γ : SEnv) (init : Option (String × Exp)) (c : Option Cond) (post : Option Simple)
    (body rest : Stmts) (u : Usage) (t : Tgt)
    (hacc : trStmts Γ (.cons (.loop init c post body) rest) u = .ok t) (hne : rest.isNil = false) :
    ∃ ti tc tp tb tr', trInit Γ init = .ok ti ∧ trStmts ([] :: initSScope init :: Γ) body .loop = .ok tb ∧
      trStmts Γ rest u = .ok tr' ∧ t = (Bind.loopB ti (.forLoop tc tp tb)).addTo false tr' := by
  rw [trStmts_cons_nonIte _ _ _ _ rfl] at hacc
  simp only [hne, Bool.false_eq_true, if_false] at hacc
  cases hb : trInBlock Γ (.loop init c post body) .local with
  | error m => simp [hb] at hacc
  | ok bf =>
    obtain ⟨b, fin⟩ := bf
    obtain ⟨ti, tc, tp, tb, h1, _, _, h4, rfl, _⟩ := trInBlock_loop hb
    simp only [hb, Bind.scope] at hacc
    cases htr : trStmts Γ rest u with
    | error m => simp [htr] at hacc
    | ok r =>
      simp only [htr, Except.ok.injEq] at hacc
      exact ⟨ti, tc, tp, tb, r, h1, h4, rfl, hacc.symm⟩

/-- On the Go side and in the simulation: after an accepted block in a related state, Go's stack is related
to the SAME static environment and the SAME target environment as before — same names in the same scopes,
same cells; only values and the heap have changed. -/
theorem core_scoping_state (b : Stmts) (ssc : SScope) (Γ : SEnv) (esc : Env) (envs : List Env) (stk : Stack)
    (h : Heap) (tb : Tgt) (f : Nat) (stk' : Stack)
    (hacc : trStmts ([] :: ssc :: Γ) b .local = .ok tb) (hfresh : b.loopVarsFresh ([] :: ssc :: Γ) = true)
    (hrel : Rel h stk (ssc :: Γ) (esc :: envs)) (hgo : execStmt f (.block b) stk = .ok (.normal stk')) :
    (∃ v h', evalT f (esc ++ envs.flatten) h tb = .ok (v, h') ∧ Rel h' stk' (ssc :: Γ) (esc :: envs)) ∧
    scopeNames stk' = scopeNames stk := by
  have hp := sound_scoped (sound_stmts b) (f := f) hacc hfresh hrel
  simp only [execStmt] at hgo
  rw [hgo] at hp
  obtain ⟨v, h', h1, h2, _, _⟩ := hp
  exact ⟨⟨v, h', h1, h2⟩, by rw [h2.names, hrel.names]⟩

/-- The hypotheses of the scoping theorems are satisfiable: `exShadow` is `x := p; var acc uint64 = 0;
{ x := x + 1; acc = x }; return acc + x`, `exEarly` has a conditional in the middle, `exSum` a loop. -/
example :
    (∃ t, trStmts [[("acc", true), ("x", false), ("p", false)]]
      (.ofList [.block (.ofList [.define "x" (.bin .add (.var "x") (.lit 1)), .assign "acc" (.var "x")]),
        .ret (.bin .add (.var "acc") (.var "x"))]) .returned = .ok t) ∧
    (∃ t, trStmts [[("y", true), ("p", false)]]
      (.ofList [.ite (.cmp .gt (.var "y") (.lit 100)) (.ofList [.opAssign "y" .sub (.lit 100)]) (.ofList [.opAssign "y" .xor (.lit 1)]),
        .ret (.var "y")]) .returned = .ok t) ∧
    (∃ t, trStmts [[("acc", true), ("p", false)]]
      (.ofList [.loop (some ("i", .lit 0)) (some (.cmp .lt (.var "i") (.lit 3))) (some (.incr "i"))
        (.ofList [.opAssign "acc" .add (.var "i")]), .ret (.var "acc")]) .returned = .ok t) :=
  ⟨⟨_, rfl⟩, ⟨_, rfl⟩, ⟨_, rfl⟩⟩

/-- … and so are those of `core_scoping_state` and `core_loop_runs`: the state after
`var acc uint64 = p` with `p = 5`, and the state of `exSum`'s loop after its variable has been allocated. -/
example :
    (∃ (h : Heap) (stk stk' : Stack) (esc : Env) (tb : Tgt),
      trStmts [[], [("acc", true), ("p", false)]] (.ofList [.define "x" (.lit 1), .opAssign "acc" .add (.var "x")]) .local = .ok tb ∧
      Rel h stk [[("acc", true), ("p", false)]] [esc] ∧
      execStmt 10 (.block (.ofList [.define "x" (.lit 1), .opAssign "acc" .add (.var "x")])) stk = .ok (.normal stk')) ∧
    (∃ (h : Heap) (stk : Stack) (ei esc : Env) (tc tp tb : Tgt),
      trCondOpt [[("i", true)], [("acc", true), ("p", false)]] (some (.cmp .lt (.var "i") (.lit 3))) = .ok tc ∧
      trPost [[("i", true)], [("acc", true), ("p", false)]] (some (.incr "i")) = .ok tp ∧
      trStmts [[], [("i", true)], [("acc", true), ("p", false)]] (.ofList [.opAssign "acc" .add (.var "i")]) .loop = .ok tb ∧
      Rel h stk [[("i", true)], [("acc", true), ("p", false)]] [ei, esc]) := by
  have hacc : Rel [5] [[("acc", 5), ("p", 5)]] [[("acc", true), ("p", false)]] [[("acc", .loc 0), ("p", .num 5)]] :=
    .cons (.loc "acc" 5 0 (.num "p" 5 .nil) (by decide) (fun y hy => by simp at hy)) .nil
  refine ⟨⟨[5], _, _, _, _, rfl, hacc, rfl⟩, ⟨[5, 0], [[("i", 0)], [("acc", 5), ("p", 5)]], [("i", .loc 1)],
    [("acc", .loc 0), ("p", .num 5)], _, _, _, rfl, rfl, rfl, ?_⟩⟩
  exact .cons (.loc "i" 0 1 .nil (by decide) (fun y hy => by simp at hy)) (hacc.grow 0)

/-! ### wrap-around arithmetic -/

/-- **uint64 arithmetic wraps around**: `+`, `-`, `*` of the model (on both sides: the target's operators
are the same functions) are arithmetic modulo 2^64. -/
theorem core_wraparound (a b : W) :
    (BinOp.add.eval a b).toNat = (a.toNat + b.toNat) % 2 ^ 64 ∧
    ((BinOp.sub.eval a b).toNat + b.toNat) % 2 ^ 64 = a.toNat ∧
    (BinOp.mul.eval a b).toNat = (a.toNat * b.toNat) % 2 ^ 64 := by
  refine ⟨by simp [BinOp.eval, BitVec.toNat_add], ?_, by simp [BinOp.eval, BitVec.toNat_mul]⟩
  have ha := a.isLt
  have hb := b.isLt
  simp only [BinOp.eval, BitVec.toNat_sub]
  omega

/-- `p + (2^64 - 1)` is `p - 1`, and `0 - 1` is `2^64 - 1`: in Go, and in what goose emits. -/
example : runGo 10 [("p", 0)] exWrap = .ok (some 18446744073709551615) ∧
    runGo 10 [("p", 7)] exWrap = .ok (some 6) ∧
    (tr protoSEnv exWrap).toBool = true ∧
    (∀ t, tr protoSEnv exWrap = .ok t → runT 10 [("p", 0)] t = .ok (.num 18446744073709551615)) := by
  refine ⟨by decide, by decide, by decide, fun t ht => ?_⟩
  exact (core_compile_correct_cases exWrap [("p", 0)] 10 t ht (by decide)).1 _ (by decide)

/-- The operators of the model are the operators of the reference interpreter for the emitted text
(`GL.evalBinop`, under the notation goose prints), on all operands. -/
theorem core_ops_agree_with_interpreter (op : BinOp) (a b : W) :
    GL.evalBinop op.notation (GL.mkInt 64 a.toNat) (GL.mkInt 64 b.toNat) =
      some (GL.mkInt 64 (op.eval a b).toNat) := by
  have h64 : Lemmas.Arith.Supported 64 := .inl rfl
  cases op
  · exact Lemmas.Arith.arith_sound h64 .add a b _ rfl
  · exact Lemmas.Arith.arith_sound h64 .sub a b _ rfl
  · exact Lemmas.Arith.arith_sound h64 .mul a b _ rfl
  · exact Lemmas.Arith.arith_sound h64 .and a b _ rfl
  · exact Lemmas.Arith.arith_sound h64 .or a b _ rfl
  · exact Lemmas.Arith.arith_sound h64 .xor a b _ rfl
  · exact Lemmas.Arith.arith_sound h64 .shl a b _ rfl
  · exact Lemmas.Arith.arith_sound h64 .shr a b _ rfl

/-- … and the comparisons. -/
theorem core_cmps_agree_with_interpreter (c : CmpOp) (a b : W) :
    GL.evalBinop c.notation (GL.mkInt 64 a.toNat) (GL.mkInt 64 b.toNat) = some (.bool (c.eval a b)) := by
  have h64 : Lemmas.Arith.Supported 64 := .inl rfl
  cases c
  · exact Lemmas.Arith.compare_sound h64 .lt a b _ rfl
  · exact Lemmas.Arith.compare_sound h64 .le a b _ rfl
  · exact Lemmas.Arith.compare_sound h64 .gt a b _ rfl
  · exact Lemmas.Arith.compare_sound h64 .ge a b _ rfl
  · exact Lemmas.Arith.compare_sound h64 .eq a b _ rfl
  · exact Lemmas.Arith.compare_sound h64 .ne a b _ rfl

/-! ### non-vacuity: concrete programs satisfy the hypotheses, and both sides are computed -/

-- the example programs `exSum`, … are defined at the end of `Model/Core.lean`; the parameter is `p`

/-- Both hypotheses of the main theorem hold for non-trivial programs: a three-clause loop, a loop with
`break` and `continue`, shadowing in a block, an early return followed by `&&`/`!`/op-assignments, nested
loops that fall off the end of the function, and a loop that never ends. -/
example :
    ((tr protoSEnv exSum).toBool = true ∧ exSum.loopVarsFresh protoSEnv = true) ∧
    ((tr protoSEnv exBreakCont).toBool = true ∧ exBreakCont.loopVarsFresh protoSEnv = true) ∧
    ((tr protoSEnv exShadow).toBool = true ∧ exShadow.loopVarsFresh protoSEnv = true) ∧
    ((tr protoSEnv exEarly).toBool = true ∧ exEarly.loopVarsFresh protoSEnv = true) ∧
    ((tr protoSEnv exNested).toBool = true ∧ exNested.loopVarsFresh protoSEnv = true) ∧
    ((tr protoSEnv exForever).toBool = true ∧ exForever.loopVarsFresh protoSEnv = true) := by
  decide

/-- Go's results on them … -/
theorem core_examples_go :
    runGo 100 [("p", 5)] exSum = .ok (some 8) ∧
    runGo 100 [("p", 5)] exBreakCont = .ok (some 13) ∧
    runGo 100 [("p", 5)] exShadow = .ok (some 11) ∧
    runGo 100 [("p", 3)] exEarly = .ok (some 1) ∧
    runGo 100 [("p", 500)] exEarly = .ok (some 1200) ∧
    runGo 100 [("p", 5)] exNested = .ok none ∧
    runGo 100 [("p", 5)] exForever = .fuel := by
  decide

/-- … and the emitted expressions, evaluated directly: the same results (instances of the main theorem,
computed independently of it). -/
theorem core_examples_target :
    (∀ t, tr protoSEnv exSum = .ok t → runT 100 [("p", 5)] t = .ok (.num 8)) ∧
    (∀ t, tr protoSEnv exBreakCont = .ok t → runT 100 [("p", 5)] t = .ok (.num 13)) ∧
    (∀ t, tr protoSEnv exShadow = .ok t → runT 100 [("p", 5)] t = .ok (.num 11)) ∧
    (∀ t, tr protoSEnv exEarly = .ok t → runT 100 [("p", 500)] t = .ok (.num 1200)) ∧
    (∀ t, tr protoSEnv exNested = .ok t → runT 100 [("p", 5)] t = .ok .unit) ∧
    (∀ t, tr protoSEnv exForever = .ok t → runT 100 [("p", 5)] t = .fuel) := by
  refine ⟨?_, ?_, ?_, ?_, ?_, ?_⟩ <;> intro t ht <;> cases ht <;> decide

/-- The text emitted for `var acc uint64 = p; for i := 0; i < 3; i++ { acc += i }; return acc`. -/
theorem core_example_text :
    tr protoSEnv exSum = .ok
      (.letE "acc" (.refTo (.var "p"))
        (.letE "i" (.refTo (.lit 0))
          (.seq
            (.forLoop (.cmp .lt (.load "i") (.lit 3))
              (.store "i" (.bin .add (.load "i") (.lit 1)))
              (.seq (.store "acc" (.bin .add (.load "acc") (.load "i"))) .cont))
            (.load "acc")))) := rfl

/-- The hypotheses of `core_loop_outcomes` / `core_sound_in_context` are satisfiable: a loop body with
`break` and `continue`, in the state reached by `var acc uint64 = p; var n uint64 = 0` with `p = 5`. -/
example : ∃ (body : Stmts) (tb : Tgt) (h : Heap) (stk : Stack) (esc : Env),
    trStmts [[("n", true), ("acc", true), ("p", false)]] body .loop = .ok tb ∧
    body.loopVarsFresh [[("n", true), ("acc", true), ("p", false)]] = true ∧
    Rel h stk [[("n", true), ("acc", true), ("p", false)]] [esc] ∧
    exec 10 body stk = .ok (.broke [[("n", 7), ("acc", 5), ("p", 5)]]) := by
  refine ⟨.ofList [.incr "n", .ite (.cmp .gt (.var "n") (.lit 4)) (.ofList [.brk]) .nil, .opAssign "acc" .add (.var "n")],
    _, [5, 6], [[("n", 6), ("acc", 5), ("p", 5)]], [("n", .loc 1), ("acc", .loc 0), ("p", .num 5)], rfl, by decide, ?_, by decide⟩
  refine .cons (.loc "n" 6 1 (.loc "acc" 5 0 (.num "p" 5 .nil) (by decide) ?_) (by decide) ?_) .nil
  · intro y hy; simp at hy
  · intro y hy; simp at hy

/-! ### what goose refuses (the messages are goose's) -/

theorem core_rejections :
    tr protoSEnv exAssignDefine = .error "variable x is not assignable" ∧
    tr protoSEnv exReturnInLoop = .error "return in unsupported position" ∧
    tr protoSEnv exEarlyElse = .error "early return in if with an else branch" ∧
    tr protoSEnv exBreakMiddle = .error "break/continue in unsupported position" ∧
    tr protoSEnv (.ofList [.define "x" (.var "p"), .incr "x", .ret (.var "x")]) =
      .error "can only inc/dec pointer-wrapped variables" ∧
    tr protoSEnv (.ofList [.declare "x" (.var "p"), .opAssign "x" .mul (.lit 2), .ret (.var "x")]) =
      .error "*= assignment" ∧
    tr protoSEnv (.ofList [.declare "x" (.var "p"),
      .loop none (some (.cmp .lt (.var "x") (.lit 3))) (some (.define "y" (.lit 1))) .nil, .ret (.var "x")]) =
      .error "post cannot bind names" ∧
    tr protoSEnv (.ofList [.ret (.var "q")]) = .error "undeclared name q" :=
  ⟨rfl, rfl, rfl, rfl, rfl, rfl, rfl, rfl⟩

/-! ### mutation witnesses -/

/-- **Without the parentheses around a nested block the translation is unsound** (goose before the
repair 4a58fab; `trLeaky` prints every `a;; b` without parentheses around `a` and reads the text back).
`x := p; var acc uint64 = 0; { x := x + 1; acc = x }; return acc + x` with `p = 5`: Go returns 11, the
mutant's expression evaluates to 12 — the `x` of the block is still bound after it. -/
theorem unparen_is_unsound :
    ∃ t, trLeaky protoSEnv exShadow = .ok t ∧ exShadow.loopVarsFresh protoSEnv = true ∧
      runGo 100 [("p", 5)] exShadow = .ok (some 11) ∧ runT 100 [("p", 5)] t = .ok (.num 12) :=
  ⟨_, rfl, by decide, by decide, by decide⟩

/-- Hence the main theorem does not hold for that translator … -/
theorem unparen_not_correct :
    ¬ (∀ (b : Stmts) (params : List (String × W)) (fuel : Nat) (t : Tgt),
        trLeaky (paramSEnv params) b = .ok t → b.loopVarsFresh (paramSEnv params) = true →
        runT fuel params t = expected (runGo fuel params b)) := by
  intro hall
  have h := hall exShadow [("p", 5)] 100 _ rfl (by decide)
  revert h
  decide

/-- … while goose as it is gets the witness right (an instance of the main theorem). -/
theorem paren_correct_on_witness :
    ∀ t, tr protoSEnv exShadow = .ok t → runT 100 [("p", 5)] t = .ok (.num 11) := by
  intro t ht
  exact (core_compile_correct_cases exShadow [("p", 5)] 100 t ht (by decide)).1 _ (by decide)

/-- **`x++` translated without the load is unsound**: `"x" <-[uint64T] ("x" + #1)` adds 1 to a location.
`var x uint64 = p; x++; return x` with `p = 5`: Go returns 6, the mutant's expression is stuck. -/
theorem incr_without_load_is_unsound :
    ∃ t, trNoLoad protoSEnv exInc = .ok t ∧ exInc.loopVarsFresh protoSEnv = true ∧
      runGo 100 [("p", 5)] exInc = .ok (some 6) ∧ runT 100 [("p", 5)] t = .stuck :=
  ⟨_, rfl, by decide, by decide, by decide⟩

theorem incr_without_load_not_correct :
    ¬ (∀ (b : Stmts) (params : List (String × W)) (fuel : Nat) (t : Tgt),
        trNoLoad (paramSEnv params) b = .ok t → b.loopVarsFresh (paramSEnv params) = true →
        runT fuel params t = expected (runGo fuel params b)) := by
  intro hall
  have h := hall exInc [("p", 5)] 100 _ rfl (by decide)
  revert h
  decide

/-- **The hypothesis `loopVarsFresh` is needed** (known finding `loop-variable-scope`, about goose as it
is): `i := p; var acc uint64 = 0; for i := 0; i < 2; i++ { acc += i }; return acc + i` is accepted, Go
returns `1 + p`, and in the emitted expression the `"i"` of `return acc + i` is the leaked loop variable —
a location: stuck. -/
theorem loopvar_hiding_is_unsound :
    ∃ t, tr protoSEnv exHide = .ok t ∧ exHide.loopVarsFresh protoSEnv = false ∧
      runGo 100 [("p", 5)] exHide = .ok (some 6) ∧ runT 100 [("p", 5)] t = .stuck :=
  ⟨_, rfl, by decide, by decide, by decide⟩

theorem loopVarsFresh_needed :
    ¬ (∀ (b : Stmts) (params : List (String × W)) (fuel : Nat) (t : Tgt),
        tr (paramSEnv params) b = .ok t → runT fuel params t = expected (runGo fuel params b)) := by
  intro hall
  have h := hall exHide [("p", 5)] 100 _ rfl
  revert h
  decide

end GooseVerif.Props.C01Core
