/-
C05 (parenthesisation) — the nesting of operators, calls and `if` blocks obtained by reading the
emitted text with a precedence table is the nesting of the Go source, for EVERY table.

Property theorems only.  Model: `Model/Paren.lean` — `print` is goose's `Coq(needs_paren)`
discipline (`addParens` for binary expressions, calls and `![ty]`; `(~ X)`; `(if: … )` with its
three components printed without parentheses; atoms bare), `parse prec rassoc` is a
precedence-climbing reader for an arbitrary infix table (`parseG` additionally takes the binding
power of the operand of `~`).  The reader accepts unparenthesised texts such as `a + b * c`,
`~ a + b`, `a - b - c` and reads them according to the table, so the statement is not true of every
printer: `unparenthesised_depends_on_table` is the seeded change (`a - (b - c)` printed as
`a - b - c`) read back as a different tree.  Helpers: `Lemmas/Paren.lean`.

`Closed rest`: the text after the expression is empty or starts with `)`, `then` or `else`.
-/
import GooseVerif.Model.Paren
import GooseVerif.Lemmas.Paren

namespace GooseVerif.Props.C05Paren
open GooseVerif.Model.Paren

/-- The printed text reads back as the same tree, whatever the infix table and whatever the binding
power of `~`; both for the parenthesised form (`needs_paren = true`) and the bare one. -/
theorem print_parseG (prec : Nat → Nat) (rassoc : Nat → Bool) (notPrec : Nat)
    (e : E) (b : Bool) (rest : List Tok) (hrest : Closed rest) :
    ∃ fuel0, ∀ fuel, fuel0 ≤ fuel →
      parseG prec rassoc notPrec fuel 0 (print b e ++ rest) = some (e, rest) := by
  obtain ⟨N, h⟩ := print_expr prec rassoc notPrec e b
  exact ⟨N, fun fuel hf => h fuel hf rest hrest⟩

/-- The same for `parse` (Coq's reading of `~`). -/
theorem print_parse (prec : Nat → Nat) (rassoc : Nat → Bool)
    (e : E) (b : Bool) (rest : List Tok) (hrest : Closed rest) :
    ∃ fuel0, ∀ fuel, fuel0 ≤ fuel →
      parse prec rassoc fuel 0 (print b e ++ rest) = some (e, rest) :=
  print_parseG prec rassoc 0 e b rest hrest

/-- The parenthesised form — the one operands are printed in — reads back as the same tree at ANY
minimal precedence, i.e. in any operand position. -/
theorem print_parse_operand (prec : Nat → Nat) (rassoc : Nat → Bool) (notPrec : Nat)
    (e : E) (minPrec : Nat) (rest : List Tok) (hrest : Closed rest) :
    ∃ fuel0, ∀ fuel, fuel0 ≤ fuel →
      parseG prec rassoc notPrec fuel minPrec (print true e ++ rest) = some (e, rest) := by
  obtain ⟨N, hs, _⟩ := reads prec rassoc notPrec e
  exact ⟨N + 3, fun fuel hf =>
    expr_of_simple prec rassoc notPrec hs fuel hf minPrec rest hrest⟩

/-- More fuel never changes a result. -/
theorem parse_fuel_mono (prec : Nat → Nat) (rassoc : Nat → Bool) {fuel fuel' minPrec : Nat}
    {ts : List Tok} {r : E × List Tok} (hf : fuel ≤ fuel')
    (h : parse prec rassoc fuel minPrec ts = some r) :
    parse prec rassoc fuel' minPrec ts = some r :=
  expr_mono prec rassoc 0 hf h

/-- Hence ANY result the reader gives on the printed text, with any fuel, is the Go tree. -/
theorem parse_print_unique (prec : Nat → Nat) (rassoc : Nat → Bool)
    (e : E) (b : Bool) (rest : List Tok) (hrest : Closed rest) (fuel : Nat) (r : E × List Tok)
    (h : parse prec rassoc fuel 0 (print b e ++ rest) = some r) : r = (e, rest) := by
  obtain ⟨N, hN⟩ := print_parse prec rassoc e b rest hrest
  have h1 := parse_fuel_mono prec rassoc (Nat.le_add_right fuel N) h
  have h2 := hN (fuel + N) (Nat.le_add_left N fuel)
  rw [h1] at h2
  exact Option.some.inj h2

/-- The nesting does not depend on the table: two readers with different tables read the printed
text to the same tree (and do read it: the common value is `some`). -/
theorem nesting_is_table_independent (prec₁ prec₂ : Nat → Nat) (rassoc₁ rassoc₂ : Nat → Bool)
    (e : E) (b : Bool) (rest : List Tok) (hrest : Closed rest) :
    ∃ fuel0, ∀ f₁ f₂, fuel0 ≤ f₁ → fuel0 ≤ f₂ →
      parse prec₁ rassoc₁ f₁ 0 (print b e ++ rest) = parse prec₂ rassoc₂ f₂ 0 (print b e ++ rest) ∧
      parse prec₁ rassoc₁ f₁ 0 (print b e ++ rest) = some (e, rest) := by
  obtain ⟨N₁, h₁⟩ := print_parse prec₁ rassoc₁ e b rest hrest
  obtain ⟨N₂, h₂⟩ := print_parse prec₂ rassoc₂ e b rest hrest
  refine ⟨N₁ + N₂, fun f₁ f₂ hf₁ hf₂ => ?_⟩
  rw [h₁ f₁ (by omega), h₂ f₂ (by omega)]
  exact ⟨rfl, rfl⟩

/-- Fuel-free form: whatever two readers return on the printed text, they return the same. -/
theorem nesting_is_table_independent' (prec₁ prec₂ : Nat → Nat) (rassoc₁ rassoc₂ : Nat → Bool)
    (e : E) (b : Bool) (rest : List Tok) (hrest : Closed rest) (f₁ f₂ : Nat) (r₁ r₂ : E × List Tok)
    (h₁ : parse prec₁ rassoc₁ f₁ 0 (print b e ++ rest) = some r₁)
    (h₂ : parse prec₂ rassoc₂ f₂ 0 (print b e ++ rest) = some r₂) : r₁ = r₂ := by
  rw [parse_print_unique prec₁ rassoc₁ e b rest hrest f₁ r₁ h₁,
    parse_print_unique prec₂ rassoc₂ e b rest hrest f₂ r₂ h₂]

/-! ### What the parentheses buy: the seeded change -/

/-- The variant printer that drops the parentheses around a right operand with the same operator
prints `a - (b - c)` as `a - b - c`; a left-associative table reads that as `(a - b) - c`, a
different tree, and a right-associative one as `a - (b - c)`: the reading depends on the table.
The real printer's text is read as `a - (b - c)` by both. -/
theorem unparenthesised_depends_on_table :
    printMut false subRight = [Tok.atom 1, Tok.op 0, Tok.atom 2, Tok.op 0, Tok.atom 3] ∧
    parse flat leftAssoc 10 0 (printMut false subRight) = some (subLeft, []) ∧
    parse flat rightAssoc 10 0 (printMut false subRight) = some (subRight, []) ∧
    subLeft ≠ subRight ∧
    parse flat leftAssoc 10 0 (print false subRight) = some (subRight, []) ∧
    parse flat rightAssoc 10 0 (print false subRight) = some (subRight, []) := by
  refine ⟨rfl, rfl, rfl, ?_, rfl, rfl⟩
  intro h
  simp [subLeft, subRight] at h

/-- The same for every operator, operands and table in which the operator is left-associative. -/
theorem unparenthesised_reassociates (prec : Nat → Nat) (rassoc : Nat → Bool) (o a b c : Nat)
    (hl : rassoc o = false) :
    parse prec rassoc 10 0 (printMut false (E.bin o (E.atom a) (E.bin o (E.atom b) (E.atom c)))) =
      some (E.bin o (E.bin o (E.atom a) (E.atom b)) (E.atom c), []) := by
  have hlt : ¬ (prec o + 1 ≤ prec o) := Nat.not_succ_le_self _
  simp [parse, parseG, printMut, sameOp, wrap, expr, loop, operand, args, startsSimple, hl, hlt]

/-! ### Non-vacuity: concrete prints and readings -/

/-- `(x + f (y * z) w)` : operands of `+` and arguments of `f` are parenthesised unless atomic. -/
example :
    print true (E.bin 0 (E.atom 1) (E.app 7 (E.bin 1 (E.atom 2) (E.atom 3)) [E.atom 4])) =
      [Tok.lp, Tok.atom 1, Tok.op 0, Tok.lp, Tok.atom 7, Tok.lp, Tok.atom 2, Tok.op 1, Tok.atom 3,
        Tok.rp, Tok.atom 4, Tok.rp, Tok.rp] := rfl

/-- `(if: x < y then (~ x) else ![ty] (f x))`: branches bare, `~` with its own parentheses. -/
example :
    print false (E.ite (E.bin 2 (E.atom 1) (E.atom 2)) (E.not (E.atom 1))
        (E.deref (E.app 7 (E.atom 1) []))) =
      [Tok.lp, Tok.kif, Tok.atom 1, Tok.op 2, Tok.atom 2, Tok.kthen, Tok.lp, Tok.tilde, Tok.atom 1,
        Tok.rp, Tok.kelse, Tok.bang, Tok.lp, Tok.atom 7, Tok.atom 1, Tok.rp, Tok.rp] := rfl

/-- Read back with a table where every operator has the same level … -/
example :
    parse flat leftAssoc 30 0 (print false (E.ite (E.bin 2 (E.atom 1) (E.atom 2)) (E.not (E.atom 1))
        (E.deref (E.app 7 (E.atom 1) [])))) =
      some (E.ite (E.bin 2 (E.atom 1) (E.atom 2)) (E.not (E.atom 1))
        (E.deref (E.app 7 (E.atom 1) [])), []) := rfl

/-- … and the reader is not insensitive to its table: `a + b * c` without parentheses. -/
example :
    parse (fun o => o) leftAssoc 10 0 [Tok.atom 1, Tok.op 0, Tok.atom 2, Tok.op 1, Tok.atom 3] =
      some (E.bin 0 (E.atom 1) (E.bin 1 (E.atom 2) (E.atom 3)), []) := rfl
example :
    parse (fun o => 1 - o) leftAssoc 10 0 [Tok.atom 1, Tok.op 0, Tok.atom 2, Tok.op 1, Tok.atom 3] =
      some (E.bin 1 (E.bin 0 (E.atom 1) (E.atom 2)) (E.atom 3), []) := rfl

/-- `~ a + b` without parentheses: the reading depends on the binding power of `~`. -/
example :
    parseG flat leftAssoc 0 10 0 [Tok.tilde, Tok.atom 1, Tok.op 0, Tok.atom 2] =
      some (E.not (E.bin 0 (E.atom 1) (E.atom 2)), []) := rfl
example :
    parseG flat leftAssoc 60 10 0 [Tok.tilde, Tok.atom 1, Tok.op 0, Tok.atom 2] =
      some (E.bin 0 (E.not (E.atom 1)) (E.atom 2), []) := rfl

/-- The hypothesis on the rest is needed: an atom followed by an atom is an application. -/
example :
    parse flat leftAssoc 10 0 (print false (E.atom 1) ++ [Tok.atom 2]) =
      some (E.app 1 (E.atom 2) [], []) := rfl

end GooseVerif.Props.C05Paren
