/-
C01 — local variables and block scopes (`defineStmt`, `varSpec`, `variable`, `assignFromTo`, `stmts`,
`stmtInBlock`, `ifStmt` in `/repo/goose.go`; `Binding.AddTo`, `BlockExpr.Coq`, `ParenExpr` in
`/repo/internal/coq/coq.go`).

Property theorems only (model: `Model/Scope.lean`, helpers and the simulation relation:
`Lemmas/Scope.lean`).

Go has block scopes with shadowing and every variable is mutable; GooseLang has immutable
`let:`-bindings whose scope is the rest of the expression, and heap cells.  goose turns `x := e` into a
`let:`, `var x = e` into a `let:` of a fresh cell (uses become loads, assignments stores), and a nested
block into a PARENTHESISED expression so that its bindings end where Go's scope ends.  `scoping_sound`
says: whenever goose accepts a function body — any nesting of blocks and conditionals, any pattern of
shadowing between `:=` and `var` declarations — the emitted expression is not stuck and computes the
value Go returns.  `leak_is_unsound` shows that without the parentheses (the behaviour before the
repair) the theorem is false: a wrong value, and a stuck program.
-/
import GooseVerif.Lemmas.Scope

namespace GooseVerif.Props.C01Scope
open GooseVerif.Model.Scope

/-- **Scoping is translated soundly.**  For every function body `ss` (three-constructor lists
`nil | ret e | cons s rest`; statements `x := e`, `var x = e`, `x = e`, `{ … }`, `if c { … } else { … }`,
nested and shadowing in any way) that the translator accepts in the empty static environment: if Go
returns `v`, the emitted expression evaluates — it is not stuck — to the number `v`. -/
theorem scoping_sound (ss : Stmts) (t : T) (v : Nat)
    (hacc : tr emptyEnv ss = .ok t) (hgo : runGo ss = some v) : runT t = some (.num v) := by
  unfold runGo at hgo
  cases hx : execStmts [[]] ss with
  | none => simp [hx] at hgo
  | some out =>
    cases out with
    | normal st => simp [hx] at hgo
    | returned n =>
      simp [hx] at hgo
      subst hgo
      have hp := sound_stmts ss true [] [] [] [] [] [] [] t (.returned n) hacc (.cons .nil .nil) hx
      obtain ⟨_, h', he⟩ := hp
      simp at he
      simp [runT, he]

/-- The same, for the composed functions: translate-and-run agrees with Go on accepted programs. -/
theorem scoping_sound_run (ss : Stmts) (t : T) (v : Nat)
    (hacc : tr emptyEnv ss = .ok t) (hgo : runGo ss = some v) : runTr ss = some (.num v) := by
  simp [runTr, hacc, scoping_sound ss t v hacc hgo]

/-- The general form behind `scoping_sound`: in ANY related state (Go stack, static environment,
target environment split per scope, heap) an accepted function body that returns `v` in Go evaluates to
`v`; the hidden outer bindings are part of the relation, which is how they are right again after an
inner scope ends. -/
theorem scoping_sound_in_context (ss : Stmts) (t : T) (v : Nat) (h : Heap)
    (sc : Scope) (st : Stack) (ssc : SScope) (Γ : SEnv) (esc : Env) (envs : List Env)
    (hrel : Rel h (sc :: st) (ssc :: Γ) (esc :: envs))
    (hacc : tr (ssc :: Γ) ss = .ok t) (hgo : execStmts (sc :: st) ss = some (.returned v)) :
    ∃ h', evalT (esc :: envs).flatten h t = some (.num v, h') := by
  have hp := sound_stmts ss true ssc Γ sc st esc envs h t (.returned v) hacc hrel hgo
  obtain ⟨_, h', he⟩ := hp
  exact ⟨h', by simpa using he⟩

/-- **Accepted assignments are to `var`-declared variables.**  If the translator accepts a statement
list (in any static environment, as a function body or as a nested block, with or without the
repair), then every assignment `x = e` in it — at any depth — resolves at its program point to a
declaration that is pointer-wrapped, i.e. one made by `var`. -/
theorem accepted_assignments_are_to_var_declared (paren top : Bool) (Γ : SEnv) (ss : Stmts) (t : T)
    (hacc : trStmts paren top Γ ss = .ok t) : Stmts.assignsWrapped Γ ss :=
  assignsWrapped_stmts paren ss top Γ t hacc

/-- … in particular for goose as it is, from the empty environment. -/
theorem accepted_assignments_are_to_var_declared_tr (ss : Stmts) (t : T)
    (hacc : tr emptyEnv ss = .ok t) : Stmts.assignsWrapped emptyEnv ss :=
  assignsWrapped_stmts true ss true emptyEnv t hacc

/-- The single statement: `x = e` is accepted only if the innermost declaration of `x` is wrapped, and
then it is a store to `"x"`; otherwise the error is goose's. -/
theorem assign_accepted_iff (paren : Bool) (Γ : SEnv) (x : String) (e : Exp) :
    (∀ b, trStmt paren Γ (.assign x e) = .ok b → lookStk x Γ = some true ∧ ∃ te, b = .anon (.store x te)) ∧
    (lookStk x Γ ≠ some true →
      trStmt paren Γ (.assign x e) = .error ("variable " ++ x ++ " is not assignable")) := by
  constructor
  · intro b hb
    simp only [trStmt] at hb
    split at hb
    · next hw =>
      split at hb
      · cases hb
      · cases hb; exact ⟨hw, _, rfl⟩
    · cases hb
  · intro hne
    simp only [trStmt]

/-- At run time an accepted assignment hits a cell: in a related state the name is bound to an
allocated location in the target environment, Go's update succeeds, and the two updated states are
related again. -/
theorem accepted_assignment_hits_a_cell (Γ : SEnv) (x : String) (e : Exp) (b : Bind) (h : Heap)
    (stk : Stack) (envs : List Env) (m : Nat)
    (hacc : trStmt true Γ (.assign x e) = .ok b) (hrel : Rel h stk Γ envs) :
    ∃ l stk', updStk x m stk = some stk' ∧ look x envs.flatten = some (.loc l) ∧ l < h.length ∧
      Rel (h.set l m) stk' Γ envs :=
  hrel.upd x m ((assign_accepted_iff true Γ x e).1 b hacc).1

/-! ### examples -/

-- the example programs `exShadowDefine`, … are defined at the end of `Model/Scope.lean`

/-- Shadowing, both sides computed: the outer binding is back after the block, with the updates made to
it from inside the block. -/
theorem shadowing_examples :
    (runGo exShadowDefine = some 1 ∧ runTr exShadowDefine = some (.num 1)) ∧
    (runGo exShadowVar = some 105 ∧ runTr exShadowVar = some (.num 105)) ∧
    (runGo exOuterAssign = some 4 ∧ runTr exOuterAssign = some (.num 4)) ∧
    (runGo exMixedShadow = some 5 ∧ runTr exMixedShadow = some (.num 5)) := by
  decide

/-- What is emitted for `x := 1; { x := 2 }; return x`: `let: "x" := #1 in (let: "x" := #2 in #());; "x"`. -/
theorem shadowing_example_text :
    tr emptyEnv exShadowDefine =
      .ok (.letIn "x" (.lit 1) (.seq (.letIn "x" (.lit 2) .unit) (.var "x"))) := rfl

/-- Assigning to a `:=` variable is refused with goose's message, also when an outer `var` of the same
name exists (the innermost declaration decides). -/
theorem rejects_assignment_to_define :
    tr emptyEnv (.cons (.define "x" (.lit 1)) (.cons (.assign "x" (.lit 2)) (.ret (.var "x")))) =
      .error "variable x is not assignable" ∧
    tr emptyEnv (.cons (.declare "x" (.lit 1))
      (.cons (.block (.cons (.define "x" (.lit 2)) (.cons (.assign "x" (.lit 3)) .nil))) (.ret (.var "x")))) =
      .error "variable x is not assignable" := ⟨rfl, rfl⟩

/-! ### mutation witness -/

/-- **Without the parentheses the translation is unsound.**  The pre-repair translator accepts
`x := 1; { x := 2 }; return x`, Go returns 1 and the emitted expression
`let: "x" := #1 in let: "x" := #2 in #();; "x"` evaluates to 2; it accepts
`var x = 5; { x := 7 }; x = x + 100; return x`, Go returns 105 and the emitted expression is STUCK (it
loads from / stores to `"x"`, which the leaked `let:` binds to the number 7).  The first defect also
shows in a program Go compiles without "declared and not used" (`exLeakUsed`). -/
theorem leak_is_unsound :
    (∃ t, trLeaky emptyEnv exShadowDefine = .ok t ∧ runGo exShadowDefine = some 1 ∧
      (evalLeaky [] [] t).map (·.1) = some (.num 2)) ∧
    (∃ t, trLeaky emptyEnv exLeakStuck = .ok t ∧ runGo exLeakStuck = some 105 ∧ evalLeaky [] [] t = none) ∧
    (∃ t, trLeaky emptyEnv exLeakUsed = .ok t ∧ runGo exLeakUsed = some 1 ∧
      (evalLeaky [] [] t).map (·.1) = some (.num 2)) := by
  refine ⟨⟨_, rfl, by decide, by decide⟩, ⟨_, rfl, by decide, by decide⟩, ⟨_, rfl, by decide, by decide⟩⟩

/-- The text the pre-repair translator emits for the first witness: the `"x"` of `return x` is inside the
inner `let:`. -/
theorem leak_example_text :
    trLeaky emptyEnv exShadowDefine =
      .ok (.letIn "x" (.lit 1) (.letIn "x" (.lit 2) (.seq .unit (.var "x")))) := rfl

/-- The repaired translator is right on the same three programs. -/
theorem repaired_on_leak_witnesses :
    runTr exShadowDefine = some (.num 1) ∧ runTr exLeakStuck = some (.num 105) ∧
    runTr exLeakUsed = some (.num 1) := by
  decide

/-- Hence `scoping_sound` does not hold for the pre-repair translator. -/
theorem leaky_not_sound :
    ¬ (∀ (ss : Stmts) (t : T) (v : Nat), trLeaky emptyEnv ss = .ok t → runGo ss = some v →
        runT t = some (.num v)) := by
  intro hall
  have h := hall exShadowDefine _ 1 rfl (by decide)
  revert h
  decide

end GooseVerif.Props.C01Scope
