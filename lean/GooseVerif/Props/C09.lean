/-
C09 — Disks are arrays of independent 4096-byte registers; Mem ≡ File.

Property theorems only (helpers: `Lemmas/Disk.lean`). `bs` is instantiated with the
`BlockSize` constant regenerated from /repo. The models `memImpl` / `fileImpl` are hand-written
from `machine/disk/mem.go` / `file.go`; `facts_ok` pins every declaration of the two packages
(canonical text, evaluated constants, resolved aliases) to what the models were written from,
and the correspondence runs the six real variants against the compiled models.
-/
import GooseVerif.Lemmas.Disk
import GooseVerif.Lemmas.ShortWrite
import GooseVerif.Gen.DiskFacts
import GooseVerif.Expected.DiskFacts

namespace GooseVerif.Props.C09
open GooseVerif.Model.Disk GooseVerif

abbrev BS : Nat := Gen.Disk.blockSize

/-- T-gen obligation: machine/disk and machine/async_disk are what the models were written from. -/
theorem facts_ok :
    Gen.Disk.diskDecls = Expected.Disk.diskDecls ∧ Gen.Disk.diskCalls = Expected.Disk.diskCalls ∧
    Gen.Disk.asyncDecls = Expected.Disk.asyncDecls ∧ Gen.Disk.asyncCalls = Expected.Disk.asyncCalls := by
  exact ⟨rfl, rfl, rfl, rfl⟩

theorem blocksize_4096 : Gen.Disk.blockSize = 4096 ∧ Gen.Disk.asyncBlockSize = 4096 := by decide

/-- `async_disk` is the same implementation: its exported type names are aliases of `disk`'s. -/
theorem async_same :
    Gen.Disk.asyncTypes =
      [("Block", "alias=true []byte"),
       ("Disk", "alias=true github.com/goose-lang/goose/machine/disk.Disk"),
       ("MemDisk", "alias=true github.com/goose-lang/goose/machine/disk.MemDisk"),
       ("FileDisk", "alias=true github.com/goose-lang/goose/machine/disk.FileDisk")] := rfl

/-- The global wrappers only delegate to the installed disk. -/
theorem wrappers_delegate :
    Gen.Disk.diskWrappers =
      [("func Barrier", "func () { implicitDisk.Barrier() }"),
       ("func Get", "func () Disk { return implicitDisk }"),
       ("func Init", "func (d Disk) { implicitDisk = d }"),
       ("func Read", "func (a uint64) Block { return implicitDisk.Read(a) }"),
       ("func Size", "func () uint64 { return implicitDisk.Size() }"),
       ("func Write", "func (a uint64, v Block) { implicitDisk.Write(a, v) }")] := rfl

/-! ### refinement: both implementations are the register array, for every history -/

/-- MemDisk: every history whose `ReadTo` buffers are blocks produces exactly the replies of the
register array, leaves the client heap in the same state, and stays in simulation. -/
theorem mem_refines (ops : List Op) (n : Nat) (h : Heap) (hv : validRun BS (specInit BS n, h) ops = true) :
    (run BS (memImpl BS) (memInit BS n, h) ops).2 = (run BS (specImpl BS) (specInit BS n, h) ops).2 ∧
    (run BS (memImpl BS) (memInit BS n, h) ops).1.2 = (run BS (specImpl BS) (specInit BS n, h) ops).1.2 :=
  let r := run_refines (mem_refines' BS) ops (memInit BS n) (specInit BS n) h ⟨rfl, allLen_replicate BS n⟩ hv
  ⟨r.1, r.2.1⟩

/-- FileDisk over any file of the right length (in particular a freshly created image). -/
theorem file_refines (ops : List Op) (d : FileSt) (h : Heap) (hlen : d.file.length = d.numBlocks * BS)
    (hv : validRun BS (fileBlocks BS d, h) ops = true) :
    (run BS (fileImpl BS) (d, h) ops).2 = (run BS (specImpl BS) (fileBlocks BS d, h) ops).2 ∧
    (run BS (fileImpl BS) (d, h) ops).1.2 = (run BS (specImpl BS) (fileBlocks BS d, h) ops).1.2 :=
  let r := run_refines (file_refines' BS) ops d (fileBlocks BS d) h (fileSim_of_length BS d hlen) hv
  ⟨r.1, r.2.1⟩

/-- A new file disk starts as the all-zero register array. -/
theorem file_new_zero (n : Nat) : fileBlocks BS (fileOpen BS [] n) = specInit BS n :=
  fileBlocks_new BS n

/-- Mem ≡ File: on every valid history the two implementations return identical results. -/
theorem mem_eq_file (ops : List Op) (n : Nat) (h : Heap) (hv : validRun BS (specInit BS n, h) ops = true) :
    (run BS (memImpl BS) (memInit BS n, h) ops).2 = (run BS (fileImpl BS) (fileOpen BS [] n, h) ops).2 := by
  have hm := (mem_refines ops n h hv).1
  have hf := (file_refines ops (fileOpen BS [] n) h
    (by rw [fileOpen_length, fileOpen_numBlocks]) (by rw [file_new_zero]; exact hv)).1
  rw [hm, hf, file_new_zero]

/-- The executable sparse specification used by the driver as `Spec.check` is the register array. -/
theorem sparse_refines : Refines BS (sparseImpl BS)
    (fun sp r => r.length = sp.size ∧ AllLen BS r ∧ ∀ a, a < sp.size → r[a]? = some (sp.lookup BS a)) :=
  sparse_refines' BS

/-! ### what "array of independent registers" means, on the specification -/

/-- A read returns the most recent value written to that address; a write affects no other address. -/
theorem read_last_write (regs regs' : Regs) (a a' : Nat) (v buf : Bytes) (hb : buf.length = BS)
    (hw : (specImpl BS).write regs a v = some regs') :
    (specImpl BS).readTo regs' a' buf = if a' = a then some v else (specImpl BS).readTo regs a' buf := by
  simp only [specImpl] at hw ⊢
  split at hw
  · rename_i hc
    cases hw
    by_cases h : a' = a
    · subst h; simp [hc.2, hb]
    · simp [h, List.getElem?_set_ne (Ne.symm h)]
  · cases hw

/-- Size never changes. -/
theorem size_const (regs regs' : Regs) (a : Nat) (v : Bytes) (hw : (specImpl BS).write regs a v = some regs') :
    (specImpl BS).size regs' = (specImpl BS).size regs := by
  simp only [specImpl] at hw ⊢
  split at hw <;> cases hw
  simp

/-- Out-of-range addresses and wrong-sized write buffers are refused, leaving the disk as it was
(`none` carries no new state). -/
theorem oob_refused (regs : Regs) (a : Nat) (v : Bytes) (ha : regs.length ≤ a) :
    (specImpl BS).readTo regs a v = none ∧ (specImpl BS).write regs a v = none := by
  simp only [specImpl]
  rw [List.getElem?_eq_none ha]
  constructor
  · rfl
  · rw [if_neg]; omega

theorem wrong_size_write_refused (regs : Regs) (a : Nat) (v : Bytes) (hv : v.length ≠ BS) :
    (specImpl BS).write regs a v = none := by
  simp only [specImpl]; rw [if_neg]; intro h; exact hv h.1

/-- No aliasing on write: mutating the caller's buffer after `Write` changes no later read. -/
theorem no_alias_write (regs : Regs) (h : Heap) (a b i : Nat) (x : UInt8) (buf : Bytes)
    (hb : h.get b = some buf) (hl : buf.length = BS) (ha : a < regs.length) (hi : i < buf.length) :
    let s1 := (step BS (specImpl BS) (regs, h) (.write a b)).1
    let s2 := (step BS (specImpl BS) s1 (.poke b i x)).1
    ∃ id, (step BS (specImpl BS) s2 (.read a)).2 = .readBuf id buf := by
  have e1 : step BS (specImpl BS) (regs, h) (.write a b) = ((regs.set a buf, h), .ok) := by
    simp [step, hb, specImpl, hl, ha]
  have e2 : step BS (specImpl BS) (regs.set a buf, h) (.poke b i x) = ((regs.set a buf, h.set b (buf.set i x)), .ok) := by
    simp [step, hb, hi]
  have e3 : (step BS (specImpl BS) (regs.set a buf, h.set b (buf.set i x)) (.read a)).2 = .readBuf (h.set b (buf.set i x)).length buf := by
    simp [step, specImpl, ha]
  simp only [e1, e2]
  exact ⟨_, e3⟩

/-- No aliasing on read: mutating a buffer returned by `Read` changes no later read. -/
theorem no_alias_read (regs : Regs) (h : Heap) (a i : Nat) (x : UInt8) (blk : Bytes)
    (hr : regs[a]? = some blk) (hi : i < blk.length) :
    let r1 := step BS (specImpl BS) (regs, h) (.read a)
    let s2 := (step BS (specImpl BS) r1.1 (.poke h.length i x)).1
    r1.2 = .readBuf h.length blk ∧ (step BS (specImpl BS) s2 (.read a)).2 = .readBuf (h.length + 1) blk := by
  simp [step, specImpl, hr, Heap.get, hi]

/-! ### the retry loop of `FileDisk.Write` under short transfers (Model/ShortWrite)

`fileImpl` above models `pwrite` as transferring the whole block.  The kernel may transfer less without an error; `Write` then
retries the rest.  These theorems quantify over EVERY schedule of answers (errors, short counts, counts of zero) and say that the
retry loop keeps the register reading: a `Write` that returns has stored exactly its block, and — returned or panicked — it has
touched no byte outside that block.  The text of the loop is pinned by `facts_ok`; the check's short-write scenarios run the real
loop under a file-size limit that cuts the transfer at eight different points. -/

open GooseVerif.Model.ShortWrite in
/-- A `Write` that returns normally has stored exactly its block, whatever the kernel did on the way. -/
theorem write_returns_exact (v : List Byte) (off : Nat) (f g : File) (as : List Ans)
    (h : writeLoop v off f 0 as = some (.ok g)) : g = written f v off := by
  have := (loop_inv v off f as f 0 (Nat.zero_le _) (partial_zero f v off) _ h).2 g rfl
  funext i
  exact this i

open GooseVerif.Model.ShortWrite in
/-- Returned or panicked, after any schedule: no byte outside the block has changed (the other registers are independent of
this `Write` even when it fails half-way). -/
theorem write_frame_always (v : List Byte) (off : Nat) (f : File) (as : List Ans) (out : Model.ShortWrite.Out)
    (h : writeLoop v off f 0 as = some out) (i : Nat) (hi : i < off ∨ off + v.length ≤ i) : out.file i = f i := by
  obtain ⟨⟨m, hm, hp⟩, _⟩ := loop_inv v off f as f 0 (Nat.zero_le _) (partial_zero f v off) _ h
  rw [hp i]
  have : ¬ (off ≤ i ∧ i < off + m) := by omega
  simp [this]

open GooseVerif.Model.ShortWrite in
/-- A panicked `Write` leaves a prefix of the new block over the old one — never bytes of the new block at the wrong place. -/
theorem write_panic_prefix (v : List Byte) (off : Nat) (f g : File) (as : List Ans)
    (h : writeLoop v off f 0 as = some (.panic g)) :
    ∃ m, m ≤ v.length ∧ ∀ i, g i = if off ≤ i ∧ i < off + m then v.getD (i - off) 0 else f i := by
  obtain ⟨⟨m, hm, hp⟩, _⟩ := loop_inv v off f as f 0 (Nat.zero_le _) (partial_zero f v off) _ h
  exact ⟨m, hm, hp⟩

open GooseVerif.Model.ShortWrite in
/-- The loop does not give up on a kernel that makes progress: counts ≥ 1 and no error let it finish within `len(v)` calls. -/
theorem write_completes_under_progress (v : List Byte) (off : Nat) (f : File) (as : List Ans)
    (hall : ∀ a ∈ as, ∃ k, a = .wrote k ∧ 0 < k) (hl : v.length ≤ as.length) :
    ∃ g, writeLoop v off f 0 as = some (.ok g) ∧ g = written f v off := by
  obtain ⟨g, hg⟩ := loop_progress v off as f 0 hall (by omega)
  exact ⟨g, hg, write_returns_exact v off f g as hg⟩

open GooseVerif.Model.ShortWrite in
/-- A `ReadTo` that returns normally has filled the whole buffer with the block, however the kernel split the transfer —
nothing of what the buffer held before survives (a short read cannot hide in a used buffer). -/
theorem readto_returns_exact (len off : Nat) (f buf g : File) (as : List Ans)
    (h : readLoop len off f buf 0 as = some (.ok g)) : ∀ j, j < len → g j = f (off + j) := by
  intro j hj
  have := (read_inv len off f buf as buf 0 (Nat.zero_le _) (partialR_zero buf f off) _ h).2 g rfl j
  rw [this, if_pos hj]

open GooseVerif.Model.ShortWrite in
/-- A `ReadTo` that panics has overwritten a prefix of the buffer with the block's bytes and left the rest as the caller passed
it; in no outcome does it write beyond `len(buf)`. -/
theorem readto_panic_prefix (len off : Nat) (f buf : File) (as : List Ans) (out : Model.ShortWrite.Out)
    (h : readLoop len off f buf 0 as = some out) :
    ∃ m, m ≤ len ∧ ∀ j, out.file j = if j < m then f (off + j) else buf j := by
  obtain ⟨⟨m, hm, hp⟩, _⟩ := read_inv len off f buf as buf 0 (Nat.zero_le _) (partialR_zero buf f off) _ h
  exact ⟨m, hm, hp⟩

open GooseVerif.Model.ShortWrite in
/-- Contrast (the loop with the offset not advanced, as in the seeded change C09-m17): it returns normally with the tail of the
block written over its head. -/
theorem no_advance_is_wrong :
    ∃ g, writeLoopNoAdvance [1, 2, 3, 4] 8 (fun _ => 0) 0 [.wrote 3, .wrote 1] = some (.ok g) ∧
      g 8 = 4 ∧ g ≠ written (fun _ => 0) [1, 2, 3, 4] 8 := by
  refine ⟨_, rfl, by decide, fun h => ?_⟩
  have := congrFun h 8
  revert this
  decide

/-! ### non-vacuity -/

open GooseVerif.Model.ShortWrite in
example : ∃ g, writeLoop [1, 2, 3, 4] 8 (fun _ => 9) 0 [.wrote 3, .wrote 7] = some (.ok g) ∧
    (List.range 14).map g = [9, 9, 9, 9, 9, 9, 9, 9, 1, 2, 3, 4, 9, 9] := ⟨_, rfl, by decide⟩
open GooseVerif.Model.ShortWrite in
example : ∃ g, writeLoop [1, 2, 3, 4] 8 (fun _ => 9) 0 [.wrote 3, .err] = some (.panic g) ∧
    (List.range 14).map g = [9, 9, 9, 9, 9, 9, 9, 9, 1, 2, 3, 9, 9, 9] := ⟨_, rfl, by decide⟩
open GooseVerif.Model.ShortWrite in
example : ∃ g, readLoop 4 8 (fun i => UInt8.ofNat i) (fun _ => 77) 0 [.wrote 1, .wrote 2, .wrote 9] = some (.ok g) ∧
    (List.range 6).map g = [8, 9, 10, 11, 77, 77] := ⟨_, rfl, by decide⟩
open GooseVerif.Model.ShortWrite in
example : ∃ g, readLoop 4 8 (fun i => UInt8.ofNat i) (fun _ => 77) 0 [.wrote 3, .wrote 0] = some (.panic g) ∧
    (List.range 6).map g = [8, 9, 10, 77, 77, 77] := ⟨_, rfl, by decide⟩
open GooseVerif.Model.ShortWrite in
example : ∃ g, writeLoop [1, 2, 3, 4] 8 (fun _ => 9) 0 [.wrote 2, .wrote 0] = some (.panic g) ∧ g 9 = 2 ∧ g 10 = 9 :=
  ⟨_, rfl, by decide, by decide⟩


example : validRun 2 (specInit 2 3, [[7, 7], [9, 9]]) [.write 1 0, .readTo 1 1, .read 1, .write 5 0, .size] = true := by decide
example : (run 2 (memImpl 2) (memInit 2 3, [[7, 7], [9, 9]]) [.write 1 0, .poke 0 0 1, .read 1, .write 5 0, .size]).2
    = [.ok, .ok, .readBuf 2 [7, 7], .panic, .n 3] := by decide
example : (run 2 (fileImpl 2) (fileOpen 2 [] 3, [[7, 7], [9, 9]]) [.write 1 0, .poke 0 0 1, .read 1, .write 5 0, .size]).2
    = [.ok, .ok, .readBuf 2 [7, 7], .panic, .n 3] := by decide

end GooseVerif.Props.C09
