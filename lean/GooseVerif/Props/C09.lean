/-
C09 — Disks are arrays of independent 4096-byte registers; Mem ≡ File.

Property theorems only (helpers: `Lemmas/Disk.lean`). `bs` is instantiated with the
`BlockSize` constant regenerated from /repo. The models `memImpl` / `fileImpl` are hand-written
from `machine/disk/mem.go` / `file.go`; `facts_ok` pins every declaration of the two packages
(canonical text, evaluated constants, resolved aliases) to what the models were written from,
and the correspondence runs the six real variants against the compiled models.
-/
import GooseVerif.Lemmas.Disk
import GooseVerif.Gen.DiskFacts
import GooseVerif.Expected.DiskFacts

namespace GooseVerif.Props.C09
open GooseVerif.Model.Disk GooseVerif

abbrev BS : Nat := Gen.Disk.blockSize

/-- T-gen obligation: machine/disk and machine/async_disk are what the models were written from. -/
theorem facts_ok :
    Gen.Disk.diskDecls = Expected.Disk.diskDecls ∧ Gen.Disk.diskCalls = Expected.Disk.diskCalls ∧
    Gen.Disk.asyncDecls = Expected.Disk.asyncDecls ∧ Gen.Disk.asyncCalls = Expected.Disk.asyncCalls := by
  exact ⟨rfl, rfl, rfl, rfl⟩

theorem blocksize_4096 : Gen.Disk.blockSize = 4096 ∧ Gen.Disk.asyncBlockSize = 4096 := by decide

/-- `async_disk` is the same implementation: its exported type names are aliases of `disk`'s. -/
theorem async_same :
    Gen.Disk.asyncTypes =
      [("Block", "alias=true []byte"),
       ("Disk", "alias=true github.com/goose-lang/goose/machine/disk.Disk"),
       ("MemDisk", "alias=true github.com/goose-lang/goose/machine/disk.MemDisk"),
       ("FileDisk", "alias=true github.com/goose-lang/goose/machine/disk.FileDisk")] := rfl

/-- The global wrappers only delegate to the installed disk. -/
theorem wrappers_delegate :
    Gen.Disk.diskWrappers =
      [("func Barrier", "func () { implicitDisk.Barrier() }"),
       ("func Get", "func () Disk { return implicitDisk }"),
       ("func Init", "func (d Disk) { implicitDisk = d }"),
       ("func Read", "func (a uint64) Block { return implicitDisk.Read(a) }"),
       ("func Size", "func () uint64 { return implicitDisk.Size() }"),
       ("func Write", "func (a uint64, v Block) { implicitDisk.Write(a, v) }")] := rfl

/-! ### refinement: both implementations are the register array, for every history -/

/-- MemDisk: every history whose `ReadTo` buffers are blocks produces exactly the replies of the
register array, leaves the client heap in the same state, and stays in simulation. -/
theorem mem_refines (ops : List Op) (n : Nat) (h : Heap) (hv : validRun BS (specInit BS n, h) ops = true) :
    (run BS (memImpl BS) (memInit BS n, h) ops).2 = (run BS (specImpl BS) (specInit BS n, h) ops).2 ∧
    (run BS (memImpl BS) (memInit BS n, h) ops).1.2 = (run BS (specImpl BS) (specInit BS n, h) ops).1.2 :=
  let r := run_refines (mem_refines' BS) ops (memInit BS n) (specInit BS n) h ⟨rfl, allLen_replicate BS n⟩ hv
  ⟨r.1, r.2.1⟩

/-- FileDisk over any file of the right length (in particular a freshly created image). -/
theorem file_refines (ops : List Op) (d : FileSt) (h : Heap) (hlen : d.file.length = d.numBlocks * BS)
    (hv : validRun BS (fileBlocks BS d, h) ops = true) :
    (run BS (fileImpl BS) (d, h) ops).2 = (run BS (specImpl BS) (fileBlocks BS d, h) ops).2 ∧
    (run BS (fileImpl BS) (d, h) ops).1.2 = (run BS (specImpl BS) (fileBlocks BS d, h) ops).1.2 :=
  let r := run_refines (file_refines' BS) ops d (fileBlocks BS d) h (fileSim_of_length BS d hlen) hv
  ⟨r.1, r.2.1⟩

/-- A new file disk starts as the all-zero register array. -/
theorem file_new_zero (n : Nat) : fileBlocks BS (fileOpen BS [] n) = specInit BS n :=
  fileBlocks_new BS n

/-- Mem ≡ File: on every valid history the two implementations return identical results. -/
theorem mem_eq_file (ops : List Op) (n : Nat) (h : Heap) (hv : validRun BS (specInit BS n, h) ops = true) :
    (run BS (memImpl BS) (memInit BS n, h) ops).2 = (run BS (fileImpl BS) (fileOpen BS [] n, h) ops).2 := by
  have hm := (mem_refines ops n h hv).1
  have hf := (file_refines ops (fileOpen BS [] n) h
    (by rw [fileOpen_length, fileOpen_numBlocks]) (by rw [file_new_zero]; exact hv)).1
  rw [hm, hf, file_new_zero]

/-- The executable sparse specification used by the driver as `Spec.check` is the register array. -/
theorem sparse_refines : Refines BS (sparseImpl BS)
    (fun sp r => r.length = sp.size ∧ AllLen BS r ∧ ∀ a, a < sp.size → r[a]? = some (sp.lookup BS a)) :=
  sparse_refines' BS

/-! ### what "array of independent registers" means, on the specification -/

/-- A read returns the most recent value written to that address; a write affects no other address. -/
theorem read_last_write (regs regs' : Regs) (a a' : Nat) (v buf : Bytes) (hb : buf.length = BS)
    (hw : (specImpl BS).write regs a v = some regs') :
    (specImpl BS).readTo regs' a' buf = if a' = a then some v else (specImpl BS).readTo regs a' buf := by
  simp only [specImpl] at hw ⊢
  split at hw
  · rename_i hc
    cases hw
    by_cases h : a' = a
    · subst h; simp [hc.2, hb]
    · simp [h, List.getElem?_set_ne (Ne.symm h)]
  · cases hw

/-- Size never changes. -/
theorem size_const (regs regs' : Regs) (a : Nat) (v : Bytes) (hw : (specImpl BS).write regs a v = some regs') :
    (specImpl BS).size regs' = (specImpl BS).size regs := by
  simp only [specImpl] at hw ⊢
  split at hw <;> cases hw
  simp

/-- Out-of-range addresses and wrong-sized write buffers are refused, leaving the disk as it was
(`none` carries no new state). -/
theorem oob_refused (regs : Regs) (a : Nat) (v : Bytes) (ha : regs.length ≤ a) :
    (specImpl BS).readTo regs a v = none ∧ (specImpl BS).write regs a v = none := by
  simp only [specImpl]
  rw [List.getElem?_eq_none ha]
  constructor
  · rfl
  · rw [if_neg]; omega

theorem wrong_size_write_refused (regs : Regs) (a : Nat) (v : Bytes) (hv : v.length ≠ BS) :
    (specImpl BS).write regs a v = none := by
  simp only [specImpl]; rw [if_neg]; intro h; exact hv h.1

/-- No aliasing on write: mutating the caller's buffer after `Write` changes no later read. -/
theorem no_alias_write (regs : Regs) (h : Heap) (a b i : Nat) (x : UInt8) (buf : Bytes)
    (hb : h.get b = some buf) (hl : buf.length = BS) (ha : a < regs.length) (hi : i < buf.length) :
    let s1 := (step BS (specImpl BS) (regs, h) (.write a b)).1
    let s2 := (step BS (specImpl BS) s1 (.poke b i x)).1
    ∃ id, (step BS (specImpl BS) s2 (.read a)).2 = .readBuf id buf := by
  have e1 : step BS (specImpl BS) (regs, h) (.write a b) = ((regs.set a buf, h), .ok) := by
    simp [step, hb, specImpl, hl, ha]
  have e2 : step BS (specImpl BS) (regs.set a buf, h) (.poke b i x) = ((regs.set a buf, h.set b (buf.set i x)), .ok) := by
    simp [step, hb, hi]
  have e3 : (step BS (specImpl BS) (regs.set a buf, h.set b (buf.set i x)) (.read a)).2 = .readBuf (h.set b (buf.set i x)).length buf := by
    simp [step, specImpl, ha]
  simp only [e1, e2]
  exact ⟨_, e3⟩

/-- No aliasing on read: mutating a buffer returned by `Read` changes no later read. -/
theorem no_alias_read (regs : Regs) (h : Heap) (a i : Nat) (x : UInt8) (blk : Bytes)
    (hr : regs[a]? = some blk) (hi : i < blk.length) :
    let r1 := step BS (specImpl BS) (regs, h) (.read a)
    let s2 := (step BS (specImpl BS) r1.1 (.poke h.length i x)).1
    r1.2 = .readBuf h.length blk ∧ (step BS (specImpl BS) s2 (.read a)).2 = .readBuf (h.length + 1) blk := by
  simp [step, specImpl, hr, Heap.get, hi]

/-! ### non-vacuity -/

example : validRun 2 (specInit 2 3, [[7, 7], [9, 9]]) [.write 1 0, .readTo 1 1, .read 1, .write 5 0, .size] = true := by decide
example : (run 2 (memImpl 2) (memInit 2 3, [[7, 7], [9, 9]]) [.write 1 0, .poke 0 0 1, .read 1, .write 5 0, .size]).2
    = [.ok, .ok, .readBuf 2 [7, 7], .panic, .n 3] := by decide
example : (run 2 (fileImpl 2) (fileOpen 2 [] 3, [[7, 7], [9, 9]]) [.write 1 0, .poke 0 0 1, .read 1, .write 5 0, .size]).2
    = [.ok, .ok, .readBuf 2 [7, 7], .panic, .n 3] := by decide

end GooseVerif.Props.C09
