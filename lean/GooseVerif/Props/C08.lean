/-
C08 — File header names exactly the FFI and imports the package uses.

Property theorems only (helpers: `Lemmas/Header.lean`). Model: `Model/Header.lean`, whose FFI and
builtin-import tables are the ones regenerated from goose.go.
The walk of the import graph (`visit`) is an executable model of `packages.Visit` with
`getFfi`'s pre-function; its agreement with the real binary on every graph shape is checked by the
correspondence, and the concrete shapes below are kernel-checked evaluations (labelled as such).
-/
import GooseVerif.Lemmas.Header
import GooseVerif.Lemmas.FfiSearch
import GooseVerif.Gen.Ffi
import GooseVerif.Expected.Ffi

namespace GooseVerif.Props.C08
open GooseVerif.Model.Header GooseVerif

/-- T-gen obligation: the FFI table. -/
theorem ffi_table_ok :
    Gen.Ffi.ffiMapping =
      [("github.com/goose-lang/goose/machine/async_disk", "async_disk"),
       ("github.com/goose-lang/goose/machine/disk", "disk"),
       ("github.com/goose-lang/primitive/async_disk", "async_disk"),
       ("github.com/goose-lang/primitive/disk", "disk"),
       ("github.com/mit-pdos/gokv/grove_ffi", "grove")] := rfl

/-- T-gen obligation: builtin imports, and the functions that assemble the header, are what the
model was written from. -/
theorem facts_ok :
    Gen.Ffi.builtinImports = Expected.Ffi.builtinImports ∧ Gen.Ffi.headerFunctions = Expected.Ffi.headerFunctions ∧
    Gen.Ffi.importHeaderConst = Expected.Ffi.importHeaderConst := ⟨rfl, rfl, rfl⟩

/-! ### header / footer -/

/-- No FFI gives the generic `ext_types` section and its closing footer; an FFI gives its prelude
and no footer. -/
theorem header_footer (ffi : String) :
    ((headerFooter ffi).2 ≠ "" ↔ ffi = "none") ∧
    (ffi ≠ "none" → (headerFooter ffi).1 = "From Perennial.goose_lang Require Import ffi." ++ ffi ++ "_prelude.") := by
  unfold headerFooter
  by_cases h : ffi = "none"
  · subst h; simp
  · have : (ffi == "none") = false := by simpa using h
    simp [this, h]

/-- Two different FFIs are refused, and a result is either the generic one or a single FFI. -/
theorem ffi_result_shape (g : Graph) (root : String) :
    (getFfi g root = .refused ↔ 2 ≤ (visit (fuelFor g) g [root] ([], [])).2.length) ∧
    (∀ f, getFfi g root = .ffi f → f = "none" ∧ (visit (fuelFor g) g [root] ([], [])).2 = [] ∨
                                   (visit (fuelFor g) g [root] ([], [])).2 = [f]) := by
  unfold getFfi
  generalize (visit (fuelFor g) g [root] ([], [])).2 = fs
  match fs with
  | [] => simp
  | [f] => simp
  | a :: b :: rest => simp

/-! ### the FFI search: `getFfi` in terms of reachability through imports that stops at FFI packages
(`Reach g root p`: there is an import path from `root` to `p` on which no package before `p` is an
FFI package). Proofs: `Lemmas/FfiSearch.lean`; they hold for every graph, and `fuelFor g` is shown to
be enough fuel. -/

/-- The walk finds exactly the FFIs of the packages reachable without passing through an FFI
package, each once. -/
theorem ffi_search_characterised (g : Graph) (root : String) :
    (∀ f, f ∈ (visit (fuelFor g) g [root] ([], [])).2 ↔ ∃ p, Reach g root p ∧ ffiOf p = some f) ∧
    (visit (fuelFor g) g [root] ([], [])).2.Nodup := visit_complete_sound g root

/-- The generic section ("none") is chosen exactly when no FFI package is reachable. -/
theorem ffi_none_iff (g : Graph) (root : String) :
    getFfi g root = .ffi "none" ↔ ∀ p, Reach g root p → ffiOf p = none := getFfi_none_iff g root

/-- The prelude of FFI `f` is chosen exactly when `f` is reachable and is the only reachable FFI. -/
theorem ffi_unique_iff (g : Graph) (root f : String) (hf : f ≠ "none") :
    getFfi g root = .ffi f ↔
      (∃ p, Reach g root p ∧ ffiOf p = some f) ∧
      (∀ p f', Reach g root p → ffiOf p = some f' → f' = f) := getFfi_ffi_iff g root f hf

/-- The package is refused exactly when two different FFIs are reachable. -/
theorem ffi_refused_iff (g : Graph) (root : String) :
    getFfi g root = .refused ↔
      ∃ p q f f', Reach g root p ∧ Reach g root q ∧ ffiOf p = some f ∧ ffiOf q = some f' ∧ f ≠ f' :=
  getFfi_refused_iff g root

/-- Dependencies hidden behind an FFI package do not count: changing what FFI packages import
(any graph `g'` that agrees with `g` on every non-FFI package) does not change the result. -/
theorem ffi_hidden_do_not_count (g g' : Graph) (root : String)
    (h : ∀ q, ffiOf q = none → g'.imports q = g.imports q) : getFfi g' root = getFfi g root :=
  hidden_dependencies_do_not_count g g' root h

/-- The result does not depend on the order (or repetition) inside import lists, nor on the order of
the entries of a graph with distinct keys. -/
theorem ffi_order_independent (g g' : Graph) (root : String)
    (h : (∀ p, (g'.imports p).Perm (g.imports p)) ∨ (g.Pairwise (fun a b => a.1 ≠ b.1) ∧ g'.Perm g)) :
    getFfi g' root = getFfi g root := order_independent g g' root h

/-! ### Require lines: each non-builtin import exactly once, sorted, whatever the order and
repetition of the import specs across files -/

/-- The logical path of a Require is the whole import path with '.' and '-' mapped to '_' and '/' to '.', also for an
import path of a single element (repair 325b549; before it `path.Dir`'s "." was printed as a component: `..m`). -/
theorem require_logical_path (p : String) :
    coqRequire p = (if (baseOf p).startsWith "trusted_" then "From Perennial.goose_lang.trusted Require Import " else "From Goose Require ")
      ++ (pathToCoqPath p).replace "/" "." ++ "." := by
  unfold coqRequire
  split <;> simp [String.append_assoc]

-- (concrete instances — `m`, `my-lib.v2`, trusted_ packages — are compared with the real goose by pylib/c08.py through `driver cli`)

theorem requires_mem (imps : List String) (line : String) :
    line ∈ requires imps ↔ ∃ p ∈ imps, isBuiltinImport p = false ∧ line = coqRequire p := by
  simp only [requires, List.mem_mergeSort, mem_dedup, List.mem_map, List.mem_filter, Bool.not_eq_true']
  constructor
  · rintro ⟨p, ⟨hp, hb⟩, rfl⟩; exact ⟨p, hp, hb, rfl⟩
  · rintro ⟨p, hp, hb, rfl⟩; exact ⟨p, ⟨hp, hb⟩, rfl⟩

theorem requires_nodup (imps : List String) : (requires imps).Nodup :=
  (List.mergeSort_perm _ _).nodup_iff.mpr (nodup_dedup _)

theorem requires_sorted (imps : List String) : (requires imps).Pairwise (fun a b => a ≤ b) := by
  have := sortS_sorted (dedup ((imps.filter (fun p => !isBuiltinImport p)).map coqRequire))
  simp only [leS, decide_eq_true_eq] at this
  exact this

/-- Order and repetition of the imports do not matter: only the set of imports does. -/
theorem requires_set_invariant (l1 l2 : List String) (h : ∀ p, p ∈ l1 ↔ p ∈ l2) : requires l1 = requires l2 := by
  simp only [requires]
  apply sortS_perm
  apply (List.perm_ext_iff_of_nodup (nodup_dedup _) (nodup_dedup _)).mpr
  intro line
  simp only [mem_dedup, List.mem_map, List.mem_filter]
  constructor
  · rintro ⟨p, ⟨hp, hb⟩, rfl⟩; exact ⟨p, ⟨(h p).mp hp, hb⟩, rfl⟩
  · rintro ⟨p, ⟨hp, hb⟩, rfl⟩; exact ⟨p, ⟨(h p).mpr hp, hb⟩, rfl⟩

/-! ### path mapping -/

/-- The mapped path has neither '.' nor '-', has the same length, and agrees with the import path
everywhere else. -/
theorem path_mapping (p : String) :
    (∀ c ∈ (pathToCoqPath p).toList, c ≠ '.' ∧ c ≠ '-') ∧
    (pathToCoqPath p).toList.length = p.toList.length ∧
    (∀ (i : Nat) (c : Char), p.toList[i]? = some c → c ≠ '.' → c ≠ '-' → (pathToCoqPath p).toList[i]? = some c) := by
  simp only [pathToCoqPath, String.toList_ofList]
  refine ⟨?_, by simp, ?_⟩
  · intro c hc
    simp only [List.mem_map] at hc
    obtain ⟨d, _, rfl⟩ := hc
    exact mapChar_ne d
  · intro i c hi h1 h2
    simp only [List.getElem?_map, hi, Option.map_some, mapChar]
    have : (c == '.' || c == '-') = false := by simp [h1, h2]
    simp [this]

/-! ### kernel-checked evaluations of the walk on the graph shapes of the property (tests, not the
unbounded claim) -/

/-- direct -/
example : getFfi [("p", ["github.com/goose-lang/goose/machine/disk", "fmt"])] "p" = .ffi "disk" := by decide
/-- transitive through a helper package -/
example : getFfi [("p", ["h"]), ("h", ["github.com/mit-pdos/gokv/grove_ffi"])] "p" = .ffi "grove" := by decide
/-- hidden behind another FFI: async_disk imports disk, grove_ffi imports disk -/
example : getFfi [("p", ["github.com/goose-lang/goose/machine/async_disk"]),
                  ("github.com/goose-lang/goose/machine/async_disk", ["github.com/goose-lang/goose/machine/disk"])] "p" = .ffi "async_disk" := by decide
/-- two FFIs: refused -/
example : getFfi [("p", ["h", "github.com/goose-lang/primitive/disk"]), ("h", ["github.com/mit-pdos/gokv/grove_ffi"])] "p" = .refused := by decide
/-- both variants of one FFI are one FFI -/
example : getFfi [("p", ["github.com/goose-lang/primitive/disk", "github.com/goose-lang/goose/machine/disk"])] "p" = .ffi "disk" := by decide
example : getFfi [("p", ["fmt", "q"]), ("q", ["p"])] "p" = .ffi "none" := by decide

end GooseVerif.Props.C08
