/-
C05 — No text coming from Go comments or string literals can open or close a Coq comment or
string, or otherwise change which definitions Coq sees.

Property theorems only (helpers: `Lemmas/Sanitize.lean`).  Model: `Model/Sanitize.lean`
(`buffer.AddComment`'s two `ReplaceAll`s, the `(* … *)` wrapper and the indentation of
continuation lines) against the project's lexer for the emitted text, `GL/Lex.lean`, which follows
Coq's conventions: comments nest, a `"` inside a comment starts a string in which `*)` does not
close the comment.

What holds: a comment whose quotes are balanced (in particular one without quotes) is skipped by the
lexer exactly up to the ` *)` goose printed, whatever else it contains; a string literal without a
quote is read back as itself.  What does not hold, and is recorded as `odd_quote_*`: a Go comment
with an odd number of `"` leaves the lexer in string mode at goose's ` *)`, so the comment swallows
the following definitions (or never ends).
-/
import GooseVerif.GL.Lex
import GooseVerif.Model.Sanitize
import GooseVerif.Lemmas.Sanitize
import GooseVerif.Lemmas.SanitizeQ
import GooseVerif.Props.C05Paren
import GooseVerif.Gen.PrinterFacts
import GooseVerif.Expected.PrinterFacts

namespace GooseVerif.Props.C05
open GooseVerif.Model.Sanitize GooseVerif.GL GooseVerif

/-- T-gen obligation: the printer functions the models were written from (AddComment with its three
replacements, indent, Block, quote, binder, the string-literal and log-statement printers, and the
parenthesising printers) are, up to formatting, the committed expectation. -/
theorem printer_facts_ok :
    Gen.Printer.lexical = Expected.Printer.lexical ∧ Gen.Printer.nesting = Expected.Printer.nesting := ⟨rfl, rfl⟩

/-! ### the two `ReplaceAll`s -/

/-- The sanitised comment contains no `(*`. -/
theorem sanitize_no_open (c : List Char) : hasPair '(' '*' (sanitize c) = false :=
  Lemmas.Sanitize.sanitize_no_open c

/-- The sanitised comment contains no `*)` (also none made from a `*` left by the first
replacement and a following `)`: `(*)` becomes `( * )`). -/
theorem sanitize_no_close (c : List Char) : hasPair '*' ')' (sanitize c) = false :=
  Lemmas.Sanitize.sanitize_no_close c

/-- Harmless comments are printed unchanged. -/
theorem sanitize_id (c : List Char) (h1 : hasPair '(' '*' c = false)
    (h2 : hasPair '*' ')' c = false) : sanitize c = c :=
  Lemmas.Sanitize.sanitize_id c h1 h2

/-- Only spaces are inserted: every other character is kept, in order; in particular the number
of quote characters is unchanged. -/
theorem sanitize_preserves_quotes (c : List Char) :
    (sanitize c).count '"' = c.count '"' ∧
    (sanitize c).filter (· ≠ ' ') = c.filter (· ≠ ' ') :=
  ⟨Lemmas.Sanitize.count_sanitize '"' (by decide) c,
   Lemmas.Sanitize.filter_sanitize _ (by decide) c⟩

/-- The lexer's string mode after the sanitised text is the one after the original text. -/
theorem sanitize_preserves_string_mode (c : List Char) (m : Bool) :
    inStringAfter m (sanitize c) = inStringAfter m c :=
  Lemmas.Sanitize.inStringAfter_sanitize c m

/-! ### the lexer on a printed comment -/

/-- A comment whose quotes are balanced — the lexer's string mode is off at the end of `c` — is
skipped exactly up to the closing delimiter goose printed, whatever else `c` contains (`(*`, `*)`,
newlines, non-ASCII): it neither ends early nor swallows what follows. -/
theorem comment_with_balanced_quotes (c rest : List Char) (hq : inStringAfter false c = false) :
    ∃ fuel0, ∀ fuel ≥ fuel0,
      skipComment fuel 1 false (sanitize c ++ [' ', '*', ')'] ++ rest) = some rest :=
  ⟨(sanitize c).length + 2, fun fuel hf =>
    Lemmas.Sanitize.skipComment_body_ge _ rest (sanitize_no_open c) (sanitize_no_close c)
      (by rw [sanitize_preserves_string_mode, hq]) fuel hf⟩

/-- The case without any quote character. -/
theorem comment_closes_exactly (c rest : List Char) (hq : '"' ∉ c) :
    ∃ fuel0, ∀ fuel ≥ fuel0,
      skipComment fuel 1 false (sanitize c ++ [' ', '*', ')'] ++ rest) = some rest :=
  comment_with_balanced_quotes c rest (Lemmas.Sanitize.inStringAfter_no_quote c hq false)

/-- Top-level form, with the fuel `lexAux` itself gives to `skipComment`: lexing the printed
comment followed by `rest` is lexing `rest`. -/
theorem comment_lexes_to_nothing (c rest : List Char) (hq : inStringAfter false c = false)
    (fuel : Nat) (acc : List Tok) :
    lexAux (fuel + 1) (commentText c ++ rest) acc = lexAux fuel rest acc := by
  have h := Lemmas.Sanitize.skipComment_body_sp (sanitize c) rest (sanitize_no_open c)
    (sanitize_no_close c) (by rw [sanitize_preserves_string_mode, hq])
    ((' ' :: (sanitize c ++ [' ', '*', ')']) ++ rest).length + 1) (by simp)
  have e : commentText c ++ rest = '(' :: '*' :: (' ' :: (sanitize c ++ [' ', '*', ')']) ++ rest) := by
    simp [commentText]
  rw [e, Lemmas.Sanitize.lexAux_comment, h]

/-! ### continuation lines

`Block` indents the lines after the first by three spaces and `AddLine` by the current level; the
body stays free of delimiters, keeps its non-space characters, and still ends in ` *)`. -/

/-- Indentation (any width) adds spaces only and creates no delimiter. -/
theorem indent_harmless (k : Nat) (c : List Char) :
    ∃ t, indentLines k (sanitize c ++ [' ', '*', ')']) = t ++ [' ', '*', ')'] ∧
      hasPair '(' '*' t = false ∧ hasPair '*' ')' t = false ∧
      t.count '"' = c.count '"' ∧ t.filter (· ≠ ' ') = c.filter (· ≠ ' ') := by
  obtain ⟨t, h1, h2, h3, _, h5⟩ := Lemmas.Sanitize.block_body k c
  refine ⟨t, h1, h2, h3, ?_, h5 _ (by decide)⟩
  rw [List.count_eq_length_filter, List.count_eq_length_filter, h5 _ (by decide)]

/-- The multi-line block is skipped exactly, like the one-line comment. -/
theorem block_lexes_to_nothing (k : Nat) (c rest : List Char) (hq : inStringAfter false c = false)
    (fuel : Nat) (acc : List Tok) :
    lexAux (fuel + 1) (commentBlock k c ++ rest) acc = lexAux fuel rest acc := by
  obtain ⟨t, h1, h2, h3, h4, _⟩ := Lemmas.Sanitize.block_body k c
  have h := Lemmas.Sanitize.skipComment_body_sp t rest h2 h3 (by rw [h4, hq])
    ((' ' :: (t ++ [' ', '*', ')']) ++ rest).length + 1) (by simp)
  have e : commentBlock k c ++ rest = '(' :: '*' :: (' ' :: (t ++ [' ', '*', ')']) ++ rest) := by
    simp [commentBlock, h1]
  rw [e, Lemmas.Sanitize.lexAux_comment, h]

/-! ### with the repair of unpaired quotes (`fixQuotes`, the third step of `AddComment`): every comment -/

/-- What `AddComment` prints contains no comment opener, whatever the Go text. -/
theorem sanitizeQ_no_open (c : List Char) : hasPair '(' '*' (sanitizeQ c) = false :=
  Lemmas.Sanitize.sanitizeQ_no_open c

/-- … and no comment closer. -/
theorem sanitizeQ_no_close (c : List Char) : hasPair '*' ')' (sanitizeQ c) = false :=
  Lemmas.Sanitize.sanitizeQ_no_close c

/-- Comments whose quotes pair up are printed as before the repair existed. -/
theorem sanitizeQ_paired (c : List Char) (h : c.count '"' % 2 = 0) : sanitizeQ c = sanitize c := by
  have hq := (sanitize_preserves_quotes c).1
  simp [sanitizeQ, fixQuotes, hq, h]

/-- EVERY comment text — any characters, any number of quotes, any delimiters — is skipped by the
lexer exactly up to the closing delimiter goose printed. -/
theorem comment_always_closes (c rest : List Char) :
    ∃ fuel0, ∀ fuel ≥ fuel0,
      skipComment fuel 1 false (sanitizeQ c ++ [' ', '*', ')'] ++ rest) = some rest :=
  ⟨(sanitizeQ c).length + 2, fun fuel hf =>
    Lemmas.Sanitize.skipComment_body_ge _ rest (sanitizeQ_no_open c) (sanitizeQ_no_close c)
      (Lemmas.Sanitize.sanitizeQ_string_mode c) fuel hf⟩

/-- The printed block (continuation lines indented), for EVERY comment text, lexes to nothing:
the tokens of the file are the tokens of what follows the comment. -/
theorem block_always_lexes_to_nothing (k : Nat) (c rest : List Char) (fuel : Nat) (acc : List Tok) :
    lexAux (fuel + 1) (commentBlockQ k c ++ rest) acc = lexAux fuel rest acc := by
  obtain ⟨t, h1, h2, h3, h4⟩ := Lemmas.Sanitize.block_bodyQ k c
  have h := Lemmas.Sanitize.skipComment_body_sp t rest h2 h3 h4
    ((' ' :: (t ++ [' ', '*', ')']) ++ rest).length + 1) (by simp)
  have e : commentBlockQ k c ++ rest = '(' :: '*' :: (' ' :: (t ++ [' ', '*', ')']) ++ rest) := by
    simp [commentBlockQ, h1]
  rw [e, Lemmas.Sanitize.lexAux_comment, h]

example : sanitizeQ "it's a \"quote".toList = "it's a 'quote".toList := by decide
example : sanitizeQ "say \"hi\" (*".toList = "say \"hi\" ( *".toList := by decide

/-! ### before the repair (the model `sanitize` alone): an odd number of quotes -/

/-- A comment with an odd number of quotes is still "inside a string" at goose's ` *)`: if the rest
of the file has no quote the comment never ends, with any fuel. -/
theorem odd_quote_unterminated (c rest : List Char) (hodd : inStringAfter false c = true)
    (hr : '"' ∉ rest) :
    ∀ fuel, skipComment fuel 1 false (sanitize c ++ ([' ', '*', ')'] ++ rest)) = none := by
  intro fuel
  exact Lemmas.Sanitize.skipComment_odd (sanitize c) _ (sanitize_no_open c) (sanitize_no_close c)
    (by simp) (by simp) (by simpa using hr) fuel 1 false
    (by rw [sanitize_preserves_string_mode, hodd])

/-- Concrete witness: `// it's a "quote` before a definition. The lexer does not return the text
after the first `*)`; it returns `none`, for every fuel. -/
theorem odd_quote_swallows (fuel : Nat) :
    skipComment fuel 1 false
      (sanitize "it's a \"quote".toList ++ " *)".toList ++ "\nDefinition x := 1.\n".toList) = none := by
  have := odd_quote_unterminated "it's a \"quote".toList "\nDefinition x := 1.\n".toList
    (by decide) (by decide) fuel
  simpa using this

/-- The same through the whole lexer. -/
theorem odd_quote_unterminated_lex :
    lex "(* it's a \"quote *)\nDefinition x := 1.\n" = .error .unterminatedComment := by rfl

/-- With a later quote and a later `*)` in the file, the comment ends there instead: the definition
of `x` in between is not seen. -/
theorem odd_quote_swallows_definition :
    skipComment 100 1 false
      (sanitize "it's a \"quote".toList ++ " *)".toList ++
        "\nDefinition x := 1.\n(* \" *)\nDefinition y := 2.\n".toList) =
      some "\nDefinition y := 2.\n".toList := by rfl

/-! ### string literals -/

/-- A literal without a quote character (goose rejects the others) is read back as exactly itself,
whatever it contains (`(*`, `*)`, newlines, …), and reading stops at the quote goose printed. -/
theorem string_literal_reads_back (s rest : List Char) (hq : '"' ∉ s)
    (hr : rest.head? ≠ some '"') :
    ∃ fuel0, ∀ fuel ≥ fuel0,
      readString fuel [] (s ++ ['"'] ++ rest) = some (String.ofList s, rest) := by
  refine ⟨s.length + 1, fun fuel hf => ?_⟩
  obtain ⟨n, rfl⟩ : ∃ n, fuel = s.length + 1 + n := ⟨fuel - (s.length + 1), by omega⟩
  simpa using Lemmas.Sanitize.readString_no_quote s rest hq hr n []

/-- Top-level form: the printed literal lexes to one string token and the lexer continues with
what follows it. -/
theorem string_literal_lexes (s rest : List Char) (hq : '"' ∉ s) (hr : rest.head? ≠ some '"')
    (fuel : Nat) (acc : List Tok) :
    lexAux (fuel + 1) ('"' :: (s ++ ['"'] ++ rest)) acc =
      lexAux fuel rest (.str (bytesView (String.ofList s)) :: acc) := by
  have h := Lemmas.Sanitize.readString_no_quote s rest hq hr (rest.length + 1) []
  have e : (s ++ ['"'] ++ rest).length + 1 = s.length + 1 + (rest.length + 1) := by
    simp only [List.length_append, List.length_cons, List.length_nil]; omega
  rw [Lemmas.Sanitize.lexAux_string, e, h]
  simp

/-! ### non-vacuity -/

example : sanitize "a (* b *) c".toList = "a ( * b * ) c".toList := by decide
example : sanitize "(*)".toList = "( * )".toList := by decide
example : sanitize "(**)".toList = "( ** )".toList := by decide
example : sanitize "((**))".toList = "(( ** ))".toList := by decide
example : sanitize "plain".toList = "plain".toList := by decide
example : commentText "x *) y".toList = "(* x * ) y *)".toList := by decide
example : indentLines 3 "a\nb\n\nc\n *)".toList = "a\n   b\n\n   c\n    *)".toList := by decide
example : skipComment 100 1 false ("x *) y".toList ++ " *)".toList ++ "rest".toList) ≠
    some "rest".toList := by decide
example : skipComment 100 1 false (sanitize "x *) y".toList ++ " *)".toList ++ "rest".toList) =
    some "rest".toList := by decide
example : skipComment 100 1 false (sanitize "a \"b\" (* c".toList ++ " *)".toList ++ "rest".toList) =
    some "rest".toList := by decide

end GooseVerif.Props.C05
