/-
C06 — Translation is deterministic and packages do not influence each other.

Property theorems only (helpers: `Lemmas/Workers.lean`, `Lemmas/Header.lean`).
The translator's only sources of nondeterminism would be map iteration, shared mutable state
between the per-package goroutines, and the order of files/imports: the regenerated facts pin
every `range` over a map, every goroutine and every write to a package-level variable in the
translator packages; the worker model shows that the result slots do not depend on the schedule;
imports are sorted and de-duplicated (C08's theorems). Go-memory-model data races as such are
runtime behaviour: the correspondence runs a `-race` build (supporting evidence, partial).
-/
import GooseVerif.Lemmas.Workers
import GooseVerif.Lemmas.Header
import GooseVerif.Gen.MapRange
import GooseVerif.Expected.MapRange

namespace GooseVerif.Props.C06
open GooseVerif.Model.Workers GooseVerif.Model.Header GooseVerif

/-- T-gen obligation: the only map that is ranged over is `getFfi`'s set of seen FFIs (which holds
at most one element when its value is used); maps are otherwise used for lookup only. -/
theorem no_map_order : Gen.MapRange.mapRanges = [("goose.getFfi", "seenFfis : map[string]struct{}")] := rfl

/-- T-gen obligation: no function writes a package-level variable (nothing is shared between the
workers through globals). -/
theorem no_global_writes : Gen.MapRange.globalWrites = [] := rfl

/-- T-gen obligation: the only goroutine is the per-package worker, whose body calls
`translatePackage` on its own package and writes its own slots `files[i]`, `errs[i]`. -/
theorem worker_shape : Gen.MapRange.spawns = Expected.MapRange.spawns := rfl

/-- Whatever the schedule of the workers (any order, any interleaving of their completing
writes), once every worker has run the result for package `j` is `translatePackage` of package
`j` alone: independent of the other packages translated in the same invocation and of the
schedule. -/
theorem workers_confluent {α β : Type} (f : α → β) (inputs : List α) (sched : List Nat)
    (hall : ∀ j, j < inputs.length → j ∈ sched) :
    runSched f inputs sched (initSlots inputs.length) = inputs.map (fun x => some (f x)) := by
  apply List.ext_getElem?
  intro j
  by_cases hj : j < inputs.length
  · have hx : inputs[j]? = some inputs[j] := List.getElem?_eq_getElem hj
    have h := runSched_get f inputs sched (initSlots inputs.length) j (by simp [initSlots])
      (by intro x _; left; simp [initSlots, hj]) inputs[j] hx
    rw [h, if_pos (hall j hj)]
    simp [List.getElem?_map, hx]
  · have h1 : (runSched f inputs sched (initSlots inputs.length))[j]? = none := by
      apply List.getElem?_eq_none
      rw [runSched_length]; simp [initSlots]; omega
    rw [h1, List.getElem?_eq_none (by simp; omega)]

/-- two schedules that both let every worker run give the same result -/
theorem schedule_independent {α β : Type} (f : α → β) (inputs : List α) (s1 s2 : List Nat)
    (h1 : ∀ j, j < inputs.length → j ∈ s1) (h2 : ∀ j, j < inputs.length → j ∈ s2) :
    runSched f inputs s1 (initSlots inputs.length) = runSched f inputs s2 (initSlots inputs.length) := by
  rw [workers_confluent f inputs s1 h1, workers_confluent f inputs s2 h2]

/-- The Require lines do not depend on the order or repetition of the imports (C08). -/
theorem imports_order_independent (l1 l2 : List String) (h : ∀ p, p ∈ l1 ↔ p ∈ l2) : requires l1 = requires l2 :=
  sortS_perm _ _ (by
    apply (List.perm_ext_iff_of_nodup (nodup_dedup _) (nodup_dedup _)).mpr
    intro line
    simp only [mem_dedup, List.mem_map, List.mem_filter]
    constructor
    · rintro ⟨p, ⟨hp, hb⟩, rfl⟩; exact ⟨p, ⟨(h p).mp hp, hb⟩, rfl⟩
    · rintro ⟨p, ⟨hp, hb⟩, rfl⟩; exact ⟨p, ⟨(h p).mpr hp, hb⟩, rfl⟩)

/-! ### non-vacuity -/
example : runSched (· + 1) [10, 20, 30] [2, 0, 1, 0] (initSlots 3) = [some 11, some 21, some 31] := by decide

end GooseVerif.Props.C06
