/-
C01 — functions: top-level functions with several results, calls, recursion, function literals (closures), methods
with value and pointer receivers, strings and the `[]byte` conversions (`funcDecl`, `paramList`, `returnExpr`,
`funcLit`, `callExpr`, `methodExpr`, `selectorMethod`, `newCoqCallTypeArgs`, `coqRecurFunc`, `identExpr`, `defineStmt`,
`varSpec`, `assignStmt`, `assignFromTo`, `stmts`, `stmtInBlock`, `ifStmt`, `binExpr`, `lenExpr`, `basicLiteral`,
`structLiteral`, `structSelector` in `/repo/goose.go`; `FuncDecl`, `FuncLit`, `CallExpr`, `TupleExpr`, `Binding.AddTo`,
`binder`, `StringLiteral`, `MethodName` in `/repo/internal/coq/coq.go`).

Property theorems only (model: `Model/Fun.lean`; relation: `Lemmas/Fun.lean`; simulation of expressions, statements,
bodies and the induction on fuel: `Lemmas/FunExp.lean`, `Lemmas/FunStmt.lean`, `Lemmas/FunTr.lean`; example packages
and mutants: `Lemmas/FunEx.lean`).

Go has functions that return several values, closures that share the variables they captured with their creator,
methods that get a copy of their receiver or a pointer to it, strings.  GooseLang has `rec:`/`λ:` values that capture an
environment of let-bound names, application, tuples as nested pairs with a destructuring `let:`, a heap of cells,
strings as byte lists.  `fun_compile_correct` says: for every PACKAGE all of whose declarations the model of goose
accepts, every function or method `f` of it, every list of arguments (closures included), every fuel and every pair of
related heaps: if Go's call of `f` returns `vs` with heap `G'`, then the application of the emitted definition of `f` to
the related arguments evaluates — it is NOT STUCK — to the tuple of the related results with the related heap; and the
fuel runs out on one side iff it does on the other.

What the statement does NOT cover (see the header of `Model/Fun.lean`): wrap-around (numbers are naturals), loops and
the other statements of `Model/Core.lean`, maps and slices (`Model/Coll.lean`); two calls in one expression that are
not nested in each other (Go orders them left to right, the emitted code right to left: known finding
`evaluation-order`; both semantics here go right to left); the shapes that `tr` keeps out and `trGoose` prints
(`findings_*` below); the emission ORDER of the definitions (the package is a table: `Model/Deps.lean`).  Fuel bounds the
DEPTH of nested calls, identically on both sides.
-/
import GooseVerif.Lemmas.FunEx
import GooseVerif.Lemmas.FunGoose

import GooseVerif.Gen.Guards
import GooseVerif.Expected.Guards

set_option linter.unusedSimpArgs false
set_option linter.unusedVariables false

namespace GooseVerif.Props.C01Fun
open GooseVerif.Model.Fun

/-- T-gen obligation: the functions of goose.go this model was written from (`funcDecl`, `paramList`, `returnExpr`, `funcLit`,
`callExpr`, `methodExpr`, `selectorMethod`, `newCoqCallTypeArgs`, `coqRecurFunc`, …; the variable forms and `multipleAssignStmt`
are in `scoping` and `coll`) have, up to formatting, the committed text. -/
theorem fun_facts_ok :
    GooseVerif.Gen.Guards.funs = GooseVerif.Expected.Guards.funs ∧
    GooseVerif.Gen.Guards.scoping = GooseVerif.Expected.Guards.scoping := ⟨rfl, rfl⟩
open GooseVerif.Model.Heap (look)
open GooseVerif.Model.Coll (Obj getCell getArr Cmp)

/-! ### the relations of the statement (the functions of `Lemmas/Fun.lean` read as relations) -/

/-- A Go value and a GooseLang value are related: every closure inside the Go value was accepted by the translator, and
the GooseLang value is its translation (a pointer is the location of the same number, a closure the closure of the
translated body in the translated environment). -/
def VRel (P : Pkg) (v : Val) (tv : TVal) : Prop := ValOK P v ∧ tv = toT P v

def ArgsRel (P : Pkg) (vs : List Val) (tvs : List TVal) : Prop := ValsOK P vs ∧ tvs = vs.map (toT P)

/-- the results of a call and the value of the application: `#()`, the value, or the left-nested tuple -/
def ResRel (P : Pkg) (vs : List Val) (tv : TVal) : Prop := ValsOK P vs ∧ tv = tupleV (vs.map (toT P))

/-- The heaps have the same objects: byte arrays with the same contents, cells with related (first-order) values. -/
def HRel (P : Pkg) (G : GHeap) (H : THeap) : Prop := HeapOK G ∧ H = heapT P G

/-- what the emitted program must do, given what Go does (nothing is said when Go's semantics is `bad`) -/
def expected (P : Pkg) : Res (List Val × GHeap) → Res (TVal × THeap)
  | .ok (vs, G') => .ok (tupleV (vs.map (toT P)), heapT P G')
  | .fuel => .fuel
  | .bad => .bad

/-! ### the main theorem -/

/-- **Functions, closures, methods and strings are translated soundly.** -/
theorem fun_compile_correct {P : Pkg} {TP : TPkg} (hP : tr P = .ok TP) (f : String) (fuel : Nat)
    {args : List Val} {targs : List TVal} {G : GHeap} {H : THeap} (ha : ArgsRel P args targs) (hh : HRel P G H) :
    (∀ vs G', callGo P fuel f args G = .ok (vs, G') →
      ∃ tv H', callT TP fuel f targs H = .ok (tv, H') ∧ ResRel P vs tv ∧ HRel P G' H') ∧
    (callGo P fuel f args G = .fuel → callT TP fuel f targs H = .fuel) ∧
    (callGo P fuel f args G ≠ .bad → callT TP fuel f targs H = .fuel → callGo P fuel f args G = .fuel) := by
  obtain ⟨ha1, ha2⟩ := ha
  obtain ⟨hh1, hh2⟩ := hh
  subst ha2
  subst hh2
  have h := apply_sim hP fuel (.fn f) args G (by simp [ValOK]) ha1 hh1
  simp only [toT] at h
  unfold callGo callT
  refine ⟨?_, ?_, ?_⟩
  · intro vs G' hgo
    rw [hgo] at h
    exact ⟨_, _, h.1, ⟨h.2.1, rfl⟩, ⟨h.2.2, rfl⟩⟩
  · intro hgo
    rw [hgo] at h
    exact h
  · intro hnb ht
    cases hgo : apply P fuel (.fn f) args G with
    | ok p =>
      rw [hgo] at h
      rw [h.1] at ht
      cases ht
    | fuel => rfl
    | bad => exact absurd hgo hnb

/-- … as one equation: unless Go's semantics is `bad`, the emitted program does what `expected` says. -/
theorem fun_compile_correct_eq {P : Pkg} {TP : TPkg} (hP : tr P = .ok TP) (f : String) (fuel : Nat)
    {args : List Val} {G : GHeap} (ha : ValsOK P args) (hG : HeapOK G) (hnb : callGo P fuel f args G ≠ .bad) :
    callT TP fuel f (args.map (toT P)) (heapT P G) = expected P (callGo P fuel f args G) := by
  obtain ⟨h1, h2, _⟩ := fun_compile_correct hP f fuel (G := G) ⟨ha, rfl⟩ ⟨hG, rfl⟩
  cases hgo : callGo P fuel f args G with
  | ok p =>
    obtain ⟨tv, H', h3, h4, h5⟩ := h1 p.1 p.2 hgo
    rw [h3, h4.2, h5.2]
    rfl
  | fuel => exact h2 hgo
  | bad => exact absurd hgo hnb

/-- Fuel runs out on one side iff on the other. -/
theorem fun_fuel_iff {P : Pkg} {TP : TPkg} (hP : tr P = .ok TP) (f : String) (fuel : Nat)
    {args : List Val} {G : GHeap} (ha : ValsOK P args) (hG : HeapOK G) (hnb : callGo P fuel f args G ≠ .bad) :
    callGo P fuel f args G = .fuel ↔ callT TP fuel f (args.map (toT P)) (heapT P G) = .fuel := by
  obtain ⟨_, h2, h3⟩ := fun_compile_correct hP f fuel (G := G) ⟨ha, rfl⟩ ⟨hG, rfl⟩
  exact ⟨h2, h3 hnb⟩

/-- Accepted programs are never stuck where Go has a result. -/
theorem accepted_never_stuck {P : Pkg} {TP : TPkg} (hP : tr P = .ok TP) (f : String) (fuel : Nat)
    {args : List Val} {G : GHeap} (ha : ValsOK P args) (hG : HeapOK G) {vs : List Val} {G' : GHeap}
    (hgo : callGo P fuel f args G = .ok (vs, G')) :
    callT TP fuel f (args.map (toT P)) (heapT P G) ≠ .bad := by
  obtain ⟨h1, _, _⟩ := fun_compile_correct hP f fuel (G := G) ⟨ha, rfl⟩ ⟨hG, rfl⟩
  obtain ⟨tv, H', h3, _, _⟩ := h1 vs G' hgo
  rw [h3]
  intro h
  cases h

/-- **Closures.**  Applying ANY function value — a closure with whatever it captured, or a top-level function passed
around as a value — to related arguments in related heaps has related outcomes. -/
theorem closure_call_correct {P : Pkg} {TP : TPkg} (hP : tr P = .ok TP) (fuel : Nat) (fv : Val) (args : List Val) (G : GHeap)
    (hfv : ValOK P fv) (ha : ValsOK P args) (hG : HeapOK G) (hnb : apply P fuel fv args G ≠ .bad) :
    applyT TP fuel (toT P fv) (argsT (args.map (toT P))) (heapT P G) = expected P (apply P fuel fv args G) := by
  have h := apply_sim hP fuel fv args G hfv ha hG
  cases hgo : apply P fuel fv args G with
  | ok p =>
    rw [hgo] at h
    rw [h.1]
    rfl
  | fuel =>
    rw [hgo] at h
    exact h
  | bad => exact absurd hgo hnb

/-- **Statement lists in context.**  Any accepted statement list (a function body, a branch, the body of a function
literal), under either usage, from any environment whose closures were accepted and any heap. -/
theorem fun_sound_in_context {P : Pkg} {TP : TPkg} (hP : tr P = .ok TP) (fuel : Nat) (ss : Stmts) (env : Env) (G : GHeap) (u : Usage) (t : T)
    (ht : trStmts false P (selfOf env) (senv env) ss u = .ok t) (he : EnvOK P env) (hG : HeapOK G) :
    match execStmts (apply P fuel) P env G ss with
    | .ok (.normal _ G') => ∃ tv, evalT (applyT TP fuel) (envT P env) t (heapT P G) = .ok (tv, heapT P G') ∧ (u = .returned → tv = .unit)
    | .ok (.returned vs G') => u = .returned ∧ evalT (applyT TP fuel) (envT P env) t (heapT P G) = .ok (tupleV (vs.map (toT P)), heapT P G')
    | .fuel => evalT (applyT TP fuel) (envT P env) t (heapT P G) = .fuel
    | .bad => True := by
  have h := sound_stmts (apply_sim hP fuel) ss env G u t ht he hG
  cases hx : execStmts (apply P fuel) P env G ss with
  | ok o =>
    rw [hx] at h
    cases o with
    | normal e' g' =>
      obtain ⟨tv, h1, h2, _⟩ := h
      exact ⟨tv, h1, h2⟩
    | returned vs g' => exact ⟨h.1, h.2.1⟩
  | fuel =>
    rw [hx] at h
    exact h
  | bad => trivial

/-! ### the hypotheses are met: concrete, non-trivial instances -/

/-- a package of 29 declarations with every construct of the model: all accepted -/
theorem exPkg_accepted : tr exPkg = .ok exTP := rfl

example : exPkg.length = 29 ∧ exTP.length = 29 := by decide

/-- related arguments, one of them a closure that captured a cell and a value -/
def exClosure : Val :=
  .clo ["k"] (sl [.assign "v" (.add (.var "v") (.var "k")), .ret (el [.add (.var "v") (.var "c")])])
    (.val "c" (.num 5) (.cell "v" .u64 0 (.top "hof")))

example : ArgsRel exPkg [exClosure, .num 3, .str [97, 98]] [toT exPkg exClosure, .num 3, .str [97, 98]] := by
  refine ⟨?_, rfl⟩
  intro v hv
  simp only [List.mem_cons, List.mem_nil_iff, or_false] at hv
  rcases hv with h | h | h
  · subst h
    exact ⟨⟨by simp [ValOK], trivial⟩, _, rfl⟩
  · subst h; simp [ValOK]
  · subst h; simp [ValOK]

/-- a heap with a cell, a struct object and a byte array, and the related GooseLang heap -/
example : HRel exPkg [.cell (.num 3), .cell (.strct 1 2), .arr [97]] [.cell (.num 3), .cell (.strct 1 2), .arr [97]] := by
  refine ⟨?_, rfl⟩
  intro o v h
  match o with
  | 0 => simp [getCell] at h; subst h; rfl
  | 1 => simp [getCell] at h; subst h; rfl
  | 2 => simp [getCell] at h
  | n + 3 => simp [getCell] at h

/-- the theorem applied: the closure above applied to 2 in a heap whose cell 0 holds 10 — on both sides 12 + 5, and the
cell holds 12 afterwards -/
example :
    apply exPkg 3 exClosure [.num 2] [.cell (.num 10)] = .ok ([.num 17], [.cell (.num 12)]) ∧
    applyT exTP 3 (toT exPkg exClosure) [.num 2] [.cell (.num 10)] = .ok (.num 17, [.cell (.num 12)]) := by
  constructor <;> rfl

/-- fuel: three nested calls are not enough for `fact 5`, on both sides -/
example : isFuel (callGo exPkg 3 "fact" [.num 5] []) = true ∧ isFuel (callT exTP 3 "fact" [.num 5] []) = true := by decide

/-! ### calls, several results -/

/-- The emitted definitions of the package, read back: `rec: "two" "x" "y" := ("x" + "y", "x")`, three results as one
tuple, `<>` for no parameters, `#()` for no results. -/
theorem emitted_forms :
    findT "two" exTP = some (["x", "y"], .tuple (tl [.add (.var "x") (.var "y"), .var "x"])) ∧
    findT "three" exTP = some (["x"], .tuple (tl [.var "x", .add (.var "x") (.lit 1), .add (.var "x") (.lit 2)])) ∧
    findT "zero" exTP = some (["_"], .lit 7) ∧
    findT "nothing" exTP = some (["x"], .unit) ∧
    findT "pos3" exTP = some (["p"], .letN ["a", "b", "c"] (.app (.gvar "three") (tl [.var "p"]))
      (.add (.var "a") (.add (.mul (.var "b") (.lit 10)) (.mul (.var "c") (.lit 100))))) ∧
    findT "useZero" exTP = some (["p"], .seq (.app (.gvar "nothing") (tl [.var "p"])) (.add (.app (.gvar "zero") (tl [.unit])) (.var "p"))) ∧
    findT "T__seta" exTP = some (["r", "k"], .seq (.structStoreF .a (.var "r") (.var "k")) .unit) :=
  ⟨rfl, rfl, rfl, rfl, rfl, rfl, rfl⟩

/-- **Several results are bound by position** (Go side): after `a, b := f(…)` and `a, b, c := f(…)` the i-th name holds
the i-th result. -/
theorem multiple_results_positional_go (a b c : String) (v1 v2 v3 : Val) (env : Env)
    (hab : a ≠ b) (hac : a ≠ c) (hbc : b ≠ c) (ha : a ≠ "_") (hb : b ≠ "_") (hc : c ≠ "_") :
    (∃ env', bindPs [a, b] [v1, v2] env = some env' ∧ lookE a env' = some (.val v1) ∧ lookE b env' = some (.val v2)) ∧
    (∃ env', bindPs [a, b, c] [v1, v2, v3] env = some env' ∧
      lookE a env' = some (.val v1) ∧ lookE b env' = some (.val v2) ∧ lookE c env' = some (.val v3)) := by
  constructor
  · refine ⟨.val b v2 (.val a v1 env), by simp [bindPs, ha, hb], ?_, ?_⟩
    · simp [lookE, hab, Ne.symm hab]
    · simp [lookE]
  · refine ⟨.val c v3 (.val b v2 (.val a v1 env)), by simp [bindPs, ha, hb, hc], ?_, ?_, ?_⟩
    · simp [lookE, hab, hac, Ne.symm hab, Ne.symm hac]
    · simp [lookE, hbc, Ne.symm hbc]
    · simp [lookE]

/-- … and on the GooseLang side: `let: ("a", "b") := e in body` and `let: (("a", "b"), "c") := e in body` evaluate `body`
with the i-th name bound to the i-th component of the value of `e`, which is what a `return e1, e2(, e3)` built. -/
theorem multiple_results_positional (ap : TOracle) (a b c : String) (x y z : TVal) (tenv : TEnv) (H : THeap) (e body : T)
    (ha : a ≠ "_") (hb : b ≠ "_") (hc : c ≠ "_") :
    (evalT ap tenv e H = .ok (tupleV [x, y], H) →
      evalT ap tenv (.letN [a, b] e body) H = evalT ap (.cons b y (.cons a x tenv)) body H) ∧
    (evalT ap tenv e H = .ok (tupleV [x, y, z], H) →
      evalT ap tenv (.letN [a, b, c] e body) H = evalT ap (.cons c z (.cons b y (.cons a x tenv))) body H) := by
  constructor
  · intro he
    simp [evalT, he, tupleV, tupleR, unpair, unpairR, bindTs, ha, hb]
  · intro he
    simp [evalT, he, tupleV, tupleR, unpair, unpairR, bindTs, ha, hb, hc]

/-- End to end, for every argument: `a, b := two(p, q)` gives a = p + q, b = p and `a, b, c := three(p)` gives p, p + 1,
p + 2, in Go and in the emitted program; a blank position binds nothing. -/
theorem multiple_results_examples (p q : Nat) :
    goNums (callGo exPkg 5 "pos2" [.num p, .num q] []) = some [(p + q) * 1000 + p] ∧
    tNum (callT exTP 5 "pos2" [.num p, .num q] []) = some ((p + q) * 1000 + p) ∧
    goNums (callGo exPkg 5 "pos3" [.num p] []) = some [p + ((p + 1) * 10 + (p + 2) * 100)] ∧
    tNum (callT exTP 5 "pos3" [.num p] []) = some (p + ((p + 1) * 10 + (p + 2) * 100)) ∧
    goNums (callGo exPkg 5 "blank" [.num p] []) = some [p + 1] ∧
    tNum (callT exTP 5 "blank" [.num p] []) = some (p + 1) :=
  ⟨rfl, rfl, rfl, rfl, rfl, rfl⟩

/-- A function without parameters has the binder `<>` and is called with `#()`; a function without results gives `#()`. -/
theorem zero_parameters_and_no_results (p : Nat) :
    goNums (callGo exPkg 5 "useZero" [.num p] []) = some [7 + p] ∧
    tNum (callT exTP 5 "useZero" [.num p] []) = some (7 + p) ∧
    callGo exPkg 5 "nothing" [.num p] [] = .ok ([], []) ∧
    callT exTP 5 "nothing" [.num p] [] = .ok (.unit, []) :=
  ⟨rfl, rfl, rfl, rfl⟩

/-! ### recursion -/

/-- **A recursive call is a call of the same function**, on both sides: a call unfolds to the body run with one unit of
fuel less; inside the body the function's own name denotes the function (in GooseLang: the binder of `rec:`, unless a
local variable has taken the name, which is Go's scoping too). -/
theorem recursion_unfolds (P : Pkg) (TP : TPkg) (n : Nat) (f : String) (d : FuncDecl) (ps : List String) (tb : T)
    (args : List Val) (G : GHeap) (env : Env) (targs : List TVal) (H : THeap) (tenv : TEnv)
    (hd : findFn f P = some d) (hnamed : d.named = false) (hb : bindPs d.allParams args (.top d.name) = some env)
    (hT : findT f TP = some (ps, tb)) (hbt : bindTs ps targs (.cons f (.glob f) .nil) = some tenv) :
    callGo P (n + 1) f args G = runBody (apply P n) P env G d.body ∧
    applyT TP (n + 1) (.glob f) targs H = evalT (applyT TP n) tenv tb H ∧
    (∀ (env' : Env) (G' : GHeap), lookE f env' = none → calleeOf env' G' f = .ok (.fn f)) ∧
    (∀ (ap : TOracle) (env' : Env) (H' : THeap), lookE f env' = none → selfOf env' = f →
      evalT ap (envT P env') (fnRef (selfOf env') f) H' = .ok (.glob f, H')) := by
  refine ⟨?_, ?_, ?_, ?_⟩
  · simp [callGo, apply, hd, hnamed, hb]
  · simp [applyT, hT, hbt]
  · intro env' G' hl
    simp [calleeOf, hl]
  · intro ap env' H' hl hs
    exact evalT_fnRef env' f H' (fun _ => hl)

/-- factorial, fibonacci, a mutually recursive pair and a recursive method, in Go and as emitted -/
theorem recursion_examples :
    goNums (callGo exPkg 10 "fact" [.num 5] []) = some [120] ∧ tNum (callT exTP 10 "fact" [.num 5] []) = some 120 ∧
    goNums (callGo exPkg 8 "fib" [.num 6] []) = some [8] ∧ tNum (callT exTP 8 "fib" [.num 6] []) = some 8 ∧
    goNums (callGo exPkg 10 "isEven" [.num 7] []) = some [0] ∧ tNum (callT exTP 10 "isEven" [.num 7] []) = some 0 ∧
    goNums (callGo exPkg 10 "isOdd" [.num 7] []) = some [1] ∧ tNum (callT exTP 10 "isOdd" [.num 7] []) = some 1 ∧
    goNums (callGo exPkg 10 "downer" [.num 4] []) = some [7] ∧ tNum (callT exTP 10 "downer" [.num 4] []) = some 7 := by
  decide +kernel

/-- the emitted recursive definitions refer to themselves through the binder of `rec:` ("fact", "T__down"), to each
other as definitions (isOdd) -/
theorem recursion_emitted :
    findT "fact" exTP = some (["n"], .ite (.cmp .eq (.var "n") (.lit 0)) (.lit 1)
      (.mul (.var "n") (.app (.var "fact") (tl [.sub (.var "n") (.lit 1)])))) ∧
    findT "isEven" exTP = some (["n"], .ite (.cmp .eq (.var "n") (.lit 0)) (.blit true)
      (.app (.gvar "isOdd") (tl [.sub (.var "n") (.lit 1)]))) ∧
    findT "T__down" exTP = some (["r", "n"], .ite (.cmp .eq (.var "n") (.lit 0)) (.structLoadF .a (.var "r"))
      (.letIn "v" (.app (.var "T__down") (tl [.var "r", .sub (.var "n") (.lit 1)])) (.add (.var "v") (.lit 1)))) :=
  ⟨rfl, rfl, rfl⟩

/-! ### closures -/

/-- **A function literal captures the environment itself**: the cells of `var` variables by their location, so the
closure and its creator share them — on both sides, whatever the body. -/
theorem closure_captures_the_cells (apG : GOracle) (apT : TOracle) (P : Pkg) (env : Env) (G : GHeap) (tenv : TEnv) (H : THeap)
    (ps : List String) (body : Stmts) (tb : T) (x : String) (ty : Ty) (o : Nat) (hx : lookE x env = some (.cell ty o)) :
    evalE apG P env (.fn false ps body) G = .ok (.clo ps body env, G) ∧
    evalT apT tenv (.lam ps tb) H = .ok (.clo tenv ps tb, H) ∧
    lookT x (envT P env) = some (.loc o) := by
  refine ⟨by simp [evalE], by simp [evalT], ?_⟩
  rw [lookT_envT, hx]

/-- **A closure sees an assignment made after it was created**: `var v = p; g := func() { return v }; v = q; g()` is `q`. -/
theorem closure_sees_later_assignment (p q : Nat) :
    goNums (callGo exPkg 5 "sees" [.num p, .num q] []) = some [q] ∧
    tNum (callT exTP 5 "sees" [.num p, .num q] []) = some q :=
  ⟨rfl, rfl⟩

/-- **An assignment made by a closure is seen by its creator**: `var v = p; g := func(k) { v = k }; g(q); v` is `q`. -/
theorem closure_assignment_is_visible (p q : Nat) :
    goNums (callGo exPkg 5 "visible" [.num p, .num q] []) = some [q] ∧
    tNum (callT exTP 5 "visible" [.num p, .num q] []) = some q :=
  ⟨rfl, rfl⟩

/-- A `:=` variable is captured by value; a later `:=` of the same name (in a branch) is another variable: the closure
keeps 3. -/
theorem define_is_captured_by_value :
    goNums (callGo exPkg 5 "byvalue" [.num 3, .num 4] []) = some [3004] ∧
    tNum (callT exTP 5 "byvalue" [.num 3, .num 4] []) = some 3004 := by
  decide +kernel

/-- … and this is not observable otherwise: an accepted assignment goes to a `var` variable (a cell), never to a `:=`
variable, parameter or receiver. -/
theorem accepted_assignments_are_to_cells (g : Bool) (P : Pkg) (self : String) (Γ : SVars) (x : String) (e : Exp) (u : Usage)
    (b : Bind) (fin : Bool) (h : trInBlock g P self Γ (.assign x e) u = .ok (b, fin)) : ∃ τ, look x Γ = some (some τ) := by
  simp only [trInBlock] at h
  obtain ⟨t, _, h⟩ := GooseVerif.Model.Coll.bindE_ok h
  cases hl : look x Γ with
  | none => simp [hl] at h
  | some w =>
    cases w with
    | none => simp [hl] at h
    | some τ => exact ⟨τ, rfl⟩

/-- closures and top-level functions as arguments: `ap(g, 1)` with `g` counting its calls in a captured cell, `ap(fact, 3)` -/
theorem function_values_as_arguments :
    goNums (callGo exPkg 8 "hof" [.num 4] []) = some [1 + 4 + 1 + 700 + 10000] ∧
    tNum (callT exTP 8 "hof" [.num 4] []) = some (1 + 4 + 1 + 700 + 10000) := by
  decide +kernel

/-! ### methods -/

/-- **A pointer receiver shares the object**: a method that assigns to a field of its receiver changes the caller's
object; the pointer a method returns is the receiver. -/
theorem pointer_receiver_shares (p q : Nat) :
    goNums (callGo exPkg 5 "share" [.num p, .num q] []) = some [q] ∧
    tNum (callT exTP 5 "share" [.num p, .num q] []) = some q ∧
    goNums (callGo exPkg 5 "shareRet" [.num p, .num q] []) = some [q] ∧
    tNum (callT exTP 5 "shareRet" [.num p, .num q] []) = some q :=
  ⟨rfl, rfl, rfl, rfl⟩

/-- **A value receiver gets a copy**: the struct a value method received (and returned) is not affected by a later
assignment to the caller's variable.  (A value-receiver method that assigns to a field of its receiver is the known
finding `store-through-let-bound-value`: `store_through_let_bound_is_stuck` below.) -/
theorem value_receiver_gets_a_copy (p q : Nat) :
    goNums (callGo exPkg 5 "copy" [.num p, .num q] []) = some [p] ∧
    tNum (callT exTP 5 "copy" [.num p, .num q] []) = some p :=
  ⟨rfl, rfl⟩

/-- the receiver is the first parameter of `T__m`; a `var` struct is loaded, a pointer is passed as it is -/
theorem method_calls_emitted :
    findT "copy" exTP = some (["p", "q"],
      .letIn "v" (.refTo .strct (.structMk (.var "p") (.lit 0)))
      (.letIn "c" (.app (.gvar "T__self") (tl [.load .strct (.var "v")]))
      (.seq (.structStoreF .a (.var "v") (.var "q")) (.structGet .a (.var "c"))))) ∧
    findT "share" exTP = some (["p", "q"],
      .letIn "x" (.structNew (.var "p") (.lit 0))
      (.seq (.app (.gvar "T__seta") (tl [.var "x", .var "q"])) (.structLoadF .a (.var "x")))) :=
  ⟨rfl, rfl⟩

/-! ### strings -/

/-- **len(s + t) = len(s) + len(t)**, in Go and as emitted, for all strings. -/
theorem string_concat_len (s t : List Nat) :
    callGo exPkg 5 "cat" [.str s, .str t] [] = .ok ([.num (s.length + t.length)], []) ∧
    callT exTP 5 "cat" [.str s, .str t] [] = .ok (.num (s.length + t.length), []) := by
  have h1 : callGo exPkg 5 "cat" [.str s, .str t] [] = .ok ([.num (s ++ t).length], []) := rfl
  have h2 : callT exTP 5 "cat" [.str s, .str t] [] = .ok (.num (s ++ t).length, []) := rfl
  rw [h1, h2, List.length_append]
  exact ⟨rfl, rfl⟩

/-- **`string([]byte(s)) == s`**, in Go and as emitted, for all strings. -/
theorem bytes_roundtrip (s : List Nat) :
    goNums (callGo exPkg 5 "round" [.str s] []) = some [1] ∧ tNum (callT exTP 5 "round" [.str s] []) = some 1 := by
  cases s with
  | nil => exact ⟨rfl, rfl⟩
  | cons a l =>
    have h1 : callGo exPkg 5 "round" [.str (a :: l)] [] = .ok ([.bool (decide (a :: l = a :: l))], [.arr (a :: l)]) := rfl
    have h2 : callT exTP 5 "round" [.str (a :: l)] [] = .ok (.bool (decide (a :: l = a :: l)), [.arr (a :: l)]) := rfl
    rw [h1, h2]
    simp [goNums, tNum]

/-- … for any expression position: `[]byte(s)` allocates a fresh array holding the bytes, `string(b)` reads them back. -/
theorem bytes_roundtrip_anywhere (apG : GOracle) (apT : TOracle) (P : Pkg) (env : Env) (tenv : TEnv) (G : GHeap) (H : THeap) (s : List Nat) :
    (∃ G', evalE apG P env (.ofBytes (.toBytes (.slit s))) G = .ok (.str s, G')) ∧
    (∃ H', evalT apT tenv (.strFromBytes (.strToBytes (.slit s))) H = .ok (.str s, H')) := by
  by_cases h : s.length = 0
  · have hs : s = [] := List.length_eq_zero_iff.mp h
    subst hs
    exact ⟨⟨G, by simp [evalE, asStr, asBytes, readBytes]⟩, ⟨H, by simp [evalT, asStrT, asBytesT, readBytes]⟩⟩
  · have hne : s ≠ [] := fun h0 => h (by rw [h0]; rfl)
    refine ⟨⟨G ++ [.arr s], ?_⟩, ⟨H ++ [.arr s], ?_⟩⟩
    · simp [evalE, asStr, asBytes, readBytes, hne, getArr]
    · simp [evalT, asStrT, asBytesT, readBytes, hne, getArr]

/-- **String equality**: `s == t` and `s != t` decide equality of the byte lists, in Go and as emitted. -/
theorem string_equality (s t : List Nat) :
    callGo exPkg 5 "same" [.str s, .str t] [] = .ok ([.bool (decide (s = t)), .bool (!decide (s = t))], []) ∧
    callT exTP 5 "same" [.str s, .str t] [] = .ok (.pair (.bool (decide (s = t))) (.bool (!decide (s = t))), []) :=
  ⟨rfl, rfl⟩

/-! ### what the translator refuses -/

/-- Named results (of a declaration and of a function literal), a multi-valued call as the arguments of a call,
assignment to a `:=` variable from inside a closure, ordering comparison of strings, a variable of function type, `return`
inside a branch that is not in tail position, an early return with an else-branch: refused with goose's messages. -/
theorem fun_rejections :
    trDecl exPkg rejNamed = .error "named returned value" ∧
    trDecl exPkg rejLitNamed = .error "named returned value" ∧
    trDecl exPkg rejMulti = .error "multi-valued call as the arguments of a call (bind the results first)" ∧
    trDecl exPkg rejAssign = .error "variable x is not assignable" ∧
    trDecl exPkg rejOrder = .error "ordering comparison on strings" ∧
    trDecl exPkg rejFnVar = .error "function type" ∧
    trDecl exPkg rejRetPos = .error "return in unsupported position" ∧
    trDecl exPkg rejEarlyElse = .error "early return in if with an else branch" :=
  ⟨rfl, rfl, rfl, rfl, rfl, rfl, rfl, rfl⟩

/-- … and `trGoose` refuses them as well. -/
theorem fun_rejections_goose :
    trDeclGoose exPkg rejNamed = .error "named returned value" ∧
    trDeclGoose exPkg rejMulti = .error "multi-valued call as the arguments of a call (bind the results first)" ∧
    trDeclGoose exPkg rejAssign = .error "variable x is not assignable" ∧
    trDeclGoose exPkg rejOrder = .error "ordering comparison on strings" :=
  ⟨rfl, rfl, rfl, rfl⟩

/-- One refused declaration makes the package unacceptable for the theorem (`goose -ignore-errors` would still print
the others: `trAccepted`). -/
theorem rejected_declaration_rejects_package : tr (exPkg ++ [rejOrder]) = .error "ordering comparison on strings" := rfl

/-! ### the shapes kept out of `tr`: findings -/

/-- The three shapes are refused by `tr` as model restrictions and printed by `trGoose` as goose prints them:
`T__seta (![struct.t T] "v") #9` (the loaded VALUE where the method expects a pointer), `T__geta "q" #3` (the POINTER
where the method expects a value), `struct.storeF T "a" "t" "p"` on a let-bound struct. -/
theorem findings_kept_out_of_tr :
    trDecl findPkg findPtrOnValue = .error msgPtrMethOnValue ∧
    trDecl findPkg findValOnPtr = .error msgValMethOnPtr ∧
    trDecl findPkg findStoreLet = .error msgStoreLetBound ∧
    findT "ptrOnValue" findTP = some (["p"],
      .letIn "v" (.refTo .strct (.structMk (.var "p") (.lit 2)))
      (.seq (.app (.gvar "T__seta") (tl [.load .strct (.var "v"), .lit 9])) (.structGet .a (.load .strct (.var "v"))))) ∧
    findT "valOnPtr" findTP = some (["p"],
      .letIn "q" (.structNew (.var "p") (.lit 6)) (.app (.gvar "T__geta") (tl [.var "q", .lit 3]))) ∧
    findT "storeLet" findTP = some (["p"],
      .letIn "t" (.structMk (.lit 1) (.lit 2)) (.seq (.structStoreF .a (.var "t") (.var "p")) (.structGet .a (.var "t")))) :=
  ⟨rfl, rfl, rfl, rfl, rfl, rfl⟩

/-- **`trGoose` extends `tr`**: what the strict model accepts, the model of what goose prints accepts with the same
output; the converse fails exactly on the finding shapes. -/
theorem tr_le_trGoose (P : Pkg) (TP : TPkg) (h : tr P = .ok TP) : trGoose P = .ok TP :=
  GooseVerif.Model.Fun.tr_le_trGoose P TP h

theorem trGoose_accepts_more :
    tr findPkg = .error msgPtrMethOnValue ∧ trGoose findPkg = .ok findTP ∧ trGoose exPkg = .ok exTP :=
  ⟨rfl, rfl, rfl⟩

/-- **Mutation witness (known finding `pointer-method-on-value`)**: a pointer-receiver method given the LOADED struct
value cannot update the caller's object.  Go (which passes `&v`) returns 9; what goose emits is stuck. -/
theorem pointer_method_on_value_is_stuck (p : Nat) :
    goNums (callGo findPkg 5 "ptrOnValue" [.num p] []) = some [9] ∧
    isStuck (callT findTP 5 "ptrOnValue" [.num p] []) = true :=
  ⟨rfl, rfl⟩

/-- **Finding `value-method-on-pointer`** (found by this model's correspondence): a value-receiver method called on a
pointer gets the pointer.  Go (which passes `*q`) returns p + 3; what goose emits is stuck. -/
theorem value_method_on_pointer_is_stuck (p : Nat) :
    goNums (callGo findPkg 5 "valOnPtr" [.num p] []) = some [p + 3] ∧
    isStuck (callT findTP 5 "valOnPtr" [.num p] []) = true :=
  ⟨rfl, rfl⟩

/-- **Known finding `store-through-let-bound-value`**: a store into a field of a let-bound struct is stuck as emitted
(Go changes the local copy; that is outside the model's Go semantics). -/
theorem store_through_let_bound_is_stuck (p : Nat) :
    isStuck (callT findTP 5 "storeLet" [.num p] []) = true ∧ isStuck (callGo findPkg 5 "storeLet" [.num p] []) = true :=
  ⟨rfl, rfl⟩

/-! ### mutation witnesses: the statement depends on the details of the translation -/

/-- **Results bound in swapped order** (`let: (("a", "c"), "b") := three "p"`): a different value, for every argument. -/
theorem mutant_swapped_results_is_wrong (p : Nat) :
    goNums (callGo exPkg 5 "pos3" [.num p] []) = some [p + ((p + 1) * 10 + (p + 2) * 100)] ∧
    tNum (callT mutSwapped 5 "pos3" [.num p] []) = some (p + ((p + 2) * 10 + (p + 1) * 100)) ∧
    p + ((p + 1) * 10 + (p + 2) * 100) ≠ p + ((p + 2) * 10 + (p + 1) * 100) :=
  ⟨rfl, rfl, by omega⟩

/-- **The tuple of a `return` built in reversed order**: `a, b := two(p, q)` gets the results exchanged. -/
theorem mutant_tuple_order_is_wrong (p q : Nat) :
    goNums (callGo exPkg 5 "pos2" [.num p, .num q] []) = some [(p + q) * 1000 + p] ∧
    tNum (callT mutTupleOrder 5 "pos2" [.num p, .num q] []) = some (p * 1000 + (p + q)) :=
  ⟨rfl, rfl⟩

example : (3 + 4) * 1000 + 3 ≠ 3 * 1000 + (3 + 4) := by decide

/-- **A function without parameters called without `#()`** is the function value, not its result: used as a number it is
stuck. -/
theorem mutant_call_without_unit_is_stuck (p : Nat) :
    goNums (callGo exPkg 5 "useZero" [.num p] []) = some [7 + p] ∧
    isStuck (callT mutNoUnit 5 "useZero" [.num p] []) = true :=
  ⟨rfl, rfl⟩

/-- **A closure that captured a COPY of the cell's content** misses the later assignment: `p` instead of `q`. -/
theorem mutant_captured_copy_misses_assignment (p q : Nat) :
    goNums (callGo exPkg 5 "sees" [.num p, .num q] []) = some [q] ∧
    tNum (callT mutCopyCapture 5 "sees" [.num p, .num q] []) = some p :=
  ⟨rfl, rfl⟩

/-- **`StringLength` replaced by the identity**: the string itself instead of its length. -/
theorem mutant_no_length_is_wrong (s t : List Nat) :
    callGo exPkg 5 "cat" [.str s, .str t] [] = .ok ([.num (s ++ t).length], []) ∧
    callT mutNoLength 5 "cat" [.str s, .str t] [] = .ok (.str (s ++ t), []) :=
  ⟨rfl, rfl⟩

/-- The main theorem does not hold for these tables: e.g. for the swapped binding the emitted value is not the related
one. -/
theorem mutants_not_sound :
    callT mutSwapped 5 "pos3" [.num 3] [] ≠ expected exPkg (callGo exPkg 5 "pos3" [.num 3] []) ∧
    callT mutNoUnit 5 "useZero" [.num 3] [] ≠ expected exPkg (callGo exPkg 5 "useZero" [.num 3] []) ∧
    callT mutCopyCapture 5 "sees" [.num 3, .num 4] [] ≠ expected exPkg (callGo exPkg 5 "sees" [.num 3, .num 4] []) := by
  refine ⟨?_, ?_, ?_⟩
  · have h1 : callT mutSwapped 5 "pos3" [.num 3] [] = .ok (.num 453, []) := rfl
    have h2 : expected exPkg (callGo exPkg 5 "pos3" [.num 3] []) = .ok (.num 543, []) := rfl
    rw [h1, h2]
    intro h
    cases h
  · have h1 : callT mutNoUnit 5 "useZero" [.num 3] [] = .bad := rfl
    have h2 : expected exPkg (callGo exPkg 5 "useZero" [.num 3] []) = .ok (.num 10, []) := rfl
    rw [h1, h2]
    intro h
    cases h
  · have h1 : callT mutCopyCapture 5 "sees" [.num 3, .num 4] [] = .ok (.num 3, [.cell (.num 4)]) := rfl
    have h2 : expected exPkg (callGo exPkg 5 "sees" [.num 3, .num 4] []) = .ok (.num 4, [.cell (.num 4)]) := rfl
    rw [h1, h2]
    intro h
    cases h

end GooseVerif.Props.C01Fun
