/-
Models for C09 / C11: the register-array specification, `MemDisk`, and `FileDisk` as system
calls over a modelled OS file (`pread`, `pwrite`, `ftruncate`, `fstat`). The client heap
(buffers the caller owns, identified by small integers) is part of the world so that aliasing
between the caller's memory and the disk is expressible.

`bs` is the block size (instantiated with the `BlockSize` constant regenerated from /repo).
Core Lean only (linked into the driver).
-/
namespace GooseVerif.Model.Disk

abbrev Bytes := List UInt8

/-! ### the client heap -/

abbrev Heap := List Bytes

def Heap.get (h : Heap) (b : Nat) : Option Bytes := h[b]?

/-! ### operations and replies -/

inductive Op where
  | newbuf (len : Nat) (fill : UInt8)      -- client allocates a buffer
  | poke (b i : Nat) (v : UInt8)           -- client mutates its buffer
  | peek (b : Nat)                         -- client reads its buffer
  | read (a : Nat)                         -- Disk.Read: returns a fresh buffer (added to the heap)
  | readTo (a b : Nat)                     -- Disk.ReadTo
  | write (a b : Nat)                      -- Disk.Write
  | size
  | barrier
  deriving Repr, DecidableEq

inductive Out where
  | ok
  | newbuf (id : Nat)
  | bytes (bs : Bytes)
  | readBuf (id : Nat) (bs : Bytes)
  | n (k : Nat)
  | panic
  | badOp            -- the op refers to a buffer that does not exist (harness error, never generated)
  deriving Repr, DecidableEq

/-- What an implementation provides; `none` = the call panics (and changes nothing). -/
structure Impl (σ : Type) where
  readTo : σ → Nat → Bytes → Option Bytes     -- new contents of the caller's buffer
  write  : σ → Nat → Bytes → Option σ
  size   : σ → Nat

/-- One step of a client driving an implementation. `Read` is `make(4096); ReadTo` in both
implementations. Values cross the API by copy: the implementation state never contains a
reference into the heap (that is what `Impl`'s types say, and what the correspondence tests). -/
def step {σ : Type} (bs : Nat) (I : Impl σ) (s : σ × Heap) : Op → (σ × Heap) × Out
  | .newbuf len fill => ((s.1, s.2 ++ [List.replicate len fill]), .newbuf s.2.length)
  | .poke b i v =>
    match s.2.get b with
    | some buf => if i < buf.length then ((s.1, s.2.set b (buf.set i v)), .ok) else (s, .badOp)
    | none => (s, .badOp)
  | .peek b =>
    match s.2.get b with
    | some buf => (s, .bytes buf)
    | none => (s, .badOp)
  | .read a =>
    match I.readTo s.1 a (List.replicate bs 0) with
    | some buf => ((s.1, s.2 ++ [buf]), .readBuf s.2.length buf)
    | none => (s, .panic)
  | .readTo a b =>
    match s.2.get b with
    | some buf =>
      match I.readTo s.1 a buf with
      | some buf' => ((s.1, s.2.set b buf'), .ok)
      | none => (s, .panic)
    | none => (s, .badOp)
  | .write a b =>
    match s.2.get b with
    | some buf =>
      match I.write s.1 a buf with
      | some s' => ((s', s.2), .ok)
      | none => (s, .panic)
    | none => (s, .badOp)
  | .size => (s, .n (I.size s.1))
  | .barrier => (s, .ok)

def run {σ : Type} (bs : Nat) (I : Impl σ) (s : σ × Heap) : List Op → (σ × Heap) × List Out
  | [] => (s, [])
  | op :: ops =>
    let r := step bs I s op
    let rest := run bs I r.1 ops
    (rest.1, r.2 :: rest.2)

/-! ### the specification: an array of `size` independent registers -/

abbrev Regs := List Bytes

def specImpl (bs : Nat) : Impl Regs where
  readTo regs a buf :=
    match regs[a]? with
    | some r => if buf.length = bs then some r else none
    | none => none
  write regs a v := if v.length = bs ∧ a < regs.length then some (regs.set a v) else none
  size regs := regs.length

def specInit (bs n : Nat) : Regs := List.replicate n (List.replicate bs 0)

/-! ### MemDisk (machine/disk/mem.go) -/

/-- Go's `copy(dst, src)`: overwrite the common prefix. -/
def goCopy (dst src : Bytes) : Bytes := src.take dst.length ++ dst.drop src.length

/-- `ReadTo`: bound check, then `copy(buf, d.blocks[a][:])` (any buffer length is accepted).
`Write`: length check, bound check, `copy(d.blocks[a][:], v)`. -/
def memImpl (bs : Nat) : Impl (List Bytes) where
  readTo blocks a buf :=
    match blocks[a]? with
    | some blk => some (goCopy buf blk)
    | none => none
  write blocks a v :=
    if v.length ≠ bs then none
    else match blocks[a]? with
      | some blk => some (blocks.set a (goCopy blk v))
      | none => none
  size blocks := blocks.length

def memInit (bs n : Nat) : List Bytes := List.replicate n (List.replicate bs 0)

/-! ### the OS file and FileDisk (machine/disk/file.go) -/

/-- `pread(fd, buf, off)`: the bytes that exist in `[off, off + len)`. -/
def pread (file : Bytes) (off len : Nat) : Bytes := (file.drop off).take len

/-- `pwrite(fd, data, off)`: extends the file with zeros up to `off` if needed. -/
def pwrite (file : Bytes) (off : Nat) (data : Bytes) : Bytes :=
  file.take off ++ List.replicate (off - file.length) 0 ++ data ++ file.drop (off + data.length)

/-- `ftruncate(fd, n)`: cut or zero-extend. -/
def ftruncate (file : Bytes) (n : Nat) : Bytes :=
  file.take n ++ List.replicate (n - file.length) 0

structure FileSt where
  file : Bytes
  numBlocks : Nat
  deriving Repr

/-- `ReadTo`: `len(buf) != BlockSize` panics; `a >= numBlocks` panics; then `pread` is repeated from where the last one
stopped until the buffer is full, and a `pread` that transfers nothing (the end of the file) panics (repair 256b1fc; before
it the byte count was ignored and a short read left the tail of `buf` as it was).  The modelled OS hands over all the bytes
that exist at once, so the loop is: fewer than `len(buf)` bytes exist at that offset ⇒ panic.  `readLoop` below models an OS
that returns ANY positive number of bytes per call.
`Write`: same two checks, `pwrite(fd, v, a*BlockSize)` repeated likewise (the modelled file always takes everything). Offsets are modelled in unbounded `Nat`;
the `uint64`/`int64` conversions are exact for `numBlocks < 2^51` (hypothesis of the theorems). -/
def fileImpl (bs : Nat) : Impl FileSt where
  readTo d a buf :=
    if buf.length ≠ bs then none
    else if a ≥ d.numBlocks then none
    else if (pread d.file (a * bs) buf.length).length < buf.length then none
    else some (goCopy buf (pread d.file (a * bs) buf.length))
  write d a v :=
    if v.length ≠ bs then none
    else if a ≥ d.numBlocks then none
    else some { d with file := pwrite d.file (a * bs) v }
  size d := d.numBlocks

/-- The transfer loop of `ReadTo` against an OS that hands over at most `k + 1` bytes on the call whose limit is `k` (one limit
per call; `none`: a call transferred nothing, or the list of limits ran out).  `acc` is what has been read so far. -/
def readLoop (file : Bytes) (off len : Nat) : List Nat → Bytes → Option Bytes
  | [], acc => if acc.length = len then some acc else none
  | k :: ks, acc =>
    if acc.length = len then some acc
    else
      let got := pread file (off + acc.length) (min (k + 1) (len - acc.length))
      if got.length = 0 then none else readLoop file off len ks (acc ++ got)

/-- `NewFileDisk(path, numBlocks)` on a regular file whose current content is `img`
(`[]` for a file that `O_CREAT` just created): resize unless the length is already right. -/
def fileOpen (bs : Nat) (img : Bytes) (numBlocks : Nat) : FileSt :=
  if img.length ≠ numBlocks * bs then { file := ftruncate img (numBlocks * bs), numBlocks := numBlocks }
  else { file := img, numBlocks := numBlocks }

/-- The largest file offset (`int64`). -/
def maxOff : Nat := 2 ^ 63 - 1

/-- `NewFileDisk` refuses a block count whose byte length is not a file offset
(`numBlocks > math.MaxInt64/BlockSize`): the products `a * BlockSize` it computes in `uint64`
and converts to `int64` would wrap around or turn negative. -/
def openable (bs numBlocks : Nat) : Bool := decide (numBlocks ≤ maxOff / bs)

/-- `NewFileDisk` with its size check: `none` is the error return. -/
def fileOpenChecked (bs : Nat) (img : Bytes) (numBlocks : Nat) : Option FileSt :=
  if openable bs numBlocks then some (fileOpen bs img numBlocks) else none

/-- The image a later `NewFileDisk` finds after `Close` (or after the process is killed:
`pwrite` goes to the page cache, which survives the process). -/
def fileClose (d : FileSt) : Bytes := d.file

/-- Abstraction of a file disk: its blocks. -/
def fileBlocks (bs : Nat) (d : FileSt) : List Bytes :=
  (List.range d.numBlocks).map (fun a => pread d.file (a * bs) bs)

end GooseVerif.Model.Disk

namespace GooseVerif.Model.Disk

/-! ### an executable, sparse form of the specification (used by the driver as `Spec.check`,
also for disks far larger than a list of blocks could represent) -/

structure Sparse where
  size : Nat
  writes : List (Nat × Bytes)     -- most recent first

def Sparse.lookup (bs : Nat) (sp : Sparse) (a : Nat) : Bytes :=
  match sp.writes.find? (fun p => p.1 == a) with
  | some p => p.2
  | none => List.replicate bs 0

def sparseImpl (bs : Nat) : Impl Sparse where
  readTo sp a buf := if a < sp.size ∧ buf.length = bs then some (sp.lookup bs a) else none
  write sp a v := if v.length = bs ∧ a < sp.size then some { sp with writes := (a, v) :: sp.writes } else none
  size sp := sp.size

/-- Registers of an image opened with `numBlocks` blocks, at the level of the specification:
retained bytes are preserved, everything else reads as zero. -/
def regsOfImage (bs : Nat) (img : Bytes) (numBlocks : Nat) : Regs :=
  (List.range numBlocks).map (fun a => (List.range bs).map (fun j => img.getD (a * bs + j) 0))

end GooseVerif.Model.Disk
