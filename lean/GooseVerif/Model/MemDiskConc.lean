/-
MemDisk as a lock protocol (C10): `ReadTo` copies a block out under the read lock, `Write` copies
a block in under the write lock; each copy is split into two micro-steps (first half, second half)
so that a torn block is expressible. The lock mode of each operation is read from the lock
summaries regenerated from mem.go (`Gen.Disk.memDiskLocks`).
-/
import GooseVerif.Model.Lock
import GooseVerif.Model.Disk
import GooseVerif.Gen.DiskFacts

namespace GooseVerif.Model.MemDiskConc
open GooseVerif.Model.Lock GooseVerif.Model.Disk

inductive DOp where
  | readTo (a : Nat) (buf : Bytes)
  | write (a : Nat) (v : Bytes)
  deriving Repr, DecidableEq

structure DLoc where
  buf : Bytes
  failed : Bool
  deriving Repr, DecidableEq

inductive DRet where
  | buf (b : Bytes)     -- ReadTo: the caller's buffer afterwards
  | ok
  | panic
  deriving Repr, DecidableEq

def lookupSummary (name : String) : Option String :=
  (GooseVerif.Gen.Disk.memDiskLocks.find? (fun p => p.1 == name)).map (·.2)

/-- "R" ↦ reader, anything else ↦ writer (the exact summaries are pinned by `Props.C10.lock_summaries_ok`). -/
def modeOf (name : String) : Mode :=
  match lookupSummary name with
  | some s => if s == "R" then .R else .W
  | none => .W

/-- `copy` restricted to the index range `[lo, hi)`. -/
def chunkCopy (dst src : Bytes) (lo hi : Nat) : Bytes :=
  dst.mapIdx (fun i x => if lo ≤ i ∧ i < hi then src.getD i x else x)

def memDiskProtocol (bs : Nat) : Protocol (List Bytes) DOp DRet DLoc where
  mode
    | .readTo _ _ => modeOf "MemDisk.ReadTo"
    | .write _ _ => modeOf "MemDisk.Write"
  init
    | .readTo _ buf => { buf := buf, failed := false }
    | .write _ v => { buf := v, failed := v.length != bs }      -- the length check precedes the lock
  nsteps _ := 3
  micro
    | .readTo a _, 0, (blocks, l) => (blocks, { l with failed := l.failed || decide (blocks.length ≤ a) })
    | .readTo a _, 1, (blocks, l) =>
      (blocks, if l.failed then l else { l with buf := chunkCopy l.buf (blocks.getD a []) 0 (bs / 2) })
    | .readTo a _, _, (blocks, l) =>
      (blocks, if l.failed then l else { l with buf := chunkCopy l.buf (blocks.getD a []) (bs / 2) (max bs l.buf.length) })
    | .write a _, 0, (blocks, l) => (blocks, { l with failed := l.failed || decide (blocks.length ≤ a) })
    | .write a _, 1, (blocks, l) =>
      (if l.failed then blocks else blocks.set a (chunkCopy (blocks.getD a []) l.buf 0 (bs / 2)), l)
    | .write a _, _, (blocks, l) =>
      (if l.failed then blocks else blocks.set a (chunkCopy (blocks.getD a []) l.buf (bs / 2) bs), l)
  ret
    | .readTo _ _, l => if l.failed then .panic else .buf l.buf
    | .write _ _, l => if l.failed then .panic else .ok

end GooseVerif.Model.MemDiskConc
