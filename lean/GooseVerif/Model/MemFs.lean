/-
Model of `machine/filesys/mem.go` (`MemFs`), written from the code as it is after fix db91167:
Go maps are association lists (`aget`/`aset`/`adel`), inode numbers are `len(fs.inodes)+1`
(nothing is ever removed from `inodes`), descriptors come from the counter `lastFd`, every
method runs under the mutex (atomicity is C14's concern; here each method is one step).
`AtomicCreate` and `ReadAt` copy (the model's values are immutable, the harness checks aliasing).

Descriptor values are the real ones (1, 2, 3, …); the reference model numbers descriptors from 0,
so the refinement theorem relates `k` with `k + 1`.  Core Lean only.
-/
import GooseVerif.Model.Fs

namespace GooseVerif.Model.Fs

structure MemFs where
  validDirs : List String                       -- keys of validDirs mapped to true
  inodes : List (Nat × Bytes)
  dirents : List ((String × String) × Nat)
  openFiles : List (Nat × (Nat × FMode))
  lastFd : Nat
  deriving Repr

def MemFs.empty : MemFs := { validDirs := [], inodes := [], dirents := [], openFiles := [], lastFd := 0 }

/-- `checkMode`: `none` = panic. -/
def MemFs.checkMode (s : MemFs) (fd : Nat) (mode : FMode) : Option Nat :=
  match aget s.openFiles fd with
  | some (ino, m) => if m = mode then some ino else none
  | none => none

/-- Descriptor arguments are real descriptor values here. -/
def MemFs.step (s : MemFs) : Op → MemFs × Out
  | .mkdir d => ({ s with validDirs := if s.validDirs.contains d then s.validDirs else d :: s.validDirs }, .ok)
  | .create d n =>
    if !s.validDirs.contains d then (s, .panic)
    else match aget s.dirents (d, n) with
      | some _ => (s, .nofd)
      | none =>
        let inode := s.inodes.length + 1
        ({ s with inodes := aset s.inodes inode [],
                  dirents := aset s.dirents (d, n) inode,
                  openFiles := aset s.openFiles (s.lastFd + 1) (inode, .append),
                  lastFd := s.lastFd + 1 }, .fd (s.lastFd + 1))
  | .append fd data =>
    match s.checkMode fd .append with
    | some inode => ({ s with inodes := aset s.inodes inode (((aget s.inodes inode).getD []) ++ data) }, .ok)
    | none => (s, .panic)
  | .close fd =>
    match aget s.openFiles fd with
    | some _ => ({ s with openFiles := adel s.openFiles fd }, .ok)
    | none => (s, .panic)
  | .open_ d n =>
    if !s.validDirs.contains d then (s, .panic)
    else match aget s.dirents (d, n) with
      | some inode =>
        ({ s with openFiles := aset s.openFiles (s.lastFd + 1) (inode, .read), lastFd := s.lastFd + 1 }, .fd (s.lastFd + 1))
      | none => (s, .panic)
  | .readAt fd off len =>
    match s.checkMode fd .read with
    | some inode => (s, .bytes (readRange ((aget s.inodes inode).getD []) off len))
    | none => (s, .panic)
  | .delete d n => ({ s with dirents := adel s.dirents (d, n) }, .ok)
  | .link od on nd nn =>
    if !s.validDirs.contains od || !s.validDirs.contains nd then (s, .panic)
    else match aget s.dirents (od, on) with
      | none => (s, .panic)
      | some inode =>
        match aget s.dirents (nd, nn) with
        | some _ => (s, .bool false)
        | none => ({ s with dirents := aset s.dirents (nd, nn) inode }, .bool true)
  | .atomic d n data =>
    if !s.validDirs.contains d then (s, .panic)
    else
      let inode := s.inodes.length + 1
      ({ s with inodes := aset s.inodes inode data, dirents := aset s.dirents (d, n) inode }, .ok)
  | .list d =>
    if !s.validDirs.contains d then (s, .panic)
    else (s, .names (namesIn s.dirents d))

def MemFs.run (s : MemFs) : List Op → MemFs × List Out
  | [] => (s, [])
  | op :: ops =>
    let r := s.step op
    let rest := MemFs.run r.1 ops
    (rest.1, r.2 :: rest.2)

/-- Renaming between the reference model's descriptors (0-based creation index) and MemFs's
descriptor values (`lastFd` counter, 1-based). -/
def shiftOp : Op → Op
  | .append k data => .append (k + 1) data
  | .close k => .close (k + 1)
  | .readAt k off len => .readAt (k + 1) off len
  | op => op

def shiftOut : Out → Out
  | .fd k => .fd (k + 1)
  | o => o

end GooseVerif.Model.Fs
