/-
Models for C12 / C13 / C14: the reference file-system model `Ref` of the property statement,
and (further below / in `Model/DirFs.lean`) the implementations.

Descriptors are identified by their creation index (the k-th descriptor handed out by
Create/Open in a history) on every side; the harness renames real descriptor values the same way.
Core Lean only (linked into the driver).
-/
namespace GooseVerif.Model.Fs

abbrev Bytes := List UInt8

inductive FMode where
  | read | append
  deriving DecidableEq, Repr

inductive Op where
  | mkdir (d : String)
  | create (d n : String)
  | append (k : Nat) (data : Bytes)
  | close (k : Nat)
  | open_ (d n : String)
  | readAt (k off len : Nat)
  | delete (d n : String)
  | link (od on nd nn : String)
  | atomic (d n : String) (data : Bytes)
  | list (d : String)
  deriving DecidableEq, Repr

inductive Out where
  | ok
  | fd (k : Nat)
  | nofd
  | bool (b : Bool)
  | bytes (bs : Bytes)
  | names (ns : List String)
  | panic
  | invalid        -- the op violates a documented precondition: outside every quantifier
  deriving DecidableEq, Repr

/-! ### association lists (Go maps, kernel tables) -/

def aget {κ ν : Type} [BEq κ] (m : List (κ × ν)) (k : κ) : Option ν :=
  (m.find? (fun e => e.1 == k)).map (·.2)

def adel {κ ν : Type} [BEq κ] (m : List (κ × ν)) (k : κ) : List (κ × ν) :=
  m.filter (fun e => !(e.1 == k))

/-- assign: replace the value in place when the key exists, append otherwise -/
def aset {κ ν : Type} [BEq κ] : List (κ × ν) → κ → ν → List (κ × ν)
  | [], k, v => [(k, v)]
  | e :: m, k, v => if e.1 == k then (k, v) :: m else e :: aset m k v

/-- The reference model: every Create/Open yields an independent descriptor; hard links share an
inode; a deleted file stays readable through open descriptors. -/
structure Ref where
  dirs : List String
  inodes : List Bytes                          -- inode number = index
  dirents : List ((String × String) × Nat)     -- (dir, name) ↦ inode; at most one entry per key
  fds : List (Nat × (Nat × FMode))             -- open descriptors: creation index ↦ (inode, mode)
  nfds : Nat                                   -- descriptors handed out so far
  deriving Repr

def Ref.empty : Ref := { dirs := [], inodes := [], dirents := [], fds := [], nfds := 0 }

def Ref.lookup (s : Ref) (d n : String) : Option Nat := aget s.dirents (d, n)

def sortNames (ns : List String) : List String := ns.mergeSort (fun a b => decide (a ≤ b))

/-- `ReadAt`: exactly the bytes of `[off, off+len)` that exist. -/
def readRange (data : Bytes) (off len : Nat) : Bytes := (data.drop off).take len

def namesIn (dirents : List ((String × String) × Nat)) (d : String) : List String :=
  sortNames ((dirents.filter (fun e => e.1.1 == d)).map (·.1.2))

def Ref.step (s : Ref) : Op → Ref × Out
  | .mkdir d => if s.dirs.contains d then (s, .invalid) else ({ s with dirs := d :: s.dirs }, .ok)
  | .create d n =>
    if !s.dirs.contains d then (s, .invalid)
    else match s.lookup d n with
      | some _ => (s, .nofd)                                   -- exists: fails without side effects
      | none =>
        ({ s with inodes := s.inodes ++ [[]],
                  dirents := aset s.dirents (d, n) s.inodes.length,
                  fds := aset s.fds s.nfds (s.inodes.length, .append),
                  nfds := s.nfds + 1 }, .fd s.nfds)
  | .append k data =>
    match aget s.fds k with
    | some (ino, .append) =>
      ({ s with inodes := s.inodes.set ino ((s.inodes.getD ino []) ++ data) }, .ok)
    | _ => (s, .invalid)
  | .close k =>
    match aget s.fds k with
    | some _ => ({ s with fds := adel s.fds k }, .ok)
    | none => (s, .invalid)
  | .open_ d n =>
    if !s.dirs.contains d then (s, .invalid)
    else match s.lookup d n with
      | some ino => ({ s with fds := aset s.fds s.nfds (ino, .read), nfds := s.nfds + 1 }, .fd s.nfds)
      | none => (s, .invalid)
  | .readAt k off len =>
    match aget s.fds k with
    | some (ino, .read) => (s, .bytes (readRange (s.inodes.getD ino []) off len))
    | _ => (s, .invalid)
  | .delete d n =>
    match s.lookup d n with
    | some _ => ({ s with dirents := adel s.dirents (d, n) }, .ok)
    | none => (s, .invalid)
  | .link od on nd nn =>
    if !s.dirs.contains od || !s.dirs.contains nd then (s, .invalid)
    else match s.lookup od on with
      | none => (s, .invalid)
      | some ino =>
        match s.lookup nd nn with
        | some _ => (s, .bool false)
        | none => ({ s with dirents := aset s.dirents (nd, nn) ino }, .bool true)
  | .atomic d n data =>
    if !s.dirs.contains d then (s, .invalid)
    else ({ s with inodes := s.inodes ++ [data],
                   dirents := aset s.dirents (d, n) s.inodes.length }, .ok)
  | .list d =>
    if !s.dirs.contains d then (s, .invalid)
    else (s, .names (namesIn s.dirents d))

def Ref.run (s : Ref) : List Op → Ref × List Out
  | [] => (s, [])
  | op :: ops =>
    let r := s.step op
    let rest := Ref.run r.1 ops
    (rest.1, r.2 :: rest.2)

/-- A history is valid when no op violates a documented precondition. -/
def Ref.valid (s : Ref) (ops : List Op) : Bool := !(s.run ops).2.contains .invalid

end GooseVerif.Model.Fs
