/-
C05 — model of the text goose prints for a Go comment (`buffer.AddComment` in
internal/coq/coq.go):

    c = strings.ReplaceAll(c, "(*", "( *")
    c = strings.ReplaceAll(c, "*)", "* )")
    indent := pp.Block("(* ", "%s *)", c)

Characters are `Char`s of a `List Char`; the two patterns are ASCII, so replacing on code points
and replacing on UTF-8 bytes agree.  Core Lean only, executable.
-/
namespace GooseVerif.Model.Sanitize

/-- Go's `strings.ReplaceAll` for the two-character pattern `a b`: leftmost, non-overlapping. -/
def replace2 (a b : Char) (rep : List Char) : List Char → List Char
  | [] => []
  | [x] => [x]
  | x :: y :: rest =>
    if x = a ∧ y = b then rep ++ replace2 a b rep rest
    else x :: replace2 a b rep (y :: rest)

/-- The two `ReplaceAll` calls of `AddComment`, in goose's order. -/
def sanitize (c : List Char) : List Char :=
  replace2 '*' ')' ['*', ' ', ')'] (replace2 '(' '*' ['(', ' ', '*'] c)

/-- What is printed for a comment (one line; see `indentLines` for continuation lines). -/
def commentText (c : List Char) : List Char :=
  ['(', '*', ' '] ++ sanitize c ++ [' ', '*', ')']

/-- Whether `a` immediately followed by `b` occurs. -/
def hasPair (a b : Char) : List Char → Bool
  | [] => false
  | [_] => false
  | x :: y :: rest => (x == a && y == b) || hasPair a b (y :: rest)

/-- The lexer's string mode inside a comment after reading `l`, starting from mode `b`:
every `"` toggles it. -/
def inStringAfter : Bool → List Char → Bool
  | b, [] => b
  | b, x :: xs => inStringAfter (if x = '"' then !b else b) xs

/-- goose's `indent(spaces, s)`: every line after the first that is not empty gets `k` spaces
in front.  (`Block` applies it with `k = 3` to `c ++ " *)"`, `AddLine` once more with the current
indentation level.) -/
def indentLines (k : Nat) : List Char → List Char
  | [] => []
  | x :: rest =>
    if x = '\n' ∧ rest ≠ [] ∧ rest.head? ≠ some '\n' then
      '\n' :: (List.replicate k ' ' ++ indentLines k rest)
    else x :: indentLines k rest

/-- The block as printed with continuation lines indented by `k`. -/
def commentBlock (k : Nat) (c : List Char) : List Char :=
  ['(', '*', ' '] ++ indentLines k (sanitize c ++ [' ', '*', ')'])

/-- The repair of unpaired quotes in `AddComment` (applied after the two replacements): when the
number of `"` is odd, every `"` is printed as `'`. -/
def fixQuotes (c : List Char) : List Char :=
  if c.count '"' % 2 = 1 then c.map (fun x => if x = '"' then '\'' else x) else c

/-- everything `AddComment` does to the text of a comment -/
def sanitizeQ (c : List Char) : List Char := fixQuotes (sanitize c)

/-- The block as printed (with the quote repair), continuation lines indented by `k`. -/
def commentBlockQ (k : Nat) (c : List Char) : List Char :=
  ['(', '*', ' '] ++ indentLines k (sanitizeQ c ++ [' ', '*', ')'])

end GooseVerif.Model.Sanitize
