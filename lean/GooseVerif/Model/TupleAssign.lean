/-
Model of the multiple assignment `t0, t1, …, tn = f()` (one call on the right, several targets on
the left): Go's two-phase semantics, the sequential semantics of goose's translation, and the guard
of `multipleAssignStmt` / `stableOperands` in `/repo/goose.go` that rejects the statements on which
the two could differ.

Go: the operands of index expressions, pointer indirections and field selections on the left are
all evaluated first (in the state before any assignment), then the assignments happen left to right.
goose: `t0 = r0; t1 = r1; …`, every target evaluated when its turn comes.

Core Lean only, total and executable.
-/
namespace GooseVerif.Model.TupleAssign

/-- heap locations; values are natural numbers -/
abbrev Loc := Nat

/-- the heap: the cells of the re-assignable variables, the slots of maps/slices, the fields of
structs, whatever a pointer points to -/
abbrev Heap := Loc → Nat

/-- the never-re-assigned variables: goose binds them by `let`, no assignment can change them -/
abbrev Env := String → Nat

def Heap.set (h : Heap) (l : Loc) (v : Nat) : Heap :=
  fun l' => if l' = l then v else h l'

/-- store to a location if there is one (`_` has none) -/
def Heap.store (h : Heap) (ol : Option Loc) (v : Nat) : Heap :=
  match ol with
  | none => h
  | some l => h.set l v

/-- An operand the guard accepts inside a target: a literal, a never-re-assigned variable, a
re-assignable ("pointer-wrapped") variable, which lives in the heap cell `cell x`. -/
inductive Atom
  | lit (n : Nat)
  | imm (x : String)
  | mut (x : String)
  deriving Repr, DecidableEq

def Atom.eval (env : Env) (cell : String → Loc) (h : Heap) : Atom → Nat
  | .lit n => n
  | .imm x => env x
  | .mut x => h (cell x)

/-- A target: `_`, a (re-assignable) variable `x`, `*p`, `m[k]`, `s.f` (`off` the offset of `f`). -/
inductive Target
  | blank
  | var (x : String)
  | deref (p : Atom)
  | index (m k : Atom)
  | field (s : Atom) (off : Nat)
  deriving Repr, DecidableEq

/-- The location a target denotes in heap `h`; `slot a b` is the location of element `b` of the
map/slice `a` (an arbitrary parameter). -/
def Target.loc (env : Env) (cell : String → Loc) (slot : Nat → Nat → Loc) (h : Heap) :
    Target → Option Loc
  | .blank => none
  | .var x => some (cell x)
  | .deref p => some (p.eval env cell h)
  | .index m k => some (slot (m.eval env cell h) (k.eval env cell h))
  | .field s off => some (s.eval env cell h + off)

/-- Store the values to the (already computed) locations, left to right.  Stops at the end of the
shorter list. -/
def storeAll (h : Heap) : List (Option Loc) → List Nat → Heap
  | l :: ls, v :: vs => storeAll (h.store l v) ls vs
  | _, _ => h

/-- **Go**: all target locations are computed in the initial heap, then the values are stored left
to right (a blank stores nothing).  If `ts` and `vs` differ in length the surplus of the longer one
is ignored. -/
def goAssign (env : Env) (cell : String → Loc) (slot : Nat → Nat → Loc) (h : Heap)
    (ts : List Target) (vs : List Nat) : Heap :=
  storeAll h (ts.map (Target.loc env cell slot h)) vs

/-- **goose's translation**: for each target in order, its location is computed in the CURRENT heap
and the value stored.  If `ts` and `vs` differ in length the surplus of the longer one is ignored. -/
def trAssign (env : Env) (cell : String → Loc) (slot : Nat → Nat → Loc) (h : Heap) :
    List Target → List Nat → Heap
  | t :: ts, v :: vs => trAssign env cell slot (h.store (t.loc env cell slot h) v) ts vs
  | _, _ => h

/-! ## The guard -/

/-- `lhs.(*ast.Ident)` in `multipleAssignStmt`: the target is an identifier (`_` is one) -/
def Target.isIdent : Target → Bool
  | .blank | .var _ => true
  | _ => false

/-- what an identifier target adds to `assigned` (`ObjectOf(_)` is nil: nothing) -/
def Target.assigns : Target → List String
  | .var x => [x]
  | _ => []

/-- the `*ast.Ident` / `*ast.BasicLit` cases of `stableOperands`: a literal passes; a variable must
not be assigned by an earlier target of the statement, and a re-assignable one is allowed only while
only variables were assigned -/
def Atom.stable (assigned : List String) (onlyVarsSoFar : Bool) : Atom → Bool
  | .lit _ => true
  | .imm x => !assigned.contains x
  | .mut x => !assigned.contains x && onlyVarsSoFar

/-- `stableOperands s lhs lhs …` on a non-identifier target: the operands of the top-level index /
star / selector expression must each be stable (anything else inside is not an `Atom`: rejected by
construction of the syntax). -/
def Target.stable (assigned : List String) (onlyVarsSoFar : Bool) : Target → Bool
  | .blank | .var _ => true
  | .deref p => p.stable assigned onlyVarsSoFar
  | .index m k => m.stable assigned onlyVarsSoFar && k.stable assigned onlyVarsSoFar
  | .field s _ => s.stable assigned onlyVarsSoFar

/-- The loop of `multipleAssignStmt` over the targets: `first` is `i == 0`, `assigned` the variables
assigned by identifier targets so far, `onlyVarsSoFar` whether every target so far was an
identifier.  An identifier target is recorded and skipped (`continue`); any other target is checked
unless it is the first, and then clears `onlyVarsSoFar` (the first one too). -/
def guardFrom (first : Bool) (assigned : List String) (onlyVarsSoFar : Bool) : List Target → Bool
  | [] => true
  | t :: ts =>
    if t.isIdent then guardFrom false (t.assigns ++ assigned) onlyVarsSoFar ts
    else (first || t.stable assigned onlyVarsSoFar) && guardFrom false assigned false ts

/-- `true`: goose translates the statement; `false`: it reports it as unsupported. -/
def guard (ts : List Target) : Bool := guardFrom true [] true ts

end GooseVerif.Model.TupleAssign
