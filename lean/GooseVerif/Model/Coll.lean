/-
Model "Coll": how goose translates Go COLLECTIONS — maps, `append`/`copy` on slices and the two `range`
loops (`/repo/goose.go`: `makeExpr`/`makeSliceExpr`, `indexExpr` (with `isSpecial` for the two-result
lookup), `lenExpr`, `capExpr`, `callExpr` (`append`, `copy`, `delete`), `copyExpr`, `sliceExpr`,
`defineStmt` (`exprSpecial(rhs, len(idents) == 2)`), `assignFromTo` (`*ast.IndexExpr` on slices and maps),
`rangeStmt`/`mapRangeStmt`/`sliceRangeStmt`/`identBinder`/`getIdentOrAnonymous`, `variable`, `referenceTo`,
`varSpec`, `pointerAssign`; `/repo/internal/coq/coq.go`: `Binding.AddTo` (`let: ("v", "ok") := …`),
`MapIterExpr`, `SliceLoopExpr`, `binder`/`binderToCoq`, `RefExpr`, `DerefExpr`, `StoreStmt`).  Core Lean only,
executable.  A sibling of `Model/Heap.lean` (struct pointers and sub-slices), from which the association-list
and scope-stack helpers are reused.

Source types: `uint64`, `bool`, `map[uint64]uint64`, the DEFINED type `type M map[uint64]uint64`, `[]uint64`.

  x := e                       ↦  let: "x" := ⟦e⟧ in …                          immutable let-binding
  var x τ = e                  ↦  let: "x" := ref_to ⟦τ⟧ ⟦e⟧ in …               pointer-wrapped: one cell
  use of x                     ↦  ![⟦τ⟧] "x"  if x is pointer-wrapped, else "x"
  x = e                        ↦  "x" <-[⟦τ⟧] ⟦e⟧     (pointer-wrapped only; else "variable x is not assignable")
  make(map[uint64]uint64), make(M) ↦ NewMap uint64T uint64T #()
  M(m)                         ↦  ⟦m⟧                                           the conversion is the identity
  make(map[uint32]uint64)      ↦  refused: "maps must be from uint64 or string"
  m[k]                         ↦  Fst (MapGet ⟦m⟧ ⟦k⟧)
  v, ok := m[k]                ↦  let: ("v", "ok") := MapGet ⟦m⟧ ⟦k⟧ in …      (`_` is printed `<>`)
  m[k] = e                     ↦  MapInsert ⟦m⟧ ⟦k⟧ ⟦e⟧       (m of type M: "index update to unexpected target of type")
  delete(m, k)                 ↦  MapDelete ⟦m⟧ ⟦k⟧            (m of type M: "delete on non-map")
  uint64(len(m))               ↦  MapLen ⟦m⟧
  for k, v := range m { b }    ↦  MapIter ⟦m⟧ (λ: "k" "v", ⟦b⟧)                 (`for k := range`, `for _, v := range`,
                                                                                 `for range`: `<>` for the missing binder)
  make([]uint64, n)            ↦  NewSlice uint64T ⟦n⟧
  make([]uint64, n, c)         ↦  NewSliceWithCap uint64T ⟦n⟧ ⟦c⟧
  s[i], uint64(len(s)), uint64(cap(s)) ↦ SliceGet uint64T ⟦s⟧ ⟦i⟧, slice.len ⟦s⟧, slice.cap ⟦s⟧
  s[a:b], s[:b], s[a:]         ↦  SliceSubslice uint64T …, SliceTake …, SliceSkip uint64T …
  s[i] = e                     ↦  SliceSet uint64T ⟦s⟧ ⟦i⟧ ⟦e⟧
  append(s, e), append(s, t...) ↦ SliceAppend uint64T ⟦s⟧ ⟦e⟧,  SliceAppendSlice uint64T ⟦s⟧ ⟦t⟧
  copy(d, s)                   ↦  SliceCopy uint64T ⟦d⟧ ⟦s⟧    (statement, or `n := copy(d, s)`)
  for i, x := range s { b }    ↦  ForSlice uint64T "i" "x" ⟦s⟧ (⟦b⟧)            (`<>` for a missing binder)
  blocks, if/else (a `bool` condition), return: as in `Model/Heap.lean`.

Choices.
* Numbers are unbounded naturals (wrap-around: `Lemmas/Arith`).
* `append` and `copy` MUTATE a shared backing array, so they only occur at the top of a right-hand side
  (`x := append(s, e)`, `var x []uint64 = append(…)`, `x = append(…)`, `n := copy(d, s)`, the statement
  `copy(d, s)`); their operands, and every other expression, only read and allocate.  For those Go's operand
  order is not observable (the specification orders calls only) and both semantics go right to left, as
  GooseLang does.  Two mutating calls inside one expression are the known finding `evaluation-order`.
* A `var` variable is a heap CELL on both sides (Go: "a variable is a storage location"); `:=` variables are
  values in the scope.  So the Go heap holds cells, arrays and maps, and so does the GooseLang heap: the two
  heaps grow in lockstep, object `o` is block `o`.  (In `Model/Heap.lean` the variables' cells exist only on the
  target side, whence the bijection `R` there; here the relation between the heaps is pointwise, `Obj.mapCell toT`.)
  A GooseLang cell holds a whole value (a slice is a triple); a slice value is (pointer, length, capacity)
  with the pointer `null` or a location (block, offset); a map value is the location of its block.
* `make([]uint64, 0)` is the nil slice on both sides (what `NewSlice _ #0` is; Go's empty non-nil slice differs
  from nil only under `== nil`, known finding `empty-make-is-nil`, not in this fragment).
* `append`: if `len + n ≤ cap` the elements are written IN PLACE into the shared backing array, else a new
  array of capacity `grow cap (len + n)` is allocated — `grow` is a PARAMETER of both semantics (Go's growth
  policy is implementation-defined and observable through aliasing after `append` and through `cap`;
  `GL/Sem.lean`'s `growCap` is `growDouble` below; Perennial leaves the new capacity nondeterministic,
  `≥ len + n`).  Spare capacity is zero-filled.  `append(s, t...)` and `copy` read their source before writing
  (Go: memmove).
* `range` over a map visits the entries present when the loop starts in the order `ord entries` — the oracle
  `ord` is a PARAMETER of both semantics (Go: unspecified order; GooseLang's `MapIter`: some order).  Go leaves
  open whether entries added during the loop are visited; the Go semantics here is defined only when every
  iteration leaves the entries of the ranged map as they were (`Res.bad` otherwise), GooseLang's `MapIter`
  iterates over the map value read at the start.  `range` over a slice evaluates the slice once and reads
  element `i` when iteration `i` starts (Go, and Perennial's `ForSlice`).
* No early return / break / continue (`Model/Core.lean`); the function body ends in `return e`.
* The Go semantics is dynamically checked: `Res.bad` is "not a well-typed Go program, or outside the model",
  `Res.panic` a Go run-time panic (index or slice bounds out of range, `make` with cap < len).  Outside the
  model: assignment to a `:=` variable (legal Go, refused by goose), `return` inside a loop or block.  So the
  scope stack only grows and shrinks; every store goes to the heap.
* The source syntax is RESOLVED: `m[k]`/`s[i]`, `len(m)`/`len(s)`, the two `range` forms are different
  constructors (go/types resolves them before goose dispatches on the type).  The translator still computes
  types — for the annotations it prints, for goose's two refusals on the defined map type, and to refuse
  ill-typed input ("type error: …", which the Go compiler would refuse).
-/
import GooseVerif.Model.Heap

namespace GooseVerif.Model.Coll
open GooseVerif.Model.Heap (look lookStk bindStk Res ofOpt hexStr app dashes isNumTok)

/-! ## Source -/

inductive Ty where
  | u64 | bool
  | map        -- map[uint64]uint64
  | mapD       -- type M map[uint64]uint64
  | sl         -- []uint64
  deriving Repr, DecidableEq, Inhabited

inductive Cmp where
  | eq | ne | lt | le | gt | ge
  deriving Repr, DecidableEq, Inhabited

def Cmp.eval : Cmp → Nat → Nat → Bool
  | .eq, a, b => decide (a = b)
  | .ne, a, b => !decide (a = b)
  | .lt, a, b => decide (a < b)
  | .le, a, b => decide (a ≤ b)
  | .gt, a, b => decide (b < a)
  | .ge, a, b => decide (b ≤ a)

/-- Expressions that only read and allocate. -/
inductive Exp where
  | lit (n : Nat)
  | blit (b : Bool)                        -- true / false
  | var (x : String)
  | add (a b : Exp)
  | mul (a b : Exp)
  | cmp (op : Cmp) (a b : Exp)             -- a == b, a != b, a < b, … on uint64
  | mkMap (defined : Bool)                 -- make(map[uint64]uint64) / make(M)
  | asM (m : Exp)                          -- M(m): conversion to the defined map type
  | mkMapK32                               -- make(map[uint32]uint64): a key type goose refuses
  | mapGet (m k : Exp)                     -- m[k]
  | mapLen (m : Exp)                       -- uint64(len(m))
  | mkSlice (n : Exp)                      -- make([]uint64, n)
  | mkSliceCap (n c : Exp)                 -- make([]uint64, n, c)
  | idx (s i : Exp)                        -- s[i]
  | len (s : Exp)                          -- uint64(len(s))
  | cap (s : Exp)                          -- uint64(cap(s))
  | sub (s a b : Exp)                      -- s[a:b]
  | take (s b : Exp)                       -- s[:b]
  | skip (s a : Exp)                       -- s[a:]
  deriving Repr, DecidableEq, Inhabited

/-- Right-hand sides: an expression, or one of the calls that write into a backing array. -/
inductive RExp where
  | e (e : Exp)
  | append (s e : Exp)                     -- append(s, e)
  | appendS (s t : Exp)                    -- append(s, t...)
  | copy (d s : Exp)                       -- uint64(copy(d, s))
  deriving Repr, DecidableEq, Inhabited

mutual
inductive Stmt where
  | define (x : String) (r : RExp)         -- x := r
  | declare (x : String) (r : RExp)        -- var x τ = r
  | assign (x : String) (r : RExp)         -- x = r
  | mapSet (m k e : Exp)                   -- m[k] = e
  | delete (m k : Exp)                     -- delete(m, k)
  | lookup2 (v ok : Option String) (m k : Exp)    -- v, ok := m[k]   (`none`: `_`)
  | setIdx (s i e : Exp)                   -- s[i] = e
  | copy (d s : Exp)                       -- copy(d, s)
  | rangeMap (k v : Option String) (m : Exp) (body : Stmts)     -- for k, v := range m { body }
  | rangeSlice (i x : Option String) (s : Exp) (body : Stmts)   -- for i, x := range s { body }
  | block (b : Stmts)                      -- { b }
  | ite (c : Exp) (t e : Stmts)            -- if c { t } else { e }
inductive Stmts where
  | nil
  | ret (e : Exp)
  | cons (s : Stmt) (rest : Stmts)
end

instance : Inhabited Stmts := ⟨.nil⟩
instance : Inhabited Stmt := ⟨.block .nil⟩

def Stmts.isNil : Stmts → Bool
  | .nil => true
  | _ => false

/-- bind an optional name (`none`: `_`, or no name at all) -/
def bindO {α : Type} (x : Option String) (v : α) (sc : List (String × α)) : List (String × α) :=
  match x with
  | some n => (n, v) :: sc
  | none => sc

def bindStkO {α : Type} (x : Option String) (v : α) (st : List (List (String × α))) : List (List (String × α)) :=
  match x with
  | some n => bindStk n v st
  | none => st

/-! ## Heaps (both sides) and the operations on arrays and maps (both sides) -/

/-- A slice pointer: nil, or (object, offset). -/
abbrev Ptr := Option (Nat × Nat)

def Ptr.shift (p : Ptr) (k : Nat) : Ptr :=
  match p with
  | none => none
  | some (o, off) => some (o, off + k)

/-- Heap objects: the cell of a `var` variable (holding a value of the side's value type `α`), the backing
array of slices, a map as an association list without duplicate keys. -/
inductive Obj (α : Type) where
  | cell (v : α)
  | arr (vs : List Nat)
  | map (es : List (Nat × Nat))
  deriving Repr, DecidableEq, Inhabited

def Obj.mapCell {α β : Type} (f : α → β) : Obj α → Obj β
  | .cell v => .cell (f v)
  | .arr vs => .arr vs
  | .map es => .map es

section ops
variable {α : Type}

def getCell (H : List (Obj α)) (o : Nat) : Option α :=
  match H[o]? with
  | some (.cell v) => some v
  | _ => none

def getArr (H : List (Obj α)) (o : Nat) : Option (List Nat) :=
  match H[o]? with
  | some (.arr vs) => some vs
  | _ => none

def getMap (H : List (Obj α)) (o : Nat) : Option (List (Nat × Nat)) :=
  match H[o]? with
  | some (.map es) => some es
  | _ => none

/-- element `j` from the pointer on -/
def elemAt (H : List (Obj α)) (p : Ptr) (j : Nat) : Option Nat :=
  match p with
  | none => none
  | some (o, off) => (getArr H o).bind fun vs => vs[off + j]?

/-- overwrite element `j` from the pointer on -/
def setElemAt (H : List (Obj α)) (p : Ptr) (j x : Nat) : Option (List (Obj α)) :=
  match p with
  | none => none
  | some (o, off) => (getArr H o).bind fun vs =>
    if off + j < vs.length then some (H.set o (.arr (vs.set (off + j) x))) else none

/-- the `n` elements from the pointer on (nothing can be read through nil) -/
def readSl (H : List (Obj α)) (p : Ptr) (n : Nat) : Option (List Nat) :=
  match p with
  | none => if n = 0 then some [] else none
  | some (o, off) => (getArr H o).bind fun vs =>
    if off + n ≤ vs.length then some ((vs.drop off).take n) else none

/-- overwrite `xs.length` elements from the pointer on -/
def writeSl (H : List (Obj α)) (p : Ptr) (xs : List Nat) : Option (List (Obj α)) :=
  match p with
  | none => if xs.length = 0 then some H else none
  | some (o, off) => (getArr H o).bind fun vs =>
    if off + xs.length ≤ vs.length then some (H.set o (.arr (vs.take off ++ xs ++ vs.drop (off + xs.length)))) else none

/-- `append`: the slice (p, l, c) extended by `xs`.  WHICH case applies is decided by `l + xs.length ≤ c`
alone: in place into the shared array, or a fresh array of capacity `grow c (l + xs.length)` holding a copy. -/
def appendOp (grow : Nat → Nat → Nat) (H : List (Obj α)) (p : Ptr) (l c : Nat) (xs : List Nat) :
    Option ((Ptr × Nat × Nat) × List (Obj α)) :=
  if l + xs.length ≤ c then
    (writeSl H (p.shift l) xs).bind fun H' => some ((p, l + xs.length, c), H')
  else
    (readSl H p l).bind fun old =>
      some ((some (H.length, 0), l + xs.length, grow c (l + xs.length)),
            H ++ [.arr (old ++ xs ++ List.replicate (grow c (l + xs.length) - (l + xs.length)) 0)])

/-- `copy(d, s)`: min(len d, len s) elements, read before they are written. -/
def copyOp (H : List (Obj α)) (pd : Ptr) (ld : Nat) (ps : Ptr) (ls : Nat) : Option (Nat × List (Obj α)) :=
  (readSl H ps (min ld ls)).bind fun src => (writeSl H pd src).bind fun H' => some (min ld ls, H')

end ops

/-- association lists without duplicate keys -/
def mapFind : List (Nat × Nat) → Nat → Option Nat
  | [], _ => none
  | (k, v) :: r, key => if k = key then some v else mapFind r key

/-- overwrite in place, or add at the end -/
def mapIns : List (Nat × Nat) → Nat → Nat → List (Nat × Nat)
  | [], key, x => [(key, x)]
  | (k, v) :: r, key, x => if k = key then (k, x) :: r else (k, v) :: mapIns r key x

def mapDel : List (Nat × Nat) → Nat → List (Nat × Nat)
  | [], _ => []
  | (k, v) :: r, key => if k = key then mapDel r key else (k, v) :: mapDel r key

/-- run `f` over a list, threading the heap (Go side) -/
def loopGo {σ β : Type} (f : β → σ → Res σ) : List β → σ → Res σ
  | [], s => .ok s
  | a :: r, s => (f a s).bind fun s' => loopGo f r s'

/-- … and on the target side -/
def loopT {σ β : Type} (f : β → σ → Option σ) : List β → σ → Option σ
  | [], s => some s
  | a :: r, s => (f a s).bind fun s' => loopT f r s'

/-! ## Go semantics -/

/-- Go values. -/
inductive Val where
  | num (n : Nat)
  | bool (b : Bool)
  | map (o : Nat)                          -- a reference to the map object `o`
  | sl (p : Ptr) (len cap : Nat)           -- a slice
  deriving Repr, DecidableEq, Inhabited

/-- What a name is bound to: the value of a `:=` variable, or the cell of a `var` variable. -/
inductive Bnd where
  | val (v : Val)
  | cell (o : Nat)
  deriving Repr, DecidableEq, Inhabited

abbrev GHeap := List (Obj Val)
abbrev Scope := List (String × Bnd)
abbrev Stack := List Scope

def asNum : Val → Res Nat
  | .num n => .ok n
  | _ => .bad

def asBool : Val → Res Bool
  | .bool b => .ok b
  | _ => .bad

def asMap : Val → Res Nat
  | .map o => .ok o
  | _ => .bad

def asSl : Val → Res (Ptr × Nat × Nat)
  | .sl p l c => .ok (p, l, c)
  | _ => .bad

/-- Expressions: read the stack and the heap, allocate; operands right to left. -/
def evalE (st : Stack) (G : GHeap) : Exp → Res (Val × GHeap)
  | .lit n => .ok (.num n, G)
  | .blit b => .ok (.bool b, G)
  | .var x => (ofOpt (lookStk x st)).bind fun b => match b with
    | .val v => .ok (v, G)
    | .cell o => (ofOpt (getCell G o)).bind fun v => .ok (v, G)
  | .add a b =>
    (evalE st G b).bind fun r1 => (asNum r1.1).bind fun n =>
    (evalE st r1.2 a).bind fun r2 => (asNum r2.1).bind fun m => .ok (.num (m + n), r2.2)
  | .mul a b =>
    (evalE st G b).bind fun r1 => (asNum r1.1).bind fun n =>
    (evalE st r1.2 a).bind fun r2 => (asNum r2.1).bind fun m => .ok (.num (m * n), r2.2)
  | .cmp op a b =>
    (evalE st G b).bind fun r1 => (asNum r1.1).bind fun n =>
    (evalE st r1.2 a).bind fun r2 => (asNum r2.1).bind fun m => .ok (.bool (op.eval m n), r2.2)
  | .mkMap _ => .ok (.map G.length, G ++ [.map []])
  | .asM m => evalE st G m
  | .mkMapK32 => .ok (.map G.length, G ++ [.map []])
  | .mapGet m k =>
    (evalE st G k).bind fun r1 => (asNum r1.1).bind fun key =>
    (evalE st r1.2 m).bind fun r2 => (asMap r2.1).bind fun o =>
    (ofOpt (getMap r2.2 o)).bind fun es => .ok (.num ((mapFind es key).getD 0), r2.2)
  | .mapLen m =>
    (evalE st G m).bind fun r => (asMap r.1).bind fun o =>
    (ofOpt (getMap r.2 o)).bind fun es => .ok (.num es.length, r.2)
  | .mkSlice n =>
    (evalE st G n).bind fun r => (asNum r.1).bind fun k =>
    if k = 0 then .ok (.sl none 0 0, r.2)
    else .ok (.sl (some (r.2.length, 0)) k k, r.2 ++ [.arr (List.replicate k 0)])
  | .mkSliceCap n c =>
    (evalE st G c).bind fun r1 => (asNum r1.1).bind fun cp =>
    (evalE st r1.2 n).bind fun r2 => (asNum r2.1).bind fun k =>
    if cp < k then .panic
    else if cp = 0 then .ok (.sl none 0 0, r2.2)
    else .ok (.sl (some (r2.2.length, 0)) k cp, r2.2 ++ [.arr (List.replicate cp 0)])
  | .idx s i =>
    (evalE st G i).bind fun r1 => (asNum r1.1).bind fun k =>
    (evalE st r1.2 s).bind fun r2 => (asSl r2.1).bind fun sl =>
    if k < sl.2.1 then (ofOpt (elemAt r2.2 sl.1 k)).bind fun x => .ok (.num x, r2.2) else .panic
  | .len s => (evalE st G s).bind fun r => (asSl r.1).bind fun sl => .ok (.num sl.2.1, r.2)
  | .cap s => (evalE st G s).bind fun r => (asSl r.1).bind fun sl => .ok (.num sl.2.2, r.2)
  | .sub s a b =>
    (evalE st G b).bind fun r1 => (asNum r1.1).bind fun hi =>
    (evalE st r1.2 a).bind fun r2 => (asNum r2.1).bind fun lo =>
    (evalE st r2.2 s).bind fun r3 => (asSl r3.1).bind fun sl =>
    if lo ≤ hi ∧ hi ≤ sl.2.2 then .ok (.sl (sl.1.shift lo) (hi - lo) (sl.2.2 - lo), r3.2) else .panic
  | .take s b =>
    (evalE st G b).bind fun r1 => (asNum r1.1).bind fun hi =>
    (evalE st r1.2 s).bind fun r3 => (asSl r3.1).bind fun sl =>
    if hi ≤ sl.2.2 then .ok (.sl sl.1 hi sl.2.2, r3.2) else .panic
  | .skip s a =>
    (evalE st G a).bind fun r2 => (asNum r2.1).bind fun lo =>
    (evalE st r2.2 s).bind fun r3 => (asSl r3.1).bind fun sl =>
    if lo ≤ sl.2.1 then .ok (.sl (sl.1.shift lo) (sl.2.1 - lo) (sl.2.2 - lo), r3.2) else .panic

/-- Right-hand sides: the operands (right to left), then the call. -/
def evalR (grow : Nat → Nat → Nat) (st : Stack) (G : GHeap) : RExp → Res (Val × GHeap)
  | .e e => evalE st G e
  | .append s e =>
    (evalE st G e).bind fun r1 => (asNum r1.1).bind fun x =>
    (evalE st r1.2 s).bind fun r2 => (asSl r2.1).bind fun sl =>
    (ofOpt (appendOp grow r2.2 sl.1 sl.2.1 sl.2.2 [x])).bind fun q => .ok (.sl q.1.1 q.1.2.1 q.1.2.2, q.2)
  | .appendS s t =>
    (evalE st G t).bind fun r1 => (asSl r1.1).bind fun tl =>
    (evalE st r1.2 s).bind fun r2 => (asSl r2.1).bind fun sl =>
    (ofOpt (readSl r2.2 tl.1 tl.2.1)).bind fun xs =>
    (ofOpt (appendOp grow r2.2 sl.1 sl.2.1 sl.2.2 xs)).bind fun q => .ok (.sl q.1.1 q.1.2.1 q.1.2.2, q.2)
  | .copy d s =>
    (evalE st G s).bind fun r1 => (asSl r1.1).bind fun sl =>
    (evalE st r1.2 d).bind fun r2 => (asSl r2.1).bind fun dl =>
    (ofOpt (copyOp r2.2 dl.1 dl.2.1 sl.1 sl.2.1)).bind fun q => .ok (.num q.1, q.2)

/-- Outcome of a statement (list): normal completion, or `return v`. -/
inductive Out where
  | normal (st : Stack) (G : GHeap)
  | returned (v : Val) (G : GHeap)
  deriving Repr, DecidableEq

/-- Leave a block: drop its scope. -/
def popOut : Res Out → Res Out
  | .ok (.normal st G) => .ok (.normal st.tail G)
  | r => r

/-- One iteration of a loop body: only the heap survives; `return` inside a loop is outside the model. -/
def bodyOut : Res Out → Res GHeap
  | .ok (.normal _ G) => .ok G
  | .ok (.returned _ _) => .bad
  | .panic => .panic
  | .bad => .bad

/-- the scope of the (named) loop variables -/
def loopScope (k v : Option String) (kv vv : Nat) : Scope :=
  bindO v (.val (.num vv)) (bindO k (.val (.num kv)) [])

mutual
def execStmt (grow : Nat → Nat → Nat) (ord : List (Nat × Nat) → List (Nat × Nat)) (st : Stack) (G : GHeap) :
    Stmt → Res Out
  | .define x r => (evalR grow st G r).bind fun r => .ok (.normal (bindStk x (.val r.1) st) r.2)
  | .declare x r =>
    (evalR grow st G r).bind fun r => .ok (.normal (bindStk x (.cell r.2.length) st) (r.2 ++ [.cell r.1]))
  | .assign x r =>
    (evalR grow st G r).bind fun r => (ofOpt (lookStk x st)).bind fun b => match b with
      | .cell o => (ofOpt (getCell r.2 o)).bind fun _ => .ok (.normal st (r.2.set o (.cell r.1)))
      | .val _ => .bad       -- Go allows it, goose refuses it ("variable x is not assignable"): outside the model
  | .mapSet m k e =>
    (evalE st G e).bind fun r0 => (asNum r0.1).bind fun x =>
    (evalE st r0.2 k).bind fun r1 => (asNum r1.1).bind fun key =>
    (evalE st r1.2 m).bind fun r2 => (asMap r2.1).bind fun o =>
    (ofOpt (getMap r2.2 o)).bind fun es => .ok (.normal st (r2.2.set o (.map (mapIns es key x))))
  | .delete m k =>
    (evalE st G k).bind fun r1 => (asNum r1.1).bind fun key =>
    (evalE st r1.2 m).bind fun r2 => (asMap r2.1).bind fun o =>
    (ofOpt (getMap r2.2 o)).bind fun es => .ok (.normal st (r2.2.set o (.map (mapDel es key))))
  | .lookup2 v ok m k =>
    (evalE st G k).bind fun r1 => (asNum r1.1).bind fun key =>
    (evalE st r1.2 m).bind fun r2 => (asMap r2.1).bind fun o =>
    (ofOpt (getMap r2.2 o)).bind fun es =>
    .ok (.normal (bindStkO ok (.val (.bool (mapFind es key).isSome))
                   (bindStkO v (.val (.num ((mapFind es key).getD 0))) st)) r2.2)
  | .setIdx s i e =>
    (evalE st G e).bind fun r0 => (asNum r0.1).bind fun x =>
    (evalE st r0.2 i).bind fun r1 => (asNum r1.1).bind fun k =>
    (evalE st r1.2 s).bind fun r2 => (asSl r2.1).bind fun sl =>
    if k < sl.2.1 then (ofOpt (setElemAt r2.2 sl.1 k x)).bind fun G' => .ok (.normal st G') else .panic
  | .copy d s => (evalR grow st G (.copy d s)).bind fun r => .ok (.normal st r.2)
  | .rangeMap k v m body =>
    (evalE st G m).bind fun r => (asMap r.1).bind fun o =>
    (ofOpt (getMap r.2 o)).bind fun es =>
    (loopGo (fun (kv : Nat × Nat) (G1 : GHeap) =>
        (bodyOut (execStmts grow ord (loopScope k v kv.1 kv.2 :: st) G1 body)).bind fun G2 =>
        if getMap G2 o = some es then .ok G2 else .bad)
      (ord es) r.2).bind fun G' => .ok (.normal st G')
  | .rangeSlice i x s body =>
    (evalE st G s).bind fun r => (asSl r.1).bind fun sl =>
    (loopGo (fun (j : Nat) (G1 : GHeap) =>
        (ofOpt (elemAt G1 sl.1 j)).bind fun xv =>
        bodyOut (execStmts grow ord (loopScope i x j xv :: st) G1 body))
      (List.range sl.2.1) r.2).bind fun G' => .ok (.normal st G')
  | .block b => popOut (execStmts grow ord ([] :: st) G b)
  | .ite c t e =>
    (evalE st G c).bind fun r => (asBool r.1).bind fun b =>
    if b then popOut (execStmts grow ord ([] :: st) r.2 t) else popOut (execStmts grow ord ([] :: st) r.2 e)
def execStmts (grow : Nat → Nat → Nat) (ord : List (Nat × Nat) → List (Nat × Nat)) (st : Stack) (G : GHeap) :
    Stmts → Res Out
  | .nil => .ok (.normal st G)
  | .ret e => (evalE st G e).bind fun r => .ok (.returned r.1 r.2)
  | .cons s rest => match execStmt grow ord st G s with
    | .ok (.normal st' G') => execStmts grow ord st' G' rest
    | r => r
end

/-- Go: run a function body from a state; the returned value and the final heap. -/
def runGoIn (grow : Nat → Nat → Nat) (ord : List (Nat × Nat) → List (Nat × Nat)) (st : Stack) (G : GHeap)
    (ss : Stmts) : Res (Val × GHeap) :=
  match execStmts grow ord st G ss with
  | .ok (.returned v G') => .ok (v, G')
  | .ok (.normal _ _) => .bad
  | .panic => .panic
  | .bad => .bad

def runGo (grow : Nat → Nat → Nat) (ord : List (Nat × Nat) → List (Nat × Nat)) (ss : Stmts) : Res (Val × GHeap) :=
  runGoIn grow ord [[]] [] ss

/-! ## The syntactic side condition on `range` over a map

Go does not specify the iteration order of a map.  A loop body meets the condition `accumBody k v` when it is a
list of statements `a = a + e` where `a` is not one of the loop variables `k`, `v` and `e` is built from
literals, `k`, `v`, `+` and `*` only (e.g. `acc = acc + k*3 + v`).  Such a body only ADDS to `var` variables
(an assignment to a `:=` variable is outside the model), reads nothing it writes except through the addition,
and cannot touch the ranged map: the order is unobservable (`Props/C01Coll.lean`, `range_order_irrelevant`). -/

/-- expressions over the loop variables and literals -/
def kvExp (k v : Option String) : Exp → Bool
  | .lit _ => true
  | .var x => (k == some x) || (v == some x)
  | .add a b => kvExp k v a && kvExp k v b
  | .mul a b => kvExp k v a && kvExp k v b
  | _ => false

/-- `a = a + e` -/
def accumStmt (k v : Option String) : Stmt → Bool
  | .assign a (.e (.add (.var a') e)) => (a == a') && kvExp k v e && (k != some a) && (v != some a)
  | _ => false

def accumBody (k v : Option String) : Stmts → Bool
  | .nil => true
  | .ret _ => false
  | .cons s rest => accumStmt k v s && accumBody k v rest

mutual
/-- every `range` over a map in the statement has an accumulating body -/
def Stmt.rangesOK : Stmt → Bool
  | .rangeMap k v _ body => accumBody k v body
  | .rangeSlice _ _ _ body => body.rangesOK
  | .block b => b.rangesOK
  | .ite _ t e => t.rangesOK && e.rangesOK
  | _ => true
def Stmts.rangesOK : Stmts → Bool
  | .nil => true
  | .ret _ => true
  | .cons s rest => s.rangesOK && rest.rangesOK
end

/-! ## Target (GooseLang fragment) -/

inductive T where
  | lit (n : Nat)                          -- #n
  | blit (b : Bool)                        -- #true / #false
  | var (x : String)                       -- "x"
  | add (a b : T)                          -- a + b
  | mul (a b : T)                          -- a * b
  | cmp (op : Cmp) (a b : T)               -- a = b, a ≠ b, a < b, a ≤ b, a > b, a ≥ b
  | load (ty : Ty) (e : T)                 -- ![ty] e
  | store (ty : Ty) (d e : T)              -- d <-[ty] e
  | refTo (ty : Ty) (e : T)                -- ref_to ty e
  | newMap                                 -- NewMap uint64T uint64T #()
  | mapGet (m k : T)                       -- MapGet m k
  | fst (e : T)                            -- Fst e
  | mapInsert (m k v : T)                  -- MapInsert m k v
  | mapDelete (m k : T)                    -- MapDelete m k
  | mapLen (m : T)                         -- MapLen m
  | mapIter (m : T) (k v : Option String) (body : T)    -- MapIter m (λ: "k" "v", body)
  | newSlice (n : T)                       -- NewSlice uint64T n
  | newSliceCap (n c : T)                  -- NewSliceWithCap uint64T n c
  | sliceGet (s i : T)                     -- SliceGet uint64T s i
  | sliceSet (s i e : T)                   -- SliceSet uint64T s i e
  | sliceLen (s : T)                       -- slice.len s
  | sliceCap (s : T)                       -- slice.cap s
  | sliceAppend (s e : T)                  -- SliceAppend uint64T s e
  | sliceAppendSlice (s t : T)             -- SliceAppendSlice uint64T s t
  | sliceCopy (d s : T)                    -- SliceCopy uint64T d s
  | subslice (s a b : T)                   -- SliceSubslice uint64T s a b
  | sliceTake (s b : T)                    -- SliceTake s b
  | sliceSkip (s a : T)                    -- SliceSkip uint64T s a
  | forSlice (i x : Option String) (s body : T)         -- ForSlice uint64T "i" "x" s (body)
  | letIn (x : String) (e body : T)        -- let: "x" := e in body
  | let2 (a b : Option String) (e body : T)             -- let: ("a", "b") := e in body
  | seq (a b : T)                          -- (a);; b
  | ite (c a b : T)                        -- (if: c then a else b)
  | unit                                   -- #()
  deriving Repr, DecidableEq, Inhabited

/-- What one cell of a tuple holds. -/
inductive BVal where
  | num (n : Nat)
  | bool (b : Bool)
  | null
  | loc (b o : Nat)                        -- block `b`, offset `o`
  deriving Repr, DecidableEq, Inhabited

/-- GooseLang values of this fragment. -/
inductive TVal where
  | base (v : BVal)
  | sl (p : BVal) (len cap : Nat)          -- (p, #len, #cap)
  | pair (a b : BVal)                      -- (a, b): what MapGet returns
  | unit
  deriving Repr, DecidableEq, Inhabited

abbrev Env := List (String × TVal)
abbrev THeap := List (Obj TVal)

def asLoc : TVal → Option (Nat × Nat)
  | .base (.loc b o) => some (b, o)
  | _ => none

/-- the location of a cell or of a map: offset 0 -/
def asRef : TVal → Option Nat
  | .base (.loc b 0) => some b
  | _ => none

def asNumT : TVal → Option Nat
  | .base (.num n) => some n
  | _ => none

def asBoolT : TVal → Option Bool
  | .base (.bool b) => some b
  | _ => none

def BVal.toPtr : BVal → Option Ptr
  | .null => some none
  | .loc b o => some (some (b, o))
  | _ => none

def Ptr.toB : Ptr → BVal
  | none => .null
  | some (b, o) => .loc b o

def asSlT : TVal → Option (Ptr × Nat × Nat)
  | .sl p l c => p.toPtr.bind fun q => some (q, l, c)
  | _ => none

def asPair : TVal → Option (BVal × BVal)
  | .pair a b => some (a, b)
  | _ => none

/-- the environment of a loop body / of `let: (a, b) := …`: first `a`, then `b` -/
def bind2 (a b : Option String) (va vb : TVal) (env : Env) : Env := bindO b vb (bindO a va env)

/-- Environment semantics; `none` = stuck.  Blocks are allocated at the end of the heap and never freed;
operands and arguments right to left. -/
def evalT (grow : Nat → Nat → Nat) (ord : List (Nat × Nat) → List (Nat × Nat)) (env : Env) (H : THeap) :
    T → Option (TVal × THeap)
  | .lit n => some (.base (.num n), H)
  | .blit b => some (.base (.bool b), H)
  | .var x => (look x env).bind fun v => some (v, H)
  | .add a b =>
    (evalT grow ord env H b).bind fun r1 => (asNumT r1.1).bind fun n =>
    (evalT grow ord env r1.2 a).bind fun r2 => (asNumT r2.1).bind fun m => some (.base (.num (m + n)), r2.2)
  | .mul a b =>
    (evalT grow ord env H b).bind fun r1 => (asNumT r1.1).bind fun n =>
    (evalT grow ord env r1.2 a).bind fun r2 => (asNumT r2.1).bind fun m => some (.base (.num (m * n)), r2.2)
  | .cmp op a b =>
    (evalT grow ord env H b).bind fun r1 => (asNumT r1.1).bind fun n =>
    (evalT grow ord env r1.2 a).bind fun r2 => (asNumT r2.1).bind fun m => some (.base (.bool (op.eval m n)), r2.2)
  | .load _ e =>
    (evalT grow ord env H e).bind fun r => (asRef r.1).bind fun b => (getCell r.2 b).bind fun v => some (v, r.2)
  | .store _ d e =>
    (evalT grow ord env H e).bind fun r1 => (evalT grow ord env r1.2 d).bind fun r2 => (asRef r2.1).bind fun b =>
    (getCell r2.2 b).bind fun _ => some (.unit, r2.2.set b (.cell r1.1))
  | .refTo _ e => (evalT grow ord env H e).bind fun r => some (.base (.loc r.2.length 0), r.2 ++ [.cell r.1])
  | .newMap => some (.base (.loc H.length 0), H ++ [.map []])
  | .mapGet m k =>
    (evalT grow ord env H k).bind fun r1 => (asNumT r1.1).bind fun key =>
    (evalT grow ord env r1.2 m).bind fun r2 => (asRef r2.1).bind fun b => (getMap r2.2 b).bind fun es =>
    match mapFind es key with
    | some v => some (.pair (.num v) (.bool true), r2.2)
    | none => some (.pair (.num 0) (.bool false), r2.2)
  | .fst e => (evalT grow ord env H e).bind fun r => (asPair r.1).bind fun p => some (.base p.1, r.2)
  | .mapInsert m k v =>
    (evalT grow ord env H v).bind fun r0 => (asNumT r0.1).bind fun x =>
    (evalT grow ord env r0.2 k).bind fun r1 => (asNumT r1.1).bind fun key =>
    (evalT grow ord env r1.2 m).bind fun r2 => (asRef r2.1).bind fun b => (getMap r2.2 b).bind fun es =>
    some (.unit, r2.2.set b (.map (mapIns es key x)))
  | .mapDelete m k =>
    (evalT grow ord env H k).bind fun r1 => (asNumT r1.1).bind fun key =>
    (evalT grow ord env r1.2 m).bind fun r2 => (asRef r2.1).bind fun b => (getMap r2.2 b).bind fun es =>
    some (.unit, r2.2.set b (.map (mapDel es key)))
  | .mapLen m =>
    (evalT grow ord env H m).bind fun r => (asRef r.1).bind fun b => (getMap r.2 b).bind fun es =>
    some (.base (.num es.length), r.2)
  | .mapIter m k v body =>
    (evalT grow ord env H m).bind fun r => (asRef r.1).bind fun b => (getMap r.2 b).bind fun es =>
    (loopT (fun (kv : Nat × Nat) (H1 : THeap) =>
        (evalT grow ord (bind2 k v (.base (.num kv.1)) (.base (.num kv.2)) env) H1 body).bind fun q => some q.2)
      (ord es) r.2).bind fun H' => some (.unit, H')
  | .newSlice n =>
    (evalT grow ord env H n).bind fun r => (asNumT r.1).bind fun k =>
    if k = 0 then some (.sl .null 0 0, r.2)
    else some (.sl (.loc r.2.length 0) k k, r.2 ++ [.arr (List.replicate k 0)])
  | .newSliceCap n c =>
    (evalT grow ord env H c).bind fun r1 => (asNumT r1.1).bind fun cp =>
    (evalT grow ord env r1.2 n).bind fun r2 => (asNumT r2.1).bind fun k =>
    if cp < k then none
    else if cp = 0 then some (.sl .null 0 0, r2.2)
    else some (.sl (.loc r2.2.length 0) k cp, r2.2 ++ [.arr (List.replicate cp 0)])
  | .sliceGet s i =>
    (evalT grow ord env H i).bind fun r1 => (asNumT r1.1).bind fun k =>
    (evalT grow ord env r1.2 s).bind fun r2 => (asSlT r2.1).bind fun sl =>
    if k < sl.2.1 then (elemAt r2.2 sl.1 k).bind fun x => some (.base (.num x), r2.2) else none
  | .sliceSet s i e =>
    (evalT grow ord env H e).bind fun r0 => (asNumT r0.1).bind fun x =>
    (evalT grow ord env r0.2 i).bind fun r1 => (asNumT r1.1).bind fun k =>
    (evalT grow ord env r1.2 s).bind fun r2 => (asSlT r2.1).bind fun sl =>
    if k < sl.2.1 then (setElemAt r2.2 sl.1 k x).bind fun H' => some (.unit, H') else none
  | .sliceLen s => (evalT grow ord env H s).bind fun r => (asSlT r.1).bind fun sl => some (.base (.num sl.2.1), r.2)
  | .sliceCap s => (evalT grow ord env H s).bind fun r => (asSlT r.1).bind fun sl => some (.base (.num sl.2.2), r.2)
  | .sliceAppend s e =>
    (evalT grow ord env H e).bind fun r1 => (asNumT r1.1).bind fun x =>
    (evalT grow ord env r1.2 s).bind fun r2 => (asSlT r2.1).bind fun sl =>
    (appendOp grow r2.2 sl.1 sl.2.1 sl.2.2 [x]).bind fun q => some (.sl q.1.1.toB q.1.2.1 q.1.2.2, q.2)
  | .sliceAppendSlice s t =>
    (evalT grow ord env H t).bind fun r1 => (asSlT r1.1).bind fun tl =>
    (evalT grow ord env r1.2 s).bind fun r2 => (asSlT r2.1).bind fun sl =>
    (readSl r2.2 tl.1 tl.2.1).bind fun xs =>
    (appendOp grow r2.2 sl.1 sl.2.1 sl.2.2 xs).bind fun q => some (.sl q.1.1.toB q.1.2.1 q.1.2.2, q.2)
  | .sliceCopy d s =>
    (evalT grow ord env H s).bind fun r1 => (asSlT r1.1).bind fun sl =>
    (evalT grow ord env r1.2 d).bind fun r2 => (asSlT r2.1).bind fun dl =>
    (copyOp r2.2 dl.1 dl.2.1 sl.1 sl.2.1).bind fun q => some (.base (.num q.1), q.2)
  | .subslice s a b =>
    (evalT grow ord env H b).bind fun r1 => (asNumT r1.1).bind fun hi =>
    (evalT grow ord env r1.2 a).bind fun r2 => (asNumT r2.1).bind fun lo =>
    (evalT grow ord env r2.2 s).bind fun r3 => (asSlT r3.1).bind fun sl =>
    if lo ≤ hi ∧ hi ≤ sl.2.2 then some (.sl (sl.1.shift lo).toB (hi - lo) (sl.2.2 - lo), r3.2) else none
  | .sliceTake s b =>
    (evalT grow ord env H b).bind fun r1 => (asNumT r1.1).bind fun hi =>
    (evalT grow ord env r1.2 s).bind fun r3 => (asSlT r3.1).bind fun sl =>
    if hi ≤ sl.2.2 then some (.sl sl.1.toB hi sl.2.2, r3.2) else none
  | .sliceSkip s a =>
    (evalT grow ord env H a).bind fun r2 => (asNumT r2.1).bind fun lo =>
    (evalT grow ord env r2.2 s).bind fun r3 => (asSlT r3.1).bind fun sl =>
    if lo ≤ sl.2.1 then some (.sl (sl.1.shift lo).toB (sl.2.1 - lo) (sl.2.2 - lo), r3.2) else none
  | .forSlice i x s body =>
    (evalT grow ord env H s).bind fun r => (asSlT r.1).bind fun sl =>
    (loopT (fun (j : Nat) (H1 : THeap) =>
        (elemAt H1 sl.1 j).bind fun xv =>
        (evalT grow ord (bind2 i x (.base (.num j)) (.base (.num xv)) env) H1 body).bind fun q => some q.2)
      (List.range sl.2.1) r.2).bind fun H' => some (.unit, H')
  | .letIn x e body => (evalT grow ord env H e).bind fun r => evalT grow ord ((x, r.1) :: env) r.2 body
  | .let2 a b e body =>
    (evalT grow ord env H e).bind fun r => (asPair r.1).bind fun p =>
    evalT grow ord (bind2 a b (.base p.1) (.base p.2) env) r.2 body
  | .seq a b => (evalT grow ord env H a).bind fun r => evalT grow ord env r.2 b
  | .ite c a b =>
    (evalT grow ord env H c).bind fun r => (asBoolT r.1).bind fun bb =>
    if bb then evalT grow ord env r.2 a else evalT grow ord env r.2 b
  | .unit => some (.unit, H)

/-- Run a closed target program. -/
def runT (grow : Nat → Nat → Nat) (ord : List (Nat × Nat) → List (Nat × Nat)) (t : T) : Option (TVal × THeap) :=
  evalT grow ord [] [] t

/-! ## Translator -/

/-- Static scope: name ↦ (pointer-wrapped?, type). -/
abbrev SScope := List (String × Bool × Ty)
abbrev SEnv := List SScope

def bindE {α β : Type} : Except String α → (α → Except String β) → Except String β
  | .ok a, f => f a
  | .error m, _ => .error m

def typeErr (what : String) : String := "type error: " ++ what

def expectTy (what : String) (want got : Ty) : Except String Unit :=
  if want = got then .ok () else .error (typeErr what)

/-- `map[uint64]uint64` or the defined `M` -/
def expectMap (what : String) (got : Ty) : Except String Unit :=
  if got = .map ∨ got = .mapD then .ok () else .error (typeErr what)

def msgMapKey : String := "maps must be from uint64 or string"

def trE (Γ : SEnv) : Exp → Except String (T × Ty)
  | .lit n => .ok (.lit n, .u64)
  | .blit b => .ok (.blit b, .bool)
  | .var x => match lookStk x Γ with
    | some (true, τ) => .ok (.load τ (.var x), τ)
    | some (false, τ) => .ok (.var x, τ)
    | none => .error ("undeclared name " ++ x)
  | .add a b =>
    bindE (trE Γ a) fun ra => bindE (expectTy "+" .u64 ra.2) fun _ =>
    bindE (trE Γ b) fun rb => bindE (expectTy "+" .u64 rb.2) fun _ => .ok (.add ra.1 rb.1, .u64)
  | .mul a b =>
    bindE (trE Γ a) fun ra => bindE (expectTy "*" .u64 ra.2) fun _ =>
    bindE (trE Γ b) fun rb => bindE (expectTy "*" .u64 rb.2) fun _ => .ok (.mul ra.1 rb.1, .u64)
  | .cmp op a b =>
    bindE (trE Γ a) fun ra => bindE (expectTy "comparison" .u64 ra.2) fun _ =>
    bindE (trE Γ b) fun rb => bindE (expectTy "comparison" .u64 rb.2) fun _ => .ok (.cmp op ra.1 rb.1, .bool)
  | .mkMap d => .ok (.newMap, if d then .mapD else .map)
  | .asM m => bindE (trE Γ m) fun rm => bindE (expectMap "conversion" rm.2) fun _ => .ok (rm.1, .mapD)
  | .mkMapK32 => .error msgMapKey
  | .mapGet m k =>
    bindE (trE Γ m) fun rm => bindE (expectMap "map index" rm.2) fun _ =>
    bindE (trE Γ k) fun rk => bindE (expectTy "map key" .u64 rk.2) fun _ => .ok (.fst (.mapGet rm.1 rk.1), .u64)
  | .mapLen m =>
    bindE (trE Γ m) fun rm => bindE (expectMap "len" rm.2) fun _ => .ok (.mapLen rm.1, .u64)
  | .mkSlice n =>
    bindE (trE Γ n) fun r => bindE (expectTy "make" .u64 r.2) fun _ => .ok (.newSlice r.1, .sl)
  | .mkSliceCap n c =>
    bindE (trE Γ n) fun rn => bindE (expectTy "make" .u64 rn.2) fun _ =>
    bindE (trE Γ c) fun rc => bindE (expectTy "make" .u64 rc.2) fun _ => .ok (.newSliceCap rn.1 rc.1, .sl)
  | .idx s i =>
    bindE (trE Γ s) fun rs => bindE (expectTy "index" .sl rs.2) fun _ =>
    bindE (trE Γ i) fun ri => bindE (expectTy "index" .u64 ri.2) fun _ => .ok (.sliceGet rs.1 ri.1, .u64)
  | .len s =>
    bindE (trE Γ s) fun rs => bindE (expectTy "len" .sl rs.2) fun _ => .ok (.sliceLen rs.1, .u64)
  | .cap s =>
    bindE (trE Γ s) fun rs => bindE (expectTy "cap" .sl rs.2) fun _ => .ok (.sliceCap rs.1, .u64)
  | .sub s a b =>
    bindE (trE Γ s) fun rs => bindE (expectTy "slice" .sl rs.2) fun _ =>
    bindE (trE Γ a) fun ra => bindE (expectTy "slice" .u64 ra.2) fun _ =>
    bindE (trE Γ b) fun rb => bindE (expectTy "slice" .u64 rb.2) fun _ => .ok (.subslice rs.1 ra.1 rb.1, .sl)
  | .take s b =>
    bindE (trE Γ s) fun rs => bindE (expectTy "slice" .sl rs.2) fun _ =>
    bindE (trE Γ b) fun rb => bindE (expectTy "slice" .u64 rb.2) fun _ => .ok (.sliceTake rs.1 rb.1, .sl)
  | .skip s a =>
    bindE (trE Γ s) fun rs => bindE (expectTy "slice" .sl rs.2) fun _ =>
    bindE (trE Γ a) fun ra => bindE (expectTy "slice" .u64 ra.2) fun _ => .ok (.sliceSkip rs.1 ra.1, .sl)

def trR (Γ : SEnv) : RExp → Except String (T × Ty)
  | .e e => trE Γ e
  | .append s e =>
    bindE (trE Γ s) fun rs => bindE (expectTy "append" .sl rs.2) fun _ =>
    bindE (trE Γ e) fun re => bindE (expectTy "append" .u64 re.2) fun _ => .ok (.sliceAppend rs.1 re.1, .sl)
  | .appendS s t =>
    bindE (trE Γ s) fun rs => bindE (expectTy "append" .sl rs.2) fun _ =>
    bindE (trE Γ t) fun rt => bindE (expectTy "append" .sl rt.2) fun _ => .ok (.sliceAppendSlice rs.1 rt.1, .sl)
  | .copy d s =>
    bindE (trE Γ d) fun rd => bindE (expectTy "copy" .sl rd.2) fun _ =>
    bindE (trE Γ s) fun rs => bindE (expectTy "copy" .sl rs.2) fun _ => .ok (.sliceCopy rd.1 rs.1, .u64)

/-- `coq.Binding`: what one statement contributes to the enclosing `BlockExpr`. -/
inductive Bind where
  | letIn (x : String) (wrapped : Bool) (ty : Ty) (e : T)
  | let2 (a b : Option String) (e : T)             -- a : uint64, b : bool, both let-bound
  | anon (e : T)
  deriving Repr, DecidableEq

def bindSO (x : Option String) (v : Bool × Ty) (Γ : SEnv) : SEnv :=
  match x with
  | some n => bindStk n v Γ
  | none => Γ

def Bind.scope : Bind → SEnv → SEnv
  | .letIn x w τ _, Γ => bindStk x (w, τ) Γ
  | .let2 a b _, Γ => bindSO b (false, .bool) (bindSO a (false, .u64) Γ)
  | .anon _, Γ => Γ

/-- `Binding.AddTo` / `BlockExpr.Coq`: the LAST binding of a block is printed as its expression only. -/
def Bind.addTo : Bind → (last : Bool) → T → T
  | .letIn x _ _ e, _, r => .letIn x e r
  | .let2 a b e, _, r => .let2 a b e r
  | .anon e, true, _ => e
  | .anon e, false, r => .seq e r

def msgNotAssignable (x : String) : String := "variable " ++ x ++ " is not assignable"
def msgIndexUpdate : String := "index update to unexpected target of type"
def msgDeleteNonMap : String := "delete on non-map"

/-- the static scope of the (named) loop variables, both `uint64` and let-bound -/
def loopSScope (k v : Option String) : SScope := bindO v (false, .u64) (bindO k (false, .u64) [])

mutual
/-- `stmtInBlock` with usage `ExprValLocal`. -/
def trStmt (Γ : SEnv) : Stmt → Except String Bind
  | .define x r => bindE (trR Γ r) fun q => .ok (.letIn x false q.2 q.1)
  | .declare x r => bindE (trR Γ r) fun q => .ok (.letIn x true q.2 (.refTo q.2 q.1))
  | .assign x r =>
    bindE (trR Γ r) fun q => match lookStk x Γ with
      | some (true, τ) => bindE (expectTy "assignment" τ q.2) fun _ => .ok (.anon (.store τ (.var x) q.1))
      | some (false, _) => .error (msgNotAssignable x)
      | none => .error ("undeclared name " ++ x)
  | .mapSet m k e =>
    bindE (trE Γ e) fun re => bindE (expectTy "map element" .u64 re.2) fun _ =>
    bindE (trE Γ m) fun rm => bindE (trE Γ k) fun rk => bindE (expectTy "map key" .u64 rk.2) fun _ =>
    match rm.2 with
    | .map => .ok (.anon (.mapInsert rm.1 rk.1 re.1))
    | .mapD => .error msgIndexUpdate
    | _ => .error (typeErr "map update")
  | .delete m k =>
    bindE (trE Γ m) fun rm => bindE (trE Γ k) fun rk => bindE (expectTy "map key" .u64 rk.2) fun _ =>
    match rm.2 with
    | .map => .ok (.anon (.mapDelete rm.1 rk.1))
    | .mapD => .error msgDeleteNonMap
    | _ => .error (typeErr "delete")
  | .lookup2 v ok m k =>
    bindE (trE Γ m) fun rm => bindE (expectMap "map index" rm.2) fun _ =>
    bindE (trE Γ k) fun rk => bindE (expectTy "map key" .u64 rk.2) fun _ => .ok (.let2 v ok (.mapGet rm.1 rk.1))
  | .setIdx s i e =>
    bindE (trE Γ e) fun re => bindE (expectTy "element" .u64 re.2) fun _ =>
    bindE (trE Γ s) fun rs => bindE (expectTy "index" .sl rs.2) fun _ =>
    bindE (trE Γ i) fun ri => bindE (expectTy "index" .u64 ri.2) fun _ => .ok (.anon (.sliceSet rs.1 ri.1 re.1))
  | .copy d s => bindE (trR Γ (.copy d s)) fun q => .ok (.anon q.1)
  | .rangeMap k v m body =>
    bindE (trE Γ m) fun rm => bindE (expectMap "range" rm.2) fun _ =>
    bindE (trStmts false (loopSScope k v :: Γ) body) fun tb => .ok (.anon (.mapIter rm.1 k v tb))
  | .rangeSlice i x s body =>
    bindE (trE Γ s) fun rs => bindE (expectTy "range" .sl rs.2) fun _ =>
    bindE (trStmts false (loopSScope i x :: Γ) body) fun tb => .ok (.anon (.forSlice i x rs.1 tb))
  | .block b => bindE (trStmts false ([] :: Γ) b) fun t => .ok (.anon t)
  | .ite c t e =>
    bindE (trE Γ c) fun rc => bindE (expectTy "condition" .bool rc.2) fun _ =>
    bindE (trStmts false ([] :: Γ) t) fun tt =>
    bindE (trStmts false ([] :: Γ) e) fun te => .ok (.anon (.ite rc.1 tt te))
/-- `stmts`. `top = true`: the function body, `top = false`: a nested block, branch or loop body. -/
def trStmts (top : Bool) (Γ : SEnv) : Stmts → Except String T
  | .nil => if top then .error "function body must end in return (model restriction)" else .ok .unit
  | .ret e =>
    if top then bindE (trE Γ e) fun r => .ok r.1
    else .error "return inside a nested block (model restriction)"
  | .cons s rest =>
    bindE (trStmt Γ s) fun b => bindE (trStmts top (b.scope Γ) rest) fun r => .ok (b.addTo rest.isNil r)
end

/-- The model of goose: a function body in the static environment `Γ`. -/
def tr (Γ : SEnv) (ss : Stmts) : Except String T := trStmts true Γ ss

def emptyEnv : SEnv := [[]]

/-! ## The instances of the two parameters used by the line protocol and in examples -/

/-- `GL/Sem.lean`'s `growCap` (stated in `Props/C01Coll.lean`): double, at least what is needed. -/
def growDouble (oldCap need : Nat) : Nat := max need (if oldCap == 0 then need else 2 * oldCap)

/-- insertion into an ascending list of entries -/
def insAsc (e : Nat × Nat) : List (Nat × Nat) → List (Nat × Nat)
  | [] => [e]
  | f :: r => if e.1 ≤ f.1 then e :: f :: r else f :: insAsc e r

/-- the oracle "ascending keys" -/
def ordAsc : List (Nat × Nat) → List (Nat × Nat)
  | [] => []
  | e :: r => insAsc e (ordAsc r)

/-- Translate and run from the empty state. `none`: rejected or stuck. -/
def runTr (grow : Nat → Nat → Nat) (ord : List (Nat × Nat) → List (Nat × Nat)) (ss : Stmts) : Option (TVal × THeap) :=
  match tr emptyEnv ss with
  | .ok t => runT grow ord t
  | .error _ => none

/-! ## Folding a result (for the correspondence check) -/

def sumList : List Nat → Nat
  | [] => 0
  | x :: r => x + sumList r

def sumEntries : List (Nat × Nat) → Nat
  | [] => 0
  | (k, v) :: r => k * 3 + v + sumEntries r

/-- a number is itself, a boolean 0/1, a map the sum of `3 * k + v` plus its length, a slice the sum of its
elements plus its length -/
def foldGo (G : GHeap) : Val → Nat
  | .num n => n
  | .bool b => if b then 1 else 0
  | .map o => match getMap G o with
    | some es => sumEntries es + es.length
    | none => 0
  | .sl p l _ => match readSl G p l with
    | some xs => sumList xs + l
    | none => 0

def foldT (H : THeap) : TVal → Nat
  | .base (.num n) => n
  | .base (.bool b) => if b then 1 else 0
  | .base (.loc b _) => match getMap H b with
    | some es => sumEntries es + es.length
    | none => 0
  | .sl p l _ => match p.toPtr with
    | some q => match readSl H q l with
      | some xs => sumList xs + l
      | none => 0
    | none => 0
  | _ => 0

/-! ## Line protocol

Token syntax (space-separated tokens, prefix):

  B  ::= <name> | _                               a binder (`_`: blank or absent)
  E  ::= <digits> | true | false | <name> | + E E | * E E
       | == E E | != E E | < E E | <= E E | > E E | >= E E
       | mkmap | mkmapD                           make(map[uint64]uint64)  make(M)
       | toM E                                    M(E)
       | mkmapK32                                 make(map[uint32]uint64)   (refused)
       | get E E                                  E[E] on a map
       | mlen E                                   uint64(len(E)) on a map
       | make E | makecap E E                     make([]uint64, E)  make([]uint64, E, E)
       | idx E E | len E | cap E                  E[E]  uint64(len(E))  uint64(cap(E)) on a slice
       | sub E E E | take E E | skip E E          s[a:b]  s[:b]  s[a:]
  R  ::= E | append E E | appends E E | copy E E  append(s, e)  append(s, t...)  uint64(copy(d, s))
  S  ::= def <name> R | var <name> R | set <name> R
       | mset E E E                               E[E] = E on a map
       | del E E                                  delete(E, E)
       | get2 B B E E                             v, ok := E[E]
       | seti E E E                               E[E] = E on a slice
       | copy E E                                 copy(E, E)
       | rangem B B E [ SS ]                      for k, v := range E { SS }   on a map
       | ranges B B E [ SS ]                      for i, x := range E { SS }   on a slice
       | blk [ SS ]
       | if E [ SS ] [ SS ]                       if E { SS } else { SS }
  SS ::= ε | ret E | S | S ; SS

`run toks` prints what goose emits for the body, in the canonical rendering of `GooseVerif.GL.Expr.canon`
(see `T.canon`); `error <message-with-dashes>` when goose rejects; `error parse` for a bad token list.
`runGoToks toks` prints Go's answer with `growDouble` and ascending keys: the fold of the returned value
(`foldGo`), `panicked`, or `none`.
`runTToks toks` prints the fold of what the model's target semantics computes from `tr`'s output, or `stuck`.
-/

def reserved : List String :=
  [";", "[", "]", "_", "+", "*", "==", "!=", "<", "<=", ">", ">=", "true", "false", "mkmap", "mkmapD", "mkmapK32", "toM", "get", "mlen",
   "make", "makecap", "idx", "len", "cap", "sub", "take", "skip", "append", "appends", "copy",
   "def", "var", "set", "mset", "del", "get2", "seti", "rangem", "ranges", "blk", "if", "ret"]

def parseCmp : String → Option Cmp
  | "==" => some .eq
  | "!=" => some .ne
  | "<" => some .lt
  | "<=" => some .le
  | ">" => some .gt
  | ">=" => some .ge
  | _ => none

def parseB (tok : String) : Option (Option String) :=
  if tok = "_" then some none
  else if reserved.contains tok || isNumTok tok then none
  else some (some tok)

def parseE : Nat → List String → Option (Exp × List String)
  | 0, _ => none
  | _ + 1, [] => none
  | f + 1, tok :: r =>
    let two (mk : Exp → Exp → Exp) : Option (Exp × List String) :=
      match parseE f r with
      | some (a, r1) => match parseE f r1 with
        | some (b, r2) => some (mk a b, r2)
        | none => none
      | none => none
    let one (mk : Exp → Exp) : Option (Exp × List String) :=
      match parseE f r with
      | some (a, r1) => some (mk a, r1)
      | none => none
    match tok with
    | "+" => two .add
    | "*" => two .mul
    | "true" => some (.blit true, r)
    | "false" => some (.blit false, r)
    | "mkmap" => some (.mkMap false, r)
    | "mkmapD" => some (.mkMap true, r)
    | "mkmapK32" => some (.mkMapK32, r)
    | "toM" => one .asM
    | "get" => two .mapGet
    | "mlen" => one .mapLen
    | "make" => one .mkSlice
    | "makecap" => two .mkSliceCap
    | "idx" => two .idx
    | "len" => one .len
    | "cap" => one .cap
    | "take" => two .take
    | "skip" => two .skip
    | "sub" =>
      match parseE f r with
      | some (s, r1) => match parseE f r1 with
        | some (a, r2) => match parseE f r2 with
          | some (b, r3) => some (.sub s a b, r3)
          | none => none
        | none => none
      | none => none
    | _ =>
      match parseCmp tok with
      | some op => two (.cmp op)
      | none =>
        if isNumTok tok then some (.lit tok.toNat!, r)
        else if reserved.contains tok then none
        else some (.var tok, r)

def parseR (f : Nat) : List String → Option (RExp × List String)
  | "append" :: r => match parseE f r with
    | some (s, r1) => match parseE f r1 with
      | some (e, r2) => some (.append s e, r2)
      | none => none
    | none => none
  | "appends" :: r => match parseE f r with
    | some (s, r1) => match parseE f r1 with
      | some (t, r2) => some (.appendS s t, r2)
      | none => none
    | none => none
  | "copy" :: r => match parseE f r with
    | some (d, r1) => match parseE f r1 with
      | some (s, r2) => some (.copy d s, r2)
      | none => none
    | none => none
  | toks => match parseE f toks with
    | some (e, r) => some (.e e, r)
    | none => none

mutual
def parseS : Nat → List String → Option (Stmt × List String)
  | 0, _ => none
  | f + 1, "def" :: x :: r => match parseR f r with
    | some (e, r1) => if reserved.contains x then none else some (.define x e, r1)
    | none => none
  | f + 1, "var" :: x :: r => match parseR f r with
    | some (e, r1) => if reserved.contains x then none else some (.declare x e, r1)
    | none => none
  | f + 1, "set" :: x :: r => match parseR f r with
    | some (e, r1) => if reserved.contains x then none else some (.assign x e, r1)
    | none => none
  | f + 1, "mset" :: r => match parseE f r with
    | some (m, r1) => match parseE f r1 with
      | some (k, r2) => match parseE f r2 with
        | some (e, r3) => some (.mapSet m k e, r3)
        | none => none
      | none => none
    | none => none
  | f + 1, "del" :: r => match parseE f r with
    | some (m, r1) => match parseE f r1 with
      | some (k, r2) => some (.delete m k, r2)
      | none => none
    | none => none
  | f + 1, "get2" :: a :: b :: r => match parseB a, parseB b, parseE f r with
    | some v, some ok, some (m, r1) => match parseE f r1 with
      | some (k, r2) => some (.lookup2 v ok m k, r2)
      | none => none
    | _, _, _ => none
  | f + 1, "seti" :: r => match parseE f r with
    | some (s, r1) => match parseE f r1 with
      | some (i, r2) => match parseE f r2 with
        | some (e, r3) => some (.setIdx s i e, r3)
        | none => none
      | none => none
    | none => none
  | f + 1, "copy" :: r => match parseE f r with
    | some (d, r1) => match parseE f r1 with
      | some (s, r2) => some (.copy d s, r2)
      | none => none
    | none => none
  | f + 1, "rangem" :: a :: b :: r => match parseB a, parseB b, parseE f r with
    | some k, some v, some (m, "[" :: r1) => match parseSS f r1 with
      | some (body, "]" :: r2) => some (.rangeMap k v m body, r2)
      | _ => none
    | _, _, _ => none
  | f + 1, "ranges" :: a :: b :: r => match parseB a, parseB b, parseE f r with
    | some i, some x, some (s, "[" :: r1) => match parseSS f r1 with
      | some (body, "]" :: r2) => some (.rangeSlice i x s body, r2)
      | _ => none
    | _, _, _ => none
  | f + 1, "blk" :: "[" :: r => match parseSS f r with
    | some (b, "]" :: r1) => some (.block b, r1)
    | _ => none
  | f + 1, "if" :: r => match parseE f r with
    | some (c, "[" :: r1) => match parseSS f r1 with
      | some (t, "]" :: "[" :: r2) => match parseSS f r2 with
        | some (e, "]" :: r3) => some (.ite c t e, r3)
        | _ => none
      | _ => none
    | _ => none
  | _ + 1, _ => none
def parseSS : Nat → List String → Option (Stmts × List String)
  | 0, _ => none
  | _ + 1, [] => some (.nil, [])
  | _ + 1, "]" :: r => some (.nil, "]" :: r)
  | f + 1, "ret" :: r => match parseE f r with
    | some (e, r1) => some (.ret e, r1)
    | none => none
  | f + 1, toks => match parseS f toks with
    | some (s, ";" :: r1) => match parseSS f r1 with
      | some (ss, r2) => some (.cons s ss, r2)
      | none => none
    | some (s, r1) => some (.cons s .nil, r1)
    | none => none
end

def parse (toks : List String) : Option Stmts :=
  match parseSS (toks.length + 1) toks with
  | some (ss, []) => some ss
  | _ => none

def Ty.canon : Ty → String
  | .u64 => "(g uint64T)"
  | .bool => "(g boolT)"
  | .map => "(app (g mapT) (g uint64T))"
  | .mapD => "(g M)"
  | .sl => "(app (g slice.T) (g uint64T))"

def Cmp.canon : Cmp → String
  | .eq => hexStr "="
  | .ne => hexStr "≠"
  | .lt => hexStr "<"
  | .le => hexStr "≤"
  | .gt => hexStr ">"
  | .ge => hexStr "≥"

/-- a binder inside a `let`/`lam` list -/
def binderHex : Option String → String
  | some x => hexStr x
  | none => hexStr "_"

/-- a binder of `ForSlice` -/
def binderArg : Option String → String
  | some x => "(var " ++ hexStr x ++ ")"
  | none => "(anon)"

def T.canon : T → String
  | .lit n => "(lit u64:" ++ toString n ++ ")"
  | .blit b => if b then "(lit true)" else "(lit false)"
  | .var x => "(var " ++ hexStr x ++ ")"
  | .add a b => "(bin 2b " ++ a.canon ++ " " ++ b.canon ++ ")"
  | .mul a b => "(bin 2a " ++ a.canon ++ " " ++ b.canon ++ ")"
  | .cmp op a b => "(bin " ++ op.canon ++ " " ++ a.canon ++ " " ++ b.canon ++ ")"
  | .load ty e => "(load " ++ ty.canon ++ " " ++ e.canon ++ ")"
  | .store ty d e => "(store " ++ d.canon ++ " " ++ ty.canon ++ " " ++ e.canon ++ ")"
  | .refTo ty e => app "ref_to" [ty.canon, e.canon]
  | .newMap => app "NewMap" ["(g uint64T)", "(g uint64T)", "(lit unit)"]
  | .mapGet m k => app "MapGet" [m.canon, k.canon]
  | .fst e => app "Fst" [e.canon]
  | .mapInsert m k v => app "MapInsert" [m.canon, k.canon, v.canon]
  | .mapDelete m k => app "MapDelete" [m.canon, k.canon]
  | .mapLen m => app "MapLen" [m.canon]
  | .mapIter m k v body =>
    app "MapIter" [m.canon, "(lam [" ++ binderHex k ++ " " ++ binderHex v ++ "] " ++ body.canon ++ ")"]
  | .newSlice n => app "NewSlice" ["(g uint64T)", n.canon]
  | .newSliceCap n c => app "NewSliceWithCap" ["(g uint64T)", n.canon, c.canon]
  | .sliceGet s i => app "SliceGet" ["(g uint64T)", s.canon, i.canon]
  | .sliceSet s i e => app "SliceSet" ["(g uint64T)", s.canon, i.canon, e.canon]
  | .sliceLen s => app "slice.len" [s.canon]
  | .sliceCap s => app "slice.cap" [s.canon]
  | .sliceAppend s e => app "SliceAppend" ["(g uint64T)", s.canon, e.canon]
  | .sliceAppendSlice s t => app "SliceAppendSlice" ["(g uint64T)", s.canon, t.canon]
  | .sliceCopy d s => app "SliceCopy" ["(g uint64T)", d.canon, s.canon]
  | .subslice s a b => app "SliceSubslice" ["(g uint64T)", s.canon, a.canon, b.canon]
  | .sliceTake s b => app "SliceTake" [s.canon, b.canon]
  | .sliceSkip s a => app "SliceSkip" ["(g uint64T)", s.canon, a.canon]
  | .forSlice i x s body => app "ForSlice" ["(g uint64T)", binderArg i, binderArg x, s.canon, body.canon]
  | .letIn x e b => "(let [" ++ hexStr x ++ "] " ++ e.canon ++ " " ++ b.canon ++ ")"
  | .let2 a b e body => "(let [" ++ binderHex a ++ " " ++ binderHex b ++ "] " ++ e.canon ++ " " ++ body.canon ++ ")"
  | .seq a b => "(seq " ++ a.canon ++ " " ++ b.canon ++ ")"
  | .ite c a b => "(if " ++ c.canon ++ " " ++ a.canon ++ " " ++ b.canon ++ ")"
  | .unit => "(lit unit)"

def run (toks : List String) : String :=
  match parse toks with
  | none => "error parse"
  | some ss =>
    match tr emptyEnv ss with
    | .error m => "error " ++ dashes m
    | .ok t => t.canon

def runGoToks (toks : List String) : String :=
  match parse toks with
  | none => "error parse"
  | some ss =>
    match runGo growDouble ordAsc ss with
    | .ok (v, G) => toString (foldGo G v)
    | .panic => "panicked"
    | .bad => "none"

def runTToks (toks : List String) : String :=
  match parse toks with
  | none => "error parse"
  | some ss =>
    match tr emptyEnv ss with
    | .error m => "error " ++ dashes m
    | .ok t =>
      match runT growDouble ordAsc t with
      | some (v, H) => toString (foldT H v)
      | none => "stuck"

/-! ## Values only (for statements without existential witnesses) -/

/-- the value Go returns (`none`: panic, or outside the model) -/
def goVal (grow : Nat → Nat → Nat) (ord : List (Nat × Nat) → List (Nat × Nat)) (ss : Stmts) : Option Val :=
  match runGo grow ord ss with
  | .ok (v, _) => some v
  | _ => none

/-- the value a closed target expression evaluates to (`none`: stuck) -/
def runTVal (grow : Nat → Nat → Nat) (ord : List (Nat × Nat) → List (Nat × Nat)) (t : T) : Option TVal :=
  (runT grow ord t).map (·.1)

/-- the value of the translation (`none`: rejected or stuck) -/
def trVal (grow : Nat → Nat → Nat) (ord : List (Nat × Nat) → List (Nat × Nat)) (ss : Stmts) : Option TVal :=
  (runTr grow ord ss).map (·.1)

def seqS : List Stmt → Stmts → Stmts
  | [], r => r
  | s :: ss, r => .cons s (seqS ss r)

end GooseVerif.Model.Coll
