/-
Critical sections give atomicity: a generic transition system of threads that execute
operations as  `acquire(mode) ; micro-step₀ ; … ; micro-stepₖ₋₁ ; release`  under a
reader/writer lock (a mutex is the special case in which every operation is a writer).
Micro-steps read or write the shared
state `σ` and a thread-local state `L`; a block copy is split into several micro-steps so that a
torn read is *expressible* (and excluded by the theorem, not by the model's granularity).

`Lemmas/Lock.lean` proves that every reachable state's history is linearizable with respect to
the sequential specification "run the operation alone", with lock acquisition as the
linearisation point.  Used by C10 (MemDisk), C14 (MemFs) and C03 (the mutex object).

Relational (threads are `Nat`, "no reader is inside" quantifies over all of them).
-/
namespace GooseVerif.Model.Lock

inductive Mode where
  | R | W
  deriving DecidableEq, Repr

structure Protocol (σ Op Ret L : Type) where
  mode : Op → Mode
  init : Op → L
  nsteps : Op → Nat
  micro : Op → Nat → σ × L → σ × L
  ret : Op → L → Ret

variable {σ Op Ret L : Type}

/-- The first `k` micro-steps of `op`. -/
def iter (P : Protocol σ Op Ret L) (op : Op) : Nat → σ × L → σ × L
  | 0, x => x
  | k + 1, x => P.micro op k (iter P op k x)

/-- The sequential specification: the operation run alone. -/
def runAlone (P : Protocol σ Op Ret L) (op : Op) (s : σ) : σ × Ret :=
  ((iter P op (P.nsteps op) (s, P.init op)).1, P.ret op (iter P op (P.nsteps op) (s, P.init op)).2)


inductive Status (Op L : Type) where
  | idle
  | waiting (id : Nat) (op : Op)
  | inside (id : Nat) (op : Op) (pc : Nat) (loc : L)

inductive Event (Op Ret : Type) where
  | inv (id : Nat) (op : Op)
  | resp (id : Nat) (r : Ret)

structure Sys (σ Op Ret L : Type) where
  shared : σ
  writer : Option Nat
  status : Nat → Status Op L
  todo : Nat → List Op
  nextId : Nat
  lin : List (Nat × Op)          -- acquisitions, newest first
  results : List (Nat × Ret)     -- completed invocations
  trace : List (Event Op Ret)   -- invocations and responses, newest first

def upd {α : Type} (f : Nat → α) (t : Nat) (v : α) : Nat → α := fun u => if u = t then v else f u

def isReaderInside (P : Protocol σ Op Ret L) : Status Op L → Prop
  | .inside _ op _ _ => P.mode op = .R
  | _ => False

inductive Step (P : Protocol σ Op Ret L) : Sys σ Op Ret L → Sys σ Op Ret L → Prop where
  | invoke (s : Sys σ Op Ret L) (t : Nat) (op : Op) (rest : List Op)
      (h1 : s.status t = .idle) (h2 : s.todo t = op :: rest) :
      Step P s { s with status := upd s.status t (.waiting s.nextId op), todo := upd s.todo t rest,
                        nextId := s.nextId + 1, trace := .inv s.nextId op :: s.trace }
  | acquireW (s : Sys σ Op Ret L) (t : Nat) (id : Nat) (op : Op)
      (h1 : s.status t = .waiting id op) (hm : P.mode op = .W)
      (hfree : s.writer = none) (hnor : ∀ u, ¬ isReaderInside P (s.status u)) :
      Step P s { s with status := upd s.status t (.inside id op 0 (P.init op)), writer := some t,
                        lin := (id, op) :: s.lin }
  | acquireR (s : Sys σ Op Ret L) (t : Nat) (id : Nat) (op : Op)
      (h1 : s.status t = .waiting id op) (hm : P.mode op = .R) (hfree : s.writer = none) :
      Step P s { s with status := upd s.status t (.inside id op 0 (P.init op)), lin := (id, op) :: s.lin }
  | micro (s : Sys σ Op Ret L) (t : Nat) (id : Nat) (op : Op) (pc : Nat) (loc : L)
      (h1 : s.status t = .inside id op pc loc) (hpc : pc < P.nsteps op) :
      Step P s { s with shared := (P.micro op pc (s.shared, loc)).1,
                        status := upd s.status t (.inside id op (pc + 1) (P.micro op pc (s.shared, loc)).2) }
  | release (s : Sys σ Op Ret L) (t : Nat) (id : Nat) (op : Op) (pc : Nat) (loc : L)
      (h1 : s.status t = .inside id op pc loc) (hpc : pc = P.nsteps op) :
      Step P s { s with status := upd s.status t .idle,
                        writer := if P.mode op = .W then none else s.writer,
                        results := (id, P.ret op loc) :: s.results,
                        trace := .resp id (P.ret op loc) :: s.trace }

def initSys (s0 : σ) (progs : Nat → List Op) : Sys σ Op Ret L :=
  { shared := s0, writer := none, status := fun _ => .idle, todo := progs, nextId := 0,
    lin := [], results := [], trace := [] }

inductive Reachable (P : Protocol σ Op Ret L) (s0 : σ) (progs : Nat → List Op) : Sys σ Op Ret L → Prop where
  | init : Reachable P s0 progs (initSys s0 progs)
  | step (s s' : Sys σ Op Ret L) : Reachable P s0 progs s → Step P s s' → Reachable P s0 progs s'

/-- Sequential replay of a linearisation (oldest first): final state and the result of every
invocation. -/
def replayStep (P : Protocol σ Op Ret L) (acc : σ × List (Nat × Ret)) (x : Nat × Op) : σ × List (Nat × Ret) :=
  ((runAlone P x.2 acc.1).1, acc.2 ++ [(x.1, (runAlone P x.2 acc.1).2)])

def replay (P : Protocol σ Op Ret L) (s0 : σ) (l : List (Nat × Op)) : σ × List (Nat × Ret) :=
  l.foldl (replayStep P) (s0, [])

def lookupId {α : Type} (l : List (Nat × α)) (id : Nat) : Option α :=
  (l.find? (fun e => e.1 == id)).map (·.2)

/-- In the trace (newest first) the response of `a` is older than the invocation of `b`:
`a` completed before `b` was invoked (real-time order). -/
def RespBeforeInv (trace : List (Event Op Ret)) (a b : Nat) : Prop :=
  ∃ post mid pre opb ra, trace = post ++ [Event.inv b opb] ++ mid ++ [Event.resp a ra] ++ pre

/-- In a linearisation given newest first, `a` is linearised before `b`. -/
def LinBefore (lin : List (Nat × Op)) (a b : Nat) : Prop :=
  ∃ l1 l2, lin = l1 ++ l2 ∧ b ∈ l1.map (·.1) ∧ a ∈ l2.map (·.1)

end GooseVerif.Model.Lock
