/-
Model of `machine.MapClear`:  `for k := range m { delete(m, k) }`.

A Go map is modelled as a duplicate-free association list. Go's `range` over a map visits the
entries in an unspecified order and never produces an entry that was removed before being
reached; the loop body removes exactly the key just produced. The iteration order is therefore a
parameter (`pick` chooses which remaining entry is produced next): the theorems hold for every
choice. Core Lean only.
-/
namespace GooseVerif.Model.MapClear

abbrev GoMap (κ ν : Type) := List (κ × ν)

def erase {κ ν : Type} [DecidableEq κ] (m : GoMap κ ν) (k : κ) : GoMap κ ν :=
  m.filter (fun p => p.1 ≠ k)

def insert {κ ν : Type} [DecidableEq κ] (m : GoMap κ ν) (k : κ) (v : ν) : GoMap κ ν :=
  (k, v) :: erase m k

def lookup {κ ν : Type} [DecidableEq κ] (m : GoMap κ ν) (k : κ) : Option ν :=
  (m.find? (fun p => p.1 = k)).map (·.2)

/-- One loop iteration: `range` produces some remaining entry (index chosen by `pick`, reduced
modulo the current size), the body deletes its key. -/
def stepClear {κ ν : Type} [DecidableEq κ] (pick : Nat) (m : GoMap κ ν) : GoMap κ ν :=
  match m[pick % m.length]? with
  | some p => erase m p.1
  | none => m

/-- The whole loop under the iteration order `picks`; it runs until the map is empty
(`fuel` iterations are allowed; `mapClear_terminates` shows `m.length` suffice). -/
def runClear {κ ν : Type} [DecidableEq κ] : Nat → (Nat → Nat) → GoMap κ ν → GoMap κ ν
  | 0, _, m => m
  | fuel + 1, picks, m =>
    if m.isEmpty then m else runClear fuel (fun i => picks (i + 1)) (stepClear (picks 0) m)

def mapClear {κ ν : Type} [DecidableEq κ] (picks : Nat → Nat) (m : GoMap κ ν) : GoMap κ ν :=
  runClear m.length picks m

/-- `Assume` / `Assert`: `if !c { panic(…) }`. `true` = the call panics. -/
def assumePanics (c : Bool) : Bool := !c
def assertPanics (c : Bool) : Bool := !c

end GooseVerif.Model.MapClear
