/-
Model of `machine.MapClear`.

A Go map is modelled as an association list. The body of `MapClear` is the builtin `clear(m)`, which
removes EVERY entry (Go specification, "Clear": "deletes all entries, resulting in an empty map") —
`mapClear m = []`; that the builtin does so, also for keys that are not equal to themselves, is
observed on the real implementation by the correspondence check (key kinds `f64`, `iface`, `fstruct`
plant NaN keys).

Until the repair 9ef6e58 the body was `for k := range m { delete(m, k) }`. That loop is modelled too
(`loopClear`): Go's `range` produces the entries in an unspecified order (the parameter `order`:
any list containing every entry of the map), `delete(m, k)` removes the entries whose key is `==` to
`k` — and Go's `==` on keys (`eq`) need not be reflexive: a float NaN, or a struct or interface value
containing one, differs from itself. `Lemmas/MapClear.lean` proves that the loop empties the map when
`eq` is reflexive on its keys and that it leaves every NaN-like key behind, whatever the order.
Core Lean only.
-/
namespace GooseVerif.Model.MapClear

abbrev GoMap (κ ν : Type) := List (κ × ν)

def erase {κ ν : Type} [DecidableEq κ] (m : GoMap κ ν) (k : κ) : GoMap κ ν :=
  m.filter (fun p => p.1 ≠ k)

def insert {κ ν : Type} [DecidableEq κ] (m : GoMap κ ν) (k : κ) (v : ν) : GoMap κ ν :=
  (k, v) :: erase m k

def lookup {κ ν : Type} [DecidableEq κ] (m : GoMap κ ν) (k : κ) : Option ν :=
  (m.find? (fun p => p.1 = k)).map (·.2)

/-- `delete(m, k)` when key comparison is `eq` (element key on the left, as in Go's lookup). -/
def eraseBy {κ ν : Type} (eq : κ → κ → Bool) (m : GoMap κ ν) (k : κ) : GoMap κ ν :=
  m.filter (fun p => !eq p.1 k)

/-- The pre-repair body `for k := range m { delete(m, k) }`: `range` produces the entries of
`order` (an entry removed before it is reached is not produced by Go; deleting its key again would
change nothing that matters below, so it is not filtered out here). -/
def loopClear {κ ν : Type} (eq : κ → κ → Bool) (order : List (κ × ν)) (m : GoMap κ ν) : GoMap κ ν :=
  order.foldl (fun acc p => eraseBy eq acc p.1) m

/-- `clear(m)`. -/
def mapClear {κ ν : Type} (_m : GoMap κ ν) : GoMap κ ν := []

/-- `Assume` / `Assert`: `if !c { panic(…) }`. `true` = the call panics. -/
def assumePanics (c : Bool) : Bool := !c
def assertPanics (c : Bool) : Bool := !c

end GooseVerif.Model.MapClear
