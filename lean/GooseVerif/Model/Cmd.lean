/-
Model of the decision logic of `cmd/goose` (`translate`, `writeFileIfChanged`): which files are
written, which are left alone, and the exit status, given the per-package translation results
(the translator itself is C01–C07's concern) and the prior state of the output directory.
Core Lean only.
-/
import GooseVerif.Model.Header

namespace GooseVerif.Model.Cmd
open GooseVerif.Model.Header

/-- prior state of a package's output file -/
inductive Prior where
  | absent        -- does not exist
  | same          -- exists with exactly the content that would be written
  | different     -- exists with other content
  | unwritable    -- exists with other content and cannot be written (read-only file)
  deriving DecidableEq, Repr

structure Pkg where
  pkgPath : String
  hasErr : Bool          -- translatePackage returned an error (conversion or load error)
  prior : Prior
  noOutput : Bool := false   -- the error left no translation at all (load error, package refused): nothing to write

  deriving Repr

structure Outcome where
  exit : Nat
  written : List String     -- output paths (relative to -out) that were (re)written, in order
  untouched : List String   -- output paths whose existing file was left as it is
  deriving DecidableEq, Repr

def outPath (p : Pkg) : String := importToPath p.pkgPath

/-- the loop of `translate` over the per-package results -/
def loop (ignoreErrors : Bool) : List Pkg → Bool → List String → List String → Outcome
  | [], someError, w, u => { exit := if someError then 1 else 0, written := w.reverse, untouched := u.reverse }
  | p :: ps, someError, w, u =>
    if p.hasErr && (!ignoreErrors || p.noOutput) then loop ignoreErrors ps true w u
    else
      let someError' := someError || p.hasErr
      match p.prior with
      | .same => loop ignoreErrors ps someError' w (outPath p :: u)
      | .absent | .different => loop ignoreErrors ps someError' (outPath p :: w) u
      | .unwritable => { exit := 1, written := w.reverse, untouched := u.reverse }   -- "could not write output"

/-- the loop as it is since repair c3c81c9: `seen` holds the output paths already taken in this run; a package whose
output path is taken is reported (non-zero exit) and NOT written ('.', '-' and '_' all map to '_', so `m/a-b` and `m/a_b`
share `m/a_b.v`).  `loop` above is this loop when all output paths differ (`Props/C17.loopC_eq_loop`). -/
def loopC (ignoreErrors : Bool) : List Pkg → Bool → List String → List String → List String → Outcome
  | [], someError, w, u, _ => { exit := if someError then 1 else 0, written := w.reverse, untouched := u.reverse }
  | p :: ps, someError, w, u, seen =>
    if p.hasErr && (!ignoreErrors || p.noOutput) then loopC ignoreErrors ps true w u seen
    else if seen.contains (outPath p) then loopC ignoreErrors ps true w u seen
    else
      let someError' := someError || p.hasErr
      match p.prior with
      | .same => loopC ignoreErrors ps someError' w (outPath p :: u) (outPath p :: seen)
      | .absent | .different => loopC ignoreErrors ps someError' (outPath p :: w) u (outPath p :: seen)
      | .unwritable => { exit := 1, written := w.reverse, untouched := u.reverse }   -- "could not write output"

def run (patternErr : Bool) (ignoreErrors : Bool) (pkgs : List Pkg) : Outcome :=
  if patternErr then { exit := 1, written := [], untouched := [] }
  else loopC ignoreErrors pkgs false [] [] []

end GooseVerif.Model.Cmd
