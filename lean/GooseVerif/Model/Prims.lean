/-
Model of `machine/prims.go` as far as C15/C16 need it. The four codecs are the
delegations recorded in `Gen/PrimFacts.lean` (checked against `Expected` in
`Props/C15.lean`), interpreted over the tables extracted from `encoding/binary`.
-/
import GooseVerif.Model.Codec
import GooseVerif.Gen.PrimFacts

namespace GooseVerif.Model.Prims
open GooseVerif.Model.Codec
open GooseVerif.Gen

def uint64Put (b : List Byte) (v : BitVec 64) : Res (List Byte) :=
  putLE Prim.lePutUint64Bound Prim.lePutUint64 b v
def uint32Put (b : List Byte) (v : BitVec 32) : Res (List Byte) :=
  putLE Prim.lePutUint32Bound Prim.lePutUint32 b v
def uint64Get (b : List Byte) : Res (BitVec 64) :=
  getLE 64 Prim.leUint64Bound Prim.leUint64 b
def uint32Get (b : List Byte) : Res (BitVec 32) :=
  getLE 32 Prim.leUint32Bound Prim.leUint32 b

end GooseVerif.Model.Prims
