/-
Model for C08: FFI selection over the import graph (`getFfi`), header/footer choice
(`ffiHeaderFooter`), import declarations (`imports`, `ImportDecl.CoqDecl`, `PrintImports`) and the
path mapping (`pathToCoqPath`, `ImportToPath`). The FFI and builtin-import tables are the ones
regenerated from goose.go (`Gen/Ffi.lean`). Core Lean only.
-/
import GooseVerif.Gen.Ffi

namespace GooseVerif.Model.Header

/-- the import graph: package path ↦ imported package paths -/
abbrev Graph := List (String × List String)

def Graph.imports (g : Graph) (p : String) : List String :=
  ((g.find? (fun e => e.1 == p)).map (·.2)).getD []

def ffiOf (p : String) : Option String :=
  (GooseVerif.Gen.Ffi.ffiMapping.find? (fun e => e.1 == p)).map (·.2)

def isBuiltinImport (p : String) : Bool := GooseVerif.Gen.Ffi.builtinImports.contains p

/-- `packages.Visit` with the `pre` function of `getFfi`, as a work-list walk: each package is
visited once, the imports of an FFI package are not followed. The set of FFIs seen does not depend
on the visiting order. `fuel` bounds the number of steps (`edges + nodes + 1` suffice). -/
def visit : Nat → Graph → List String → List String × List String → List String × List String
  | 0, _, _, acc => acc
  | _, _, [], acc => acc
  | fuel + 1, g, p :: rest, (seen, ffis) =>
    if seen.contains p then visit fuel g rest (seen, ffis)
    else
      match ffiOf p with
      | some f => visit fuel g rest (p :: seen, if ffis.contains f then ffis else f :: ffis)
      | none => visit fuel g (g.imports p ++ rest) (p :: seen, ffis)

def fuelFor (g : Graph) : Nat := (g.map (fun e => e.2.length + 2)).sum + 2

inductive FfiResult where
  | ffi (name : String)
  | refused
  deriving DecidableEq, Repr

def getFfi (g : Graph) (root : String) : FfiResult :=
  match (visit (fuelFor g) g [root] ([], [])).2 with
  | [] => .ffi "none"
  | [f] => .ffi f
  | _ => .refused

def headerFooter (ffi : String) : String × String :=
  if ffi == "none" then
    ("Section code.\nContext `{ext_ty: ext_types}.\nLocal Coercion Var' s: expr := Var s.", "\nEnd code.\n")
  else
    ("From Perennial.goose_lang Require Import ffi." ++ ffi ++ "_prelude.", "")

/-- `pathToCoqPath`: '.' and '-' become '_'. -/
def mapChar (c : Char) : Char := if c == '.' || c == '-' then '_' else c
def pathToCoqPath (p : String) : String := String.ofList (p.toList.map mapChar)

def splitPath (p : String) : List String := p.splitOn "/"

/-- `path.Dir` / `path.Base` on a clean, non-empty relative path. -/
def dirOf (p : String) : String :=
  match (splitPath p).reverse with
  | _ :: rest@(_ :: _) => "/".intercalate rest.reverse
  | _ => "."
def baseOf (p : String) : String := (splitPath p).getLast?.getD p

/-- `coq.ImportToPath`: the output file of a package, relative to `-out`. -/
def importToPath (pkgPath : String) : String :=
  let c := pathToCoqPath pkgPath
  if dirOf c == "." then baseOf c ++ ".v" else dirOf c ++ "/" ++ baseOf c ++ ".v"

/-- `ImportDecl.CoqDecl`: the logical path is the whole mapped import path with '/' ↦ '.'. -/
def coqRequire (importPath : String) : String :=
  let c := pathToCoqPath importPath
  let logical := c.replace "/" "."
  if (baseOf importPath).startsWith "trusted_" then
    "From Perennial.goose_lang.trusted Require Import " ++ logical ++ "."
  else "From Goose Require " ++ logical ++ "."

def dedup : List String → List String
  | [] => []
  | x :: xs => if xs.contains x then dedup xs else x :: dedup xs

/-- `PrintImports` over the import specs of all files (any order, with repetitions): non-builtin
imports only, each once, sorted. -/
def requires (importSpecs : List String) : List String :=
  (dedup ((importSpecs.filter (fun p => !isBuiltinImport p)).map coqRequire)).mergeSort (fun a b => decide (a ≤ b))

end GooseVerif.Model.Header
