/-
Model "Heap": how goose translates Go HEAP DATA — struct pointers, struct values, pointers to integer
cells and slices — and the aliasing between them (`/repo/goose.go`: `selectExpr`/`structSelector`,
`structLiteral`, `unaryExpr` (`&T{…}`), `derefExpr`, `newExpr`, `makeExpr`, `indexExpr`, `lenExpr`,
`sliceExpr`, `variable`, `referenceTo`, `varSpec`, `defineStmt`, `assignFromTo`/`pointerAssign`;
`/repo/internal/coq/coq.go`: `StructFieldAccessExpr`, `StructLiteral`, `DerefExpr`, `StoreStmt`,
`RefExpr`).  Core Lean only, executable.

One struct type, as in Go

    type T struct { a uint64; b uint64; n *T }

Source types: `uint64`, `*T`, `*uint64`, `T` (a struct VALUE, copied on assignment), `[]uint64`.

  x := e                ↦  let: "x" := ⟦e⟧ in …                       immutable let-binding
  var x τ = e           ↦  let: "x" := ref_to ⟦τ⟧ ⟦e⟧ in …            pointer-wrapped: one cell per flattened field
  use of x              ↦  ![⟦τ⟧] "x"  if x is pointer-wrapped, else "x"
  x = e                 ↦  "x" <-[⟦τ⟧] ⟦e⟧   (pointer-wrapped only; else goose's "variable x is not assignable")
  &T{a: e1, n: e3}      ↦  struct.new T [ "a" ::= ⟦e1⟧; "n" ::= ⟦e3⟧ ]   (omitted fields are zero)
  T{a: e1}              ↦  struct.mk T [ "a" ::= ⟦e1⟧ ]
  e.f   (e : *T)        ↦  struct.loadF T "f" ⟦e⟧
  e.f   (e : T)         ↦  struct.get T "f" ⟦e⟧             (for a `var v T`: struct.get T "f" (![struct.t T] "v"))
  *e    (e : *T)        ↦  struct.load T ⟦e⟧
  *e    (e : *uint64)   ↦  ![uint64T] ⟦e⟧
  new(uint64)           ↦  ref (zero_val uint64T)
  make([]uint64, e)     ↦  NewSlice uint64T ⟦e⟧
  s[i]                  ↦  SliceGet uint64T ⟦s⟧ ⟦i⟧
  len(s)                ↦  slice.len ⟦s⟧
  s[a:b], s[:b], s[a:]  ↦  SliceSubslice uint64T ⟦s⟧ ⟦a⟧ ⟦b⟧,  SliceTake ⟦s⟧ ⟦b⟧,  SliceSkip uint64T ⟦s⟧ ⟦a⟧
  e.f = e'  (e : *T)    ↦  struct.storeF T "f" ⟦e⟧ ⟦e'⟧
  v.f = e'  (var v T)   ↦  struct.storeF T "f" "v" ⟦e'⟧      the variable's own cell block, NOT a load of it
  *e = e'   (e : *T)    ↦  struct.store T ⟦e⟧ ⟦e'⟧
  *e = e'   (e : *uint64) ↦ ⟦e⟧ <-[uint64T] ⟦e'⟧
  s[i] = e'             ↦  SliceSet uint64T ⟦s⟧ ⟦i⟧ ⟦e'⟧
  blocks, if/else, return: exactly as in `Model/Scope.lean`.

What goose REJECTS in this fragment is rejected with the same message: assignment to a `:=` variable
("variable x is not assignable"), `(*p).f = e` ("reference to other types of expressions").  goose
ACCEPTS `v.f = e` for a let-bound struct value `v := T{…}` and emits `struct.storeF T "f" "v" e`, a store
to a non-location (known finding `store-through-let-bound-value`): `trGoose` does the same, `tr` refuses it
("model: …"); `tr_le_trGoose` (Lemmas) says `tr` is `trGoose` wherever it accepts.

Choices.
* Numbers are unbounded naturals (wrap-around is the subject of the arithmetic tables, `Lemmas/Arith`).
* Literal fields are given in declaration order (goose prints them in source order).
* Operands are evaluated RIGHT TO LEFT on both sides.  GooseLang does so.  For Go this is one of the
  orders the language specification allows in this fragment: it only orders function calls, method calls
  and communication, and here expressions only read and allocate; allocation order is not observable and
  an expression either yields its value or panics, whatever the order.  (The correspondence check runs the
  native, left-to-right, Go.)
* No `append` (whether it aliases depends on the capacity), no `&x`, no `nil` literal (nil `*T` values come
  from omitted fields), no pointer comparison, no loops and no early returns (`Model/Tr.lean`).
* The Go semantics is dynamically checked: `Res.bad` is "not a well-typed Go program" (never the case for
  programs the Go compiler accepts), `Res.panic` is a Go run-time panic (nil dereference, index out of
  range).

The target semantics is GooseLang's FLATTENED heap: the heap is a list of blocks, a location is
(block, offset); `struct.new`/`ref_to` allocate one cell per flattened field, `struct.loadF T f p` loads at
`p + offset f`, `![struct.t T] p` loads three consecutive cells, a slice is (pointer, length, capacity) over
a block of consecutive cells, `NewSlice _ #0` is the nil slice.  Struct values (tuples ending in `#()`) and
slice values (triples) are the constructors `TVal.str` / `TVal.sl`.  Out-of-range slice operations and
loads/stores through `null` have no rule (stuck), as in `GL/Sem.lean`.
-/
namespace GooseVerif.Model.Heap

/-! ## Source -/

inductive Fld where
  | a | b | n
  deriving Repr, DecidableEq, Inhabited

inductive Ty where
  | u64        -- uint64
  | ptrT       -- *T
  | ptrN       -- *uint64
  | str        -- T
  | sl         -- []uint64
  deriving Repr, DecidableEq, Inhabited

def Fld.ty : Fld → Ty
  | .a => .u64
  | .b => .u64
  | .n => .ptrT

inductive Exp where
  | lit (n : Nat)
  | var (x : String)
  | add (a b : Exp)
  /-- `&T{…}` (`alloc = true`) / `T{…}`; `ga gb gn`: which fields are given (the others are ignored) -/
  | mk (alloc : Bool) (ga gb gn : Bool) (a b n : Exp)
  | sel (e : Exp) (f : Fld)                -- e.f
  | deref (e : Exp)                        -- *e
  | newN                                   -- new(uint64)
  | make (n : Exp)                         -- make([]uint64, n)
  | idx (s i : Exp)                        -- s[i]
  | len (s : Exp)                          -- uint64(len(s))
  | sub (s a b : Exp)                      -- s[a:b]
  | take (s b : Exp)                       -- s[:b]
  | skip (s a : Exp)                       -- s[a:]
  deriving Repr, DecidableEq, Inhabited

mutual
inductive Stmt where
  | define (x : String) (e : Exp)          -- x := e
  | declare (x : String) (e : Exp)         -- var x τ = e   (τ the type of e)
  | assign (x : String) (e : Exp)          -- x = e
  | storeF (e : Exp) (f : Fld) (e' : Exp)  -- e.f = e'
  | storeP (e e' : Exp)                    -- *e = e'
  | setIdx (s i e' : Exp)                  -- s[i] = e'
  | block (b : Stmts)                      -- { b }
  | ite (c : Exp) (t e : Stmts)            -- if c != 0 { t } else { e }
inductive Stmts where
  | nil
  | ret (e : Exp)
  | cons (s : Stmt) (rest : Stmts)
end

instance : Inhabited Stmts := ⟨.nil⟩
instance : Inhabited Stmt := ⟨.block .nil⟩

def Stmts.isNil : Stmts → Bool
  | .nil => true
  | _ => false

/-! ## Association lists and stacks of scopes (innermost scope first, newest binding first) -/

def look {α : Type} (x : String) : List (String × α) → Option α
  | [] => none
  | (y, v) :: r => if y = x then some v else look x r

def lookStk {α : Type} (x : String) : List (List (String × α)) → Option α
  | [] => none
  | sc :: st => match look x sc with
    | some v => some v
    | none => lookStk x st

def bindStk {α : Type} (x : String) (v : α) : List (List (String × α)) → List (List (String × α))
  | [] => [[(x, v)]]
  | sc :: st => ((x, v) :: sc) :: st

/-! ## Go semantics -/

/-- Go values. -/
inductive Val where
  | num (n : Nat)
  | ptrS (o : Option Nat)                  -- *T: nil or the struct object `o`
  | ptrN (o : Nat)                         -- *uint64: the cell object `o`
  | str (a b : Nat) (n : Option Nat)       -- a struct value
  | sl (o off len cap : Nat)               -- a slice of the array object `o`
  deriving Repr, DecidableEq, Inhabited

def Val.ty : Val → Ty
  | .num _ => .u64
  | .ptrS _ => .ptrT
  | .ptrN _ => .ptrN
  | .str _ _ _ => .str
  | .sl _ _ _ _ => .sl

/-- Go heap objects. -/
inductive Obj where
  | str (a b : Nat) (n : Option Nat)
  | cell (v : Nat)
  | arr (vs : List Nat)
  deriving Repr, DecidableEq, Inhabited

abbrev GHeap := List Obj
abbrev Scope := List (String × Val)
abbrev Stack := List Scope

/-- ok / Go panic / not a well-typed program. -/
inductive Res (α : Type) where
  | ok (a : α)
  | panic
  | bad
  deriving Repr, DecidableEq

def Res.bind {α β : Type} : Res α → (α → Res β) → Res β
  | .ok a, f => f a
  | .panic, _ => .panic
  | .bad, _ => .bad

def ofOpt {α : Type} : Option α → Res α
  | some a => .ok a
  | none => .bad

def asNum : Val → Res Nat
  | .num n => .ok n
  | _ => .bad

def asPtrS : Val → Res (Option Nat)
  | .ptrS o => .ok o
  | _ => .bad

/-- a slice value: (object, offset, length, capacity) -/
def asSl : Val → Res (Nat × Nat × Nat × Nat)
  | .sl o off l c => .ok (o, off, l, c)
  | _ => .bad

def fieldVal (f : Fld) (a b : Nat) (n : Option Nat) : Val :=
  match f with
  | .a => .num a
  | .b => .num b
  | .n => .ptrS n

/-- the struct `(a, b, n)` with field `f` replaced by `v` (`bad` if `v` is not of the field's type) -/
def setField (f : Fld) (a b : Nat) (n : Option Nat) (v : Val) : Res (Nat × Nat × Option Nat) :=
  match f, v with
  | .a, .num k => .ok (k, b, n)
  | .b, .num k => .ok (a, k, n)
  | .n, .ptrS o => .ok (a, b, o)
  | _, _ => .bad

def getStr (G : GHeap) (o : Nat) : Res (Nat × Nat × Option Nat) :=
  match G[o]? with
  | some (.str a b n) => .ok (a, b, n)
  | _ => .bad

def getCell (G : GHeap) (o : Nat) : Res Nat :=
  match G[o]? with
  | some (.cell v) => .ok v
  | _ => .bad

def getArr (G : GHeap) (o : Nat) : Res (List Nat) :=
  match G[o]? with
  | some (.arr vs) => .ok vs
  | _ => .bad

/-- Expressions: read the stack and the heap, allocate; operands right to left. -/
def evalE (st : Stack) (G : GHeap) : Exp → Res (Val × GHeap)
  | .lit n => .ok (.num n, G)
  | .var x => (ofOpt (lookStk x st)).bind fun v => .ok (v, G)
  | .add a b =>
    (evalE st G b).bind fun r1 => (asNum r1.1).bind fun n =>
    (evalE st r1.2 a).bind fun r2 => (asNum r2.1).bind fun m => .ok (.num (m + n), r2.2)
  | .mk alloc ga gb gn ea eb en =>
    (if gn then evalE st G en else .ok (.ptrS none, G)).bind fun r1 => (asPtrS r1.1).bind fun n =>
    (if gb then evalE st r1.2 eb else .ok (.num 0, r1.2)).bind fun r2 => (asNum r2.1).bind fun b =>
    (if ga then evalE st r2.2 ea else .ok (.num 0, r2.2)).bind fun r3 => (asNum r3.1).bind fun a =>
    if alloc then .ok (.ptrS (some r3.2.length), r3.2 ++ [.str a b n]) else .ok (.str a b n, r3.2)
  | .sel e f =>
    (evalE st G e).bind fun r => match r.1 with
      | .ptrS (some o) => (getStr r.2 o).bind fun s => .ok (fieldVal f s.1 s.2.1 s.2.2, r.2)
      | .ptrS none => .panic
      | .str a b n => .ok (fieldVal f a b n, r.2)
      | _ => .bad
  | .deref e =>
    (evalE st G e).bind fun r => match r.1 with
      | .ptrS (some o) => (getStr r.2 o).bind fun s => .ok (.str s.1 s.2.1 s.2.2, r.2)
      | .ptrS none => .panic
      | .ptrN o => (getCell r.2 o).bind fun v => .ok (.num v, r.2)
      | _ => .bad
  | .newN => .ok (.ptrN G.length, G ++ [.cell 0])
  | .make n =>
    (evalE st G n).bind fun r => (asNum r.1).bind fun k =>
    if k = 0 then .ok (.sl 0 0 0 0, r.2) else .ok (.sl r.2.length 0 k k, r.2 ++ [.arr (List.replicate k 0)])
  | .idx s i =>
    (evalE st G i).bind fun r1 => (asNum r1.1).bind fun k =>
    (evalE st r1.2 s).bind fun r2 => (asSl r2.1).bind fun sl =>
    if k < sl.2.2.1 then (getArr r2.2 sl.1).bind fun vs => (ofOpt vs[sl.2.1 + k]?).bind fun x => .ok (.num x, r2.2)
    else .panic
  | .len s => (evalE st G s).bind fun r => (asSl r.1).bind fun sl => .ok (.num sl.2.2.1, r.2)
  | .sub s a b =>
    (evalE st G b).bind fun r1 => (asNum r1.1).bind fun hi =>
    (evalE st r1.2 a).bind fun r2 => (asNum r2.1).bind fun lo =>
    (evalE st r2.2 s).bind fun r3 => (asSl r3.1).bind fun sl =>
    if lo ≤ hi ∧ hi ≤ sl.2.2.2 then .ok (.sl sl.1 (sl.2.1 + lo) (hi - lo) (sl.2.2.2 - lo), r3.2) else .panic
  | .take s b =>
    (evalE st G b).bind fun r1 => (asNum r1.1).bind fun hi =>
    (evalE st r1.2 s).bind fun r3 => (asSl r3.1).bind fun sl =>
    if hi ≤ sl.2.2.2 then .ok (.sl sl.1 sl.2.1 hi sl.2.2.2, r3.2) else .panic
  | .skip s a =>
    (evalE st G a).bind fun r2 => (asNum r2.1).bind fun lo =>
    (evalE st r2.2 s).bind fun r3 => (asSl r3.1).bind fun sl =>
    if lo ≤ sl.2.2.1 then .ok (.sl sl.1 (sl.2.1 + lo) (sl.2.2.1 - lo) (sl.2.2.2 - lo), r3.2) else .panic

/-- Overwrite the first binding of `x` in one scope. -/
def updScope (x : String) (v : Val) : Scope → Option Scope
  | [] => none
  | (y, w) :: sc =>
    if y = x then some ((y, v) :: sc)
    else match updScope x v sc with
      | some sc' => some ((y, w) :: sc')
      | none => none

/-- Overwrite the innermost binding of `x` (`none` if undeclared). -/
def updStk (x : String) (v : Val) : Stack → Option Stack
  | [] => none
  | sc :: st => match updScope x v sc with
    | some sc' => some (sc' :: st)
    | none => match updStk x v st with
      | some st' => some (sc :: st')
      | none => none

/-- Outcome of a statement (list): normal completion, or `return v`. -/
inductive Out where
  | normal (st : Stack) (G : GHeap)
  | returned (v : Val) (G : GHeap)
  deriving Repr, DecidableEq

/-- Leave a block: drop its scope. -/
def popOut : Res Out → Res Out
  | .ok (.normal st G) => .ok (.normal st.tail G)
  | r => r

def setObj (G : GHeap) (o : Nat) (x : Obj) : GHeap := G.set o x

mutual
def execStmt (st : Stack) (G : GHeap) : Stmt → Res Out
  | .define x e => (evalE st G e).bind fun r => .ok (.normal (bindStk x r.1 st) r.2)
  | .declare x e => (evalE st G e).bind fun r => .ok (.normal (bindStk x r.1 st) r.2)
  | .assign x e =>
    (evalE st G e).bind fun r => (ofOpt (lookStk x st)).bind fun old =>
    if old.ty = r.1.ty then (ofOpt (updStk x r.1 st)).bind fun st' => .ok (.normal st' r.2) else .bad
  | .storeF e f e' =>
    (evalE st G e').bind fun r1 => (evalE st r1.2 e).bind fun r2 => match r2.1 with
      | .ptrS (some o) =>
        (getStr r2.2 o).bind fun s => (setField f s.1 s.2.1 s.2.2 r1.1).bind fun s' =>
        .ok (.normal st (setObj r2.2 o (.str s'.1 s'.2.1 s'.2.2)))
      | .ptrS none => .panic
      | .str a b n => match e with
        | .var x =>
          (setField f a b n r1.1).bind fun s' => (ofOpt (updStk x (.str s'.1 s'.2.1 s'.2.2) st)).bind fun st' =>
          .ok (.normal st' r2.2)
        | _ => .bad
      | _ => .bad
  | .storeP e e' =>
    (evalE st G e').bind fun r1 => (evalE st r1.2 e).bind fun r2 => match r2.1, r1.1 with
      | .ptrS (some o), .str a b n => (getStr r2.2 o).bind fun _ => .ok (.normal st (setObj r2.2 o (.str a b n)))
      | .ptrS none, .str _ _ _ => .panic
      | .ptrN o, .num v => (getCell r2.2 o).bind fun _ => .ok (.normal st (setObj r2.2 o (.cell v)))
      | _, _ => .bad
  | .setIdx s i e' =>
    (evalE st G e').bind fun r0 => (asNum r0.1).bind fun x =>
    (evalE st r0.2 i).bind fun r1 => (asNum r1.1).bind fun k =>
    (evalE st r1.2 s).bind fun r2 => (asSl r2.1).bind fun sl =>
    if k < sl.2.2.1 then
      (getArr r2.2 sl.1).bind fun vs =>
      if sl.2.1 + k < vs.length then .ok (.normal st (setObj r2.2 sl.1 (.arr (vs.set (sl.2.1 + k) x)))) else .bad
    else .panic
  | .block b => popOut (execStmts ([] :: st) G b)
  | .ite c t e =>
    (evalE st G c).bind fun r => (asNum r.1).bind fun n =>
    if n = 0 then popOut (execStmts ([] :: st) r.2 e) else popOut (execStmts ([] :: st) r.2 t)
def execStmts (st : Stack) (G : GHeap) : Stmts → Res Out
  | .nil => .ok (.normal st G)
  | .ret e => (evalE st G e).bind fun r => .ok (.returned r.1 r.2)
  | .cons s rest => match execStmt st G s with
    | .ok (.normal st' G') => execStmts st' G' rest
    | r => r
end

/-- Go: run a function body from a state; the returned value and the final heap. -/
def runGoIn (st : Stack) (G : GHeap) (ss : Stmts) : Res (Val × GHeap) :=
  match execStmts st G ss with
  | .ok (.returned v G') => .ok (v, G')
  | .ok (.normal _ _) => .bad
  | .panic => .panic
  | .bad => .bad

def runGo (ss : Stmts) : Res (Val × GHeap) := runGoIn [[]] [] ss

/-! ## Target (GooseLang fragment) -/

inductive T where
  | lit (n : Nat)                          -- #n
  | var (x : String)                       -- "x"
  | add (a b : T)                          -- a + b
  | load (ty : Ty) (e : T)                 -- ![ty] e
  | store (ty : Ty) (d e : T)              -- d <-[ty] e
  /-- `struct.new T [ … ]` / `struct.mk T [ … ]`; only the fields flagged `ga gb gn` are printed and evaluated
  (the translator puts `#()` in the place of an omitted one) -/
  | mk (alloc : Bool) (ga gb gn : Bool) (a b n : T)
  | loadF (f : Fld) (e : T)                -- struct.loadF T "f" e
  | getF (f : Fld) (e : T)                 -- struct.get T "f" e
  | storeF (f : Fld) (p e : T)             -- struct.storeF T "f" p e
  | loadS (e : T)                          -- struct.load T e
  | storeS (p e : T)                       -- struct.store T p e
  | refZero                                -- ref (zero_val uint64T)
  | refTo (ty : Ty) (e : T)                -- ref_to ty e
  | newSlice (n : T)                       -- NewSlice uint64T n
  | sliceGet (s i : T)                     -- SliceGet uint64T s i
  | sliceSet (s i e : T)                   -- SliceSet uint64T s i e
  | sliceLen (s : T)                       -- slice.len s
  | subslice (s a b : T)                   -- SliceSubslice uint64T s a b
  | sliceTake (s b : T)                    -- SliceTake s b
  | sliceSkip (s a : T)                    -- SliceSkip uint64T s a
  | letIn (x : String) (e body : T)        -- let: "x" := e in body
  | seq (a b : T)                          -- (a);; b
  | ite (c a b : T)                        -- (if: c ≠ #0 then a else b)
  | unit                                   -- #()
  deriving Repr, DecidableEq, Inhabited

/-- What one heap cell holds. -/
inductive BVal where
  | num (n : Nat)
  | null
  | loc (b o : Nat)                        -- block `b`, offset `o`
  deriving Repr, DecidableEq, Inhabited

/-- GooseLang values of this fragment. -/
inductive TVal where
  | base (v : BVal)
  | str (a b n : BVal)                     -- (a, (b, (n, #())))
  | sl (p : BVal) (len cap : Nat)          -- (p, #len, #cap)
  | unit
  deriving Repr, DecidableEq, Inhabited

abbrev Env := List (String × TVal)
abbrev THeap := List (List BVal)

def Fld.off : Fld → Nat
  | .a => 0
  | .b => 1
  | .n => 2

def Ty.size : Ty → Nat
  | .str => 3
  | .sl => 3
  | _ => 1

/-- the cells a value of type `ty` occupies (`none`: the value does not have the shape of the type) -/
def flattenAs : Ty → TVal → Option (List BVal)
  | .str, .str a b n => some [a, b, n]
  | .sl, .sl p l c => some [p, .num l, .num c]
  | .u64, .base v => some [v]
  | .ptrT, .base v => some [v]
  | .ptrN, .base v => some [v]
  | _, _ => none

/-- `ref_to`/`ref`: the cells of any value -/
def flatten : TVal → List BVal
  | .base v => [v]
  | .str a b n => [a, b, n]
  | .sl p l c => [p, .num l, .num c]
  | .unit => []

def unflatten : Ty → List BVal → Option TVal
  | .str, [a, b, n] => some (.str a b n)
  | .sl, [p, .num l, .num c] => some (.sl p l c)
  | .u64, [v] => some (.base v)
  | .ptrT, [v] => some (.base v)
  | .ptrN, [v] => some (.base v)
  | _, _ => none

/-- the `n` cells from `(b, o)` on -/
def loadAt (H : THeap) (b o n : Nat) : Option (List BVal) :=
  match H[b]? with
  | some blk => if o + n ≤ blk.length then some ((blk.drop o).take n) else none
  | none => none

/-- overwrite the cells from `(b, o)` on -/
def storeAt (H : THeap) (b o : Nat) (cells : List BVal) : Option THeap :=
  match H[b]? with
  | some blk =>
    if o + cells.length ≤ blk.length then some (H.set b (blk.take o ++ cells ++ blk.drop (o + cells.length))) else none
  | none => none

def asLoc : TVal → Option (Nat × Nat)
  | .base (.loc b o) => some (b, o)
  | _ => none

def asNumT : TVal → Option Nat
  | .base (.num n) => some n
  | _ => none

def asBase : TVal → Option BVal
  | .base v => some v
  | _ => none

def asSlT : TVal → Option (BVal × Nat × Nat)
  | .sl p l c => some (p, l, c)
  | _ => none

def asStrT : TVal → Option (BVal × BVal × BVal)
  | .str a b n => some (a, b, n)
  | _ => none

def BVal.addOff : BVal → Nat → BVal
  | .loc b o, k => .loc b (o + k)
  | v, _ => v

def fieldT (f : Fld) (s : BVal × BVal × BVal) : BVal :=
  match f with
  | .a => s.1
  | .b => s.2.1
  | .n => s.2.2

/-- Environment semantics; `none` = stuck.  Blocks are allocated at the end of the heap and never freed;
operands right to left. -/
def evalT (env : Env) (H : THeap) : T → Option (TVal × THeap)
  | .lit n => some (.base (.num n), H)
  | .var x => (look x env).bind fun v => some (v, H)
  | .add a b =>
    (evalT env H b).bind fun r1 => (asNumT r1.1).bind fun n =>
    (evalT env r1.2 a).bind fun r2 => (asNumT r2.1).bind fun m => some (.base (.num (m + n)), r2.2)
  | .load ty e =>
    (evalT env H e).bind fun r => (asLoc r.1).bind fun l =>
    (loadAt r.2 l.1 l.2 ty.size).bind fun cells => (unflatten ty cells).bind fun v => some (v, r.2)
  | .store ty d e =>
    (evalT env H e).bind fun r1 => (evalT env r1.2 d).bind fun r2 => (asLoc r2.1).bind fun l =>
    (flattenAs ty r1.1).bind fun cells => (storeAt r2.2 l.1 l.2 cells).bind fun H' => some (.unit, H')
  | .mk alloc ga gb gn ta tb tn =>
    (if gn then evalT env H tn else some (.base .null, H)).bind fun r1 => (asBase r1.1).bind fun n =>
    (if gb then evalT env r1.2 tb else some (.base (.num 0), r1.2)).bind fun r2 => (asBase r2.1).bind fun b =>
    (if ga then evalT env r2.2 ta else some (.base (.num 0), r2.2)).bind fun r3 => (asBase r3.1).bind fun a =>
    if alloc then some (.base (.loc r3.2.length 0), r3.2 ++ [[a, b, n]]) else some (.str a b n, r3.2)
  | .loadF f e =>
    (evalT env H e).bind fun r => (asLoc r.1).bind fun l =>
    (loadAt r.2 l.1 (l.2 + f.off) 1).bind fun cells => (unflatten f.ty cells).bind fun v => some (v, r.2)
  | .getF f e => (evalT env H e).bind fun r => (asStrT r.1).bind fun s => some (.base (fieldT f s), r.2)
  | .storeF f p e =>
    (evalT env H e).bind fun r1 => (evalT env r1.2 p).bind fun r2 => (asLoc r2.1).bind fun l =>
    (flattenAs f.ty r1.1).bind fun cells => (storeAt r2.2 l.1 (l.2 + f.off) cells).bind fun H' => some (.unit, H')
  | .loadS e =>
    (evalT env H e).bind fun r => (asLoc r.1).bind fun l =>
    (loadAt r.2 l.1 l.2 3).bind fun cells => (unflatten .str cells).bind fun v => some (v, r.2)
  | .storeS p e =>
    (evalT env H e).bind fun r1 => (evalT env r1.2 p).bind fun r2 => (asLoc r2.1).bind fun l =>
    (flattenAs .str r1.1).bind fun cells => (storeAt r2.2 l.1 l.2 cells).bind fun H' => some (.unit, H')
  | .refZero => some (.base (.loc H.length 0), H ++ [[.num 0]])
  | .refTo _ e => (evalT env H e).bind fun r => some (.base (.loc r.2.length 0), r.2 ++ [flatten r.1])
  | .newSlice n =>
    (evalT env H n).bind fun r => (asNumT r.1).bind fun k =>
    if k = 0 then some (.sl .null 0 0, r.2)
    else some (.sl (.loc r.2.length 0) k k, r.2 ++ [List.replicate k (.num 0)])
  | .sliceGet s i =>
    (evalT env H i).bind fun r1 => (asNumT r1.1).bind fun k =>
    (evalT env r1.2 s).bind fun r2 => (asSlT r2.1).bind fun sl =>
    if k < sl.2.1 then
      (asLoc (.base (sl.1.addOff k))).bind fun l => (loadAt r2.2 l.1 l.2 1).bind fun cells =>
      (unflatten .u64 cells).bind fun v => some (v, r2.2)
    else none
  | .sliceSet s i e =>
    (evalT env H e).bind fun r0 => (evalT env r0.2 i).bind fun r1 => (asNumT r1.1).bind fun k =>
    (evalT env r1.2 s).bind fun r2 => (asSlT r2.1).bind fun sl =>
    if k < sl.2.1 then
      (asLoc (.base (sl.1.addOff k))).bind fun l => (flattenAs .u64 r0.1).bind fun cells =>
      (storeAt r2.2 l.1 l.2 cells).bind fun H' => some (.unit, H')
    else none
  | .sliceLen s => (evalT env H s).bind fun r => (asSlT r.1).bind fun sl => some (.base (.num sl.2.1), r.2)
  | .subslice s a b =>
    (evalT env H b).bind fun r1 => (asNumT r1.1).bind fun hi =>
    (evalT env r1.2 a).bind fun r2 => (asNumT r2.1).bind fun lo =>
    (evalT env r2.2 s).bind fun r3 => (asSlT r3.1).bind fun sl =>
    if lo ≤ hi ∧ hi ≤ sl.2.2 then some (.sl (sl.1.addOff lo) (hi - lo) (sl.2.2 - lo), r3.2) else none
  | .sliceTake s b =>
    (evalT env H b).bind fun r1 => (asNumT r1.1).bind fun hi =>
    (evalT env r1.2 s).bind fun r3 => (asSlT r3.1).bind fun sl =>
    if hi ≤ sl.2.2 then some (.sl sl.1 hi sl.2.2, r3.2) else none
  | .sliceSkip s a =>
    (evalT env H a).bind fun r2 => (asNumT r2.1).bind fun lo =>
    (evalT env r2.2 s).bind fun r3 => (asSlT r3.1).bind fun sl =>
    if lo ≤ sl.2.1 then some (.sl (sl.1.addOff lo) (sl.2.1 - lo) (sl.2.2 - lo), r3.2) else none
  | .letIn x e body => (evalT env H e).bind fun r => evalT ((x, r.1) :: env) r.2 body
  | .seq a b => (evalT env H a).bind fun r => evalT env r.2 b
  | .ite c a b =>
    (evalT env H c).bind fun r => (asNumT r.1).bind fun n => if n = 0 then evalT env r.2 b else evalT env r.2 a
  | .unit => some (.unit, H)

/-- Run a closed target program. -/
def runT (t : T) : Option (TVal × THeap) := evalT [] [] t

/-! ## Translator -/

/-- Static scope: name ↦ (pointer-wrapped?, type) — the type checker's resolution together with
`isPtrWrapped`. -/
abbrev SScope := List (String × Bool × Ty)
abbrev SEnv := List SScope

def Except.bind' {α β : Type} : Except String α → (α → Except String β) → Except String β
  | .ok a, f => f a
  | .error m, _ => .error m

def typeErr (what : String) : String := "type error: " ++ what

/-- succeed iff the types agree (what the Go type checker does before goose runs) -/
def expectTy (what : String) (want got : Ty) : Except String Unit :=
  if want = got then .ok () else .error (typeErr what)

def trE (Γ : SEnv) : Exp → Except String (T × Ty)
  | .lit n => .ok (.lit n, .u64)
  | .var x => match lookStk x Γ with
    | some (true, τ) => .ok (.load τ (.var x), τ)
    | some (false, τ) => .ok (.var x, τ)
    | none => .error ("undeclared name " ++ x)
  | .add a b =>
    Except.bind' (trE Γ a) fun ra => Except.bind' (expectTy "+" .u64 ra.2) fun _ =>
    Except.bind' (trE Γ b) fun rb => Except.bind' (expectTy "+" .u64 rb.2) fun _ => .ok (.add ra.1 rb.1, .u64)
  | .mk alloc ga gb gn ea eb en =>
    Except.bind' (if ga then trE Γ ea else .ok (.unit, .u64)) fun ra => Except.bind' (expectTy "field a" .u64 ra.2) fun _ =>
    Except.bind' (if gb then trE Γ eb else .ok (.unit, .u64)) fun rb => Except.bind' (expectTy "field b" .u64 rb.2) fun _ =>
    Except.bind' (if gn then trE Γ en else .ok (.unit, .ptrT)) fun rn => Except.bind' (expectTy "field n" .ptrT rn.2) fun _ =>
    .ok (.mk alloc ga gb gn ra.1 rb.1 rn.1, if alloc then .ptrT else .str)
  | .sel e f =>
    Except.bind' (trE Γ e) fun r => match r.2 with
      | .ptrT => .ok (.loadF f r.1, f.ty)
      | .str => .ok (.getF f r.1, f.ty)
      | _ => .error (typeErr "selector on a non-struct")
  | .deref e =>
    Except.bind' (trE Γ e) fun r => match r.2 with
      | .ptrT => .ok (.loadS r.1, .str)
      | .ptrN => .ok (.load .u64 r.1, .u64)
      | _ => .error (typeErr "dereference of a non-pointer")
  | .newN => .ok (.refZero, .ptrN)
  | .make n =>
    Except.bind' (trE Γ n) fun r => Except.bind' (expectTy "make" .u64 r.2) fun _ => .ok (.newSlice r.1, .sl)
  | .idx s i =>
    Except.bind' (trE Γ s) fun rs => Except.bind' (expectTy "index" .sl rs.2) fun _ =>
    Except.bind' (trE Γ i) fun ri => Except.bind' (expectTy "index" .u64 ri.2) fun _ => .ok (.sliceGet rs.1 ri.1, .u64)
  | .len s =>
    Except.bind' (trE Γ s) fun rs => Except.bind' (expectTy "len" .sl rs.2) fun _ => .ok (.sliceLen rs.1, .u64)
  | .sub s a b =>
    Except.bind' (trE Γ s) fun rs => Except.bind' (expectTy "slice" .sl rs.2) fun _ =>
    Except.bind' (trE Γ a) fun ra => Except.bind' (expectTy "slice" .u64 ra.2) fun _ =>
    Except.bind' (trE Γ b) fun rb => Except.bind' (expectTy "slice" .u64 rb.2) fun _ => .ok (.subslice rs.1 ra.1 rb.1, .sl)
  | .take s b =>
    Except.bind' (trE Γ s) fun rs => Except.bind' (expectTy "slice" .sl rs.2) fun _ =>
    Except.bind' (trE Γ b) fun rb => Except.bind' (expectTy "slice" .u64 rb.2) fun _ => .ok (.sliceTake rs.1 rb.1, .sl)
  | .skip s a =>
    Except.bind' (trE Γ s) fun rs => Except.bind' (expectTy "slice" .sl rs.2) fun _ =>
    Except.bind' (trE Γ a) fun ra => Except.bind' (expectTy "slice" .u64 ra.2) fun _ => .ok (.sliceSkip rs.1 ra.1, .sl)

/-- `coq.Binding`: what one statement contributes to the enclosing `BlockExpr`. -/
inductive Bind where
  | letIn (x : String) (wrapped : Bool) (ty : Ty) (e : T)
  | anon (e : T)
  deriving Repr, DecidableEq

def Bind.scope : Bind → SEnv → SEnv
  | .letIn x w τ _, Γ => bindStk x (w, τ) Γ
  | .anon _, Γ => Γ

/-- `Binding.AddTo` / `BlockExpr.Coq`: the LAST binding of a block is printed as its expression only. -/
def Bind.addTo : Bind → (last : Bool) → T → T
  | .letIn x _ _ e, _, r => .letIn x e r
  | .anon e, true, _ => e
  | .anon e, false, r => .seq e r

def msgNotAssignable (x : String) : String := "variable " ++ x ++ " is not assignable"
def msgRefOther : String := "reference to other types of expressions"
def msgLetBoundStore : String :=
  "model: store into a field of a let-bound struct value (goose accepts it: known finding store-through-let-bound-value)"

mutual
/-- `stmtInBlock` with usage `ExprValLocal`.  `guard = true`: the model's translator, which refuses the
store into a let-bound struct value; `guard = false`: goose as it is. -/
def trStmt (guard : Bool) (Γ : SEnv) : Stmt → Except String Bind
  | .define x e => Except.bind' (trE Γ e) fun r => .ok (.letIn x false r.2 r.1)
  | .declare x e => Except.bind' (trE Γ e) fun r => .ok (.letIn x true r.2 (.refTo r.2 r.1))
  | .assign x e =>
    Except.bind' (trE Γ e) fun r => match lookStk x Γ with
      | some (true, τ) => Except.bind' (expectTy "assignment" τ r.2) fun _ => .ok (.anon (.store τ (.var x) r.1))
      | some (false, _) => .error (msgNotAssignable x)
      | none => .error ("undeclared name " ++ x)
  | .storeF e f e' =>
    Except.bind' (trE Γ e') fun r' => Except.bind' (expectTy "field assignment" f.ty r'.2) fun _ =>
    Except.bind' (trE Γ e) fun r => match r.2 with
      | .ptrT => .ok (.anon (.storeF f r.1 r'.1))
      | .str => match e with
        | .var x => match lookStk x Γ with
          | some (false, _) => if guard then .error msgLetBoundStore else .ok (.anon (.storeF f (.var x) r'.1))
          | _ => .ok (.anon (.storeF f (.var x) r'.1))
        | _ => .error msgRefOther
      | _ => .error (typeErr "field assignment on a non-struct")
  | .storeP e e' =>
    Except.bind' (trE Γ e') fun r' => Except.bind' (trE Γ e) fun r => match r.2 with
      | .ptrT => Except.bind' (expectTy "store" .str r'.2) fun _ => .ok (.anon (.storeS r.1 r'.1))
      | .ptrN => Except.bind' (expectTy "store" .u64 r'.2) fun _ => .ok (.anon (.store .u64 r.1 r'.1))
      | _ => .error (typeErr "store through a non-pointer")
  | .setIdx s i e' =>
    Except.bind' (trE Γ e') fun r' => Except.bind' (expectTy "element" .u64 r'.2) fun _ =>
    Except.bind' (trE Γ s) fun rs => Except.bind' (expectTy "index" .sl rs.2) fun _ =>
    Except.bind' (trE Γ i) fun ri => Except.bind' (expectTy "index" .u64 ri.2) fun _ =>
    .ok (.anon (.sliceSet rs.1 ri.1 r'.1))
  | .block b => Except.bind' (trStmts guard false ([] :: Γ) b) fun t => .ok (.anon t)
  | .ite c t e =>
    Except.bind' (trE Γ c) fun rc => Except.bind' (expectTy "condition" .u64 rc.2) fun _ =>
    Except.bind' (trStmts guard false ([] :: Γ) t) fun tt =>
    Except.bind' (trStmts guard false ([] :: Γ) e) fun te => .ok (.anon (.ite rc.1 tt te))
/-- `stmts`. `top = true`: the function body, `top = false`: a nested block or branch. -/
def trStmts (guard : Bool) (top : Bool) (Γ : SEnv) : Stmts → Except String T
  | .nil => if top then .error "function body must end in return (model restriction)" else .ok .unit
  | .ret e =>
    if top then Except.bind' (trE Γ e) fun r => .ok r.1
    else .error "return inside a nested block (model restriction)"
  | .cons s rest =>
    Except.bind' (trStmt guard Γ s) fun b => Except.bind' (trStmts guard top (b.scope Γ) rest) fun r =>
    .ok (b.addTo rest.isNil r)
end

/-- The model's translator: a function body in the static environment `Γ`. -/
def tr (Γ : SEnv) (ss : Stmts) : Except String T := trStmts true true Γ ss

/-- goose as it is (accepts the store into a let-bound struct value). -/
def trGoose (Γ : SEnv) (ss : Stmts) : Except String T := trStmts false true Γ ss

def emptyEnv : SEnv := [[]]

/-- Translate and run from the empty state. `none`: rejected or stuck. -/
def runTr (ss : Stmts) : Option (TVal × THeap) :=
  match tr emptyEnv ss with
  | .ok t => runT t
  | .error _ => none

/-! ## Folding a result: the sum of everything reachable (both sides), for the correspondence check -/

def sumList : List Nat → Nat
  | [] => 0
  | x :: r => x + sumList r

/-- Go side: numbers as they are, structs and pointers to them two levels deep, slices element-wise. -/
def foldGo (G : GHeap) : Nat → Val → Nat
  | _, .num n => n
  | _, .ptrN o => match G[o]? with
    | some (.cell v) => v
    | _ => 0
  | _, .sl o off l _ => match G[o]? with
    | some (.arr vs) => sumList ((vs.drop off).take l)
    | _ => 0
  | 0, _ => 0
  | d + 1, .str a b n => a + b + foldGo G d (.ptrS n)
  | _, .ptrS none => 0
  | d + 1, .ptrS (some o) => match G[o]? with
    | some (.str a b n) => a + b + foldGo G d (.ptrS n)
    | _ => 0

def numOf : BVal → Nat
  | .num n => n
  | _ => 0

/-- Target side, the same fold over the flattened heap. -/
def foldT (H : THeap) : Nat → TVal → Nat
  | _, .base (.num n) => n
  | _, .base .null => 0
  | _, .unit => 0
  | _, .sl (.loc b o) l _ => match H[b]? with
    | some blk => sumList (((blk.drop o).take l).map numOf)
    | none => 0
  | _, .sl _ _ _ => 0
  | 0, _ => 0
  | d + 1, .str a b n => numOf a + numOf b + foldT H d (.base n)
  | d + 1, .base (.loc b o) => match H[b]? with
    | some [x] => if o = 0 then numOf x else 0
    | some [x, y, z] => if o = 0 then numOf x + numOf y + foldT H d (.base z) else 0
    | _ => 0

/-! ## Line protocol

Token syntax (space-separated tokens, prefix):

  F  ::= _ | E                                    an omitted / a given literal field
  E  ::= <digits> | <name> | + E E
       | &T F F F                                 &T{a: F, b: F, n: F}
       | T F F F                                  T{a: F, b: F, n: F}
       | . E a | . E b | . E n                    E.a  E.b  E.n
       | * E                                      *E
       | new                                      new(uint64)
       | make E                                   make([]uint64, E)
       | idx E E                                  E[E]
       | len E                                    uint64(len(E))
       | sub E E E | take E E | skip E E          s[a:b]  s[:b]  s[a:]
  S  ::= def <name> E                             x := E
       | var <name> E                             var x τ = E
       | set <name> E                             x = E
       | setf E (a|b|n) E                         E.f = E
       | setp E E                                 *E = E
       | seti E E E                               E[E] = E
       | blk [ SS ]
       | if E [ SS ] [ SS ]                       if E != 0 { SS } else { SS }
  SS ::= ε | ret E | S | S ; SS

`run toks` prints what goose emits for the body, in the canonical rendering of `GooseVerif.GL.Expr.canon`
(see `T.canon`), prefixed with `known store-through-let-bound-value ` when only `trGoose` accepts;
`error <message-with-dashes>` when goose rejects; `error parse` for a bad token list.
`runGoToks toks` prints Go's answer: the fold of the returned value (`foldGo`, depth 3), `panicked`, or `none`.
`runTToks toks` prints the fold of what the model's target semantics computes from `trGoose`'s output, or `stuck`.
-/

def isNumTok (s : String) : Bool := !s.isEmpty && s.all Char.isDigit

def reserved : List String :=
  [";", "[", "]", "+", "_", "&T", "T", ".", "*", "new", "make", "idx", "len", "sub", "take", "skip",
   "def", "var", "set", "setf", "setp", "seti", "blk", "if", "ret"]

def parseFld : String → Option Fld
  | "a" => some .a
  | "b" => some .b
  | "n" => some .n
  | _ => none

mutual
def parseE : Nat → List String → Option (Exp × List String)
  | 0, _ => none
  | _ + 1, [] => none
  | f + 1, "+" :: r =>
    match parseE f r with
    | some (a, r1) => match parseE f r1 with
      | some (b, r2) => some (.add a b, r2)
      | none => none
    | none => none
  | f + 1, "&T" :: r => match parseF f r with
    | some ((ga, a), r1) => match parseF f r1 with
      | some ((gb, b), r2) => match parseF f r2 with
        | some ((gn, n), r3) => some (.mk true ga gb gn a b n, r3)
        | none => none
      | none => none
    | none => none
  | f + 1, "T" :: r => match parseF f r with
    | some ((ga, a), r1) => match parseF f r1 with
      | some ((gb, b), r2) => match parseF f r2 with
        | some ((gn, n), r3) => some (.mk false ga gb gn a b n, r3)
        | none => none
      | none => none
    | none => none
  | f + 1, "." :: r => match parseE f r with
    | some (e, fl :: r1) => match parseFld fl with
      | some fd => some (.sel e fd, r1)
      | none => none
    | _ => none
  | f + 1, "*" :: r => match parseE f r with
    | some (e, r1) => some (.deref e, r1)
    | none => none
  | _ + 1, "new" :: r => some (.newN, r)
  | f + 1, "make" :: r => match parseE f r with
    | some (e, r1) => some (.make e, r1)
    | none => none
  | f + 1, "idx" :: r => match parseE f r with
    | some (s, r1) => match parseE f r1 with
      | some (i, r2) => some (.idx s i, r2)
      | none => none
    | none => none
  | f + 1, "len" :: r => match parseE f r with
    | some (e, r1) => some (.len e, r1)
    | none => none
  | f + 1, "sub" :: r => match parseE f r with
    | some (s, r1) => match parseE f r1 with
      | some (a, r2) => match parseE f r2 with
        | some (b, r3) => some (.sub s a b, r3)
        | none => none
      | none => none
    | none => none
  | f + 1, "take" :: r => match parseE f r with
    | some (s, r1) => match parseE f r1 with
      | some (b, r2) => some (.take s b, r2)
      | none => none
    | none => none
  | f + 1, "skip" :: r => match parseE f r with
    | some (s, r1) => match parseE f r1 with
      | some (a, r2) => some (.skip s a, r2)
      | none => none
    | none => none
  | _ + 1, tok :: r =>
    if isNumTok tok then some (.lit tok.toNat!, r)
    else if reserved.contains tok then none
    else some (.var tok, r)
def parseF : Nat → List String → Option ((Bool × Exp) × List String)
  | 0, _ => none
  | _ + 1, "_" :: r => some ((false, .lit 0), r)
  | f + 1, toks => match parseE f toks with
    | some (e, r) => some ((true, e), r)
    | none => none
end

mutual
def parseS : Nat → List String → Option (Stmt × List String)
  | 0, _ => none
  | f + 1, "def" :: x :: r => match parseE f r with
    | some (e, r1) => if reserved.contains x then none else some (.define x e, r1)
    | none => none
  | f + 1, "var" :: x :: r => match parseE f r with
    | some (e, r1) => if reserved.contains x then none else some (.declare x e, r1)
    | none => none
  | f + 1, "set" :: x :: r => match parseE f r with
    | some (e, r1) => if reserved.contains x then none else some (.assign x e, r1)
    | none => none
  | f + 1, "setf" :: r => match parseE f r with
    | some (e, fl :: r1) => match parseFld fl, parseE f r1 with
      | some fd, some (e', r2) => some (.storeF e fd e', r2)
      | _, _ => none
    | _ => none
  | f + 1, "setp" :: r => match parseE f r with
    | some (e, r1) => match parseE f r1 with
      | some (e', r2) => some (.storeP e e', r2)
      | none => none
    | none => none
  | f + 1, "seti" :: r => match parseE f r with
    | some (s, r1) => match parseE f r1 with
      | some (i, r2) => match parseE f r2 with
        | some (e', r3) => some (.setIdx s i e', r3)
        | none => none
      | none => none
    | none => none
  | f + 1, "blk" :: "[" :: r => match parseSS f r with
    | some (b, "]" :: r1) => some (.block b, r1)
    | _ => none
  | f + 1, "if" :: r => match parseE f r with
    | some (c, "[" :: r1) => match parseSS f r1 with
      | some (t, "]" :: "[" :: r2) => match parseSS f r2 with
        | some (e, "]" :: r3) => some (.ite c t e, r3)
        | _ => none
      | _ => none
    | _ => none
  | _ + 1, _ => none
def parseSS : Nat → List String → Option (Stmts × List String)
  | 0, _ => none
  | _ + 1, [] => some (.nil, [])
  | _ + 1, "]" :: r => some (.nil, "]" :: r)
  | f + 1, "ret" :: r => match parseE f r with
    | some (e, r1) => some (.ret e, r1)
    | none => none
  | f + 1, toks => match parseS f toks with
    | some (s, ";" :: r1) => match parseSS f r1 with
      | some (ss, r2) => some (.cons s ss, r2)
      | none => none
    | some (s, r1) => some (.cons s .nil, r1)
    | none => none
end

def parse (toks : List String) : Option Stmts :=
  match parseSS (toks.length + 1) toks with
  | some (ss, []) => some ss
  | _ => none

def hexStr (s : String) : String :=
  let hexd (n : Nat) : Char := if n < 10 then Char.ofNat (48 + n) else Char.ofNat (87 + n)
  String.ofList (s.toList.flatMap (fun c => let n := c.toNat % 256; [hexd (n / 16), hexd (n % 16)]))

def Ty.canon : Ty → String
  | .u64 => "(g uint64T)"
  | .ptrT => "(g ptrT)"
  | .ptrN => "(g ptrT)"
  | .str => "(app (g struct.t) (g T))"
  | .sl => "(app (g slice.T) (g uint64T))"

def Fld.name : Fld → String
  | .a => "a"
  | .b => "b"
  | .n => "n"

def Fld.canon (f : Fld) : String := "(var " ++ hexStr f.name ++ ")"

def app (f : String) (args : List String) : String := "(app (g " ++ f ++ ") " ++ " ".intercalate args ++ ")"

def T.canon : T → String
  | .lit n => "(lit u64:" ++ toString n ++ ")"
  | .var x => "(var " ++ hexStr x ++ ")"
  | .add a b => "(bin 2b " ++ a.canon ++ " " ++ b.canon ++ ")"
  | .load ty e => "(load " ++ ty.canon ++ " " ++ e.canon ++ ")"
  | .store ty d e => "(store " ++ d.canon ++ " " ++ ty.canon ++ " " ++ e.canon ++ ")"
  | .mk alloc ga gb gn a b n =>
    let fs := (if ga then ["(" ++ hexStr "a" ++ " " ++ a.canon ++ ")"] else []) ++
              (if gb then ["(" ++ hexStr "b" ++ " " ++ b.canon ++ ")"] else []) ++
              (if gn then ["(" ++ hexStr "n" ++ " " ++ n.canon ++ ")"] else [])
    app (if alloc then "struct.new" else "struct.mk")
      ["(g T)", if fs.isEmpty then "(list )" else "(fields " ++ " ".intercalate fs ++ ")"]
  | .loadF f e => app "struct.loadF" ["(g T)", f.canon, e.canon]
  | .getF f e => app "struct.get" ["(g T)", f.canon, e.canon]
  | .storeF f p e => app "struct.storeF" ["(g T)", f.canon, p.canon, e.canon]
  | .loadS e => app "struct.load" ["(g T)", e.canon]
  | .storeS p e => app "struct.store" ["(g T)", p.canon, e.canon]
  | .refZero => app "ref" [app "zero_val" ["(g uint64T)"]]
  | .refTo ty e => app "ref_to" [ty.canon, e.canon]
  | .newSlice n => app "NewSlice" ["(g uint64T)", n.canon]
  | .sliceGet s i => app "SliceGet" ["(g uint64T)", s.canon, i.canon]
  | .sliceSet s i e => app "SliceSet" ["(g uint64T)", s.canon, i.canon, e.canon]
  | .sliceLen s => app "slice.len" [s.canon]
  | .subslice s a b => app "SliceSubslice" ["(g uint64T)", s.canon, a.canon, b.canon]
  | .sliceTake s b => app "SliceTake" [s.canon, b.canon]
  | .sliceSkip s a => app "SliceSkip" ["(g uint64T)", s.canon, a.canon]
  | .letIn x e b => "(let [" ++ hexStr x ++ "] " ++ e.canon ++ " " ++ b.canon ++ ")"
  | .seq a b => "(seq " ++ a.canon ++ " " ++ b.canon ++ ")"
  | .ite c a b => "(if (bin " ++ hexStr "≠" ++ " " ++ c.canon ++ " (lit u64:0)) " ++ a.canon ++ " " ++ b.canon ++ ")"
  | .unit => "(lit unit)"

def dashes (m : String) : String := String.ofList (m.toList.map (fun c => if c = ' ' then '-' else c))

def run (toks : List String) : String :=
  match parse toks with
  | none => "error parse"
  | some ss =>
    match trGoose emptyEnv ss with
    | .error m => "error " ++ dashes m
    | .ok t =>
      match tr emptyEnv ss with
      | .ok _ => t.canon
      | .error _ => "known store-through-let-bound-value " ++ t.canon

def runGoToks (toks : List String) : String :=
  match parse toks with
  | none => "error parse"
  | some ss =>
    match runGo ss with
    | .ok (v, G) => toString (foldGo G 3 v)
    | .panic => "panicked"
    | .bad => "none"

def runTToks (toks : List String) : String :=
  match parse toks with
  | none => "error parse"
  | some ss =>
    match trGoose emptyEnv ss with
    | .error m => "error " ++ dashes m
    | .ok t =>
      match runT t with
      | some (v, H) => toString (foldT H 3 v)
      | none => "stuck"

/-! ## Values only (for statements without existential witnesses) -/

/-- the value Go returns (`none`: panic, or not well-typed) -/
def goVal (ss : Stmts) : Option Val :=
  match runGo ss with
  | .ok (v, _) => some v
  | _ => none

/-- the value a closed target expression evaluates to (`none`: stuck) -/
def runTVal (t : T) : Option TVal := (runT t).map (·.1)

/-- the value of the translation (`none`: rejected or stuck) -/
def trVal (ss : Stmts) : Option TVal := (runTr ss).map (·.1)

/-! ## Example programs (used by `Props/C01Heap.lean`) -/

def seqS : List Stmt → Stmts → Stmts
  | [], r => r
  | s :: ss, r => .cons s (seqS ss r)

/-- `&T{a: a, b: b}` -/
def newT (a b : Exp) : Exp := .mk true true true false a b (.lit 0)
/-- `T{a: a, b: b}` -/
def valT (a b : Exp) : Exp := .mk false true true false a b (.lit 0)

/-- `p := &T{a: 1, b: 2}; q := p; r := &T{a: 1, b: 2}; p.a = k; return T{a: q.a, b: r.a}`
    (q aliases p, r does not) -/
def exAlias (k : Nat) : Stmts :=
  seqS [.define "p" (newT (.lit 1) (.lit 2)), .define "q" (.var "p"), .define "r" (newT (.lit 1) (.lit 2)),
        .storeF (.var "p") .a (.lit k)]
    (.ret (valT (.sel (.var "q") .a) (.sel (.var "r") .a)))

/-- `var v T = T{a: a, b: b}; var w T = v; w.a = k; return T{a: v.a, b: w.a}` -/
def exCopyVar (a b k : Nat) : Stmts :=
  seqS [.declare "v" (valT (.lit a) (.lit b)), .declare "w" (.var "v"), .storeF (.var "w") .a (.lit k)]
    (.ret (valT (.sel (.var "v") .a) (.sel (.var "w") .a)))

/-- `p := &T{a: a, b: b}; w := *p; p.a = k; return T{a: p.a, b: w.a}` (`*p` copies the struct out) -/
def exCopyDeref (a b k : Nat) : Stmts :=
  seqS [.define "p" (newT (.lit a) (.lit b)), .define "w" (.deref (.var "p")), .storeF (.var "p") .a (.lit k)]
    (.ret (valT (.sel (.var "p") .a) (.sel (.var "w") .a)))

/-- `p := &T{a: a, b: b}; q := &T{a: 0, b: 0}; *q = *p; q.a = k; return T{a: p.a, b: q.a}` -/
def exCopyStore (a b k : Nat) : Stmts :=
  seqS [.define "p" (newT (.lit a) (.lit b)), .define "q" (newT (.lit 0) (.lit 0)),
        .storeP (.var "q") (.deref (.var "p")), .storeF (.var "q") .a (.lit k)]
    (.ret (valT (.sel (.var "p") .a) (.sel (.var "q") .a)))

/-- `s := make([]uint64, 5); t := s[1:4]; t[1] = 7; return s[j]` -/
def exSubslice (j : Nat) : Stmts :=
  seqS [.define "s" (.make (.lit 5)), .define "t" (.sub (.var "s") (.lit 1) (.lit 4)),
        .setIdx (.var "t") (.lit 1) (.lit 7)]
    (.ret (.idx (.var "s") (.lit j)))

/-- `s := make([]uint64, 5); t := s[2:]; u := t[:2]; u[1] = 7; return s`  (skip, then take: index 2 + 1) -/
def exSubsliceWhole : Stmts :=
  seqS [.define "s" (.make (.lit 5)), .define "t" (.skip (.var "s") (.lit 2)),
        .define "u" (.take (.var "t") (.lit 2)), .setIdx (.var "u") (.lit 1) (.lit 7)]
    (.ret (.var "s"))

/-- `p := &T{a: 1, b: 2}; c := new(uint64); s := make([]uint64, 2); q := &T{a: 1, b: 2}; q.a = 5; *c = 6; s[0] = 7;
    return T{a: p.a, b: p.b}` -/
def exFresh : Stmts :=
  seqS [.define "p" (newT (.lit 1) (.lit 2)), .define "c" .newN, .define "s" (.make (.lit 2)),
        .define "q" (newT (.lit 1) (.lit 2)), .storeF (.var "q") .a (.lit 5), .storeP (.var "c") (.lit 6),
        .setIdx (.var "s") (.lit 0) (.lit 7)]
    (.ret (valT (.sel (.var "p") .a) (.sel (.var "p") .b)))

/-- `q := &T{a: 2}; p := &T{a: 1, n: q}; var r *T = p; r.n.a = 7; { r := &T{}; r.a = 9 }; return T{a: q.a, b: r.a, n: p.n}`
    (a linked structure, a `var` pointer, a shadowing block) -/
def exLinked : Stmts :=
  seqS [.define "q" (.mk true true false false (.lit 2) (.lit 0) (.lit 0)),
        .define "p" (.mk true true false true (.lit 1) (.lit 0) (.var "q")),
        .declare "r" (.var "p"),
        .storeF (.sel (.var "r") .n) .a (.lit 7),
        .block (seqS [.define "r" (.mk true false false false (.lit 0) (.lit 0) (.lit 0)),
                      .storeF (.var "r") .a (.lit 9)] .nil)]
    (.ret (.mk false true true true (.sel (.var "q") .a) (.sel (.var "r") .a) (.sel (.var "p") .n)))

/-- `v := T{a: 1, b: 2}; v.a = 5; return v.a` — accepted by goose, refused by the model -/
def exLetStore : Stmts :=
  seqS [.define "v" (valT (.lit 1) (.lit 2)), .storeF (.var "v") .a (.lit 5)] (.ret (.sel (.var "v") .a))

/-- `var v T = T{a: 1, b: 2}; v.a = 5; return v.a` -/
def exVarStore : Stmts :=
  seqS [.declare "v" (valT (.lit 1) (.lit 2)), .storeF (.var "v") .a (.lit 5)] (.ret (.sel (.var "v") .a))

/-- `p := &T{a: 1, b: 2}; *p = T{a: 3, b: 4}; return p.b` -/
def exStoreWhole : Stmts :=
  seqS [.define "p" (newT (.lit 1) (.lit 2)), .storeP (.var "p") (valT (.lit 3) (.lit 4))] (.ret (.sel (.var "p") .b))

/-- `s := make([]uint64, 3); s[1] = 7; t := s[1:3]; return t[0]` -/
def exSubRead : Stmts :=
  seqS [.define "s" (.make (.lit 3)), .setIdx (.var "s") (.lit 1) (.lit 7),
        .define "t" (.sub (.var "s") (.lit 1) (.lit 3))]
    (.ret (.idx (.var "t") (.lit 0)))

/-- `p := &T{a: 1}; (*p).a = 2; return p.a` — goose: "reference to other types of expressions" -/
def exDerefStore : Stmts :=
  seqS [.define "p" (newT (.lit 1) (.lit 0)), .storeF (.deref (.var "p")) .a (.lit 2)] (.ret (.sel (.var "p") .a))

/-- `p := &T{}; return p.n.a` (nil dereference) and `s := make([]uint64, 2); return s[2]` -/
def exNilDeref : Stmts :=
  seqS [.define "p" (.mk true false false false (.lit 0) (.lit 0) (.lit 0))] (.ret (.sel (.sel (.var "p") .n) .a))
def exOutOfRange : Stmts :=
  seqS [.define "s" (.make (.lit 2))] (.ret (.idx (.var "s") (.lit 2)))

end GooseVerif.Model.Heap
