/-
Models for C06 / C07:
* `Workers`: `TranslatePackages` starts one goroutine per package; goroutine `i` computes
  `translatePackage pkgs[i]` (a function of that package alone) and writes slot `i` of two
  pre-allocated slices; the caller waits for all of them. A schedule is any order in which the
  workers' writes happen.
* `collectErrors`: the first loop of `Ctx.Decls` appends the error of every declaration that
  fails, in file/declaration order, and goes on.
Core Lean only.
-/
namespace GooseVerif.Model.Workers

/-- The slots after the workers listed in `sched` (in that order, possibly with repetitions —
a worker that runs twice writes the same value) have written. -/
def runSched {α β : Type} (f : α → β) (inputs : List α) (sched : List Nat) (slots : List (Option β)) : List (Option β) :=
  sched.foldl (fun s i => match inputs[i]? with
    | some x => s.set i (some (f x))
    | none => s) slots

def initSlots {β : Type} (n : Nat) : List (Option β) := List.replicate n none

/-- per-declaration translation result -/
structure DeclResult where
  err : Option String          -- the conversion error, if the declaration failed
  out : List String            -- the Coq declarations it produced (empty on failure)
  deriving Repr

/-- errors reported for a package: every failing declaration, in order -/
def collectErrors (files : List (List DeclResult)) : List String :=
  (files.flatten).filterMap (·.err)

end GooseVerif.Model.Workers
