/-
Model of package-level variables (`var g T = init`): Go's semantics (the initialiser is evaluated
once, when the package is initialised; every use sees that one value), the semantics of goose's
translation (`Definition g : expr := <init>`, and every use of `g` is that definition, so the
initialiser is evaluated again at every use), and the guard `holdsReference` of `globalVarDecl` in
`/repo/goose.go` that rejects the globals on which the two could differ.

Core Lean only, total and executable.
-/
namespace GooseVerif.Model.Global

/-- Types of globals: a number (any type without references: integers, booleans, strings), a
reference type (pointer, slice, map, channel, function, interface) to something, a struct, an
array. -/
inductive Ty
  | num
  | ref (elem : Ty)
  | struct (fields : List Ty)
  | array (len : Nat) (elem : Ty)
  deriving Repr

mutual
/-- equality of types, decided (`Lemmas/Global.lean`: `Ty.beq t t' = true ↔ t = t'`) -/
def Ty.beq : Ty → Ty → Bool
  | .num, .num => true
  | .ref a, .ref b => Ty.beq a b
  | .struct fs, .struct gs => Ty.beqList fs gs
  | .array n a, .array m b => n == m && Ty.beq a b
  | _, _ => false
termination_by structural t => t
def Ty.beqList : List Ty → List Ty → Bool
  | [], [] => true
  | f :: fs, g :: gs => Ty.beq f g && Ty.beqList fs gs
  | _, _ => false
termination_by structural ts => ts
end

mutual
/-- Mirror of `holdsReference` in `/repo/goose.go`: the type is or contains (through struct fields
and array elements) a reference type.  As in the Go code an array counts by its element type alone,
whatever its length. -/
def holdsReference : Ty → Bool
  | .num => false
  | .ref _ => true
  | .struct fs => holdsReferenceList fs
  | .array _ e => holdsReference e
termination_by structural t => t
/-- the loop over the fields of a struct: some field holds a reference -/
def holdsReferenceList : List Ty → Bool
  | [] => false
  | f :: fs => holdsReference f || holdsReferenceList fs
termination_by structural ts => ts
end

/-- Initialiser expressions: a constant, an allocation of a fresh cell initialised with the value
of `e` (`new(T)`, `&S{…}`, `make(…)`, `new(sync.Mutex)`), a struct literal, an array literal. -/
inductive Init
  | lit (n : Nat)
  | alloc (e : Init)
  | mk (fields : List Init)
  | arr (elems : List Init)
  deriving Repr

/-- element type of an array literal: the type of its first element, `num` when there is none -/
def headTy : List Ty → Ty
  | [] => .num
  | t :: _ => t

mutual
/-- The type of an initialiser.  An array literal takes the type of its FIRST element (`num` when
it is empty); `Init.wellTyped` says that the other elements have that type too. -/
def Init.ty : Init → Ty
  | .lit _ => .num
  | .alloc e => .ref e.ty
  | .mk fs => .struct (Init.tyList fs)
  | .arr es => .array es.length (headTy (Init.tyList es))
termination_by structural e => e
def Init.tyList : List Init → List Ty
  | [] => []
  | e :: es => e.ty :: Init.tyList es
termination_by structural es => es
end

/-- all the types are the first one -/
def sameTys : List Ty → Bool
  | [] => true
  | t :: ts => ts.all (fun t' => Ty.beq t' t)

mutual
/-- What Go's type checker guarantees and `Init.ty` does not express: all the elements of an array
literal have one type (everywhere inside the initialiser). -/
def Init.wellTyped : Init → Bool
  | .lit _ => true
  | .alloc e => e.wellTyped
  | .mk fs => Init.wellTypedList fs
  | .arr es => Init.wellTypedList es && sameTys (Init.tyList es)
termination_by structural e => e
def Init.wellTypedList : List Init → Bool
  | [] => true
  | e :: es => e.wellTyped && Init.wellTypedList es
termination_by structural es => es
end

/-- Values: a number, the location of a heap cell, a tuple (the value of a struct or an array). -/
inductive Val
  | num (n : Nat)
  | loc (l : Nat)
  | tuple (vs : List Val)
  deriving Repr

/-- the heap: cell `l` is the `l`-th element; an allocation appends -/
abbrev Heap := List Val

mutual
/-- Evaluate an initialiser in a heap: the value and the heap after the allocations.  `alloc e`
evaluates `e`, then appends a cell holding its value; the new location is the length of the heap
before the append.  Struct and array literals evaluate their components left to right. -/
def Init.eval : Init → Heap → Val × Heap
  | .lit n, h => (.num n, h)
  | .alloc e, h => (.loc (e.eval h).2.length, (e.eval h).2 ++ [(e.eval h).1])
  | .mk fs, h => (.tuple (Init.evalList fs h).1, (Init.evalList fs h).2)
  | .arr es, h => (.tuple (Init.evalList es h).1, (Init.evalList es h).2)
termination_by structural e => e
def Init.evalList : List Init → Heap → List Val × Heap
  | [], h => ([], h)
  | e :: es, h =>
    ((e.eval h).1 :: (Init.evalList es (e.eval h).2).1, (Init.evalList es (e.eval h).2).2)
termination_by structural es => es
end

/-- the component of a (nested) tuple a path selects; `none` when the path leaves the value -/
def Val.sel : Val → List Nat → Option Val
  | v, [] => some v
  | .tuple vs, i :: p =>
    match vs[i]? with
    | some v => v.sel p
    | none => none
  | .num _, _ :: _ => none
  | .loc _, _ :: _ => none

/-- Uses of the global inside functions, on a path into its value: read the number found there;
store the number `n` into the cell whose location is found there; load the number stored in the
cell whose location is found there. -/
inductive Use
  | readNum (path : List Nat)
  | store (path : List Nat) (n : Nat)
  | load (path : List Nat)
  deriving Repr, DecidableEq

/-- One use against the value `v` of the global in the heap `h`: what is observed, and the heap
afterwards.  `readNum` and `load` observe the number; `store` observes the number it wrote.  `none`
(and an unchanged heap) when the path does not lead to the right kind of value, the location is not
allocated, or the cell does not hold a number. -/
def Use.step (v : Val) (h : Heap) : Use → Option Nat × Heap
  | .readNum p =>
    match v.sel p with
    | some (.num n) => (some n, h)
    | _ => (none, h)
  | .store p n =>
    match v.sel p with
    | some (.loc l) => if l < h.length then (some n, h.set l (.num n)) else (none, h)
    | _ => (none, h)
  | .load p =>
    match v.sel p with
    | some (.loc l) =>
      match h[l]? with
      | some (.num n) => (some n, h)
      | _ => (none, h)
    | _ => (none, h)

/-- the uses, one after the other, against ONE value of the global and the evolving heap -/
def runFrom (v : Val) : Heap → List Use → List (Option Nat)
  | _, [] => []
  | h, u :: us => (u.step v h).1 :: runFrom v (u.step v h).2 us

/-- Go: the initialiser is evaluated once, in the empty heap; all the uses see that value. -/
def runGo (init : Init) (us : List Use) : List (Option Nat) :=
  runFrom (init.eval []).1 (init.eval []).2 us

/-- the uses, one after the other, the initialiser evaluated again (in the current heap, allocating
fresh cells) before EVERY use, which is performed against that fresh value -/
def runGooseFrom (init : Init) : Heap → List Use → List (Option Nat)
  | _, [] => []
  | h, u :: us =>
    (u.step (init.eval h).1 (init.eval h).2).1 ::
      runGooseFrom init (u.step (init.eval h).1 (init.eval h).2).2 us

/-- goose: `Definition g : expr := <init>`, every use of `g` is that expression. -/
def runGoose (init : Init) (us : List Use) : List (Option Nat) :=
  runGooseFrom init [] us

end GooseVerif.Model.Global
