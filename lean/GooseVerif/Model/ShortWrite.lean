/-
Model of the retry loop of `FileDisk.Write` (machine/disk/file.go) over an operating system that may cut any `pwrite` short.

`unix.Pwrite(fd, v[n:], off+n)` answers with an error or with a count `k` of bytes it transferred, `0 ≤ k ≤ len(v)-n`; a short
count is NOT an error (file-size limit, full device, signal).  The loop of `Write` retries the rest at the advanced offset and
panics on an error or on a count of zero.  The file is a function from byte offsets to bytes (a sparse file has every offset).
The schedule of answers is the adversary: the theorems quantify over every list of answers.
-/
namespace GooseVerif.Model.ShortWrite

abbrev Byte := UInt8
abbrev File := Nat → Byte

/-- One answer of the kernel to a `pwrite`. -/
inductive Ans where
  | err
  | wrote (k : Nat)
  deriving Repr, DecidableEq

/-- Bytes an answer reports as transferred. -/
def Ans.count : Ans → Nat
  | .err => 0
  | .wrote k => k

/-- Effect of `pwrite(fd, v[n:], off+n)` that transferred `k` bytes: byte `j` of `v[n:]` lands at offset `off+n+j`. -/
def pwriteAt (f : File) (v : List Byte) (off n k : Nat) : File :=
  fun i => if off + n ≤ i ∧ i < off + n + k then v.getD (i - off) 0 else f i

inductive Out where
  | ok (f : File)
  | panic (f : File)

def Out.file : Out → File
  | .ok f => f
  | .panic f => f

/-- The loop `for n := 0; n < len(v); { k, err := Pwrite(fd, v[n:], off+int64(n)); …; n += k }`.
`none`: the schedule ran out while the loop was still running.  The kernel never transfers more than it was given: `k` is clipped. -/
def writeLoop (v : List Byte) (off : Nat) : File → Nat → List Ans → Option Out
  | f, n, as =>
    if v.length ≤ n then some (.ok f) else
    match as with
    | [] => none
    | .err :: _ => some (.panic f)
    | .wrote k :: rest =>
      let k' := min k (v.length - n)
      if k' = 0 then some (.panic f)
      else writeLoop v off (pwriteAt f v off n k') (n + k') rest

/-- The loop as it stood with the offset not advanced (`Pwrite(fd, v[n:], off)`): kept for the contrast example. -/
def pwriteAtStart (f : File) (v : List Byte) (off n k : Nat) : File :=
  fun i => if off ≤ i ∧ i < off + k then v.getD (n + (i - off)) 0 else f i

def writeLoopNoAdvance (v : List Byte) (off : Nat) : File → Nat → List Ans → Option Out
  | f, n, as =>
    if v.length ≤ n then some (.ok f) else
    match as with
    | [] => none
    | .err :: _ => some (.panic f)
    | .wrote k :: rest =>
      let k' := min k (v.length - n)
      if k' = 0 then some (.panic f)
      else writeLoopNoAdvance v off (pwriteAtStart f v off n k') (n + k') rest

/-- What the register array says the file is after `Write`: the block at `off`, everything else as before. -/
def written (f : File) (v : List Byte) (off : Nat) : File :=
  fun i => if off ≤ i ∧ i < off + v.length then v.getD (i - off) 0 else f i

/-- Invariant of the loop: the first `n` bytes of the block are in place, nothing else has changed. -/
def Partial (f : File) (v : List Byte) (off n : Nat) (cur : File) : Prop :=
  ∀ i, cur i = if off ≤ i ∧ i < off + n then v.getD (i - off) 0 else f i

/-! ### the retry loop of `FileDisk.ReadTo`: `for n := 0; n < len(buf); { k, err := Pread(fd, buf[n:], off+int64(n)); …; n += k }`

The buffer is a function from indices to bytes as well (only indices below `len` belong to it); the file does not change. -/

/-- Effect of `pread(fd, buf[n:], off+n)` that transferred `k` bytes: file byte `off+j` lands in `buf[j]` for `n ≤ j < n+k`. -/
def preadAt (buf : File) (f : File) (off n k : Nat) : File :=
  fun j => if n ≤ j ∧ j < n + k then f (off + j) else buf j

def readLoop (len off : Nat) (f : File) : File → Nat → List Ans → Option Out
  | buf, n, as =>
    if len ≤ n then some (.ok buf) else
    match as with
    | [] => none
    | .err :: _ => some (.panic buf)
    | .wrote k :: rest =>
      let k' := min k (len - n)
      if k' = 0 then some (.panic buf)
      else readLoop len off f (preadAt buf f off n k') (n + k') rest

/-- Invariant: the first `n` bytes of the buffer are the file's, the rest is what the caller passed in. -/
def PartialR (buf0 f : File) (off n : Nat) (cur : File) : Prop :=
  ∀ j, cur j = if j < n then f (off + j) else buf0 j

end GooseVerif.Model.ShortWrite
