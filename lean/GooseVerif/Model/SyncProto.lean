/-
C03, the unbounded part: the three synchronisation shapes the generated concurrent programs are
built from, as small-step transition systems whose schedules are arbitrary.

* `WG` — `n` workers, each `mu.Lock(); shared = crit shared v_i; mu.Unlock(); wg.Done()`, and a
  main thread `wg.Wait(); …read shared…`. The wait-group counter starts at the registered count
  `k` (the argument(s) of `wg.Add`); the correct translation has `k = n`.
  `crit` is the critical section's update:
    protocol 1: `total = total + v`   (`sumCrit`, the result does not depend on the schedule),
    protocol 2: `acc = acc*10 + d`   (`digitCrit`, the result is the order of the acquisitions).
  `WGInc` is the variant in which main calls `wg.Add(1)` before each `go` statement.
* `Handoff` — a worker publishes a value under a mutex and signals; main waits on a condition
  variable in a `for !done { cond.Wait() }` loop. `cond.Wait` releases the lock and may return at
  any time (spurious wake-ups), so `Signal` constrains nothing and is a no-op here.
  The flag `byRef` is `true` for the correct translation (the closure shares `done`/`result` with
  main) and `false` for the translation that snapshots captured variables (the worker writes its
  own copies).

A thread that has no rule in GooseLang (`waitgroup.Done` on a zero counter) has no step: it is
stuck. Core Lean only; `step` is executable, `run` replays a schedule.
-/
namespace GooseVerif.Model.SyncProto

/-! ## Protocols 1 and 2: workers under a mutex, joined by a wait group -/
namespace WG

inductive WorkerPc where
  | start | locked | added | unlocked | done
  deriving DecidableEq, Repr

structure State where
  total : Nat               -- the shared cell (`total` of protocol 1, `acc` of protocol 2)
  lock : Option Nat         -- holder of the mutex (worker index)
  wg : Nat                  -- wait-group counter
  pcs : List WorkerPc       -- one per worker
  mainPassed : Bool         -- `wg.Wait()` has returned
  deriving DecidableEq, Repr

/-- protocol 2 calls the shared cell `acc` -/
abbrev State.acc (s : State) : Nat := s.total

inductive Action where
  | worker (i : Nat)
  | main
  deriving DecidableEq, Repr

/-- One step of the chosen thread, `none` when that thread is not enabled (blocked on the lock,
blocked in `Wait`, finished, or stuck). -/
def step (crit : Nat → Nat → Nat) (vs : List Nat) (s : State) : Action → Option State
  | .worker i =>
    match s.pcs[i]? with
    | some .start =>
      if s.lock = none then some { s with lock := some i, pcs := s.pcs.set i .locked } else none
    | some .locked =>
      some { s with total := crit s.total (vs[i]?.getD 0), pcs := s.pcs.set i .added }
    | some .added => some { s with lock := none, pcs := s.pcs.set i .unlocked }
    | some .unlocked =>
      -- `waitgroup.Done` on a zero counter has no rule: the thread is stuck
      if s.wg = 0 then none else some { s with wg := s.wg - 1, pcs := s.pcs.set i .done }
    | _ => none
  | .main =>
    -- `wg.Wait()` returns iff the counter is zero (and it returns once)
    if s.wg = 0 ∧ s.mainPassed = false then some { s with mainPassed := true } else none

/-- `init0`: initial value of the shared cell; `n` workers; `k` registered with `wg.Add`. -/
def initState (init0 n k : Nat) : State :=
  { total := init0, lock := none, wg := k, pcs := List.replicate n .start, mainPassed := false }

/-- A schedule is any finite sequence of enabled steps. -/
inductive Reachable (crit : Nat → Nat → Nat) (vs : List Nat) (s0 : State) : State → Prop where
  | init : Reachable crit vs s0 s0
  | step {s s' : State} (a : Action) :
      Reachable crit vs s0 s → step crit vs s a = some s' → Reachable crit vs s0 s'

/-- Replay a schedule; `none` if one of its steps is not enabled. -/
def run (crit : Nat → Nat → Nat) (vs : List Nat) : State → List Action → Option State
  | s, [] => some s
  | s, a :: as => (step crit vs s a).bind (fun s' => run crit vs s' as)

/-- a worker that is stuck for ever: it is about to call `Done` on a zero counter -/
def StuckWorker (s : State) (i : Nat) : Prop := s.pcs[i]? = some .unlocked ∧ s.wg = 0

def notDone (p : WorkerPc) : Bool := p != .done
/-- inside the critical section -/
def inCS (p : WorkerPc) : Bool := p == .locked || p == .added
/-- the critical section's update has happened -/
def passed (p : WorkerPc) : Bool := p == .added || p == .unlocked || p == .done

def rank : WorkerPc → Nat
  | .start => 4 | .locked => 3 | .added => 2 | .unlocked => 1 | .done => 0

/-- termination measure: the steps the workers still have to take, plus main's one -/
def measure (s : State) : Nat := (s.pcs.map rank).sum + (if s.mainPassed then 0 else 1)

/-- protocol 1 -/
def sumCrit (t v : Nat) : Nat := t + v
/-- protocol 2 -/
def digitCrit (a d : Nat) : Nat := a * 10 + d

end WG

/-! ## Protocol 1, variant: `wg.Add(1)` before each `go` -/
namespace WGInc

/-- Main is a loop `for i < n { wg.Add(1); go worker(i) }; wg.Wait()` (`n = vs.length`). `pcs` lists
the workers started so far. `addOne = true`: the `Add(1)` of the current iteration has happened,
its `go` has not. -/
structure State extends WG.State where
  addOne : Bool
  deriving DecidableEq, Repr

def step (crit : Nat → Nat → Nat) (vs : List Nat) (s : State) : WG.Action → Option State
  | .worker i => (WG.step crit vs s.toState (.worker i)).map (fun t => { s with toState := t })
  | .main =>
    if s.pcs.length < vs.length then
      if s.addOne then some { s with pcs := s.pcs ++ [.start], addOne := false }
      else some { s with wg := s.wg + 1, addOne := true }
    else if s.wg = 0 ∧ s.mainPassed = false then some { s with mainPassed := true } else none

def initState (init0 : Nat) : State :=
  { total := init0, lock := none, wg := 0, pcs := [], mainPassed := false, addOne := false }

inductive Reachable (crit : Nat → Nat → Nat) (vs : List Nat) (s0 : State) : State → Prop where
  | init : Reachable crit vs s0 s0
  | step {s s' : State} (a : WG.Action) :
      Reachable crit vs s0 s → step crit vs s a = some s' → Reachable crit vs s0 s'

def run (crit : Nat → Nat → Nat) (vs : List Nat) : State → List WG.Action → Option State
  | s, [] => some s
  | s, a :: as => (step crit vs s a).bind (fun s' => run crit vs s' as)

/-- steps still to be taken: by the started workers, by the workers to come (4 each, plus main's
`Add` and `go`), and main's `Wait` -/
def measure (vs : List Nat) (s : State) : Nat :=
  (s.pcs.map WG.rank).sum + 6 * (vs.length - s.pcs.length) + (if s.mainPassed then 0 else 1)
    + (if s.addOne then 0 else 1)

end WGInc

/-! ## Protocol 3: hand-off through a condition variable with spurious wake-ups -/
namespace Handoff

inductive Tid where
  | main | worker
  deriving DecidableEq, Repr

inductive MainPc where
  | needLock                -- before `mu.Lock()`
  | checking                -- holds the lock, about to test `!done`
  | waiting                 -- inside `cond.Wait()`: lock released, may wake up at any time
  | gotResult (r : Nat)     -- read `result`, released the lock, returned `r`
  deriving DecidableEq, Repr

inductive WorkerPc where
  | start | locked | wrote | flagged | unlocked
  deriving DecidableEq, Repr

structure State where
  result : Nat              -- shared cell
  done : Bool               -- shared cell
  privResult : Nat          -- the worker's own copies (only used when `byRef = false`)
  privDone : Bool
  lock : Option Tid
  mainPc : MainPc
  workerPc : WorkerPc
  deriving DecidableEq, Repr

/-- Each thread is deterministic, so an action is the thread that moves. -/
def step (byRef : Bool) (v : Nat) (s : State) : Tid → Option State
  | .worker =>
    match s.workerPc with
    | .start => if s.lock = none then some { s with lock := some .worker, workerPc := .locked } else none
    | .locked =>
      some (if byRef then { s with result := v, workerPc := .wrote }
            else { s with privResult := v, workerPc := .wrote })
    | .wrote =>
      some (if byRef then { s with done := true, workerPc := .flagged }
            else { s with privDone := true, workerPc := .flagged })
    | .flagged => some { s with lock := none, workerPc := .unlocked }   -- `Signal` (no-op); `Unlock`
    | .unlocked => none
  | .main =>
    match s.mainPc with
    | .needLock => if s.lock = none then some { s with lock := some .main, mainPc := .checking } else none
    | .checking =>
      if s.done then some { s with lock := none, mainPc := .gotResult s.result }
      else some { s with lock := none, mainPc := .waiting }               -- `cond.Wait()` releases
    | .waiting =>                                                          -- any wake-up, then re-acquire
      if s.lock = none then some { s with lock := some .main, mainPc := .checking } else none
    | .gotResult _ => none

def initState (r0 : Nat) : State :=
  { result := r0, done := false, privResult := r0, privDone := false, lock := none,
    mainPc := .needLock, workerPc := .start }

inductive Reachable (byRef : Bool) (v : Nat) (s0 : State) : State → Prop where
  | init : Reachable byRef v s0 s0
  | step {s s' : State} (t : Tid) :
      Reachable byRef v s0 s → step byRef v s t = some s' → Reachable byRef v s0 s'

def run (byRef : Bool) (v : Nat) : State → List Tid → Option State
  | s, [] => some s
  | s, t :: ts => (step byRef v s t).bind (fun s' => run byRef v s' ts)

def finished (s : State) : Bool :=
  match s.mainPc with
  | .gotResult _ => true
  | _ => false

end Handoff

end GooseVerif.Model.SyncProto
