/-
MemFs as a lock protocol (C14): every exported method takes the mutex first and releases it by
`defer`; inside, it is the sequential step of `Model/MemFs.lean`. The lock mode of every method
is read from the lock summaries regenerated from mem.go (`Gen.Fs.memFsLocks`: "W" = Lock/defer
Unlock around the whole body). The critical section is modelled as two micro-steps (enter;
perform) — its atomicity is what the lock theorem provides, not an assumption of the model.
-/
import GooseVerif.Model.Lock
import GooseVerif.Model.MemFs
import GooseVerif.Gen.FsFacts

namespace GooseVerif.Model.MemFsConc
open GooseVerif.Model.Lock GooseVerif.Model.Fs

def methodName : Op → String
  | .mkdir _ => "MemFs.Mkdir"
  | .create _ _ => "MemFs.Create"
  | .append _ _ => "MemFs.Append"
  | .close _ => "MemFs.Close"
  | .open_ _ _ => "MemFs.Open"
  | .readAt _ _ _ => "MemFs.ReadAt"
  | .delete _ _ => "MemFs.Delete"
  | .link _ _ _ _ => "MemFs.Link"
  | .atomic _ _ _ => "MemFs.AtomicCreate"
  | .list _ => "MemFs.List"

def lookupSummary (name : String) : Option String :=
  (GooseVerif.Gen.Fs.memFsLocks.find? (fun p => p.1 == name)).map (·.2)

/-- "W" ↦ the method holds the mutex around its whole body; anything else is treated as a reader,
for which `readers_read_only` is not provable (fail closed). -/
def modeOf (name : String) : Mode :=
  match lookupSummary name with
  | some s => if s == "W" then .W else .R
  | none => .R

def memFsProtocol : Protocol MemFs Op Out (Option Out) where
  mode op := modeOf (methodName op)
  init _ := none
  nsteps _ := 2
  micro
    | _, 0, x => x
    | op, _, (s, _) => ((s.step op).1, some (s.step op).2)
  ret _ l := l.getD .panic

end GooseVerif.Model.MemFsConc
