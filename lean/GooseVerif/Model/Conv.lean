/-
Model of goose's translation of Go conversions `T(x)` (C02).

The decision function `decide` mirrors, branch by branch, the code of `/repo/goose.go`:
  * `callExpr`: the bare identifiers `uint64`, `uint32`, `uint8`, `byte` (still the predeclared types)
    go to `integerConversion(width)`;
  * `integerConversion` + `getIntegerType` (types.go);
  * `methodExpr`, the `tv.IsType()` branch, for every other spelling of the target type
    (`isByteSlice`, `isString` of types.go).
`goConv` is Go's own semantics of the conversion on the translation's representation of values.

(`from` is a keyword of Lean, so the source type is called `src` throughout.)
-/
namespace GooseVerif.Model.Conv

/-! ## Types -/

/-- Predeclared types (`byte` is `u8`). -/
inductive Basic
  | u64 | u32 | u8 | u16 | uint | int | i64 | f64 | bool | str
  deriving DecidableEq, Repr

/-- Underlying types: a predeclared type, `[]byte` = `[]uint8`, `[]uint64`, any other composite type. -/
inductive Under
  | basic (b : Basic)
  | bytes
  | sliceU64
  | other
  deriving DecidableEq, Repr

/-- A Go type as far as conversions look at it: `defined = true` is a defined (named) type with the
given underlying type, `defined = false` the predeclared type / type literal itself. -/
structure Ty where
  defined : Bool
  under : Under
  deriving DecidableEq, Repr

/-- How the target of the conversion is written: one of the bare identifiers
`uint64 | uint32 | uint8 | byte` (referring to the predeclared type), or anything else
(a defined type name, `(uint64)`, `[]byte`, `string`, `uint16`, an alias, …). -/
inductive Spelling
  | ident
  | other
  deriving DecidableEq, Repr

/-- Go's `types.IsNumeric` on the predeclared types of the model. -/
def Basic.isNumeric : Basic → Bool
  | .u64 | .u32 | .u8 | .u16 | .uint | .int | .i64 | .f64 => true
  | .bool | .str => false

/-- The width `callExpr` passes to `integerConversion` for the identifier: `uint64` → 64, `uint32` → 32,
`uint8`/`byte` → 8 (only these three predeclared types can be spelled `ident`). -/
def identWidth : Ty → Option Nat
  | ⟨false, .basic .u64⟩ => some 64
  | ⟨false, .basic .u32⟩ => some 32
  | ⟨false, .basic .u8⟩ => some 8
  | _ => none

/-- The `ident` spelling is only possible for the predeclared `uint64`, `uint32`, `uint8`. -/
def Spelling.wf : Spelling → Ty → Bool
  | .ident, t => (identWidth t).isSome
  | .other, _ => true

/-! ## Values of GooseLang -/

inductive Val
  | w64 (b : BitVec 64)
  | w32 (b : BitVec 32)
  | w8 (b : BitVec 8)
  | str (s : List UInt8)
  | bytes (s : List UInt8)
  | opaque (n : Nat)
  deriving DecidableEq, Repr

/-- The width of the machine word that represents an integer kind in the translation:
`uint64`, `uint`, `int`, `int64` are 64-bit words (goose represents `int` as a 64-bit word),
`uint32` a 32-bit word, `uint8` a byte.  Every other kind is not a represented integer. -/
def repWidth : Under → Option Nat
  | .basic .u64 | .basic .uint | .basic .int | .basic .i64 => some 64
  | .basic .u32 => some 32
  | .basic .u8 => some 8
  | _ => none

/-- Which values inhabit which underlying type in the translation's representation. -/
def Val.hasType : Val → Under → Bool
  | .w64 _, .basic .u64 | .w64 _, .basic .uint | .w64 _, .basic .int | .w64 _, .basic .i64 => true
  | .w32 _, .basic .u32 => true
  | .w8 _, .basic .u8 => true
  | .str _, .basic .str => true
  | .bytes _, .bytes => true
  | .opaque _, .basic .u16 | .opaque _, .basic .f64 | .opaque _, .basic .bool => true
  | .opaque _, .sliceU64 | .opaque _, .other => true
  | _, _ => false

/-! ## Go's semantics of a conversion -/

/-- Go's integer conversion to a target of width `w` (64, 32 or 8) on a machine word.

Every represented source except `int`/`int64` is unsigned, so widening is ZERO-extension.  The signed
sources `int`/`int64` are 64 bits wide, and no represented target is wider: to a narrower target Go
truncates the two's-complement bit pattern, to a 64-bit target the bit pattern is unchanged.  So every
represented case is `BitVec.truncate`, `BitVec.zeroExtend`, or the identity on the bit pattern. -/
def goIntConv (w : Nat) (v : Val) : Option Val :=
  match w, v with
  | 64, .w64 b => some (.w64 b)
  | 64, .w32 b => some (.w64 (b.zeroExtend 64))
  | 64, .w8 b => some (.w64 (b.zeroExtend 64))
  | 32, .w64 b => some (.w32 (b.truncate 32))
  | 32, .w32 b => some (.w32 b)
  | 32, .w8 b => some (.w32 (b.zeroExtend 32))
  | 8, .w64 b => some (.w8 (b.truncate 8))
  | 8, .w32 b => some (.w8 (b.truncate 8))
  | 8, .w8 b => some (.w8 b)
  | _, _ => none

/-- Go's conversion of `v : src` to the underlying type `to`, for the convertible pairs of the model:
  * identical underlying types: the value is unchanged (for the kind `other`, which stands for any
    single composite type, this reads: *if* Go allows the conversion, the value is unchanged);
  * integer ↔ integer among the represented widths: `goIntConv`;
  * `string` → `[]byte` and `[]byte` → `string` copy the bytes;
  * `none` for every pair Go does not allow or that involves a kind that is not represented
    (`uint16`, `float64`, integer → `string`, …). -/
def goConv (to src : Under) (v : Val) : Option Val :=
  if to = src then some v
  else
    match repWidth to, repWidth src with
    | some w, some _ => goIntConv w v
    | _, _ =>
      match to, src, v with
      | .bytes, .basic .str, .str s => some (.bytes s)
      | .basic .str, .bytes, .bytes s => some (.str s)
      | _, _, _ => none

/-! ## The translator -/

inductive Decision
  | reject
  | identity
  | toU (w : Nat)
  | stringToBytes
  | stringFromBytes
  deriving DecidableEq, Repr

/-- `getIntegerType` (types.go) on a typed source: looks at the UNDERLYING type; `uint`, `int`, `uint64`
are width 64, `uint32` 32, `uint8` 8; everything else (including `int64`, `uint16`) is not an integer type. -/
def getIntegerType : Under → Option Nat
  | .basic .uint | .basic .int | .basic .u64 => some 64
  | .basic .u32 => some 32
  | .basic .u8 => some 8
  | _ => none

/-- `integerConversion(width)`.  `srcUntyped`: the argument has the type "untyped int"
(`getIntegerType` then answers `isUntyped`, and the code stops with `ctx.todo`). -/
def integerConversion (width : Nat) (src : Ty) (srcUntyped : Bool) : Decision :=
  if srcUntyped then .reject
  else
    match getIntegerType src.under with
    | some w => if w = width then .identity else .toU width
    | none => .reject

/-- `isByteSlice` on an underlying type. -/
def isByteSlice : Under → Bool
  | .bytes => true
  | _ => false

/-- `isString` on an underlying type. -/
def isString : Under → Bool
  | .basic .str => true
  | _ => false

/-- The conversion branch of `methodExpr`; `srcU` is `none` for an untyped-integer source (which is neither
a string nor a byte slice). -/
def methodExprConv (to : Ty) (srcU : Option Under) : Decision :=
  let srcStr := match srcU with | some u => isString u | none => false
  let srcBytes := match srcU with | some u => isByteSlice u | none => false
  if isByteSlice to.under && srcStr then .stringToBytes
  else if isString to.under then
    if srcStr then .identity
    else if !srcBytes then .reject
    else .stringFromBytes
  else if (match to with | ⟨false, .basic b⟩ => b.isNumeric | _ => false) then .reject
  else .identity

/-- What goose does with the conversion `to(x)`, `x : src`, the target being spelled `sp`.
An `ident` spelling of a target that cannot be spelled so (`Spelling.wf` false) is rejected. -/
def decide (sp : Spelling) (to src : Ty) (srcUntyped : Bool) : Decision :=
  match sp with
  | .ident =>
    match identWidth to with
    | some width => integerConversion width src srcUntyped
    | none => .reject
  | .other => methodExprConv to (if srcUntyped then none else some src.under)

/-- `to_u64` / `to_u32` / `to_u8` of GooseLang on a machine word: `BitVec.setWidth`. -/
def toUVal (w : Nat) (v : Val) : Option Val :=
  match w, v with
  | 64, .w64 b => some (.w64 (b.setWidth 64))
  | 64, .w32 b => some (.w64 (b.setWidth 64))
  | 64, .w8 b => some (.w64 (b.setWidth 64))
  | 32, .w64 b => some (.w32 (b.setWidth 32))
  | 32, .w32 b => some (.w32 (b.setWidth 32))
  | 32, .w8 b => some (.w32 (b.setWidth 32))
  | 8, .w64 b => some (.w8 (b.setWidth 8))
  | 8, .w32 b => some (.w8 (b.setWidth 8))
  | 8, .w8 b => some (.w8 (b.setWidth 8))
  | _, _ => none

/-- The GooseLang operation the decision stands for, on a value (`reject`: no translation, `none`). -/
def Decision.apply : Decision → Val → Option Val
  | .reject, _ => none
  | .identity, v => some v
  | .toU w, v => toUVal w v
  | .stringToBytes, .str s => some (.bytes s)
  | .stringToBytes, _ => none
  | .stringFromBytes, .bytes s => some (.str s)
  | .stringFromBytes, _ => none

end GooseVerif.Model.Conv
