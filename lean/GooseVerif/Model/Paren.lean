/-
Model of goose's parenthesisation discipline (`/repo/internal/coq/coq.go`) and of a reader for the
emitted notation text.

Printer side.  Every `Coq(needs_paren bool)` method follows one of four shapes:

* atoms (`IdentExpr`, `GallinaIdent`, `GallinaString`, `IntLiteral`, …): the text, never wrapped;
* `BinaryExpr`:  `addParens(needs_paren, X.Coq(true) op Y.Coq(true))`;
  `CallExpr`:    `addParens(needs_paren, f a1.Coq(true) … an.Coq(true))`;
  `DerefExpr`:   `addParens(needs_paren, ![ty] X.Coq(true))`;
* `NotExpr`:     `(~ X.Coq(true))`, its own parentheses whatever `needs_paren` is;
* `IfExpr`:      `(if: c.Coq(false) then a.Coq(false) else b.Coq(false))`, its own parentheses, and
  the three components are printed WITHOUT parentheses (the comment in `IfExpr.Coq` says why).

`ParenExpr.Coq` is `X.Coq(true)`: a Go parenthesis leaves no node of its own, so it is not a
constructor of `E`.  `StoreStmt` (`dst <-[ty] x`) has the shape of `BinaryExpr` with `<-[ty]` as
the operator token, `TupleExpr` always prints its own parentheses; neither adds a new shape.

Reader side.  `parseG prec rassoc notPrec` is a precedence-climbing parser over the tokens, for an
ARBITRARY table: `prec o` is the binding power of the infix operator `o` (larger binds tighter),
`rassoc o` says whether it associates to the right, `notPrec` is the binding power of the operand
of the prefix `~`.  Application (juxtaposition) binds tighter than every infix operator and `![ty]`
binds tighter than application, as in Coq (level 10, level 9).  The grammar:

    simple  ::= atom | '(' expr(0) ')' | '![ty]' simple
    operand ::= atom simple*                      -- application when at least one argument follows
              | '(' expr(0) ')' | '![ty]' simple
              | '~' expr(notPrec)
              | 'if:' expr(0) 'then' expr(0) 'else' expr(0)
    expr(m) ::= operand { op expr(if rassoc op then prec op else prec op + 1) }   -- while m ≤ prec op

It accepts much more than `print` produces (`a + b * c`, `~ a + b`, `if:` without parentheses,
`f a ![t] b`), and on such texts the tree DOES depend on the table.

Everything here is executable by kernel reduction (structural recursion, on the fuel for the
parser), so concrete instances are closed by `rfl`.
-/
namespace GooseVerif.Model.Paren

/-- Expression trees: what nests inside what in the Go source. -/
inductive E where
  /-- identifier / quoted variable / literal -/
  | atom (a : Nat)
  /-- `X op Y` -/
  | bin (op : Nat) (x y : E)
  /-- `~ X` -/
  | not (x : E)
  /-- `f a a1 … an`: a call has at least one argument (`NewCallExpr` supplies `#()`), `f` is a
  Gallina identifier -/
  | app (f : Nat) (a : E) (as : List E)
  /-- `if: c then t else e` -/
  | ite (c t e : E)
  /-- `![ty] X`; the type is part of the prefix token -/
  | deref (x : E)
  deriving Repr, Inhabited

inductive Tok where
  | atom (a : Nat) | op (o : Nat) | lp | rp | tilde | kif | kthen | kelse | bang
  deriving DecidableEq, Repr, Inhabited

/-- `addParens`. -/
def wrap (b : Bool) (ts : List Tok) : List Tok :=
  if b then Tok.lp :: (ts ++ [Tok.rp]) else ts

mutual
/-- `Expr.Coq(needs_paren)`. -/
def print : Bool → E → List Tok
  | _, .atom a => [Tok.atom a]
  | b, .bin o x y => wrap b (print true x ++ Tok.op o :: print true y)
  | _, .not x => Tok.lp :: Tok.tilde :: (print true x ++ [Tok.rp])
  | b, .app f a as => wrap b (Tok.atom f :: (print true a ++ printArgs as))
  | _, .ite c t e =>
    Tok.lp :: Tok.kif :: (print false c ++ Tok.kthen :: (print false t ++
      Tok.kelse :: (print false e ++ [Tok.rp])))
  | b, .deref x => wrap b (Tok.bang :: print true x)
/-- The arguments of a call, each with `needs_paren = true`. -/
def printArgs : List E → List Tok
  | [] => []
  | a :: as => print true a ++ printArgs as
end

/-- The seeded variant: the right operand of a binary expression is printed without parentheses
when it is itself a binary expression with the same operator (`a - (b - c)` comes out as
`a - b - c`).  Everything else as in `print`. -/
def sameOp (o : Nat) : E → Bool
  | .bin o' _ _ => o' == o
  | _ => false

mutual
def printMut : Bool → E → List Tok
  | _, .atom a => [Tok.atom a]
  | b, .bin o x y => wrap b (printMut true x ++ Tok.op o :: printMut (!sameOp o y) y)
  | _, .not x => Tok.lp :: Tok.tilde :: (printMut true x ++ [Tok.rp])
  | b, .app f a as => wrap b (Tok.atom f :: (printMut true a ++ printMutArgs as))
  | _, .ite c t e =>
    Tok.lp :: Tok.kif :: (printMut false c ++ Tok.kthen :: (printMut false t ++
      Tok.kelse :: (printMut false e ++ [Tok.rp])))
  | b, .deref x => wrap b (Tok.bang :: printMut true x)
def printMutArgs : List E → List Tok
  | [] => []
  | a :: as => printMut true a ++ printMutArgs as
end

/-- Does the text start with a token that starts a `simple` (an application argument)? -/
def startsSimple : List Tok → Bool
  | Tok.atom _ :: _ => true
  | Tok.lp :: _ => true
  | Tok.bang :: _ => true
  | _ => false

section Parser
variable (prec : Nat → Nat) (rassoc : Nat → Bool) (notPrec : Nat)

mutual
/-- `expr(m)`: an operand, then infix operators of binding power at least `m`. -/
def expr : Nat → Nat → List Tok → Option (E × List Tok)
  | 0, _, _ => none
  | f+1, m, ts =>
    match operand f ts with
    | none => none
    | some (l, ts') => loop f m l ts'

/-- The infix loop: `l` has been read, extend it while the next operator is strong enough. -/
def loop : Nat → Nat → E → List Tok → Option (E × List Tok)
  | 0, _, _, _ => none
  | f+1, m, l, ts =>
    match ts with
    | Tok.op o :: ts1 =>
      if m ≤ prec o then
        match expr f (if rassoc o then prec o else prec o + 1) ts1 with
        | none => none
        | some (r, ts2) => loop f m (E.bin o l r) ts2
      else some (l, ts)
    | _ => some (l, ts)

/-- `operand`. -/
def operand : Nat → List Tok → Option (E × List Tok)
  | 0, _ => none
  | f+1, ts =>
    match ts with
    | Tok.atom a :: ts1 =>
      match args f ts1 with
      | none => none
      | some ([], ts2) => some (E.atom a, ts2)
      | some (x :: xs, ts2) => some (E.app a x xs, ts2)
    | Tok.tilde :: ts1 =>
      match expr f notPrec ts1 with
      | none => none
      | some (x, ts2) => some (E.not x, ts2)
    | Tok.kif :: ts1 =>
      match expr f 0 ts1 with
      | some (c, Tok.kthen :: ts2) =>
        match expr f 0 ts2 with
        | some (t, Tok.kelse :: ts3) =>
          match expr f 0 ts3 with
          | some (e, ts4) => some (E.ite c t e, ts4)
          | none => none
        | _ => none
      | _ => none
    | Tok.lp :: _ => simple f ts
    | Tok.bang :: _ => simple f ts
    | _ => none

/-- `simple`: what may stand as an application argument. -/
def simple : Nat → List Tok → Option (E × List Tok)
  | 0, _ => none
  | f+1, ts =>
    match ts with
    | Tok.atom a :: ts1 => some (E.atom a, ts1)
    | Tok.lp :: ts1 =>
      match expr f 0 ts1 with
      | some (e, Tok.rp :: ts2) => some (e, ts2)
      | _ => none
    | Tok.bang :: ts1 =>
      match simple f ts1 with
      | some (x, ts2) => some (E.deref x, ts2)
      | none => none
    | _ => none

/-- `simple*`, greedily. -/
def args : Nat → List Tok → Option (List E × List Tok)
  | 0, _ => none
  | f+1, ts =>
    if startsSimple ts then
      match simple f ts with
      | none => none
      | some (x, ts1) =>
        match args f ts1 with
        | none => none
        | some (xs, ts2) => some (x :: xs, ts2)
    else some ([], ts)
end

/-- The reader, with all three parts of the table explicit. -/
def parseG (fuel minPrec : Nat) (ts : List Tok) : Option (E × List Tok) :=
  expr prec rassoc notPrec fuel minPrec ts

end Parser

/-- The reader for a table of infix operators; the operand of `~` extends as far as it can, which
is Coq's reading (`~ e` is at level 75, looser than every infix notation goose emits). -/
def parse (prec : Nat → Nat) (rassoc : Nat → Bool) (fuel minPrec : Nat) (ts : List Tok) :
    Option (E × List Tok) :=
  parseG prec rassoc 0 fuel minPrec ts

/-- A text after which an expression cannot be continued: the end, or a closing token. -/
def Closed : List Tok → Prop
  | [] => True
  | Tok.rp :: _ => True
  | Tok.kthen :: _ => True
  | Tok.kelse :: _ => True
  | _ => False

/-! ### Instances used by the witnesses in `Props/C05Paren.lean` -/

/-- `a - (b - c)`. -/
def subRight : E := E.bin 0 (E.atom 1) (E.bin 0 (E.atom 2) (E.atom 3))
/-- `(a - b) - c`. -/
def subLeft : E := E.bin 0 (E.bin 0 (E.atom 1) (E.atom 2)) (E.atom 3)

/-- Tables: every operator left-associative / right-associative / at the same level. -/
def leftAssoc : Nat → Bool := fun _ => false
def rightAssoc : Nat → Bool := fun _ => true
def flat : Nat → Nat := fun _ => 50

end GooseVerif.Model.Paren
