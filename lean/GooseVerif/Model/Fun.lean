/-
Model "Fun": how goose translates FUNCTIONS — top-level functions with 0..n results, calls, recursion,
function literals (closures), methods with value and pointer receivers on one struct type, and strings with the
`[]byte` conversions (`/repo/goose.go`: `funcDecl`, `paramList`, `returnType`, `returnExpr`, `funcLit`, `callExpr`,
`methodExpr`, `selectorMethod`, `newCoqCallTypeArgs`, `coqRecurFunc`, `function`, `identExpr`, `variable`,
`defineStmt` (several names), `varSpec`, `assignStmt`, `assignFromTo` (`*ast.SelectorExpr`), `refExpr`,
`stmts`, `stmtInBlock`, `ifStmt`, `endsWithReturn`, the string cases of `binExpr`, `lenExpr`, `basicLiteral`,
`structLiteral`, `structSelector`; `/repo/internal/coq/coq.go`: `FuncDecl.CoqDecl`/`Signature`, `FuncLit`,
`CallExpr`/`NewCallExpr`, `TupleExpr`/`NewTuple`, `Binding.AddTo` (`let: ("a", "b") := …`,
`let: (("a", "b"), "c") := …`), `binder` (`_` is printed `<>`), `StringLiteral`, `ReturnExpr`, `MethodName`).
Core Lean only, executable.  A sibling of `Model/Coll.lean`, from which the heap objects are reused.

A PACKAGE is a list of declarations; it is looked up by NAME (order-independent, as the reference interpreter and
Coq's section do once the file is loaded; the order of emission is the subject of `Model/Deps.lean`).

  func f(x1 τ1, …, xn τn) (ρ1, …, ρk) { b }   ↦  Definition f: val := rec: "f" "x1" … "xn" := ⟦b⟧.
  func f() …                                   ↦  rec: "f" <> := ⟦b⟧            (a parameter named `_` is `<>` too)
  func (r T) m(xs) … / func (r *T) m(xs) …     ↦  Definition T__m: val := rec: "T__m" "r" "x1" … := ⟦b⟧.
  f(e1, …, en)                                 ↦  f ⟦e1⟧ … ⟦en⟧     f #() without arguments
        where the callee `f` is printed  "f"  when f is a local variable (a closure-valued variable or parameter)
        OR the function whose body we are in (the binder of `rec:`), and as the Gallina identifier  f  otherwise
  x.m(es)                                      ↦  T__m ⟦x⟧ ⟦e1⟧ … ⟦en⟧   the receiver, as it is, is the first argument
  func(xs) ρ { b }                             ↦  (λ: "x1" … "xn", ⟦b⟧)        (λ: <>, ⟦b⟧) without parameters
  return e                                     ↦  ⟦e⟧
  return e1, e2 / return e1, e2, e3            ↦  (⟦e1⟧, ⟦e2⟧) / (⟦e1⟧, ⟦e2⟧, ⟦e3⟧)     left-nested pairs in Coq
  return  (and falling off the end)            ↦  #()
  a, b := f(es)                                ↦  let: ("a", "b") := ⟦f(es)⟧ in …
  a, _, c := f(es)                             ↦  let: (("a", <>), "c") := ⟦f(es)⟧ in …
  f(es) as a statement                         ↦  ⟦f(es)⟧;; …
  x := e / var x τ = e / x = e                 ↦  let: "x" := ⟦e⟧ in … / let: "x" := ref_to ⟦τ⟧ ⟦e⟧ in … / "x" <-[⟦τ⟧] ⟦e⟧
  "abc"                                        ↦  #(str"abc")
  s + t (strings) and a + b (numbers)          ↦  ⟦s⟧ + ⟦t⟧        the same `+`
  s == t, s != t                               ↦  ⟦s⟧ = ⟦t⟧, ⟦s⟧ ≠ ⟦t⟧      (s < t …: refused, "ordering comparison on strings")
  uint64(len(s)) / []byte(s) / string(bs) / uint64(len(bs))  ↦  StringLength / StringToBytes / StringFromBytes / slice.len
  T{a: e1, b: e2} / &T{a: e1, b: e2}           ↦  struct.mk T [ "a" ::= …; "b" ::= … ] / struct.new T [ … ]
  v.a / p.a (p a pointer)                      ↦  struct.get T "a" ⟦v⟧ / struct.loadF T "a" ⟦p⟧
  p.a = e / v.a = e (v declared with var)      ↦  struct.storeF T "a" ⟦p⟧ ⟦e⟧ / struct.storeF T "a" "v" ⟦e⟧
  if c { … } else { … }                        as `ifStmt`: in tail position the branches may return; a then-branch that
                                               ends in `return` takes the rest of the list as its else-branch; otherwise
                                               neither branch may return (`Model/Core.lean` has the loops and the rest)

Choices.
* Numbers are unbounded naturals (wrap-around: `Lemmas/Arith`, `Model/Core`); `a - b` is defined for `b ≤ a` only.
  Strings are lists of bytes, as the interpreter has them; a byte slice is a fresh array (only what `[]byte(s)`,
  `string(bs)` and `len` need; `[]byte("")` is the nil slice on both sides).
* A `var` variable is a heap CELL on both sides, a `:=` variable, a parameter and a receiver are VALUES in the
  environment.  A function literal captures the environment: the cells BY REFERENCE (their location), the values by
  value — goose refuses assignment to a `:=` variable or parameter ("variable x is not assignable"), Go forbids
  nothing there but the model's Go semantics is `bad` (outside the model) for it, so capture by value of those is not
  observable.  Struct objects (`&T{…}`) and `var v T` are the same kind of heap object (a cell holding a struct
  value), so `&v` — which Go takes implicitly for `v.m()` with a pointer-receiver `m` — is the cell of `v`.
  The two heaps grow in lockstep: object `o` is block `o`.
* The environment is a list (innermost first) ending in the NAME of the top-level function being executed; the
  target environment ends in the binder of `rec:`.  Blocks are run in an extended environment that is dropped
  afterwards, so no scope stack is needed.
* Order of evaluation: Go orders CALLS left to right and leaves the order of variable reads relative to calls
  open; GooseLang evaluates operands and arguments right to left.  Both semantics here go right to left, as
  GooseLang does; they are Go's for expressions in which no two calls are unordered by nesting
  (`f(g(x))` is, `f(x) + g(y)` and `f(g(), h())` are not: known finding `evaluation-order`).
* FUEL is consumed per CALL (of a top-level function, a method or a closure), identically on both sides: a callee runs
  with one unit less than its caller, so the fuel bounds the DEPTH of nested calls (calls made one after the other get
  the same fuel).
* The source syntax is RESOLVED where go/types decides: `len` of a string and of a byte slice, comparison of
  numbers and of strings, a field read through a pointer or from a value, a method call through a pointer or on a
  value are different constructors; the type written in `var x τ = e` is part of the syntax.  `tr` does not
  type-check (the Go compiler does); the Go semantics is dynamically checked: `bad` is "not well-typed Go, or
  outside the model".
* Outside `tr` (inside `trGoose`, which prints what goose prints): a pointer-receiver method called on a struct
  VALUE (known finding `pointer-method-on-value`: goose passes the loaded value), a value-receiver method called
  on a POINTER (goose passes the pointer: found by this model's correspondence, not listed before), `v.a = e` on
  a let-bound struct (known finding `store-through-let-bound-value`), a recursive method call where a local variable
  is named `T__m` like the emitted method (the binder of `rec:` is hidden; of the family of `method-name-collision`).
  A top-level function used as a VALUE (`fref`) is refused by `tr` when a local variable has its name (the syntax is
  resolved: then the identifier would be the variable).  Not expressible: method values (`g := x.m`,
  known finding `method-value`), variadic functions, `var g func(…)` of function type other than to see it refused,
  immediately applied function literals (refused by goose), named results other than to see them refused.
-/
import GooseVerif.Model.Coll

namespace GooseVerif.Model.Fun
open GooseVerif.Model.Heap (look hexStr app dashes isNumTok)
open GooseVerif.Model.Coll (Obj getCell getArr Cmp bindE)

/-! ## Source -/

inductive Ty where
  | u64 | bool
  | str        -- string
  | bytes      -- []byte
  | strct      -- T
  | ptr        -- *T
  | fn         -- a function type: goose refuses `var g func(…) …`
  deriving Repr, DecidableEq, Inhabited

inductive Fld where
  | a | b
  deriving Repr, DecidableEq, Inhabited

mutual
inductive Exp where
  | lit (n : Nat)
  | slit (s : List Nat)                      -- "…": the bytes
  | blit (b : Bool)
  | var (x : String)
  | fref (f : String)                        -- a top-level function as a value (`apply(id, 2)`)
  | add (a b : Exp)                          -- + on numbers and on strings
  | sub (a b : Exp)
  | mul (a b : Exp)
  | cmp (op : Cmp) (a b : Exp)               -- comparison of numbers
  | scmp (op : Cmp) (a b : Exp)              -- comparison of strings (goose: == and != only)
  | slen (s : Exp)                           -- uint64(len(s)), s a string
  | toBytes (s : Exp)                        -- []byte(s)
  | ofBytes (b : Exp)                        -- string(b)
  | blen (b : Exp)                           -- uint64(len(b)), b a byte slice
  | mk (a b : Exp)                           -- T{a: …, b: …}
  | new (a b : Exp)                          -- &T{a: …, b: …}
  | fld (viaPtr : Bool) (f : Fld) (e : Exp)  -- e.f, e a pointer / a struct value
  | call (f : String) (args : Exps)          -- f(args): a closure-valued variable, or a top-level function
  | mcall (viaPtr : Bool) (m : String) (recv : Exp) (args : Exps)    -- recv.m(args), recv a pointer / a struct value
  | fn (named : Bool) (ps : List String) (body : Stmts)              -- func(ps) ρ { body }; `named`: named results
inductive Exps where
  | nil
  | cons (e : Exp) (rest : Exps)
inductive Stmt where
  | define (x : String) (e : Exp)            -- x := e
  | declare (x : String) (ty : Ty) (e : Exp) -- var x ty = e
  | assign (x : String) (e : Exp)            -- x = e
  | defineN (xs : List String) (e : Exp)     -- a, b := f(args) / a, b, c := …; "_" is the blank identifier
  | setP (f : Fld) (p : Exp) (e : Exp)       -- p.f = e, p a pointer
  | setV (f : Fld) (v : String) (e : Exp)    -- v.f = e, v a struct variable
  | expr (e : Exp)                           -- a call as a statement
  | ite (c : Exp) (t e : Stmts)              -- if c { t } else { e }
  | ret (es : Exps)                          -- return e1, …, ek
inductive Stmts where
  | nil
  | cons (s : Stmt) (rest : Stmts)
end

instance : Inhabited Exp := ⟨.lit 0⟩
instance : Inhabited Exps := ⟨.nil⟩
instance : Inhabited Stmts := ⟨.nil⟩
instance : Inhabited Stmt := ⟨.ret .nil⟩

def Stmts.isNil : Stmts → Bool
  | .nil => true
  | _ => false

def Exps.length : Exps → Nat
  | .nil => 0
  | .cons _ r => r.length + 1

/-- The receiver of a method: its name, whether it is `*T`, and the method's own name (`m` in `x.m()`). -/
structure Recv where
  rname : String
  ptr : Bool
  mname : String
  deriving Inhabited

/-- A top-level declaration.  `name` is the name of the emitted definition (`f`, or `T__m` for a method). -/
structure FuncDecl where
  name : String
  recv : Option Recv
  params : List String
  nres : Nat                                 -- number of results
  named : Bool                               -- the results are named (refused)
  body : Stmts
  deriving Inhabited

abbrev Pkg := List FuncDecl

/-- the binders of the emitted `rec:`: the receiver first -/
def FuncDecl.allParams (d : FuncDecl) : List String :=
  match d.recv with
  | none => d.params
  | some r => r.rname :: d.params

def findFn (g : String) : Pkg → Option FuncDecl
  | [] => none
  | d :: r => if d.name = g then some d else findFn g r

def findMeth (m : String) : Pkg → Option FuncDecl
  | [] => none
  | d :: r => match d.recv with
    | some rc => if rc.mname = m then some d else findMeth m r
    | none => findMeth m r

/-! ## Results -/

/-- `ok`, out of FUEL, or `bad`: on the Go side "not well-typed Go, or outside the model", on the GooseLang side
"stuck". -/
inductive Res (α : Type) where
  | ok (a : α)
  | fuel
  | bad
  deriving Repr, DecidableEq, Inhabited

def Res.bind {α β : Type} : Res α → (α → Res β) → Res β
  | .ok a, f => f a
  | .fuel, _ => .fuel
  | .bad, _ => .bad

def ofOpt {α : Type} : Option α → Res α
  | some a => .ok a
  | none => .bad

/-! ## Go semantics -/

mutual
/-- Go values. -/
inductive Val where
  | num (n : Nat)
  | bool (b : Bool)
  | str (s : List Nat)
  | bytes (o : Option Nat)                   -- nil, or the array object
  | strct (a b : Nat)                        -- a value of type T
  | ptr (o : Nat)                            -- a *T: the cell holding the struct
  | fn (f : String)                          -- a top-level function
  | clo (ps : List String) (body : Stmts) (env : Env)    -- a function literal and the environment it captured
/-- Environments, innermost binding first: the VALUE of a `:=` variable, parameter or receiver, the CELL of a
`var` variable (with its declared type); at the bottom the name of the top-level function being executed. -/
inductive Env where
  | top (self : String)
  | val (x : String) (v : Val) (rest : Env)
  | cell (x : String) (ty : Ty) (o : Nat) (rest : Env)
end

instance : Inhabited Val := ⟨.num 0⟩
instance : Inhabited Env := ⟨.top ""⟩

inductive Bnd where
  | val (v : Val)
  | cell (ty : Ty) (o : Nat)

def lookE (x : String) : Env → Option Bnd
  | .top _ => none
  | .val y v rest => if y = x then some (.val v) else lookE x rest
  | .cell y ty o rest => if y = x then some (.cell ty o) else lookE x rest

abbrev GHeap := List (Obj Val)

def asNum : Val → Res Nat
  | .num n => .ok n
  | _ => .bad

def asBool : Val → Res Bool
  | .bool b => .ok b
  | _ => .bad

def asStr : Val → Res (List Nat)
  | .str s => .ok s
  | _ => .bad

def asBytes : Val → Res (Option Nat)
  | .bytes o => .ok o
  | _ => .bad

def asStrct : Val → Res (Nat × Nat)
  | .strct a b => .ok (a, b)
  | _ => .bad

def asPtr : Val → Res Nat
  | .ptr o => .ok o
  | _ => .bad

def Val.hasTy : Val → Ty → Bool
  | .num _, .u64 => true
  | .bool _, .bool => true
  | .str _, .str => true
  | .bytes _, .bytes => true
  | .strct _ _, .strct => true
  | .ptr _, .ptr => true
  | _, _ => false

/-- first-order values: what a cell may hold -/
def Val.fo : Val → Bool
  | .fn _ => false
  | .clo _ _ _ => false
  | _ => true

def Fld.get (f : Fld) (a b : Nat) : Nat :=
  match f with
  | .a => a
  | .b => b

def Fld.set (f : Fld) (a b x : Nat) : Nat × Nat :=
  match f with
  | .a => (x, b)
  | .b => (a, x)

/-- `+` on numbers and on strings -/
def addV : Val → Val → Res Val
  | .num m, .num n => .ok (.num (m + n))
  | .str s, .str t => .ok (.str (s ++ t))
  | _, _ => .bad

def subV : Val → Val → Res Val
  | .num m, .num n => if n ≤ m then .ok (.num (m - n)) else .bad
  | _, _ => .bad

def mulV : Val → Val → Res Val
  | .num m, .num n => .ok (.num (m * n))
  | _, _ => .bad

def cmpV (op : Cmp) : Val → Val → Res Val
  | .num m, .num n => .ok (.bool (op.eval m n))
  | _, _ => .bad

/-- Go compares strings lexicographically; goose refuses the ordering comparisons, so only `==`, `!=` are in the model -/
def scmpV (op : Cmp) : Val → Val → Res Val
  | .str s, .str t => match op with
    | .eq => .ok (.bool (decide (s = t)))
    | .ne => .ok (.bool (!decide (s = t)))
    | _ => .bad
  | _, _ => .bad

/-- the bytes of a byte slice -/
def readBytes {α : Type} (H : List (Obj α)) : Option Nat → Option (List Nat)
  | none => some []
  | some o => getArr H o

/-- the struct in a cell -/
def getStrct (G : GHeap) (o : Nat) : Res (Nat × Nat) :=
  (ofOpt (getCell G o)).bind asStrct

/-- bind parameters (or the names of `a, b := …`) to values, left to right; `_` binds nothing -/
def bindPs : List String → List Val → Env → Option Env
  | [], [], env => some env
  | p :: ps, v :: vs, env => bindPs ps vs (if p = "_" then env else .val p v env)
  | _, _, _ => none

/-- The oracle for calls: apply a function value to arguments in a heap; results and the new heap. -/
abbrev GOracle := Val → List Val → GHeap → Res (List Val × GHeap)

def single : List Val × GHeap → Res (Val × GHeap)
  | ([v], G) => .ok (v, G)
  | _ => .bad

/-- what a call target denotes: a local variable holding a function value, or a top-level function -/
def calleeOf (env : Env) (G : GHeap) (f : String) : Res Val :=
  match lookE f env with
  | some (.val v) => .ok v
  | some (.cell _ o) => ofOpt (getCell G o)
  | none => .ok (.fn f)

/-- the receiver that a method with receiver kind `ptrRecv` gets from `recv`, whose static type is a pointer iff `viaPtr`
and whose evaluation gives `r`: its value when the kinds agree; the address of the variable for a pointer method on an
addressable value (Go: `(&v).m()`, `recv` is not evaluated); the struct it points to for a value method on a pointer
(Go: `(*p).m()`). -/
def recvOf (env : Env) (viaPtr ptrRecv : Bool) (recv : Exp) (G : GHeap) (r : Res (Val × GHeap)) : Res (Val × GHeap) :=
  match viaPtr, ptrRecv with
  | false, true => match recv with
    | .var x => match lookE x env with
      | some (.cell .strct o) => .ok (.ptr o, G)
      | _ => .bad
    | _ => .bad
  | true, false => r.bind fun q => (asPtr q.1).bind fun o => (getStrct q.2 o).bind fun s => .ok (.strct s.1 s.2, q.2)
  | _, _ => r

mutual
/-- Expressions; operands and arguments right to left. -/
def evalE (ap : GOracle) (P : Pkg) (env : Env) : Exp → GHeap → Res (Val × GHeap)
  | .lit n, G => .ok (.num n, G)
  | .slit s, G => .ok (.str s, G)
  | .blit b, G => .ok (.bool b, G)
  | .var x, G => (ofOpt (lookE x env)).bind fun b => match b with
    | .val v => .ok (v, G)
    | .cell _ o => (ofOpt (getCell G o)).bind fun v => .ok (v, G)
  | .fref f, G => .ok (.fn f, G)
  | .add a b, G =>
    (evalE ap P env b G).bind fun r1 => (evalE ap P env a r1.2).bind fun r2 =>
    (addV r2.1 r1.1).bind fun v => .ok (v, r2.2)
  | .sub a b, G =>
    (evalE ap P env b G).bind fun r1 => (evalE ap P env a r1.2).bind fun r2 =>
    (subV r2.1 r1.1).bind fun v => .ok (v, r2.2)
  | .mul a b, G =>
    (evalE ap P env b G).bind fun r1 => (evalE ap P env a r1.2).bind fun r2 =>
    (mulV r2.1 r1.1).bind fun v => .ok (v, r2.2)
  | .cmp op a b, G =>
    (evalE ap P env b G).bind fun r1 => (evalE ap P env a r1.2).bind fun r2 =>
    (cmpV op r2.1 r1.1).bind fun v => .ok (v, r2.2)
  | .scmp op a b, G =>
    (evalE ap P env b G).bind fun r1 => (evalE ap P env a r1.2).bind fun r2 =>
    (scmpV op r2.1 r1.1).bind fun v => .ok (v, r2.2)
  | .slen s, G => (evalE ap P env s G).bind fun r => (asStr r.1).bind fun bs => .ok (.num bs.length, r.2)
  | .toBytes s, G => (evalE ap P env s G).bind fun r => (asStr r.1).bind fun bs =>
    if bs.length = 0 then .ok (.bytes none, r.2) else .ok (.bytes (some r.2.length), r.2 ++ [.arr bs])
  | .ofBytes b, G => (evalE ap P env b G).bind fun r => (asBytes r.1).bind fun o =>
    (ofOpt (readBytes r.2 o)).bind fun bs => .ok (.str bs, r.2)
  | .blen b, G => (evalE ap P env b G).bind fun r => (asBytes r.1).bind fun o =>
    (ofOpt (readBytes r.2 o)).bind fun bs => .ok (.num bs.length, r.2)
  | .mk a b, G =>
    (evalE ap P env b G).bind fun r1 => (asNum r1.1).bind fun y =>
    (evalE ap P env a r1.2).bind fun r2 => (asNum r2.1).bind fun x => .ok (.strct x y, r2.2)
  | .new a b, G =>
    (evalE ap P env b G).bind fun r1 => (asNum r1.1).bind fun y =>
    (evalE ap P env a r1.2).bind fun r2 => (asNum r2.1).bind fun x =>
    .ok (.ptr r2.2.length, r2.2 ++ [.cell (.strct x y)])
  | .fld viaPtr f e, G =>
    (evalE ap P env e G).bind fun r =>
    if viaPtr then (asPtr r.1).bind fun o => (getStrct r.2 o).bind fun s => .ok (.num (f.get s.1 s.2), r.2)
    else (asStrct r.1).bind fun s => .ok (.num (f.get s.1 s.2), r.2)
  | .call f args, G =>
    (evalEs ap P env args G).bind fun r => (calleeOf env r.2 f).bind fun fv =>
    (ap fv r.1 r.2).bind single
  | .mcall viaPtr m recv args, G =>
    (ofOpt (findMeth m P)).bind fun d => (ofOpt d.recv).bind fun rc =>
    (evalEs ap P env args G).bind fun r =>
    (recvOf env viaPtr rc.ptr recv r.2 (evalE ap P env recv r.2)).bind fun q =>
    (ap (.fn d.name) (q.1 :: r.1) q.2).bind single
  | .fn named ps body, G => if named then .bad else .ok (.clo ps body env, G)
/-- Argument lists, right to left; the values in source order. -/
def evalEs (ap : GOracle) (P : Pkg) (env : Env) : Exps → GHeap → Res (List Val × GHeap)
  | .nil, G => .ok ([], G)
  | .cons e rest, G =>
    (evalEs ap P env rest G).bind fun r => (evalE ap P env e r.2).bind fun q => .ok (q.1 :: r.1, q.2)
end

/-- An expression that may have any number of results: a call; anything else has one. -/
def evalC (ap : GOracle) (P : Pkg) (env : Env) (G : GHeap) : Exp → Res (List Val × GHeap)
  | .call f args =>
    (evalEs ap P env args G).bind fun r => (calleeOf env r.2 f).bind fun fv => ap fv r.1 r.2
  | .mcall viaPtr m recv args =>
    (ofOpt (findMeth m P)).bind fun d => (ofOpt d.recv).bind fun rc =>
    (evalEs ap P env args G).bind fun r =>
    (recvOf env viaPtr rc.ptr recv r.2 (evalE ap P env recv r.2)).bind fun q =>
    ap (.fn d.name) (q.1 :: r.1) q.2
  | e => (evalE ap P env e G).bind fun r => .ok ([r.1], r.2)

/-- Outcome of a statement (list): normal completion, or `return vs`. -/
inductive Out where
  | normal (env : Env) (G : GHeap)
  | returned (vs : List Val) (G : GHeap)

/-- Leave a branch: its bindings are dropped. -/
def leave (env : Env) : Res Out → Res Out
  | .ok (.normal _ G) => .ok (.normal env G)
  | r => r

mutual
def execStmt (ap : GOracle) (P : Pkg) (env : Env) (G : GHeap) : Stmt → Res Out
  | .define x e => (evalE ap P env e G).bind fun r =>
    .ok (.normal (if x = "_" then env else .val x r.1 env) r.2)
  | .declare x ty e => (evalE ap P env e G).bind fun r =>
    if r.1.hasTy ty then .ok (.normal (if x = "_" then env else .cell x ty r.2.length env) (r.2 ++ [.cell r.1])) else .bad
  | .assign x e => (evalE ap P env e G).bind fun r => (ofOpt (lookE x env)).bind fun b => match b with
    | .cell ty o => (ofOpt (getCell r.2 o)).bind fun _ =>
      if r.1.hasTy ty then .ok (.normal env (r.2.set o (.cell r.1))) else .bad
    | .val _ => .bad        -- Go allows it, goose refuses it ("variable x is not assignable"): outside the model
  | .defineN xs e => (evalC ap P env G e).bind fun r =>
    if 2 ≤ xs.length then (ofOpt (bindPs xs r.1 env)).bind fun env' => .ok (.normal env' r.2) else .bad
  | .setP f p e =>
    (evalE ap P env e G).bind fun r1 => (asNum r1.1).bind fun x =>
    (evalE ap P env p r1.2).bind fun r2 => (asPtr r2.1).bind fun o => (getStrct r2.2 o).bind fun s =>
    .ok (.normal env (r2.2.set o (.cell (.strct (f.set s.1 s.2 x).1 (f.set s.1 s.2 x).2))))
  | .setV f v e =>
    (evalE ap P env e G).bind fun r1 => (asNum r1.1).bind fun x =>
    (ofOpt (lookE v env)).bind fun b => match b with
    | .cell .strct o => (getStrct r1.2 o).bind fun s =>
      .ok (.normal env (r1.2.set o (.cell (.strct (f.set s.1 s.2 x).1 (f.set s.1 s.2 x).2))))
    | _ => .bad             -- a let-bound struct: Go changes the local copy, goose's output is stuck: outside the model
  | .expr e => (evalC ap P env G e).bind fun r => .ok (.normal env r.2)
  | .ite c t e => (evalE ap P env c G).bind fun r => (asBool r.1).bind fun b =>
    if b then leave env (execStmts ap P env r.2 t) else leave env (execStmts ap P env r.2 e)
  | .ret es => (evalEs ap P env es G).bind fun r => .ok (.returned r.1 r.2)
def execStmts (ap : GOracle) (P : Pkg) (env : Env) (G : GHeap) : Stmts → Res Out
  | .nil => .ok (.normal env G)
  | .cons s rest => match execStmt ap P env G s with
    | .ok (.normal env' G') => execStmts ap P env' G' rest
    | r => r
end

/-- a function body: `return vs`, or falling off the end (no results) -/
def runBody (ap : GOracle) (P : Pkg) (env : Env) (G : GHeap) (body : Stmts) : Res (List Val × GHeap) :=
  match execStmts ap P env G body with
  | .ok (.returned vs G') => .ok (vs, G')
  | .ok (.normal _ G') => .ok ([], G')
  | .fuel => .fuel
  | .bad => .bad

/-- Go: apply a function value with `fuel` nested calls allowed.  The callee runs in a FRESH environment: its
parameters on top of the captured environment (a closure) or of nothing (a top-level function). -/
def apply (P : Pkg) : Nat → GOracle
  | 0, _, _, _ => .fuel
  | n + 1, fv, args, G => match fv with
    | .fn g => match findFn g P with
      | some d =>
        if d.named then .bad else
        match bindPs d.allParams args (.top d.name) with
        | some env => runBody (apply P n) P env G d.body
        | none => .bad
      | none => .bad
    | .clo ps body env => match bindPs ps args env with
      | some env' => runBody (apply P n) P env' G body
      | none => .bad
    | _ => .bad

/-- Go: call the top-level function (or method `T__m`, receiver first) `f`. -/
def callGo (P : Pkg) (fuel : Nat) (f : String) (args : List Val) (G : GHeap) : Res (List Val × GHeap) :=
  apply P fuel (.fn f) args G

/-! ## Target (GooseLang fragment) -/

mutual
inductive T where
  | lit (n : Nat)                            -- #n
  | slit (s : List Nat)                      -- #(str"…")
  | blit (b : Bool)
  | unit                                     -- #()
  | var (x : String)                         -- "x"
  | gvar (f : String)                        -- f: a definition of the file
  | add (a b : T)
  | sub (a b : T)
  | mul (a b : T)
  | cmp (op : Cmp) (a b : T)                 -- a = b, a ≠ b, a < b, …
  | load (ty : Ty) (e : T)                   -- ![ty] e
  | store (ty : Ty) (d e : T)                -- d <-[ty] e
  | refTo (ty : Ty) (e : T)                  -- ref_to ty e
  | strLen (e : T)                           -- StringLength e
  | strToBytes (e : T)                       -- StringToBytes e
  | strFromBytes (e : T)                     -- StringFromBytes e
  | sliceLen (e : T)                         -- slice.len e
  | structMk (a b : T)                       -- struct.mk T [ "a" ::= a; "b" ::= b ]
  | structNew (a b : T)                      -- struct.new T [ … ]
  | structGet (f : Fld) (e : T)              -- struct.get T "f" e
  | structLoadF (f : Fld) (e : T)            -- struct.loadF T "f" e
  | structStoreF (f : Fld) (d e : T)         -- struct.storeF T "f" d e
  | app (f : T) (args : Ts)                  -- f a1 … an
  | lam (ps : List String) (body : T)        -- (λ: "x1" … "xn", body)
  | tuple (es : Ts)                          -- (e1, …, ek), k ≥ 2
  | letIn (x : String) (e body : T)          -- let: "x" := e in body
  | letN (xs : List String) (e body : T)     -- let: ("a", "b") := e in body
  | seq (a b : T)                            -- a;; b
  | ite (c a b : T)                          -- (if: c then a else b)
inductive Ts where
  | nil
  | cons (t : T) (rest : Ts)
end

instance : Inhabited T := ⟨.unit⟩
instance : Inhabited Ts := ⟨.nil⟩

/-- the table of emitted definitions: name ↦ (binders of `rec:`, body) -/
abbrev TPkg := List (String × List String × T)

mutual
/-- GooseLang values of this fragment. -/
inductive TVal where
  | num (n : Nat)
  | bool (b : Bool)
  | str (s : List Nat)
  | unit
  | loc (o : Nat)
  | bytes (o : Option Nat)                   -- slice.nil, or the slice covering block `o`
  | strct (a b : Nat)
  | pair (x y : TVal)
  | glob (f : String)                        -- the value of the definition `f` (a closed `rec:`)
  | clo (env : TEnv) (ps : List String) (body : T)
inductive TEnv where
  | nil
  | cons (x : String) (v : TVal) (rest : TEnv)
end

instance : Inhabited TVal := ⟨.unit⟩
instance : Inhabited TEnv := ⟨.nil⟩

def lookT (x : String) : TEnv → Option TVal
  | .nil => none
  | .cons y v rest => if y = x then some v else lookT x rest

abbrev THeap := List (Obj TVal)

def asNumT : TVal → Res Nat
  | .num n => .ok n
  | _ => .bad

def asBoolT : TVal → Res Bool
  | .bool b => .ok b
  | _ => .bad

def asStrT : TVal → Res (List Nat)
  | .str s => .ok s
  | _ => .bad

def asBytesT : TVal → Res (Option Nat)
  | .bytes o => .ok o
  | _ => .bad

def asStrctT : TVal → Res (Nat × Nat)
  | .strct a b => .ok (a, b)
  | _ => .bad

def asLocT : TVal → Res Nat
  | .loc o => .ok o
  | _ => .bad

def addT : TVal → TVal → Res TVal
  | .num m, .num n => .ok (.num (m + n))
  | .str s, .str t => .ok (.str (s ++ t))
  | _, _ => .bad

def subT : TVal → TVal → Res TVal
  | .num m, .num n => if n ≤ m then .ok (.num (m - n)) else .bad
  | _, _ => .bad

def mulT : TVal → TVal → Res TVal
  | .num m, .num n => .ok (.num (m * n))
  | _, _ => .bad

/-- comparison: integers by value; `=` and `≠` also on strings -/
def cmpT (op : Cmp) : TVal → TVal → Res TVal
  | .num m, .num n => .ok (.bool (op.eval m n))
  | .str s, .str t => match op with
    | .eq => .ok (.bool (decide (s = t)))
    | .ne => .ok (.bool (!decide (s = t)))
    | _ => .bad
  | _, _ => .bad

def getStrctT (H : THeap) (o : Nat) : Res (Nat × Nat) :=
  (ofOpt (getCell H o)).bind asStrctT

/-- a tuple from its components in REVERSED order: (e1, e2, e3) is ((e1, e2), e3) -/
def tupleR : List TVal → TVal
  | [] => .unit
  | [v] => v
  | last :: init => .pair (tupleR init) last

/-- the value of `(e1, …, ek)`; of a single component, the component; of none, `#()` -/
def tupleV (vs : List TVal) : TVal := tupleR vs.reverse

/-- the components of a `k+1`-tuple, in reversed order -/
def unpairR : Nat → TVal → Option (List TVal)
  | 0, v => some [v]
  | k + 1, .pair x y => (unpairR k x).map fun l => y :: l
  | _ + 1, _ => none

/-- destructure a tuple of `k` components, `k ≥ 1` -/
def unpair (k : Nat) (v : TVal) : Option (List TVal) :=
  match k with
  | 0 => none
  | k + 1 => (unpairR k v).map List.reverse

/-- bind the binders of a `rec:`/`λ:`/`let:` to values, left to right; `<>` binds nothing -/
def bindTs : List String → List TVal → TEnv → Option TEnv
  | [], [], env => some env
  | p :: ps, v :: vs, env => bindTs ps vs (if p = "_" then env else .cons p v env)
  | _, _, _ => none

abbrev TOracle := TVal → List TVal → THeap → Res (TVal × THeap)

mutual
/-- Environment semantics; `bad` = stuck.  Blocks are allocated at the end of the heap; operands, arguments, tuple
components and struct fields right to left. -/
def evalT (ap : TOracle) (env : TEnv) : T → THeap → Res (TVal × THeap)
  | .lit n, H => .ok (.num n, H)
  | .slit s, H => .ok (.str s, H)
  | .blit b, H => .ok (.bool b, H)
  | .unit, H => .ok (.unit, H)
  | .var x, H => (ofOpt (lookT x env)).bind fun v => .ok (v, H)
  | .gvar f, H => .ok (.glob f, H)
  | .add a b, H =>
    (evalT ap env b H).bind fun r1 => (evalT ap env a r1.2).bind fun r2 =>
    (addT r2.1 r1.1).bind fun v => .ok (v, r2.2)
  | .sub a b, H =>
    (evalT ap env b H).bind fun r1 => (evalT ap env a r1.2).bind fun r2 =>
    (subT r2.1 r1.1).bind fun v => .ok (v, r2.2)
  | .mul a b, H =>
    (evalT ap env b H).bind fun r1 => (evalT ap env a r1.2).bind fun r2 =>
    (mulT r2.1 r1.1).bind fun v => .ok (v, r2.2)
  | .cmp op a b, H =>
    (evalT ap env b H).bind fun r1 => (evalT ap env a r1.2).bind fun r2 =>
    (cmpT op r2.1 r1.1).bind fun v => .ok (v, r2.2)
  | .load _ e, H =>
    (evalT ap env e H).bind fun r => (asLocT r.1).bind fun o => (ofOpt (getCell r.2 o)).bind fun v => .ok (v, r.2)
  | .store _ d e, H =>
    (evalT ap env e H).bind fun r1 => (evalT ap env d r1.2).bind fun r2 => (asLocT r2.1).bind fun o =>
    (ofOpt (getCell r2.2 o)).bind fun _ => .ok (.unit, r2.2.set o (.cell r1.1))
  | .refTo _ e, H => (evalT ap env e H).bind fun r => .ok (.loc r.2.length, r.2 ++ [.cell r.1])
  | .strLen e, H => (evalT ap env e H).bind fun r => (asStrT r.1).bind fun bs => .ok (.num bs.length, r.2)
  | .strToBytes e, H => (evalT ap env e H).bind fun r => (asStrT r.1).bind fun bs =>
    if bs.length = 0 then .ok (.bytes none, r.2) else .ok (.bytes (some r.2.length), r.2 ++ [.arr bs])
  | .strFromBytes e, H => (evalT ap env e H).bind fun r => (asBytesT r.1).bind fun o =>
    (ofOpt (readBytes r.2 o)).bind fun bs => .ok (.str bs, r.2)
  | .sliceLen e, H => (evalT ap env e H).bind fun r => (asBytesT r.1).bind fun o =>
    (ofOpt (readBytes r.2 o)).bind fun bs => .ok (.num bs.length, r.2)
  | .structMk a b, H =>
    (evalT ap env b H).bind fun r1 => (asNumT r1.1).bind fun y =>
    (evalT ap env a r1.2).bind fun r2 => (asNumT r2.1).bind fun x => .ok (.strct x y, r2.2)
  | .structNew a b, H =>
    (evalT ap env b H).bind fun r1 => (asNumT r1.1).bind fun y =>
    (evalT ap env a r1.2).bind fun r2 => (asNumT r2.1).bind fun x =>
    .ok (.loc r2.2.length, r2.2 ++ [.cell (.strct x y)])
  | .structGet f e, H =>
    (evalT ap env e H).bind fun r => (asStrctT r.1).bind fun s => .ok (.num (f.get s.1 s.2), r.2)
  | .structLoadF f e, H =>
    (evalT ap env e H).bind fun r => (asLocT r.1).bind fun o => (getStrctT r.2 o).bind fun s =>
    .ok (.num (f.get s.1 s.2), r.2)
  | .structStoreF f d e, H =>
    (evalT ap env e H).bind fun r1 => (asNumT r1.1).bind fun x =>
    (evalT ap env d r1.2).bind fun r2 => (asLocT r2.1).bind fun o => (getStrctT r2.2 o).bind fun s =>
    .ok (.unit, r2.2.set o (.cell (.strct (f.set s.1 s.2 x).1 (f.set s.1 s.2 x).2)))
  | .app f args, H =>
    (evalTs ap env args H).bind fun r => (evalT ap env f r.2).bind fun q => ap q.1 r.1 q.2
  | .lam ps body, H => .ok (.clo env ps body, H)
  | .tuple es, H => (evalTs ap env es H).bind fun r => .ok (tupleV r.1, r.2)
  | .letIn x e body, H =>
    (evalT ap env e H).bind fun r => evalT ap (if x = "_" then env else .cons x r.1 env) body r.2
  | .letN xs e body, H =>
    (evalT ap env e H).bind fun r => (ofOpt (unpair xs.length r.1)).bind fun vs =>
    match bindTs xs vs env with
    | some env' => evalT ap env' body r.2
    | none => .bad
  | .seq a b, H => (evalT ap env a H).bind fun r => evalT ap env b r.2
  | .ite c a b, H =>
    (evalT ap env c H).bind fun r => (asBoolT r.1).bind fun bb =>
    if bb then evalT ap env a r.2 else evalT ap env b r.2
def evalTs (ap : TOracle) (env : TEnv) : Ts → THeap → Res (List TVal × THeap)
  | .nil, H => .ok ([], H)
  | .cons t rest, H =>
    (evalTs ap env rest H).bind fun r => (evalT ap env t r.2).bind fun q => .ok (q.1 :: r.1, q.2)
end

def findT (g : String) : TPkg → Option (List String × T)
  | [] => none
  | (n, d) :: r => if n = g then some d else findT g r

/-- GooseLang: apply a function value.  A definition `rec: "f" xs := b` binds "f" to itself; a closure extends
the environment it captured. -/
def applyT (TP : TPkg) : Nat → TOracle
  | 0, _, _, _ => .fuel
  | n + 1, fv, args, H => match fv with
    | .glob g => match findT g TP with
      | some (ps, body) => match bindTs ps args (.cons g (.glob g) .nil) with
        | some env => evalT (applyT TP n) env body H
        | none => .bad
      | none => .bad
    | .clo env ps body => match bindTs ps args env with
      | some env' => evalT (applyT TP n) env' body H
      | none => .bad
    | _ => .bad

/-- the arguments of an application: `#()` when there are none -/
def argsT (vs : List TVal) : List TVal :=
  match vs with
  | [] => [.unit]
  | _ => vs

/-- GooseLang: `f a1 … an` for the definition `f` (`f #()` without arguments). -/
def callT (TP : TPkg) (fuel : Nat) (f : String) (args : List TVal) (H : THeap) : Res (TVal × THeap) :=
  applyT TP fuel (.glob f) (argsT args) H

/-! ## Translator -/

/-- Static environment: the local names, innermost first — `none`: let-bound, `some τ`: pointer-wrapped (`var`). -/
abbrev SVars := List (String × Option Ty)

/-- `binder`s of a `rec:`/`λ:`: `<>` when there are no parameters -/
def trParams (ps : List String) : List String :=
  match ps with
  | [] => ["_"]
  | _ => ps

def bindΓ : List String → SVars → SVars
  | [], Γ => Γ
  | p :: ps, Γ => bindΓ ps (if p = "_" then Γ else (p, none) :: Γ)

def msgNotAssignable (x : String) : String := "variable " ++ x ++ " is not assignable"
def msgNamed : String := "named returned value"
def msgMultiArg : String := "multi-valued call as the arguments of a call (bind the results first)"
def msgStrOrder : String := "ordering comparison on strings"
def msgFnType : String := "function type"
def msgReturnPos : String := "return in unsupported position"
def msgEarlyElse : String := "early return in if with an else branch"
def msgDestructure : String := "destructuring more than 4 return values"
def msgPtrMethOnValue : String := "model restriction: pointer-receiver method on a struct value (known finding pointer-method-on-value)"
def msgValMethOnPtr : String := "model restriction: value-receiver method on a pointer (finding value-method-on-pointer)"
def msgSelfShadow : String := "model restriction: a local variable has the emitted name of the method it is used in (T__m)"
def msgStoreLetBound : String := "model restriction: store into a field of a let-bound struct (known finding store-through-let-bound-value)"

/-- how a function is referred to: `"f"` inside its own body (the binder of `rec:`), the definition `f` elsewhere -/
def fnRef (self f : String) : T := if f = self then .var f else .gvar f

/-- the number of results of an argument expression, when it is a call of a top-level function or method -/
def nresOf (P : Pkg) (Γ : SVars) : Exp → Nat
  | .call g _ => match look g Γ with
    | some _ => 1
    | none => match findFn g P with
      | some d => d.nres
      | none => 1
  | .mcall _ m _ _ => match findMeth m P with
    | some d => d.nres
    | none => 1
  | _ => 1

inductive Usage where
  | returned | loc
  deriving Repr, DecidableEq

/-- `coq.Binding`: what one statement contributes to the enclosing `BlockExpr`. -/
inductive Bind where
  | letIn (x : String) (w : Option Ty) (e : T)
  | letN (xs : List String) (e : T)
  | anon (e : T)

def Bind.scope : Bind → SVars → SVars
  | .letIn x w _, Γ => if x = "_" then Γ else (x, w) :: Γ
  | .letN xs _, Γ => bindΓ xs Γ
  | .anon _, Γ => Γ

/-- `Binding.AddTo` / `BlockExpr.Coq`: the LAST binding of a block is printed as its expression only. -/
def Bind.addTo : Bind → (last : Bool) → T → T
  | .letIn _ _ e, true, _ => e
  | .letIn x _ e, false, r => .letIn x e r
  | .letN _ e, true, _ => e
  | .letN xs e, false, r => .letN xs e r
  | .anon e, true, _ => e
  | .anon e, false, r => .seq e r

/-- `ifStmt`, given the translated condition and the translations of the three sub-lists as functions of the usage
(as in `Model/Core.lean`). -/
def trIf (c : T) (remEmpty thnEnds elsEmpty : Bool) (u : Usage)
    (thn els rem : Usage → Except String T) : Except String T :=
  if remEmpty then
    bindE (thn u) fun a => bindE (els u) fun b => .ok (.ite c a b)
  else if thnEnds then
    bindE (thn u) fun a =>
      if elsEmpty then bindE (rem u) fun r => .ok (.ite c a r)
      else .error msgEarlyElse
  else
    bindE (thn .loc) fun a => bindE (els .loc) fun b => bindE (rem u) fun r => .ok (.seq (.ite c a b) r)

mutual
/-- `stmtsEndWithReturn`: looks at the LAST statement only. -/
def endsWithReturn : Stmts → Bool
  | .nil => false
  | .cons s .nil => endsWithReturnS s
  | .cons _ rest => endsWithReturn rest
def endsWithReturnS : Stmt → Bool
  | .ret _ => true
  | .ite _ thn els => endsWithReturn thn && endsWithReturn els
  | _ => false
end

def tupleOf (ts : Ts) : T :=
  match ts with
  | .nil => .unit
  | .cons t .nil => t
  | ts => .tuple ts

def unitArgs (ts : Ts) : Ts :=
  match ts with
  | .nil => .cons .unit .nil
  | ts => ts

mutual
/-- `expr`.  `g = true`: what goose prints also for the shapes listed as findings (`trGoose`). -/
def trE (g : Bool) (P : Pkg) (self : String) (Γ : SVars) : Exp → Except String T
  | .lit n => .ok (.lit n)
  | .slit s => .ok (.slit s)
  | .blit b => .ok (.blit b)
  | .var x => match look x Γ with
    | some (some τ) => .ok (.load τ (.var x))
    | some none => .ok (.var x)
    | none => .error ("undeclared name " ++ x)
  | .fref f => match look f Γ with
    | some _ => .error ("not a top-level function (a local variable hides it): " ++ f)
    | none => .ok (fnRef self f)
  | .add a b => bindE (trE g P self Γ a) fun ta => bindE (trE g P self Γ b) fun tb => .ok (.add ta tb)
  | .sub a b => bindE (trE g P self Γ a) fun ta => bindE (trE g P self Γ b) fun tb => .ok (.sub ta tb)
  | .mul a b => bindE (trE g P self Γ a) fun ta => bindE (trE g P self Γ b) fun tb => .ok (.mul ta tb)
  | .cmp op a b => bindE (trE g P self Γ a) fun ta => bindE (trE g P self Γ b) fun tb => .ok (.cmp op ta tb)
  | .scmp op a b =>
    if op = .eq ∨ op = .ne then
      bindE (trE g P self Γ a) fun ta => bindE (trE g P self Γ b) fun tb => .ok (.cmp op ta tb)
    else .error msgStrOrder
  | .slen s => bindE (trE g P self Γ s) fun t => .ok (.strLen t)
  | .toBytes s => bindE (trE g P self Γ s) fun t => .ok (.strToBytes t)
  | .ofBytes b => bindE (trE g P self Γ b) fun t => .ok (.strFromBytes t)
  | .blen b => bindE (trE g P self Γ b) fun t => .ok (.sliceLen t)
  | .mk a b => bindE (trE g P self Γ a) fun ta => bindE (trE g P self Γ b) fun tb => .ok (.structMk ta tb)
  | .new a b => bindE (trE g P self Γ a) fun ta => bindE (trE g P self Γ b) fun tb => .ok (.structNew ta tb)
  | .fld viaPtr f e => bindE (trE g P self Γ e) fun t => .ok (if viaPtr then .structLoadF f t else .structGet f t)
  | .call f args =>
    bindE (trEs g P self Γ args) fun ts =>
    match look f Γ with
    | some (some τ) => .ok (.app (.load τ (.var f)) (unitArgs ts))
    | some none => .ok (.app (.var f) (unitArgs ts))
    | none => .ok (.app (fnRef self f) (unitArgs ts))
  | .mcall viaPtr m recv args =>
    match findMeth m P with
    | none => .error ("unknown method " ++ m)
    | some d => match d.recv with
      | none => .error ("unknown method " ++ m)
      | some rc =>
        bindE (trE g P self Γ recv) fun tr => bindE (trEs g P self Γ args) fun ts =>
        if g = true then .ok (.app (fnRef self d.name) (.cons tr ts))
        else if d.name = self ∧ (look d.name Γ).isSome then .error msgSelfShadow
        else if viaPtr = rc.ptr then .ok (.app (fnRef self d.name) (.cons tr ts))
        else if viaPtr then .error msgValMethOnPtr else .error msgPtrMethOnValue
  | .fn named ps body =>
    if named then .error msgNamed else
    bindE (trStmts g P self (bindΓ ps Γ) body .returned) fun tb => .ok (.lam (trParams ps) tb)
/-- the arguments of a call (`newCoqCallTypeArgs`) or the results of a `return` -/
def trEs (g : Bool) (P : Pkg) (self : String) (Γ : SVars) : Exps → Except String Ts
  | .nil => .ok .nil
  | .cons e rest =>
    if 2 ≤ nresOf P Γ e then .error msgMultiArg else
    bindE (trE g P self Γ e) fun t => bindE (trEs g P self Γ rest) fun ts => .ok (.cons t ts)
/-- `stmtInBlock`: the binding and whether the usage has been finalized. -/
def trInBlock (g : Bool) (P : Pkg) (self : String) (Γ : SVars) : Stmt → Usage → Except String (Bind × Bool)
  | .ret es, u =>
    match u with
    | .returned => bindE (trEs g P self Γ es) fun ts => .ok (.anon (tupleOf ts), true)
    | .loc => .error msgReturnPos
  | .ite c thn els, u =>
    bindE (trE g P self Γ c) fun tc =>
    bindE (trIf tc true (endsWithReturn thn) els.isNil u
      (fun u' => trStmts g P self Γ thn u') (fun u' => trStmts g P self Γ els u') (fun _ => .ok .unit)) fun t =>
    .ok (.anon t, true)
  | .define x e, u => bindE (trE g P self Γ e) fun t => .ok (.letIn x none t, u == .loc)
  | .declare x ty e, u =>
    if ty = .fn then .error msgFnType else
    bindE (trE g P self Γ e) fun t => .ok (.letIn x (some ty) (.refTo ty t), u == .loc)
  | .assign x e, u =>
    bindE (trE g P self Γ e) fun t => match look x Γ with
    | some (some τ) => .ok (.anon (.store τ (.var x) t), u == .loc)
    | some none => .error (msgNotAssignable x)
    | none => .error ("undeclared name " ++ x)
  | .defineN xs e, u =>
    if 4 < xs.length then .error msgDestructure else
    bindE (trE g P self Γ e) fun t => .ok (.letN xs t, u == .loc)
  | .setP f p e, u =>
    bindE (trE g P self Γ e) fun te => bindE (trE g P self Γ p) fun tp => .ok (.anon (.structStoreF f tp te), u == .loc)
  | .setV f v e, u =>
    bindE (trE g P self Γ e) fun te => match look v Γ with
    | some (some _) => .ok (.anon (.structStoreF f (.var v) te), u == .loc)
    | some none => if g then .ok (.anon (.structStoreF f (.var v) te), u == .loc) else .error msgStoreLetBound
    | none => .error ("undeclared name " ++ v)
  | .expr e, u => bindE (trE g P self Γ e) fun t => .ok (.anon t, u == .loc)
/-- `stmts`. -/
def trStmts (g : Bool) (P : Pkg) (self : String) (Γ : SVars) : Stmts → Usage → Except String T
  | .nil, _ => .ok .unit
  | .cons s rest, u =>
    match s with
    | .ite c thn els =>
      bindE (trE g P self Γ c) fun tc =>
      trIf tc rest.isNil (endsWithReturn thn) els.isNil u
        (fun u' => trStmts g P self Γ thn u') (fun u' => trStmts g P self Γ els u') (fun u' => trStmts g P self Γ rest u')
    | s =>
      if rest.isNil then
        bindE (trInBlock g P self Γ s u) fun bf =>
        .ok (if bf.2 then bf.1.addTo true .unit else bf.1.addTo false .unit)
      else
        bindE (trInBlock g P self Γ s .loc) fun bf =>
        bindE (trStmts g P self (bf.1.scope Γ) rest u) fun r => .ok (bf.1.addTo false r)
end

/-- The body of a function literal or declaration with parameters `ps` in the static environment `Γ`. -/
def trBody (g : Bool) (P : Pkg) (self : String) (Γ : SVars) (ps : List String) (body : Stmts) : Except String T :=
  trStmts g P self (bindΓ ps Γ) body .returned

/-- `funcDecl`: the emitted definition. -/
def trDeclX (g : Bool) (P : Pkg) (d : FuncDecl) : Except String (String × List String × T) :=
  if d.named then .error msgNamed else
  bindE (trBody g P d.name [] d.allParams d.body) fun tb => .ok (d.name, trParams d.allParams, tb)

/-- The model of goose on one declaration of the package `P`. -/
def trDecl (P : Pkg) (d : FuncDecl) : Except String (String × List String × T) := trDeclX false P d

/-- … including the shapes listed as findings, as goose prints them. -/
def trDeclGoose (P : Pkg) (d : FuncDecl) : Except String (String × List String × T) := trDeclX true P d

def trDecls (g : Bool) (P : Pkg) : List FuncDecl → Except String TPkg
  | [] => .ok []
  | d :: r => bindE (trDeclX g P d) fun td => bindE (trDecls g P r) fun tr => .ok (td :: tr)

/-- The model of goose: every declaration of the package accepted. -/
def tr (P : Pkg) : Except String TPkg := trDecls false P P

def trGoose (P : Pkg) : Except String TPkg := trDecls true P P

/-- the accepted declarations only (`goose -ignore-errors`) -/
def trAccepted (g : Bool) (P : Pkg) : List FuncDecl → TPkg
  | [] => []
  | d :: r => match trDeclX g P d with
    | .ok td => td :: trAccepted g P r
    | .error _ => trAccepted g P r

/-! ## Folding a result (for the correspondence check) -/

def sumList : List Nat → Nat
  | [] => 0
  | x :: r => x + sumList r

/-- a number is itself, a boolean 0/1, a string and a byte slice their length plus the sum of their bytes, a struct
`a + 7·b`, a pointer what it points to -/
def foldGo (G : GHeap) : Val → Nat
  | .num n => n
  | .bool b => if b then 1 else 0
  | .str s => s.length + sumList s
  | .bytes o => match readBytes G o with
    | some bs => bs.length + sumList bs
    | none => 0
  | .strct a b => a + 7 * b
  | .ptr o => match getCell G o with
    | some (.strct a b) => a + 7 * b
    | _ => 0
  | _ => 0

/-- results r1, r2, r3, … fold to r1 + 1000·r2 + 1000000·r3 + … -/
def foldsGo (G : GHeap) : List Val → Nat
  | [] => 0
  | v :: r => foldGo G v + 1000 * foldsGo G r

def foldT (H : THeap) : TVal → Nat
  | .num n => n
  | .bool b => if b then 1 else 0
  | .str s => s.length + sumList s
  | .bytes o => match readBytes H o with
    | some bs => bs.length + sumList bs
    | none => 0
  | .strct a b => a + 7 * b
  | .loc o => match getCell H o with
    | some (.strct a b) => a + 7 * b
    | _ => 0
  | _ => 0

def foldsT (H : THeap) : List TVal → Nat
  | [] => 0
  | v :: r => foldT H v + 1000 * foldsT H r

/-- the components of a result of `k` components (`k = 0`: `#()`) -/
def untuple (k : Nat) (v : TVal) : Option (List TVal) :=
  match k with
  | 0 => some []
  | k + 1 => unpair (k + 1) v

/-! ## Line protocol

Token syntax (space-separated tokens, prefix):

  ty ::= u64 | bool | str | bytes | T | ptr | fn
  E  ::= <digits> | s:<hex of the bytes> | s:- | true | false | <name>
       | fref <name>                              a top-level function as a value
       | + E E | - E E | * E E
       | == E E | != E E | < E E | <= E E | > E E | >= E E          numbers
       | s== E E | s!= E E | s< E E | s<= E E | s> E E | s>= E E    strings
       | slen E | bytes E | string E | blen E     uint64(len(s))  []byte(s)  string(b)  uint64(len(b))
       | mk E E | new E E                         T{a: E, b: E}   &T{a: E, b: E}
       | get a|b E | getp a|b E                   E.a on a struct value / through a pointer
       | call <name> ( E* )
       | mcall v|p <m> E ( E* )                   E.m(E*), E a struct value / a pointer
       | fn n|N ( <name>* ) [ SS ]                func(…) ρ { SS }        N: named results
  S  ::= def <name> E | var <name> ty E | set <name> E
       | defn ( <name|_>* ) E                     a, _, c := E
       | setp a|b E E                             E.a = E through a pointer
       | setv a|b <name> E                        v.a = E on a struct variable
       | do E                                     a call as a statement
       | if E [ SS ] [ SS ]
       | ret ( E* )
  SS ::= ε | S | S ; SS
  D  ::= func <name> <k> n|N ( <name>* ) [ SS ]                   k: the number of results
       | meth <m> <k> n|N <r> val|ptr ( <name>* ) [ SS ]          func (r T) m(…) / func (r *T) m(…)
  PKG ::= D*

`run toks` (`driver fun`, one package per line) prints one entry per declaration, in order, joined by ` ;; `:
  `(func <name> [] (rec <hex name> [<hex binders>] <body>))`   exactly what `driver gl`'s `canon <name>` prints after `canon `
  `finding <name> <kind-with-dashes> (func …)`                  `tr` refuses (a listed finding), `trGoose` prints this
  `error <name> <message-with-dashes>`                          refused
or `error parse`.
`runGoToks` (`driver fungo`): `<f> <n1> … <nk> | PKG` — Go's call of `f` with the numbers as arguments and fuel
`protoFuel`: the fold of the results (`foldsGo`), `fuel`, or `none`.
`runTToks` (`driver funt`): the same line — the fold of what the model's target semantics computes from the emitted
definitions (`trGoose`, the refused declarations left out), `fuel`, or `stuck`.
-/

def reserved : List String :=
  [";", "[", "]", "(", ")", "|", "_", "+", "-", "*", "==", "!=", "<", "<=", ">", ">=", "s==", "s!=", "s<", "s<=", "s>", "s>=",
   "true", "false", "fref", "slen", "bytes", "string", "blen", "mk", "new", "get", "getp", "call", "mcall", "fn",
   "def", "var", "set", "defn", "setp", "setv", "do", "if", "ret", "func", "meth"]

def isName (tok : String) : Bool :=
  !(reserved.contains tok) && !isNumTok tok && !tok.startsWith "s:" && !tok.isEmpty

def parseCmp : String → Option Cmp
  | "==" => some .eq
  | "!=" => some .ne
  | "<" => some .lt
  | "<=" => some .le
  | ">" => some .gt
  | ">=" => some .ge
  | _ => none

def parseSCmp : String → Option Cmp
  | "s==" => some .eq
  | "s!=" => some .ne
  | "s<" => some .lt
  | "s<=" => some .le
  | "s>" => some .gt
  | "s>=" => some .ge
  | _ => none

def parseTy : String → Option Ty
  | "u64" => some .u64
  | "bool" => some .bool
  | "str" => some .str
  | "bytes" => some .bytes
  | "T" => some .strct
  | "ptr" => some .ptr
  | "fn" => some .fn
  | _ => none

def parseFld : String → Option Fld
  | "a" => some .a
  | "b" => some .b
  | _ => none

def hexVal (c : Char) : Option Nat :=
  if '0' ≤ c ∧ c ≤ '9' then some (c.toNat - 48)
  else if 'a' ≤ c ∧ c ≤ 'f' then some (c.toNat - 87)
  else none

def parseHex : List Char → Option (List Nat)
  | [] => some []
  | [_] => none
  | a :: b :: r => match hexVal a, hexVal b, parseHex r with
    | some x, some y, some l => some ((16 * x + y) :: l)
    | _, _, _ => none

def parseStrTok (tok : String) : Option (List Nat) :=
  if tok = "s:-" then some [] else
  if tok.startsWith "s:" then parseHex (tok.toList.drop 2) else none

/-- `( name* )`; `blank`: `_` is allowed -/
def parseNames (blank : Bool) : List String → Option (List String × List String)
  | ")" :: r => some ([], r)
  | x :: r =>
    if isName x || (blank && x = "_") then
      match parseNames blank r with
      | some (xs, r1) => some (x :: xs, r1)
      | none => none
    else none
  | [] => none

mutual
def parseE : Nat → List String → Option (Exp × List String)
  | 0, _ => none
  | _ + 1, [] => none
  | f + 1, tok :: r =>
    let two (mk : Exp → Exp → Exp) : Option (Exp × List String) :=
      match parseE f r with
      | some (a, r1) => match parseE f r1 with
        | some (b, r2) => some (mk a b, r2)
        | none => none
      | none => none
    let one (mk : Exp → Exp) : Option (Exp × List String) :=
      match parseE f r with
      | some (a, r1) => some (mk a, r1)
      | none => none
    match tok with
    | "+" => two .add
    | "-" => two .sub
    | "*" => two .mul
    | "true" => some (.blit true, r)
    | "false" => some (.blit false, r)
    | "slen" => one .slen
    | "bytes" => one .toBytes
    | "string" => one .ofBytes
    | "blen" => one .blen
    | "mk" => two .mk
    | "new" => two .new
    | "fref" => match r with
      | g :: r1 => if isName g then some (.fref g, r1) else none
      | [] => none
    | "get" => match r with
      | fl :: r1 => match parseFld fl, parseE f r1 with
        | some fd, some (e, r2) => some (.fld false fd e, r2)
        | _, _ => none
      | [] => none
    | "getp" => match r with
      | fl :: r1 => match parseFld fl, parseE f r1 with
        | some fd, some (e, r2) => some (.fld true fd e, r2)
        | _, _ => none
      | [] => none
    | "call" => match r with
      | g :: "(" :: r1 => match parseEs f r1 with
        | some (args, r2) => if isName g then some (.call g args, r2) else none
        | none => none
      | _ => none
    | "mcall" => match r with
      | k :: m :: r1 => match parseE f r1 with
        | some (recv, "(" :: r2) => match parseEs f r2 with
          | some (args, r3) =>
            if isName m && (k = "v" || k = "p") then some (.mcall (k = "p") m recv args, r3) else none
          | none => none
        | _ => none
      | _ => none
    | "fn" => match r with
      | nm :: "(" :: r1 => match parseNames true r1 with
        | some (ps, "[" :: r2) => match parseSS f r2 with
          | some (body, "]" :: r3) => if nm = "n" || nm = "N" then some (.fn (nm = "N") ps body, r3) else none
          | _ => none
        | _ => none
      | _ => none
    | _ =>
      match parseCmp tok with
      | some op => two (.cmp op)
      | none => match parseSCmp tok with
        | some op => two (.scmp op)
        | none =>
          if isNumTok tok then some (.lit tok.toNat!, r)
          else match parseStrTok tok with
            | some bs => some (.slit bs, r)
            | none => if isName tok then some (.var tok, r) else none
/-- `E* )` -/
def parseEs : Nat → List String → Option (Exps × List String)
  | 0, _ => none
  | _ + 1, ")" :: r => some (.nil, r)
  | f + 1, toks => match parseE f toks with
    | some (e, r1) => match parseEs f r1 with
      | some (es, r2) => some (.cons e es, r2)
      | none => none
    | none => none
def parseS : Nat → List String → Option (Stmt × List String)
  | 0, _ => none
  | f + 1, "def" :: x :: r => match parseE f r with
    | some (e, r1) => if isName x then some (.define x e, r1) else none
    | none => none
  | f + 1, "var" :: x :: ty :: r => match parseTy ty, parseE f r with
    | some τ, some (e, r1) => if isName x then some (.declare x τ e, r1) else none
    | _, _ => none
  | f + 1, "set" :: x :: r => match parseE f r with
    | some (e, r1) => if isName x then some (.assign x e, r1) else none
    | none => none
  | f + 1, "defn" :: "(" :: r => match parseNames true r with
    | some (xs, r1) => match parseE f r1 with
      | some (e, r2) => some (.defineN xs e, r2)
      | none => none
    | none => none
  | f + 1, "setp" :: fl :: r => match parseFld fl, parseE f r with
    | some fd, some (p, r1) => match parseE f r1 with
      | some (e, r2) => some (.setP fd p e, r2)
      | none => none
    | _, _ => none
  | f + 1, "setv" :: fl :: v :: r => match parseFld fl, parseE f r with
    | some fd, some (e, r1) => if isName v then some (.setV fd v e, r1) else none
    | _, _ => none
  | f + 1, "do" :: r => match parseE f r with
    | some (e, r1) => some (.expr e, r1)
    | none => none
  | f + 1, "if" :: r => match parseE f r with
    | some (c, "[" :: r1) => match parseSS f r1 with
      | some (t, "]" :: "[" :: r2) => match parseSS f r2 with
        | some (e, "]" :: r3) => some (.ite c t e, r3)
        | _ => none
      | _ => none
    | _ => none
  | f + 1, "ret" :: "(" :: r => match parseEs f r with
    | some (es, r1) => some (.ret es, r1)
    | none => none
  | _ + 1, _ => none
def parseSS : Nat → List String → Option (Stmts × List String)
  | 0, _ => none
  | _ + 1, [] => some (.nil, [])
  | _ + 1, "]" :: r => some (.nil, "]" :: r)
  | f + 1, toks => match parseS f toks with
    | some (s, ";" :: r1) => match parseSS f r1 with
      | some (ss, r2) => some (.cons s ss, r2)
      | none => none
    | some (s, r1) => some (.cons s .nil, r1)
    | none => none
end

def parseD (f : Nat) : List String → Option (FuncDecl × List String)
  | "func" :: name :: k :: nm :: "(" :: r =>
    match parseNames true r with
    | some (ps, "[" :: r1) => match parseSS f r1 with
      | some (body, "]" :: r2) =>
        if isName name && isNumTok k && (nm = "n" || nm = "N") then
          some ({ name := name, recv := none, params := ps, nres := k.toNat!, named := nm = "N", body := body }, r2)
        else none
      | _ => none
    | _ => none
  | "meth" :: m :: k :: nm :: rn :: kind :: "(" :: r =>
    match parseNames true r with
    | some (ps, "[" :: r1) => match parseSS f r1 with
      | some (body, "]" :: r2) =>
        if isName m && isNumTok k && (nm = "n" || nm = "N") && (isName rn || rn = "_") && (kind = "val" || kind = "ptr") then
          some ({ name := "T__" ++ m, recv := some { rname := rn, ptr := kind = "ptr", mname := m }, params := ps,
                  nres := k.toNat!, named := nm = "N", body := body }, r2)
        else none
      | _ => none
    | _ => none
  | _ => none

def parsePkg (f : Nat) : Nat → List String → Option Pkg
  | 0, _ => none
  | _ + 1, [] => some []
  | n + 1, toks => match parseD f toks with
    | some (d, r) => match parsePkg f n r with
      | some ds => some (d :: ds)
      | none => none
    | none => none

def parse (toks : List String) : Option Pkg := parsePkg (toks.length + 1) (toks.length + 1) toks

def Ty.canon : Ty → String
  | .u64 => "(g uint64T)"
  | .bool => "(g boolT)"
  | .str => "(g stringT)"
  | .bytes => "(app (g slice.T) (g byteT))"
  | .strct => "(app (g struct.t) (g T))"
  | .ptr => "(g ptrT)"
  | .fn => "(g <function type>)"

def Fld.name : Fld → String
  | .a => "a"
  | .b => "b"

def hexDigit (n : Nat) : Char := if n < 10 then Char.ofNat (48 + n) else Char.ofNat (87 + n)

def hexBytes (bs : List Nat) : String :=
  String.ofList (bs.flatMap fun n => [hexDigit (n % 256 / 16), hexDigit (n % 16)])

def binders (ps : List String) : String := "[" ++ " ".intercalate (ps.map hexStr) ++ "]"

mutual
def T.canon : T → String
  | .lit n => "(lit u64:" ++ toString n ++ ")"
  | .slit s => "(lit str:" ++ hexBytes s ++ ")"
  | .blit b => if b then "(lit true)" else "(lit false)"
  | .unit => "(lit unit)"
  | .var x => "(var " ++ hexStr x ++ ")"
  | .gvar f => "(g " ++ f ++ ")"
  | .add a b => "(bin 2b " ++ a.canon ++ " " ++ b.canon ++ ")"
  | .sub a b => "(bin 2d " ++ a.canon ++ " " ++ b.canon ++ ")"
  | .mul a b => "(bin 2a " ++ a.canon ++ " " ++ b.canon ++ ")"
  | .cmp op a b => "(bin " ++ op.canon ++ " " ++ a.canon ++ " " ++ b.canon ++ ")"
  | .load ty e => "(load " ++ ty.canon ++ " " ++ e.canon ++ ")"
  | .store ty d e => "(store " ++ d.canon ++ " " ++ ty.canon ++ " " ++ e.canon ++ ")"
  | .refTo ty e => app "ref_to" [ty.canon, e.canon]
  | .strLen e => app "StringLength" [e.canon]
  | .strToBytes e => app "StringToBytes" [e.canon]
  | .strFromBytes e => app "StringFromBytes" [e.canon]
  | .sliceLen e => app "slice.len" [e.canon]
  | .structMk a b => app "struct.mk" ["(g T)", "(fields (61 " ++ a.canon ++ ") (62 " ++ b.canon ++ "))"]
  | .structNew a b => app "struct.new" ["(g T)", "(fields (61 " ++ a.canon ++ ") (62 " ++ b.canon ++ "))"]
  | .structGet f e => app "struct.get" ["(g T)", "(var " ++ hexStr f.name ++ ")", e.canon]
  | .structLoadF f e => app "struct.loadF" ["(g T)", "(var " ++ hexStr f.name ++ ")", e.canon]
  | .structStoreF f d e => app "struct.storeF" ["(g T)", "(var " ++ hexStr f.name ++ ")", d.canon, e.canon]
  | .app f args => "(app " ++ f.canon ++ " " ++ args.canon ++ ")"
  | .lam ps body => "(lam " ++ binders ps ++ " " ++ body.canon ++ ")"
  | .tuple es => "(tuple " ++ es.canon ++ ")"
  | .letIn x e b => "(let " ++ binders [x] ++ " " ++ e.canon ++ " " ++ b.canon ++ ")"
  | .letN xs e b => "(let " ++ binders xs ++ " " ++ e.canon ++ " " ++ b.canon ++ ")"
  | .seq a b => "(seq " ++ a.canon ++ " " ++ b.canon ++ ")"
  | .ite c a b => "(if " ++ c.canon ++ " " ++ a.canon ++ " " ++ b.canon ++ ")"
def Ts.canon : Ts → String
  | .nil => ""
  | .cons t .nil => t.canon
  | .cons t rest => t.canon ++ " " ++ rest.canon
end

def declCanon (d : String × List String × T) : String :=
  "(func " ++ d.1 ++ " [] (rec " ++ hexStr d.1 ++ " " ++ binders d.2.1 ++ " " ++ d.2.2.canon ++ "))"

/-- the kind of finding behind a refusal of `tr` that `trGoose` does not share -/
def findingKind (m : String) : String :=
  if m = msgPtrMethOnValue then "pointer-method-on-value"
  else if m = msgValMethOnPtr then "value-method-on-pointer"
  else if m = msgStoreLetBound then "store-through-let-bound-value"
  else "other"

def runDecl (P : Pkg) (d : FuncDecl) : String :=
  match trDecl P d with
  | .ok td => declCanon td
  | .error m =>
    match trDeclGoose P d with
    | .ok td => "finding " ++ d.name ++ " " ++ findingKind m ++ " " ++ declCanon td
    | .error m' => "error " ++ d.name ++ " " ++ dashes m'

def run (toks : List String) : String :=
  match parse toks with
  | none => "error parse"
  | some P => " ;; ".intercalate (P.map (runDecl P))

def protoFuel : Nat := 20000

/-- `<f> <n1> … <nk> | PKG` -/
def splitCall : List String → Option (String × List Nat × List String)
  | f :: r =>
    let args := r.takeWhile (· ≠ "|")
    let rest := (r.dropWhile (· ≠ "|")).drop 1
    if args.all isNumTok then some (f, args.map String.toNat!, rest) else none
  | [] => none

def runGoToks (ws : List String) : String :=
  match splitCall ws with
  | none => "error parse"
  | some (f, args, toks) =>
    match parse toks with
    | none => "error parse"
    | some P =>
      match callGo P protoFuel f (args.map Val.num) [] with
      | .ok (vs, G) => toString (foldsGo G vs)
      | .fuel => "fuel"
      | .bad => "none"

def nresIn (P : Pkg) (f : String) : Nat :=
  match findFn f P with
  | some d => d.nres
  | none => 1

def runTToks (ws : List String) : String :=
  match splitCall ws with
  | none => "error parse"
  | some (f, args, toks) =>
    match parse toks with
    | none => "error parse"
    | some P =>
      match callT (trAccepted true P P) protoFuel f (args.map TVal.num) [] with
      | .ok (v, H) => match untuple (nresIn P f) v with
        | some vs => toString (foldsT H vs)
        | none => "stuck"
      | .fuel => "fuel"
      | .bad => "stuck"

end GooseVerif.Model.Fun
