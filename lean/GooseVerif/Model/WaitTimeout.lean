/-
Protocol model of `primitive.WaitTimeout` (what `machine.WaitTimeout` delegates to):

    done := make(chan struct{})
    go func() { cond.Wait(); cond.L.Unlock(); close(done) }()
    select { case <-time.After(d): cond.L.Lock(); return
             case <-done:          cond.L.Lock(); return }

with `sync.Cond.Wait` = { enqueue; L.Unlock(); block until Signal/Broadcast; L.Lock() }.
The caller owns `L` when it calls `WaitTimeout`. Other goroutines (`env i`) use `L` properly
(they unlock only what they locked) and may Signal/Broadcast at any time; after returning, the
caller eventually unlocks. A Go mutex has no owner, so `holder` is ghost state recording on
whose behalf the mutex is locked; unlocking a free mutex is the runtime's fatal error and is
modelled by `fatal`.  Timing is not modelled (only the order of events).  Core Lean only.
-/
namespace GooseVerif.Model.WaitTimeout

inductive Agent where
  | caller | helper | env (i : Nat)
  deriving DecidableEq, Repr

/-- caller: about to spawn the helper; blocked in `select`; chose a branch, about to `Lock`;
returned (owning `L`); later unlocked `L` itself. -/
inductive CPc where
  | start | selecting | locking | returned | released
  deriving DecidableEq, Repr

/-- helper goroutine: not spawned; about to call `Wait`; inside `Wait`, unlocked and parked;
woken, about to `Lock`; `Wait` returned, about to `Unlock`; about to `close(done)`; finished. -/
inductive HPc where
  | notStarted | atWait | parked | woken | holding | closing | finished
  deriving DecidableEq, Repr

structure St where
  holder : Option Agent
  c : CPc
  h : HPc
  timer : Bool
  done : Bool
  fatal : Bool
  deriving DecidableEq, Repr

def init : St := { holder := some .caller, c := .start, h := .notStarted, timer := false, done := false, fatal := false }

inductive Action where
  | spawn          -- caller: `go func(){…}()` then enters select
  | timerFire      -- runtime: the timer channel becomes ready
  | selectTimer    -- caller takes the timeout branch
  | selectDone     -- caller takes the done branch
  | callerLock     -- caller: cond.L.Lock() (blocks while the mutex is locked)
  | callerUnlock   -- caller, after returning: cond.L.Unlock()
  | helperWait     -- helper: first half of cond.Wait(): L.Unlock() and park
  | wake           -- environment: Signal/Broadcast reaches the parked helper
  | helperLock     -- helper: second half of cond.Wait(): L.Lock()
  | helperUnlock   -- helper: cond.L.Unlock()
  | helperClose    -- helper: close(done)
  | envLock (i : Nat)
  | envUnlock (i : Nat)
  deriving DecidableEq, Repr

/-- `none`: the action is not enabled in this state. -/
def step (s : St) : Action → Option St
  | .spawn => if s.c = .start then some { s with c := .selecting, h := .atWait } else none
  | .timerFire => if s.c ≠ .start ∧ s.timer = false then some { s with timer := true } else none
  | .selectTimer => if s.c = .selecting ∧ s.timer = true then some { s with c := .locking } else none
  | .selectDone => if s.c = .selecting ∧ s.done = true then some { s with c := .locking } else none
  | .callerLock => if s.c = .locking ∧ s.holder = none then some { s with c := .returned, holder := some .caller } else none
  | .callerUnlock =>
    if s.c = .returned then
      (if s.holder = none then some { s with fatal := true } else some { s with c := .released, holder := none })
    else none
  | .helperWait =>
    if s.h = .atWait then
      (if s.holder = none then some { s with fatal := true } else some { s with h := .parked, holder := none })
    else none
  | .wake => if s.h = .parked then some { s with h := .woken } else none
  | .helperLock => if s.h = .woken ∧ s.holder = none then some { s with h := .holding, holder := some .helper } else none
  | .helperUnlock =>
    if s.h = .holding then
      (if s.holder = none then some { s with fatal := true } else some { s with h := .closing, holder := none })
    else none
  | .helperClose => if s.h = .closing then some { s with h := .finished, done := true } else none
  | .envLock i => if s.holder = none then some { s with holder := some (.env i) } else none
  | .envUnlock i => if s.holder = some (.env i) then some { s with holder := none } else none

/-- Run a schedule; actions that are not enabled are skipped (the schedule is arbitrary). -/
def run (s : St) : List Action → St
  | [] => s
  | a :: as => run ((step s a).getD s) as

def Reachable (s : St) : Prop := ∃ as, run init as = s

end GooseVerif.Model.WaitTimeout
