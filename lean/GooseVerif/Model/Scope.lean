/-
Model of how goose translates Go LOCAL VARIABLES and BLOCK SCOPES (`/repo/goose.go`: `defineStmt`,
`varSpec`/`varDeclStmt`, `variable`, `assignFromTo`/`pointerAssign`, `stmts`, `stmtInBlock`, `ifStmt`;
`/repo/internal/coq/coq.go`: `Binding.AddTo`, `BlockExpr.Coq`, `ParenExpr`).  Core Lean only, executable.

  x := e          ↦  let: "x" := ⟦e⟧ in <rest>                    immutable let-binding
  var x T = e     ↦  let: "x" := ref_to T ⟦e⟧ in <rest>           heap cell, the OBJECT is pointer-wrapped
  use of x        ↦  ![T] "x"  if the declaration x resolves to is pointer-wrapped, else  "x"
  x = e           ↦  "x" <-[T] ⟦e⟧  if pointer-wrapped, else the error "variable x is not assignable"
  { b } ; rest    ↦  (⟦b⟧);; <rest>                               the parentheses end the scope of b's lets
  if c {A} else {B} ; rest ↦ (if: ⟦c⟧ then ⟦A⟧ else ⟦B⟧);; <rest>
  return e        ↦  ⟦e⟧

Shape of the syntax (chosen to keep ONE mutual structural induction):
  `Stmts` has three constructors `nil | ret e | cons s rest`.  A nested block / branch that completes
  normally ends in `nil`; the function body ends in `ret e`.  The translator accepts `ret` only at the
  end of the function body (early returns and tail-position blocks/conditionals are the subject of the
  control-flow model `Model/Tr.lean`, not of this one) and requires the function body to end in `ret`.

Numbers are unbounded naturals (wrap-around is the subject of the arithmetic tables), conditions
are numbers (`c ≠ 0` is true; printed as `⟦c⟧ ≠ #0`).

The model does not reject `x := 1; x := 2` in one scope (a Go compile error): both sides treat it as
shadowing.  A declaration as the LAST statement of a nested block cannot occur in Go that compiles
("declared and not used"); the model translates it as a binding over `#()`.
-/
namespace GooseVerif.Model.Scope

/-! ## Source -/

/-- Pure expressions. -/
inductive Exp where
  | lit (n : Nat)
  | var (x : String)
  | add (a b : Exp)
  deriving Repr, DecidableEq, Inhabited

mutual
inductive Stmt where
  | define (x : String) (e : Exp)          -- x := e
  | declare (x : String) (e : Exp)         -- var x T = e
  | assign (x : String) (e : Exp)          -- x = e
  | block (b : Stmts)                      -- { b }
  | ite (c : Exp) (t e : Stmts)            -- if c != 0 { t } else { e }
inductive Stmts where
  | nil                                    -- normal completion of a nested block
  | ret (e : Exp)                          -- return e
  | cons (s : Stmt) (rest : Stmts)
end

instance : Inhabited Stmts := ⟨.nil⟩
instance : Inhabited Stmt := ⟨.block .nil⟩

def Stmts.isNil : Stmts → Bool
  | .nil => true
  | _ => false

/-! ## Association lists and stacks of scopes (innermost scope first, newest binding first) -/

/-- First binding of `x` in an association list. -/
def look {α : Type} (x : String) : List (String × α) → Option α
  | [] => none
  | (y, v) :: r => if y = x then some v else look x r

/-- Innermost binding of `x` in a stack of scopes. -/
def lookStk {α : Type} (x : String) : List (List (String × α)) → Option α
  | [] => none
  | sc :: st => match look x sc with
    | some v => some v
    | none => lookStk x st

/-- Add a binding to the innermost scope. -/
def bindStk {α : Type} (x : String) (v : α) : List (List (String × α)) → List (List (String × α))
  | [] => [[(x, v)]]
  | sc :: st => ((x, v) :: sc) :: st

/-! ## Go semantics -/

abbrev Scope := List (String × Nat)
abbrev Stack := List Scope

/-- Overwrite the first binding of `x` in one scope. -/
def updScope (x : String) (n : Nat) : Scope → Option Scope
  | [] => none
  | (y, m) :: sc =>
    if y = x then some ((y, n) :: sc)
    else match updScope x n sc with
      | some sc' => some ((y, m) :: sc')
      | none => none

/-- Overwrite the innermost binding of `x` (`none` if undeclared). -/
def updStk (x : String) (n : Nat) : Stack → Option Stack
  | [] => none
  | sc :: st => match updScope x n sc with
    | some sc' => some (sc' :: st)
    | none => match updStk x n st with
      | some st' => some (sc :: st')
      | none => none

def evalE (st : Stack) : Exp → Option Nat
  | .lit n => some n
  | .var x => lookStk x st
  | .add a b => match evalE st a, evalE st b with
    | some m, some n => some (m + n)
    | _, _ => none

/-- Outcome of a statement (list): normal completion with the new stack, or `return v`. -/
inductive Out where
  | normal (st : Stack)
  | returned (v : Nat)
  deriving Repr, DecidableEq

/-- Leave a block: drop its scope. -/
def popOut : Option Out → Option Out
  | some (.normal st) => some (.normal st.tail)
  | r => r

mutual
def execStmt (st : Stack) : Stmt → Option Out
  | .define x e => match evalE st e with
    | some n => some (.normal (bindStk x n st))
    | none => none
  | .declare x e => match evalE st e with
    | some n => some (.normal (bindStk x n st))
    | none => none
  | .assign x e => match evalE st e with
    | some n => match updStk x n st with
      | some st' => some (.normal st')
      | none => none
    | none => none
  | .block b => popOut (execStmts ([] :: st) b)
  | .ite c t e => match evalE st c with
    | some n => if n = 0 then popOut (execStmts ([] :: st) e) else popOut (execStmts ([] :: st) t)
    | none => none
def execStmts (st : Stack) : Stmts → Option Out
  | .nil => some (.normal st)
  | .ret e => match evalE st e with
    | some n => some (.returned n)
    | none => none
  | .cons s rest => match execStmt st s with
    | some (.normal st') => execStmts st' rest
    | r => r
end

/-- Go: run a function body; the returned value. -/
def runGo (ss : Stmts) : Option Nat :=
  match execStmts [[]] ss with
  | some (.returned v) => some v
  | _ => none

/-! ## Target (GooseLang fragment) -/

inductive T where
  | lit (n : Nat)                          -- #n
  | var (x : String)                       -- "x"
  | add (a b : T)                          -- a + b
  | load (x : String)                      -- ![T] "x"
  | letIn (x : String) (e body : T)        -- let: "x" := e in body
  | letRef (x : String) (e body : T)       -- let: "x" := ref_to T e in body
  | store (x : String) (e : T)             -- "x" <-[T] e
  | seq (a b : T)                          -- (a);; b     (a's bindings are not visible in b)
  | ite (c a b : T)                        -- (if: c ≠ #0 then a else b)
  | unit                                   -- #()
  deriving Repr, DecidableEq, Inhabited

inductive Val where
  | num (n : Nat)
  | loc (l : Nat)
  | unit
  deriving Repr, DecidableEq, Inhabited

abbrev Env := List (String × Val)
abbrev Heap := List Nat

/-- Environment semantics; `none` = stuck.  Cells are allocated at the end of the heap and never freed. -/
def evalT (env : Env) (h : Heap) : T → Option (Val × Heap)
  | .lit n => some (.num n, h)
  | .var x => match look x env with
    | some v => some (v, h)
    | none => none
  | .add a b => match evalT env h a with
    | some (.num m, h1) => match evalT env h1 b with
      | some (.num n, h2) => some (.num (m + n), h2)
      | _ => none
    | _ => none
  | .load x => match look x env with
    | some (.loc l) => match h[l]? with
      | some n => some (.num n, h)
      | none => none
    | _ => none
  | .letIn x e body => match evalT env h e with
    | some (v, h1) => evalT ((x, v) :: env) h1 body
    | none => none
  | .letRef x e body => match evalT env h e with
    | some (.num n, h1) => evalT ((x, .loc h1.length) :: env) (h1 ++ [n]) body
    | _ => none
  | .store x e => match evalT env h e with
    | some (.num n, h1) => match look x env with
      | some (.loc l) => if l < h1.length then some (.unit, h1.set l n) else none
      | _ => none
    | _ => none
  | .seq a b => match evalT env h a with
    | some (_, h1) => evalT env h1 b
    | none => none
  | .ite c a b => match evalT env h c with
    | some (.num n, h1) => if n = 0 then evalT env h1 b else evalT env h1 a
    | _ => none
  | .unit => some (.unit, h)

/-- Run a closed target program; its value. -/
def runT (t : T) : Option Val :=
  match evalT [] [] t with
  | some (v, _) => some v
  | none => none

/-! ## Translator -/

/-- Static scope: the names declared in it and whether the declared object is pointer-wrapped. This is
the type checker's resolution (`info.Uses`/`Defs`) together with `isPtrWrapped`. -/
abbrev SScope := List (String × Bool)
abbrev SEnv := List SScope

def trE (Γ : SEnv) : Exp → Except String T
  | .lit n => .ok (.lit n)
  | .var x => match lookStk x Γ with
    | some true => .ok (.load x)
    | some false => .ok (.var x)
    | none => .error ("undeclared name " ++ x)        -- the type checker's error
  | .add a b => match trE Γ a with
    | .error m => .error m
    | .ok ta => match trE Γ b with
      | .error m => .error m
      | .ok tb => .ok (.add ta tb)

/-- `coq.Binding`: what one statement contributes to the enclosing `BlockExpr`. -/
inductive Bind where
  | letIn (x : String) (e : T)
  | letRef (x : String) (e : T)
  | anon (e : T)                           -- printed `e;;`; a block is a `ParenExpr`
  | spliced (e : T)                        -- pre-repair only: a block printed WITHOUT parentheses
  deriving Repr, DecidableEq

/-- The static environment for the statements after the binding. -/
def Bind.scope : Bind → SEnv → SEnv
  | .letIn x _, Γ => bindStk x false Γ
  | .letRef x _, Γ => bindStk x true Γ
  | .anon _, Γ => Γ
  | .spliced _, Γ => Γ

/-- How `a;; k` is READ when `a` was printed without parentheses: `let: … in …` and `…;; …` extend as far
to the right as possible, so `k` ends up inside the innermost body of `a`. -/
def splice : T → T → T
  | .letIn x e b, k => .letIn x e (splice b k)
  | .letRef x e b, k => .letRef x e (splice b k)
  | .seq a b, k => .seq a (splice b k)
  | .lit n, k => .seq (.lit n) k
  | .var x, k => .seq (.var x) k
  | .add a b, k => .seq (.add a b) k
  | .load x, k => .seq (.load x) k
  | .store x e, k => .seq (.store x e) k
  | .ite c a b, k => .seq (.ite c a b) k
  | .unit, k => .seq .unit k

/-- `Binding.AddTo` / `BlockExpr.Coq`: put the binding in front of the rest `r`; the LAST binding of a
block is printed as its expression only. -/
def Bind.addTo : Bind → (last : Bool) → T → T
  | .letIn x e, _, r => .letIn x e r
  | .letRef x e, _, r => .letRef x e r
  | .anon e, true, _ => e
  | .anon e, false, r => .seq e r
  | .spliced e, true, _ => e
  | .spliced e, false, r => splice e r

mutual
/-- `stmtInBlock` with usage `ExprValLocal`. `paren = true` is goose as it is (a nested block is a
`ParenExpr`); `paren = false` is the behaviour before the repair. -/
def trStmt (paren : Bool) (Γ : SEnv) : Stmt → Except String Bind
  | .define x e => match trE Γ e with
    | .error m => .error m
    | .ok t => .ok (.letIn x t)
  | .declare x e => match trE Γ e with
    | .error m => .error m
    | .ok t => .ok (.letRef x t)
  | .assign x e => match lookStk x Γ with
    | some true => match trE Γ e with
      | .error m => .error m
      | .ok t => .ok (.anon (.store x t))
    | _ => .error ("variable " ++ x ++ " is not assignable")
  | .block b => match trStmts paren false ([] :: Γ) b with
    | .error m => .error m
    | .ok t => .ok (if paren then .anon t else .spliced t)
  | .ite c t e => match trE Γ c with
    | .error m => .error m
    | .ok tc => match trStmts paren false ([] :: Γ) t with
      | .error m => .error m
      | .ok tt => match trStmts paren false ([] :: Γ) e with
        | .error m => .error m
        | .ok te => .ok (.anon (.ite tc tt te))
/-- `stmts`. `top = true`: the function body (usage `ExprValReturned`), `top = false`: a nested block or
branch (usage `ExprValLocal`). -/
def trStmts (paren : Bool) (top : Bool) (Γ : SEnv) : Stmts → Except String T
  | .nil => if top then .error "function body must end in return (model restriction)" else .ok .unit
  | .ret e => if top then trE Γ e else .error "return inside a nested block (model restriction)"
  | .cons s rest => match trStmt paren Γ s with
    | .error m => .error m
    | .ok b => match trStmts paren top (b.scope Γ) rest with
      | .error m => .error m
      | .ok r => .ok (b.addTo rest.isNil r)
end

/-- goose: translate a function body in the static environment `Γ`. -/
def tr (Γ : SEnv) (ss : Stmts) : Except String T := trStmts true true Γ ss

/-- goose before the repair of nested blocks (no parentheses around a block in the middle of a list). -/
def trLeaky (Γ : SEnv) (ss : Stmts) : Except String T := trStmts false true Γ ss

/-- The static environment of a function without parameters: one empty scope. -/
def emptyEnv : SEnv := [[]]

/-- Evaluate what the pre-repair translator printed: the same target semantics (only the tree that is
read back differs). -/
def evalLeaky (env : Env) (h : Heap) (t : T) : Option (Val × Heap) := evalT env h t

/-- Translate and run. `none`: rejected or stuck. -/
def runTr (ss : Stmts) : Option Val :=
  match tr emptyEnv ss with
  | .ok t => runT t
  | .error _ => none

def runTrLeaky (ss : Stmts) : Option Val :=
  match trLeaky emptyEnv ss with
  | .ok t => runT t
  | .error _ => none

/-! ## Line protocol

Token syntax (space-separated tokens):

  E  ::= <digits> | <name> | + E E                                  prefix addition
  S  ::= def <name> E                    x := E
       | var <name> E                    var x uint64 = E
       | set <name> E                    x = E
       | blk [ SS ]                      { SS }
       | if E [ SS ] [ SS ]              if E != 0 { SS } else { SS }
  SS ::= ε | ret E | S | S ; SS          `ret E` only as the last item

  e.g.  def x 1 ; var y 2 ; set y + y x ; blk [ def x 2 ; set y + y x ] ; if x [ set y 0 ] [ ] ; ret + x y

`run toks` prints the translation in the canonical rendering of `GooseVerif.GL.Expr.canon` (what that
parser reads from goose's output for the corresponding Go function with `uint64` variables):
  #n ↦ (lit u64:n)      "x" ↦ (var HEX)      a + b ↦ (bin 2b a b)      ![uint64T] "x" ↦ (load (g uint64T) (var HEX))
  let: "x" := e in b ↦ (let [HEX] e b)       let: "x" := ref_to uint64T e in b ↦ (let [HEX] (app (g ref_to) (g uint64T) e) b)
  "x" <-[uint64T] e ↦ (store (var HEX) (g uint64T) e)      a;; b ↦ (seq a b)      #() ↦ (lit unit)
  (if: c ≠ #0 then a else b) ↦ (if (bin 60 c (lit u64:0)) a b)
where HEX is the name's characters in hex (two digits per character).  A rejected program prints
`error <message-with-dashes>`, a token list that does not parse prints `error parse`.
`runLeaky` is the same for the pre-repair translator.
-/

def isNumTok (s : String) : Bool := !s.isEmpty && s.all Char.isDigit

def reserved : List String := [";", "[", "]", "+", "def", "var", "set", "blk", "if", "ret"]

def parseE : Nat → List String → Option (Exp × List String)
  | 0, _ => none
  | _ + 1, [] => none
  | f + 1, "+" :: r =>
    match parseE f r with
    | some (a, r1) => match parseE f r1 with
      | some (b, r2) => some (.add a b, r2)
      | none => none
    | none => none
  | _ + 1, tok :: r =>
    if isNumTok tok then some (.lit tok.toNat!, r)
    else if reserved.contains tok then none
    else some (.var tok, r)

mutual
def parseS : Nat → List String → Option (Stmt × List String)
  | 0, _ => none
  | f + 1, "def" :: x :: r => match parseE f r with
    | some (e, r1) => if reserved.contains x then none else some (.define x e, r1)
    | none => none
  | f + 1, "var" :: x :: r => match parseE f r with
    | some (e, r1) => if reserved.contains x then none else some (.declare x e, r1)
    | none => none
  | f + 1, "set" :: x :: r => match parseE f r with
    | some (e, r1) => if reserved.contains x then none else some (.assign x e, r1)
    | none => none
  | f + 1, "blk" :: "[" :: r => match parseSS f r with
    | some (b, "]" :: r1) => some (.block b, r1)
    | _ => none
  | f + 1, "if" :: r => match parseE f r with
    | some (c, "[" :: r1) => match parseSS f r1 with
      | some (t, "]" :: "[" :: r2) => match parseSS f r2 with
        | some (e, "]" :: r3) => some (.ite c t e, r3)
        | _ => none
      | _ => none
    | _ => none
  | _ + 1, _ => none
def parseSS : Nat → List String → Option (Stmts × List String)
  | 0, _ => none
  | _ + 1, [] => some (.nil, [])
  | _ + 1, "]" :: r => some (.nil, "]" :: r)
  | f + 1, "ret" :: r => match parseE f r with
    | some (e, r1) => some (.ret e, r1)
    | none => none
  | f + 1, toks => match parseS f toks with
    | some (s, ";" :: r1) => match parseSS f r1 with
      | some (ss, r2) => some (.cons s ss, r2)
      | none => none
    | some (s, r1) => some (.cons s .nil, r1)
    | none => none
end

def parse (toks : List String) : Option Stmts :=
  match parseSS (toks.length + 1) toks with
  | some (ss, []) => some ss
  | _ => none

def hexStr (s : String) : String :=
  let hexd (n : Nat) : Char := if n < 10 then Char.ofNat (48 + n) else Char.ofNat (87 + n)
  String.ofList (s.toList.flatMap (fun c => let n := c.toNat % 256; [hexd (n / 16), hexd (n % 16)]))

def T.canon : T → String
  | .lit n => "(lit u64:" ++ toString n ++ ")"
  | .var x => "(var " ++ hexStr x ++ ")"
  | .add a b => "(bin 2b " ++ a.canon ++ " " ++ b.canon ++ ")"
  | .load x => "(load (g uint64T) (var " ++ hexStr x ++ "))"
  | .letIn x e b => "(let [" ++ hexStr x ++ "] " ++ e.canon ++ " " ++ b.canon ++ ")"
  | .letRef x e b => "(let [" ++ hexStr x ++ "] (app (g ref_to) (g uint64T) " ++ e.canon ++ ") " ++ b.canon ++ ")"
  | .store x e => "(store (var " ++ hexStr x ++ ") (g uint64T) " ++ e.canon ++ ")"
  | .seq a b => "(seq " ++ a.canon ++ " " ++ b.canon ++ ")"
  | .ite c a b => "(if (bin " ++ hexStr "≠" ++ " " ++ c.canon ++ " (lit u64:0)) " ++ a.canon ++ " " ++ b.canon ++ ")"
  | .unit => "(lit unit)"

def dashes (m : String) : String := String.ofList (m.toList.map (fun c => if c = ' ' then '-' else c))

def showResult : Except String T → String
  | .ok t => t.canon
  | .error m => "error " ++ dashes m

def run (toks : List String) : String :=
  match parse toks with
  | some ss => showResult (tr emptyEnv ss)
  | none => "error parse"

def runLeaky (toks : List String) : String :=
  match parse toks with
  | some ss => showResult (trLeaky emptyEnv ss)
  | none => "error parse"

/-- Go's answer for the same token list (`none`: no value returned / undeclared name). -/
def runGoToks (toks : List String) : String :=
  match parse toks with
  | some ss => match runGo ss with
    | some v => toString v
    | none => "none"
  | none => "error parse"

/-! ## Example programs (used by `Props/C01Scope.lean`) -/

/-- `x := 1; { x := 2 }; return x` -/
def exShadowDefine : Stmts :=
  .cons (.define "x" (.lit 1)) (.cons (.block (.cons (.define "x" (.lit 2)) .nil)) (.ret (.var "x")))

/-- `var x = 5; { var x = 7; x = x + 1 }; x = x + 100; return x` -/
def exShadowVar : Stmts :=
  .cons (.declare "x" (.lit 5))
    (.cons (.block (.cons (.declare "x" (.lit 7)) (.cons (.assign "x" (.add (.var "x") (.lit 1))) .nil)))
      (.cons (.assign "x" (.add (.var "x") (.lit 100))) (.ret (.var "x"))))

/-- `var y = 1; { x := 3; y = y + x }; return y` -/
def exOuterAssign : Stmts :=
  .cons (.declare "y" (.lit 1))
    (.cons (.block (.cons (.define "x" (.lit 3)) (.cons (.assign "y" (.add (.var "y") (.var "x"))) .nil)))
      (.ret (.var "y")))

/-- `var x = 5; { x := 7; var y = x; { var x = y + 1; x = x + x }; y = y + x }; return x`
    (a `:=` shadows a `var`, a `var` shadows that `:=`) -/
def exMixedShadow : Stmts :=
  .cons (.declare "x" (.lit 5))
    (.cons (.block
      (.cons (.define "x" (.lit 7))
        (.cons (.declare "y" (.var "x"))
          (.cons (.block (.cons (.declare "x" (.add (.var "y") (.lit 1)))
            (.cons (.assign "x" (.add (.var "x") (.var "x"))) .nil)))
            (.cons (.assign "y" (.add (.var "y") (.var "x"))) .nil)))))
      (.ret (.var "x")))

/-- `var x = 5; { x := 7 }; x = x + 100; return x` -/
def exLeakStuck : Stmts :=
  .cons (.declare "x" (.lit 5))
    (.cons (.block (.cons (.define "x" (.lit 7)) .nil))
      (.cons (.assign "x" (.add (.var "x") (.lit 100))) (.ret (.var "x"))))

/-- `x := 1; var y = 0; { x := 2; y = x }; return x` (the leak in a program that Go compiles: every
declared variable is used) -/
def exLeakUsed : Stmts :=
  .cons (.define "x" (.lit 1))
    (.cons (.declare "y" (.lit 0))
      (.cons (.block (.cons (.define "x" (.lit 2)) (.cons (.assign "y" (.var "x")) .nil)))
        (.ret (.var "x"))))

end GooseVerif.Model.Scope
