/-
C01 — "Core": ONE model that composes the three separately verified pieces of C01
  * control flow (`Model/Tr.lean`: early return, break, continue, loops, `endsWithReturn`, the
    if-with-early-return rewriting, usages local/returned/loop),
  * scoping (`Model/Scope.lean`: `let:` / `ref_to` / load / store, block scopes, shadowing),
  * arithmetic (`Lemmas/Arith.lean`: Go's operators on `BitVec 64`),
into a source language "MiniGo", a target language (the GooseLang fragment goose emits for it), the
translator `tr` (= what `/repo/goose.go` does: `stmts`, `stmtInBlock`, `ifStmt`, `endsWithReturn`,
`forStmt`, `loopVar`, `defineStmt`, `varSpec`, `assignStmt`, `assignFromTo`, `incDecStmt`, `binExpr`,
`identExpr`, `blockStmt`; printing by `/repo/internal/coq/coq.go`: `BlockExpr`, `Binding.AddTo`,
`ForLoopExpr`, `ParenExpr`, `IfExpr`, `DerefExpr`, `StoreStmt`, `RefExpr`) and big-step semantics of
both sides.  Core Lean only, executable; the line protocols `core` / `corego` / `corewf` / `coreeval` of the
driver print `tr`'s output in the canonical form of `GooseVerif.GL.Expr.canon`, so that it is compared as a
string with what the real goose emits (`pylib/corecorr.py`).

  x := e                 ↦  let: "x" := ⟦e⟧ in <rest>
  var x uint64 = e       ↦  let: "x" := ref_to uint64T ⟦e⟧ in <rest>
  use of x               ↦  ![uint64T] "x" if x's declaration is pointer-wrapped (`var`, loop variable), else "x"
  x = e                  ↦  "x" <-[uint64T] ⟦e⟧              (error "variable x is not assignable" if not wrapped)
  x += e                 ↦  "x" <-[uint64T] ((![uint64T] "x") + ⟦e⟧)
  x++                    ↦  "x" <-[uint64T] ((![uint64T] "x") + #1)  (error "can only inc/dec pointer-wrapped variables")
  { b } ; rest           ↦  (⟦b⟧);; <rest>                    (the parentheses end the scope of b's lets)
  if c {A} else {B}; rest↦  (if: ⟦c⟧ then ⟦A⟧ else ⟦B⟧);; <rest>      or, if A always leaves,  (if: ⟦c⟧ then ⟦A⟧ else <rest>)
  for i := e; c; post {B}; rest ↦ let: "i" := ref_to uint64T ⟦e⟧ in (for: (λ: <>, ⟦c⟧); (λ: <>, ⟦post⟧) := λ: <>, ⟦B⟧);; <rest>
  for c {B}; rest        ↦  Skip;; (for: (λ: <>, ⟦c⟧); (λ: <>, Skip) := λ: <>, ⟦B⟧);; <rest>
  return e ↦ ⟦e⟧     break ↦ Break     continue ↦ Continue     end of a loop body ↦ Continue     end of the function ↦ #()

NOTE (known finding `loop-variable-scope`): `ForLoopExpr.Coq` prints the init binding and the loop WITHOUT
parentheses around the pair, so the `let: "i"` extends over `<rest>`: the loop variable stays bound after the
loop and hides an outer variable of the same name.  The model reproduces this (it is the code that exists);
the correctness theorem therefore assumes `loopVarsFresh` (no loop variable has the name of a variable
visible at the loop), and `Props/C01Core.lean` proves that the assumption is needed.

All values are `BitVec 64` (Go `uint64`, wrap-around).  Operands are pure and total (no division), so the
evaluation order of operands (Go: left to right, GooseLang: right to left) and the short-circuiting of
`&&` / `||` are unobservable.  The loop variable is ONE variable for all iterations (Go ≤ 1.21; what goose
implements, known finding `loopvar-per-iteration`); without closures and pointers this is unobservable
in MiniGo.  `x := e` for an `x` already declared in the same scope (a Go compile error) is treated as
shadowing on both sides.
-/
namespace GooseVerif.Model.Core

/-! ## Source: MiniGo -/

abbrev W := BitVec 64

inductive BinOp where
  | add | sub | mul | and | or | xor | shl | shr
  deriving DecidableEq, Repr, Inhabited

inductive CmpOp where
  | lt | le | gt | ge | eq | ne
  deriving DecidableEq, Repr, Inhabited

/-- Go's meaning of the operators on `uint64`. -/
def BinOp.eval : BinOp → W → W → W
  | .add, a, b => a + b
  | .sub, a, b => a - b
  | .mul, a, b => a * b
  | .and, a, b => a &&& b
  | .or, a, b => a ||| b
  | .xor, a, b => a ^^^ b
  | .shl, a, b => a <<< b.toNat
  | .shr, a, b => a >>> b.toNat

def CmpOp.eval : CmpOp → W → W → Bool
  | .lt, a, b => decide (a < b)
  | .le, a, b => decide (a ≤ b)
  | .gt, a, b => decide (a > b)
  | .ge, a, b => decide (a ≥ b)
  | .eq, a, b => decide (a = b)
  | .ne, a, b => decide (a ≠ b)

/-- Pure expressions of type `uint64`. -/
inductive Exp where
  | lit (n : W)
  | var (x : String)
  | bin (op : BinOp) (a b : Exp)
  deriving Repr, Inhabited

/-- Conditions (type `bool`). -/
inductive Cond where
  | cmp (c : CmpOp) (a b : Exp)
  | and (p q : Cond)
  | or (p q : Cond)
  | not (p : Cond)
  | tt
  | ff
  deriving Repr, Inhabited

/-- Go's `SimpleStmt`s of the fragment (what may also be the post statement of a `for`). -/
inductive Simple where
  | define (x : String) (e : Exp)                 -- x := e
  | assign (x : String) (e : Exp)                 -- x = e
  | opAssign (x : String) (op : BinOp) (e : Exp)  -- x op= e
  | incr (x : String)                             -- x++
  | decr (x : String)                             -- x--
  deriving Repr, Inhabited

mutual
inductive Stmt where
  | simple (s : Simple)
  | declare (x : String) (e : Exp)                -- var x uint64 = e
  | ite (c : Cond) (thn els : Stmts)              -- `else if` is a one-element else list; no else is `nil`
  | ret (e : Exp)
  | brk
  | cont
  | block (b : Stmts)
  /-- `for init; cond; post { body }`, all three optional. -/
  | loop (init : Option (String × Exp)) (cond : Option Cond) (post : Option Simple) (body : Stmts)
inductive Stmts where
  | nil
  | cons (s : Stmt) (rest : Stmts)
end

instance : Inhabited Stmts := ⟨.nil⟩
instance : Inhabited Stmt := ⟨.brk⟩

@[match_pattern] abbrev Stmt.define (x : String) (e : Exp) : Stmt := .simple (.define x e)
@[match_pattern] abbrev Stmt.assign (x : String) (e : Exp) : Stmt := .simple (.assign x e)
@[match_pattern] abbrev Stmt.opAssign (x : String) (op : BinOp) (e : Exp) : Stmt := .simple (.opAssign x op e)
@[match_pattern] abbrev Stmt.incr (x : String) : Stmt := .simple (.incr x)
@[match_pattern] abbrev Stmt.decr (x : String) : Stmt := .simple (.decr x)

def Stmts.isNil : Stmts → Bool
  | .nil => true
  | .cons _ _ => false

def Stmt.isIte : Stmt → Bool
  | .ite _ _ _ => true
  | _ => false

/-- `ExprValUsage`: what happens to the value of the generated expression. -/
inductive Usage where
  | local | returned | loop
  deriving DecidableEq, Repr

/-! ## Association lists and stacks of scopes (innermost scope first, newest binding first) -/

def look {α : Type} (x : String) : List (String × α) → Option α
  | [] => none
  | (y, v) :: r => if y = x then some v else look x r

def lookStk {α : Type} (x : String) : List (List (String × α)) → Option α
  | [] => none
  | sc :: st => match look x sc with
    | some v => some v
    | none => lookStk x st

/-- Add a binding to the innermost scope. -/
def bindStk {α : Type} (x : String) (v : α) : List (List (String × α)) → List (List (String × α))
  | [] => [[(x, v)]]
  | sc :: st => ((x, v) :: sc) :: st

/-! ## Go semantics -/

abbrev Scope := List (String × W)
abbrev Stack := List Scope

/-- Three-way results: a value, "the fuel ran out", or "stuck" (no rule applies). -/
inductive Res (α : Type) where
  | ok (a : α)
  | fuel
  | stuck
  deriving Repr, DecidableEq

def updScope (x : String) (n : W) : Scope → Option Scope
  | [] => none
  | (y, m) :: sc =>
    if y = x then some ((y, n) :: sc)
    else match updScope x n sc with
      | some sc' => some ((y, m) :: sc')
      | none => none

/-- Overwrite the innermost binding of `x` (`none` if undeclared). -/
def updStk (x : String) (n : W) : Stack → Option Stack
  | [] => none
  | sc :: st => match updScope x n sc with
    | some sc' => some (sc' :: st)
    | none => match updStk x n st with
      | some st' => some (sc :: st')
      | none => none

def evalE (st : Stack) : Exp → Option W
  | .lit n => some n
  | .var x => lookStk x st
  | .bin op a b => match evalE st a, evalE st b with
    | some m, some n => some (op.eval m n)
    | _, _ => none

/-- Go's `&&` and `||` short-circuit. -/
def evalC (st : Stack) : Cond → Option Bool
  | .cmp c a b => match evalE st a, evalE st b with
    | some m, some n => some (c.eval m n)
    | _, _ => none
  | .and p q => match evalC st p with
    | some true => evalC st q
    | some false => some false
    | none => none
  | .or p q => match evalC st p with
    | some true => some true
    | some false => evalC st q
    | none => none
  | .not p => match evalC st p with
    | some b => some (!b)
    | none => none
  | .tt => some true
  | .ff => some false

/-- `x = x op v`. -/
def updWith (x : String) (g : W → W) (st : Stack) : Option Stack :=
  match lookStk x st with
  | some m => updStk x (g m) st
  | none => none

def execSimple (st : Stack) : Simple → Option Stack
  | .define x e => match evalE st e with
    | some n => some (bindStk x n st)
    | none => none
  | .assign x e => match evalE st e with
    | some n => updStk x n st
    | none => none
  | .opAssign x op e => match evalE st e with
    | some n => updWith x (fun m => op.eval m n) st
    | none => none
  | .incr x => updWith x (fun m => m + 1) st
  | .decr x => updWith x (fun m => m - 1) st

/-- Outcome of a statement (list). -/
inductive Out where
  | normal (st : Stack)
  | returned (v : W)
  | broke (st : Stack)
  | continued (st : Stack)
  deriving Repr, DecidableEq

/-- Leave a block / branch / loop body: drop its scope (a `return` needs no stack). -/
def popOut : Res Out → Res Out
  | .ok (.normal st) => .ok (.normal st.tail)
  | .ok (.broke st) => .ok (.broke st.tail)
  | .ok (.continued st) => .ok (.continued st.tail)
  | r => r

/-- Go `for ; cond; post { body }` in the scope of the loop variable.  `body f st` runs the body with
fuel `f` (and has left the body's scope again).  One unit of fuel per iteration. -/
def loopIter (cond : Stack → Option Bool) (post : Stack → Option Stack) (body : Nat → Stack → Res Out) :
    Nat → Stack → Res Out
  | 0, st => match cond st with
    | some true => .fuel
    | some false => .ok (.normal st)
    | none => .stuck
  | f + 1, st => match cond st with
    | some false => .ok (.normal st)
    | none => .stuck
    | some true => match body f st with
      | .ok (.normal st') => match post st' with
        | some st'' => loopIter cond post body f st''
        | none => .stuck
      | .ok (.continued st') => match post st' with
        | some st'' => loopIter cond post body f st''
        | none => .stuck
      | .ok (.broke st') => .ok (.normal st')
      | .ok (.returned v) => .ok (.returned v)
      | .fuel => .fuel
      | .stuck => .stuck

/-- The scope of the loop variable (empty if there is none). -/
def initScope (st : Stack) : Option (String × Exp) → Option Scope
  | none => some []
  | some (x, e) => match evalE st e with
    | some n => some [(x, n)]
    | none => none

def condOf : Option Cond → Stack → Option Bool
  | none, _ => some true
  | some c, st => evalC st c

def postOf : Option Simple → Stack → Option Stack
  | none, st => some st
  | some s, st => execSimple st s

mutual
/-- Big-step Go semantics of a statement list; `f` bounds the iterations of every loop. -/
def exec (f : Nat) : Stmts → Stack → Res Out
  | .nil, st => .ok (.normal st)
  | .cons s rest, st =>
    match execStmt f s st with
    | .ok (.normal st') => exec f rest st'
    | r => r
/-- Big-step Go semantics of a statement. -/
def execStmt (f : Nat) : Stmt → Stack → Res Out
  | .simple s, st => match execSimple st s with
    | some st' => .ok (.normal st')
    | none => .stuck
  | .declare x e, st => match evalE st e with
    | some n => .ok (.normal (bindStk x n st))
    | none => .stuck
  | .ite c thn els, st => match evalC st c with
    | some true => popOut (exec f thn ([] :: st))
    | some false => popOut (exec f els ([] :: st))
    | none => .stuck
  | .ret e, st => match evalE st e with
    | some n => .ok (.returned n)
    | none => .stuck
  | .brk, st => .ok (.broke st)
  | .cont, st => .ok (.continued st)
  | .block b, st => popOut (exec f b ([] :: st))
  | .loop init c post body, st => match initScope st init with
    | some sc =>
      popOut (loopIter (condOf c) (postOf post) (fun f' st' => popOut (exec f' body ([] :: st'))) f (sc :: st))
    | none => .stuck
end

/-- The stack of a function whose parameters have the given values. -/
def paramStack (params : List (String × W)) : Stack := [params]

/-- Go: run a function body.  `some v`: `return v`; `none`: fell off the end.  A `break`/`continue`
outside a loop is stuck (Go does not compile it). -/
def runGo (fuel : Nat) (params : List (String × W)) (b : Stmts) : Res (Option W) :=
  match exec fuel b (paramStack params) with
  | .ok (.returned v) => .ok (some v)
  | .ok (.normal _) => .ok none
  | .ok (.broke _) => .stuck
  | .ok (.continued _) => .stuck
  | .fuel => .fuel
  | .stuck => .stuck

/-! ## Target: the GooseLang fragment -/

inductive Tgt where
  | lit (n : W)                            -- #n
  | litB (b : Bool)                        -- #true / #false
  | unit                                   -- #()
  | skip                                   -- Skip
  | brk                                    -- Break
  | cont                                   -- Continue
  | var (x : String)                       -- "x"
  | load (x : String)                      -- ![uint64T] "x"
  | bin (op : BinOp) (a b : Tgt)           -- a + b …
  | cmp (c : CmpOp) (a b : Tgt)            -- a < b …
  | and (a b : Tgt)                        -- a && b
  | or (a b : Tgt)                         -- a || b
  | not (a : Tgt)                          -- ~ a
  | letE (x : String) (a b : Tgt)          -- let: "x" := a in b
  | refTo (a : Tgt)                        -- ref_to uint64T a
  | store (x : String) (a : Tgt)           -- "x" <-[uint64T] a
  | seq (a b : Tgt)                        -- a;; b      (a's bindings are not visible in b)
  | ite (c a b : Tgt)                      -- (if: c then a else b)
  | forLoop (c p b : Tgt)                  -- (for: (λ: <>, c); (λ: <>, p) := λ: <>, b)
  deriving Repr, Inhabited, DecidableEq

inductive Val where
  | num (n : W)
  | bool (b : Bool)
  | unit
  | loc (l : Nat)
  | brk
  | cont
  deriving Repr, DecidableEq, Inhabited

abbrev Env := List (String × Val)
abbrev Heap := List W

/-- GooseLang's `for:` — evaluate the condition; if false stop with `#()`; run the body; if its value is
`Break` stop with `#()`; if it is `Continue` run the post expression and iterate; anything else is stuck.
One unit of fuel per iteration, exactly like `loopIter`. -/
def loopIterT (cond post : Heap → Res (Val × Heap)) (body : Nat → Heap → Res (Val × Heap)) :
    Nat → Heap → Res (Val × Heap)
  | 0, h => match cond h with
    | .ok (.bool true, _) => .fuel
    | .ok (.bool false, h1) => .ok (.unit, h1)
    | .ok _ => .stuck
    | .fuel => .fuel
    | .stuck => .stuck
  | f + 1, h => match cond h with
    | .ok (.bool false, h1) => .ok (.unit, h1)
    | .ok (.bool true, h1) => match body f h1 with
      | .ok (.cont, h2) => match post h2 with
        | .ok (_, h3) => loopIterT cond post body f h3
        | .fuel => .fuel
        | .stuck => .stuck
      | .ok (.brk, h2) => .ok (.unit, h2)
      | .ok _ => .stuck
      | .fuel => .fuel
      | .stuck => .stuck
    | .ok _ => .stuck
    | .fuel => .fuel
    | .stuck => .stuck

/-- Environment semantics of the target.  Cells are allocated at the end of the heap and never freed.
Operands are evaluated right to left (GooseLang). -/
def evalT (f : Nat) (env : Env) (h : Heap) : Tgt → Res (Val × Heap)
  | .lit n => .ok (.num n, h)
  | .litB b => .ok (.bool b, h)
  | .unit => .ok (.unit, h)
  | .skip => .ok (.unit, h)
  | .brk => .ok (.brk, h)
  | .cont => .ok (.cont, h)
  | .var x => match look x env with
    | some v => .ok (v, h)
    | none => .stuck
  | .load x => match look x env with
    | some (.loc l) => match h[l]? with
      | some n => .ok (.num n, h)
      | none => .stuck
    | _ => .stuck
  | .bin op a b => match evalT f env h b with
    | .ok (.num n, h1) => match evalT f env h1 a with
      | .ok (.num m, h2) => .ok (.num (op.eval m n), h2)
      | .ok _ => .stuck
      | .fuel => .fuel
      | .stuck => .stuck
    | .ok _ => .stuck
    | .fuel => .fuel
    | .stuck => .stuck
  | .cmp c a b => match evalT f env h b with
    | .ok (.num n, h1) => match evalT f env h1 a with
      | .ok (.num m, h2) => .ok (.bool (c.eval m n), h2)
      | .ok _ => .stuck
      | .fuel => .fuel
      | .stuck => .stuck
    | .ok _ => .stuck
    | .fuel => .fuel
    | .stuck => .stuck
  | .and a b => match evalT f env h a with
    | .ok (.bool true, h1) => evalT f env h1 b
    | .ok (.bool false, h1) => .ok (.bool false, h1)
    | .ok _ => .stuck
    | .fuel => .fuel
    | .stuck => .stuck
  | .or a b => match evalT f env h a with
    | .ok (.bool true, h1) => .ok (.bool true, h1)
    | .ok (.bool false, h1) => evalT f env h1 b
    | .ok _ => .stuck
    | .fuel => .fuel
    | .stuck => .stuck
  | .not a => match evalT f env h a with
    | .ok (.bool b, h1) => .ok (.bool (!b), h1)
    | .ok _ => .stuck
    | .fuel => .fuel
    | .stuck => .stuck
  | .letE x a b => match evalT f env h a with
    | .ok (v, h1) => evalT f ((x, v) :: env) h1 b
    | .fuel => .fuel
    | .stuck => .stuck
  | .refTo a => match evalT f env h a with
    | .ok (.num n, h1) => .ok (.loc h1.length, h1 ++ [n])
    | .ok _ => .stuck
    | .fuel => .fuel
    | .stuck => .stuck
  | .store x a => match evalT f env h a with
    | .ok (.num n, h1) => match look x env with
      | some (.loc l) => if l < h1.length then .ok (.unit, h1.set l n) else .stuck
      | _ => .stuck
    | .ok _ => .stuck
    | .fuel => .fuel
    | .stuck => .stuck
  | .seq a b => match evalT f env h a with
    | .ok (_, h1) => evalT f env h1 b
    | .fuel => .fuel
    | .stuck => .stuck
  | .ite c a b => match evalT f env h c with
    | .ok (.bool true, h1) => evalT f env h1 a
    | .ok (.bool false, h1) => evalT f env h1 b
    | .ok _ => .stuck
    | .fuel => .fuel
    | .stuck => .stuck
  | .forLoop c p b =>
    loopIterT (fun h' => evalT f env h' c) (fun h' => evalT f env h' p) (fun f' h' => evalT f' env h' b) f h

/-- The target environment of a function whose parameters have the given values (parameters are plain
let-bound GooseLang variables). -/
def paramEnv (params : List (String × W)) : Env := params.map (fun p => (p.1, Val.num p.2))

/-- The value of a result (the final heap is dropped). -/
def valOf : Res (Val × Heap) → Res Val
  | .ok (v, _) => .ok v
  | .fuel => .fuel
  | .stuck => .stuck

/-- Run a translated function body on the given parameter values, from the empty heap. -/
def runT (fuel : Nat) (params : List (String × W)) (t : Tgt) : Res Val :=
  valOf (evalT fuel (paramEnv params) [] t)

/-- What the translated function must yield when Go yields `r`: the returned number; `#()` when the body
falls off its end; out of fuel when Go is out of fuel. -/
def expected : Res (Option W) → Res Val
  | .ok (some v) => .ok (.num v)
  | .ok none => .ok .unit
  | .fuel => .fuel
  | .stuck => .stuck

/-! ## The translator -/

/-- Static scope: the names declared in it and whether the declared object is pointer-wrapped (the
type checker's resolution `info.Uses`/`Defs` together with `isPtrWrapped`). -/
abbrev SScope := List (String × Bool)
abbrev SEnv := List SScope

/-- The static environment of a function with the given parameters. -/
def paramSEnv (params : List (String × W)) : SEnv := [params.map (fun p => (p.1, false))]

def trE (Γ : SEnv) : Exp → Except String Tgt
  | .lit n => .ok (.lit n)
  | .var x => match lookStk x Γ with
    | some true => .ok (.load x)
    | some false => .ok (.var x)
    | none => .error ("undeclared name " ++ x)        -- the type checker's error
  | .bin op a b => match trE Γ a with
    | .error m => .error m
    | .ok ta => match trE Γ b with
      | .error m => .error m
      | .ok tb => .ok (.bin op ta tb)

def trC (Γ : SEnv) : Cond → Except String Tgt
  | .cmp c a b => match trE Γ a with
    | .error m => .error m
    | .ok ta => match trE Γ b with
      | .error m => .error m
      | .ok tb => .ok (.cmp c ta tb)
  | .and p q => match trC Γ p with
    | .error m => .error m
    | .ok tp => match trC Γ q with
      | .error m => .error m
      | .ok tq => .ok (.and tp tq)
  | .or p q => match trC Γ p with
    | .error m => .error m
    | .ok tp => match trC Γ q with
      | .error m => .error m
      | .ok tq => .ok (.or tp tq)
  | .not p => match trC Γ p with
    | .error m => .error m
    | .ok tp => .ok (.not tp)
  | .tt => .ok (.litB true)
  | .ff => .ok (.litB false)

/-- `coq.Binding`: what one statement contributes to the enclosing `BlockExpr`. -/
inductive Bind where
  /-- `let: "x" := e in …`; `wrapped`: `e` is `ref_to uint64T …` and `x` is pointer-wrapped. -/
  | named (x : String) (wrapped : Bool) (e : Tgt)
  /-- `e;; …` -/
  | anon (e : Tgt)
  /-- A `ForLoopExpr`: printed as its init binding (`let: "i" := … in` or `Skip;;`) followed by the
  parenthesised loop — with NO parentheses around the pair. -/
  | loopB (init : Option (String × Tgt)) (l : Tgt)
  deriving Repr, Inhabited

/-- The static environment for the statements after the binding (Go's scoping: the loop variable is not
visible after the loop). -/
def Bind.scope : Bind → SEnv → SEnv
  | .named x w _, Γ => bindStk x w Γ
  | .anon _, Γ => Γ
  | .loopB _ _, Γ => Γ

/-- `Binding.AddTo` / `BlockExpr.Coq` and how the text is read back: put the binding in front of the
rest `r`; the LAST binding of a block is printed as its expression only.  A loop that is not last is
printed `let: "i" := … in (for: …);; r`, which reads as `let: "i" := … in ((for: …);; r)`. -/
def Bind.addTo : Bind → (last : Bool) → Tgt → Tgt
  | .named _ _ e, true, _ => e
  | .named x _ e, false, r => .letE x e r
  | .anon e, true, _ => e
  | .anon e, false, r => .seq e r
  | .loopB none l, true, _ => .seq .skip l
  | .loopB none l, false, r => .seq .skip (.seq l r)
  | .loopB (some (i, e)) l, true, _ => .letE i e l
  | .loopB (some (i, e)) l, false, r => .letE i e (.seq l r)

/-- `stmtsEndWithReturn` (with `endsWithReturn` inlined): looks at the LAST statement only; a block or
a loop is not looked into. -/
def endsWithReturn : Stmts → Bool
  | .nil => false
  | .cons s .nil =>
    match s with
    | .ret _ => true
    | .brk => true
    | .cont => true
    | .ite _ thn els => endsWithReturn thn && endsWithReturn els
    | _ => false
  | .cons _ rest => endsWithReturn rest

/-- The binding appended by `stmts` when the last statement did not finalize the usage (also the
translation of the empty list). -/
def finalizer : Usage → Tgt
  | .returned => .unit
  | .loop => .cont
  | .local => .unit

def opTok : BinOp → String
  | .add => "+=" | .sub => "-=" | .mul => "*=" | .and => "&=" | .or => "|=" | .xor => "^="
  | .shl => "<<=" | .shr => ">>="

/-- `assignOps` of `assignStmt`. -/
def assignable : BinOp → Bool
  | .add | .sub | .or | .and | .xor => true
  | _ => false

/-- `defineStmt` / `assignStmt` / `assignFromTo` / `pointerAssign` / `incDecStmt`. -/
def trSimple (Γ : SEnv) : Simple → Except String Bind
  | .define x e => match trE Γ e with
    | .error m => .error m
    | .ok t => .ok (.named x false t)
  | .assign x e => match trE Γ e with
    | .error m => .error m
    | .ok t => match lookStk x Γ with
      | some true => .ok (.anon (.store x t))
      | some false => .error ("variable " ++ x ++ " is not assignable")
      | none => .error ("undeclared name " ++ x)
  | .opAssign x op e => match trE Γ e with
    | .error m => .error m
    | .ok t =>
      if assignable op then
        match lookStk x Γ with
        | some true => .ok (.anon (.store x (.bin op (.load x) t)))
        | some false => .error ("variable " ++ x ++ " is not assignable")
        | none => .error ("undeclared name " ++ x)
      else .error (opTok op ++ " assignment")
  | .incr x => match lookStk x Γ with
    | some true => .ok (.anon (.store x (.bin .add (.load x) (.lit 1))))
    | some false => .error "can only inc/dec pointer-wrapped variables"
    | none => .error ("undeclared name " ++ x)
  | .decr x => match lookStk x Γ with
    | some true => .ok (.anon (.store x (.bin .sub (.load x) (.lit 1))))
    | some false => .error "can only inc/dec pointer-wrapped variables"
    | none => .error ("undeclared name " ++ x)

/-- `ifStmt`, given the translated condition and the translations of the three sub-lists as functions
of the usage (`remEmpty`: the remainder is empty; `thnEnds`: `endsWithReturn` of the then-branch;
`elsEmpty`: the else-branch is absent or empty).  The order of the calls is the order of goose, so
that the FIRST error is the one goose reports. -/
def trIf (c : Tgt) (remEmpty thnEnds elsEmpty : Bool) (u : Usage)
    (thn els rem : Usage → Except String Tgt) : Except String Tgt :=
  if remEmpty then
    match thn u with
    | .error e => .error e
    | .ok a =>
      match els u with
      | .error e => .error e
      | .ok b => .ok (.ite c a b)
  else if thnEnds then
    match thn u with
    | .error e => .error e
    | .ok a =>
      if elsEmpty then
        match rem u with
        | .error e => .error e
        | .ok r => .ok (.ite c a r)
      else .error "early return in if with an else branch"
  else
    match thn .local with
    | .error e => .error e
    | .ok a =>
      match els .local with
      | .error e => .error e
      | .ok b =>
        match rem u with
        | .error e => .error e
        | .ok r => .ok (.seq (.ite c a b) r)

/-- The static scope of the loop variable (empty if there is none). -/
def initSScope : Option (String × Exp) → SScope
  | none => []
  | some (x, _) => [(x, true)]

/-- `loopVar` + `defineStmt` of a pointer-wrapped identifier. -/
def trInit (Γ : SEnv) : Option (String × Exp) → Except String (Option (String × Tgt))
  | none => .ok none
  | some (x, e) => match trE Γ e with
    | .error m => .error m
    | .ok t => .ok (some (x, .refTo t))

def trCondOpt (Γ : SEnv) : Option Cond → Except String Tgt
  | none => .ok (.litB true)
  | some c => trC Γ c

/-- The post statement: `ctx.stmt(s.Post)`, then "post cannot bind names". -/
def trPost (Γ : SEnv) : Option Simple → Except String Tgt
  | none => .ok .skip
  | some s => match trSimple Γ s with
    | .error m => .error m
    | .ok (.anon t) => .ok t
    | .ok _ => .error "post cannot bind names"

mutual
/-- `stmts`. -/
def trStmts (Γ : SEnv) : Stmts → Usage → Except String Tgt
  | .nil, u => .ok (finalizer u)
  | .cons s rest, u =>
    match s with
    | .ite c thn els =>
      match trC Γ c with
      | .error e => .error e
      | .ok tc =>
        trIf tc rest.isNil (endsWithReturn thn) els.isNil u
          (fun u' => trStmts ([] :: Γ) thn u') (fun u' => trStmts ([] :: Γ) els u')
          (fun u' => trStmts Γ rest u')
    | s =>
      if rest.isNil then
        match trInBlock Γ s u with
        | .error e => .error e
        | .ok (b, fin) => .ok (if fin then b.addTo true .unit else b.addTo false (finalizer u))
      else
        match trInBlock Γ s .local with
        | .error e => .error e
        | .ok (b, _) =>
          match trStmts (b.scope Γ) rest u with
          | .error e => .error e
          | .ok r => .ok (b.addTo false r)
/-- `stmtInBlock`: the binding and whether the usage has been finalized. -/
def trInBlock (Γ : SEnv) : Stmt → Usage → Except String (Bind × Bool)
  | .ret e, u =>
    match u with
    | .returned => match trE Γ e with
      | .error m => .error m
      | .ok t => .ok (.anon t, true)
    | _ => .error "return in unsupported position"
  | .brk, u =>
    match u with
    | .loop => .ok (.anon .brk, true)
    | _ => .error "break/continue in unsupported position"
  | .cont, u =>
    match u with
    | .loop => .ok (.anon .cont, true)
    | _ => .error "break/continue in unsupported position"
  | .ite c thn els, u =>
    match trC Γ c with
    | .error e => .error e
    | .ok tc =>
      match trIf tc true (endsWithReturn thn) els.isNil u
          (fun u' => trStmts ([] :: Γ) thn u') (fun u' => trStmts ([] :: Γ) els u')
          (fun u' => .ok (finalizer u')) with
      | .error e => .error e
      | .ok t => .ok (.anon t, true)
  | .block b, u =>
    match trStmts ([] :: Γ) b u with
    | .error e => .error e
    | .ok t => .ok (.anon t, true)
  | .simple s, u =>
    match trSimple Γ s with
    | .error e => .error e
    | .ok b => .ok (b, u == .local)
  | .declare x e, u =>
    match trE Γ e with
    | .error m => .error m
    | .ok t => .ok (.named x true (.refTo t), u == .local)
  | .loop init c post body, u =>
    match trInit Γ init with
    | .error e => .error e
    | .ok ti =>
      match trCondOpt (initSScope init :: Γ) c with
      | .error e => .error e
      | .ok tc =>
        match trPost (initSScope init :: Γ) post with
        | .error e => .error e
        | .ok tp =>
          match trStmts ([] :: initSScope init :: Γ) body .loop with
          | .error e => .error e
          | .ok tb => .ok (.loopB ti (.forLoop tc tp tb), u == .local)
end

/-- goose: translate a function body in the static environment `Γ`. -/
def tr (Γ : SEnv) (b : Stmts) : Except String Tgt := trStmts Γ b .returned

/-! ## The side condition that excludes the known finding `loop-variable-scope` -/

/-- The static environment after a statement, as Go scopes it. -/
def Stmt.scopeAfter : Stmt → SEnv → SEnv
  | .simple (.define x _), Γ => bindStk x false Γ
  | .declare x _, Γ => bindStk x true Γ
  | _, Γ => Γ

mutual
/-- No `for i := …` declares an `i` whose name is visible at the loop (in any enclosing scope,
parameters included).  Loops one after the other may reuse a name; a loop nested in the body of a loop
with the same variable name may not. -/
def Stmts.loopVarsFresh (Γ : SEnv) : Stmts → Bool
  | .nil => true
  | .cons s rest => Stmt.loopVarsFresh Γ s && Stmts.loopVarsFresh (s.scopeAfter Γ) rest
def Stmt.loopVarsFresh (Γ : SEnv) : Stmt → Bool
  | .ite _ thn els => Stmts.loopVarsFresh ([] :: Γ) thn && Stmts.loopVarsFresh ([] :: Γ) els
  | .block b => Stmts.loopVarsFresh ([] :: Γ) b
  | .loop init _ _ body =>
    (match init with
     | none => true
     | some (x, _) => (lookStk x Γ).isNone) && Stmts.loopVarsFresh ([] :: initSScope init :: Γ) body
  | _ => true
end

/-! ## Mutants (for the mutation witnesses of `Props/C01Core.lean`) -/

/-- How `a;; k` is READ when `a` was printed without parentheses: `let: … in …` and `…;; …` extend as
far to the right as possible, so `k` ends up inside the innermost body of `a`. -/
def splice : Tgt → Tgt → Tgt
  | .letE x e b, k => .letE x e (splice b k)
  | .seq a b, k => .seq a (splice b k)
  | t, k => .seq t k

/-- MUTANT "no `ParenExpr`": every `a;; b` is printed without parentheses around `a` (conditionals and
loops keep theirs: they print their own) and read back. -/
def unparen : Tgt → Tgt
  | .seq a b => splice (unparen a) (unparen b)
  | .letE x a b => .letE x (unparen a) (unparen b)
  | .ite c a b => .ite c (unparen a) (unparen b)
  | .forLoop c p b => .forLoop c p (unparen b)
  | t => t

/-- goose without the parentheses around nested blocks (its behaviour before the repair 4a58fab). -/
def trLeaky (Γ : SEnv) (b : Stmts) : Except String Tgt :=
  match tr Γ b with
  | .ok t => .ok (unparen t)
  | .error m => .error m

/-- MUTANT "`x++` / `x op= e` without the load": `incDecStmt`/`assignStmt` using the variable itself
(`refExpr`) instead of its value as the left operand. -/
def dropLoad : Tgt → Tgt
  | .store x (.bin op (.load y) e) => if x = y then .store x (.bin op (.var y) e) else .store x (.bin op (.load y) e)
  | .seq a b => .seq (dropLoad a) (dropLoad b)
  | .letE x a b => .letE x (dropLoad a) (dropLoad b)
  | .ite c a b => .ite c (dropLoad a) (dropLoad b)
  | .forLoop c p b => .forLoop c (dropLoad p) (dropLoad b)
  | t => t

def trNoLoad (Γ : SEnv) (b : Stmts) : Except String Tgt :=
  match tr Γ b with
  | .ok t => .ok (dropLoad t)
  | .error m => .error m

/-! ## Line protocol

Token syntax (space-separated tokens; prefix operators):

  E  ::= <digits> | <name> | + E E | - E E | * E E | & E E | | E E | ^ E E | << E E | >> E E
  C  ::= < E E | <= E E | > E E | >= E E | == E E | != E E | && C C | || C C | ! C | true | false
  SI ::= def <name> E | set <name> E | op <name> <binop> E | inc <name> | dec <name>
  S  ::= SI | var <name> E | ret E | brk | cont | blk [ SS ] | if C [ SS ] [ SS ]
       | for INIT COND POST [ SS ]        INIT ::= _ | init <name> E      COND ::= _ | C      POST ::= _ | SI
  SS ::= ε | S | S ; SS

  e.g.  var acc p ; for init i 0 < i 3 inc i [ op acc + i ; if > acc 50 [ brk ] [ ] ] ; ret acc

`core` prints the translation of the function body (one parameter `p`, let-bound) in the canonical
rendering of `GooseVerif.GL.Expr.canon`, or `error <message-with-dashes>`, or `error parse`.
`corego <p> <tokens>` prints Go's result: the decimal value, `none` (fell off the end), `fuel`, `stuck`.
`corewf` prints `ok` or `loopvar-hides` (the side condition `loopVarsFresh`).
`coreeval <p> <tokens>` prints the value of the model's translation under the model's target semantics
(decimal, `none` for `#()`, `fuel`, `stuck`, or `error …` if the program is rejected).
-/

def isNumTok (s : String) : Bool := !s.isEmpty && s.all Char.isDigit

def reserved : List String :=
  [";", "[", "]", "_", "+", "-", "*", "&", "|", "^", "<<", ">>", "<", "<=", ">", ">=", "==", "!=", "&&", "||", "!",
   "true", "false", "def", "set", "op", "inc", "dec", "var", "ret", "brk", "cont", "blk", "if", "for", "init"]

def parseBinOp : String → Option BinOp
  | "+" => some .add | "-" => some .sub | "*" => some .mul | "&" => some .and | "|" => some .or
  | "^" => some .xor | "<<" => some .shl | ">>" => some .shr | _ => none

def parseCmpOp : String → Option CmpOp
  | "<" => some .lt | "<=" => some .le | ">" => some .gt | ">=" => some .ge | "==" => some .eq
  | "!=" => some .ne | _ => none

def parseE : Nat → List String → Option (Exp × List String)
  | 0, _ => none
  | _ + 1, [] => none
  | f + 1, tok :: r =>
    match parseBinOp tok with
    | some op =>
      match parseE f r with
      | some (a, r1) => match parseE f r1 with
        | some (b, r2) => some (.bin op a b, r2)
        | none => none
      | none => none
    | none =>
      if isNumTok tok then some (.lit (BitVec.ofNat 64 tok.toNat!), r)
      else if reserved.contains tok then none
      else some (.var tok, r)

def parseC : Nat → List String → Option (Cond × List String)
  | 0, _ => none
  | _ + 1, [] => none
  | _ + 1, "true" :: r => some (.tt, r)
  | _ + 1, "false" :: r => some (.ff, r)
  | f + 1, "!" :: r => match parseC f r with
    | some (p, r1) => some (.not p, r1)
    | none => none
  | f + 1, "&&" :: r => match parseC f r with
    | some (p, r1) => match parseC f r1 with
      | some (q, r2) => some (.and p q, r2)
      | none => none
    | none => none
  | f + 1, "||" :: r => match parseC f r with
    | some (p, r1) => match parseC f r1 with
      | some (q, r2) => some (.or p q, r2)
      | none => none
    | none => none
  | f + 1, tok :: r =>
    match parseCmpOp tok with
    | some c =>
      match parseE f r with
      | some (a, r1) => match parseE f r1 with
        | some (b, r2) => some (.cmp c a b, r2)
        | none => none
      | none => none
    | none => none

def parseSimple (f : Nat) : List String → Option (Simple × List String)
  | "def" :: x :: r => match parseE f r with
    | some (e, r1) => if reserved.contains x then none else some (.define x e, r1)
    | none => none
  | "set" :: x :: r => match parseE f r with
    | some (e, r1) => if reserved.contains x then none else some (.assign x e, r1)
    | none => none
  | "op" :: x :: o :: r => match parseBinOp o, parseE f r with
    | some op, some (e, r1) => if reserved.contains x then none else some (.opAssign x op e, r1)
    | _, _ => none
  | "inc" :: x :: r => if reserved.contains x then none else some (.incr x, r)
  | "dec" :: x :: r => if reserved.contains x then none else some (.decr x, r)
  | _ => none

def parseInit (f : Nat) : List String → Option (Option (String × Exp) × List String)
  | "_" :: r => some (none, r)
  | "init" :: x :: r => match parseE f r with
    | some (e, r1) => if reserved.contains x then none else some (some (x, e), r1)
    | none => none
  | _ => none

def parseCondOpt (f : Nat) : List String → Option (Option Cond × List String)
  | "_" :: r => some (none, r)
  | toks => match parseC f toks with
    | some (c, r) => some (some c, r)
    | none => none

def parsePostOpt (f : Nat) : List String → Option (Option Simple × List String)
  | "_" :: r => some (none, r)
  | toks => match parseSimple f toks with
    | some (s, r) => some (some s, r)
    | none => none

mutual
def parseS : Nat → List String → Option (Stmt × List String)
  | 0, _ => none
  | f + 1, "var" :: x :: r => match parseE f r with
    | some (e, r1) => if reserved.contains x then none else some (.declare x e, r1)
    | none => none
  | f + 1, "ret" :: r => match parseE f r with
    | some (e, r1) => some (.ret e, r1)
    | none => none
  | _ + 1, "brk" :: r => some (.brk, r)
  | _ + 1, "cont" :: r => some (.cont, r)
  | f + 1, "blk" :: "[" :: r => match parseSS f r with
    | some (b, "]" :: r1) => some (.block b, r1)
    | _ => none
  | f + 1, "if" :: r => match parseC f r with
    | some (c, "[" :: r1) => match parseSS f r1 with
      | some (t, "]" :: "[" :: r2) => match parseSS f r2 with
        | some (e, "]" :: r3) => some (.ite c t e, r3)
        | _ => none
      | _ => none
    | _ => none
  | f + 1, "for" :: r => match parseInit f r with
    | some (i, r1) => match parseCondOpt f r1 with
      | some (c, r2) => match parsePostOpt f r2 with
        | some (p, "[" :: r3) => match parseSS f r3 with
          | some (b, "]" :: r4) => some (.loop i c p b, r4)
          | _ => none
        | _ => none
      | none => none
    | none => none
  | f + 1, toks => match parseSimple f toks with
    | some (s, r) => some (.simple s, r)
    | none => none
def parseSS : Nat → List String → Option (Stmts × List String)
  | 0, _ => none
  | _ + 1, [] => some (.nil, [])
  | _ + 1, "]" :: r => some (.nil, "]" :: r)
  | f + 1, toks => match parseS f toks with
    | some (s, ";" :: r1) => match parseSS f r1 with
      | some (ss, r2) => some (.cons s ss, r2)
      | none => none
    | some (s, r1) => some (.cons s .nil, r1)
    | none => none
end

def parse (toks : List String) : Option Stmts :=
  match parseSS (toks.length + 1) toks with
  | some (ss, []) => some ss
  | _ => none

def hexStr (s : String) : String :=
  let hexd (n : Nat) : Char := if n < 10 then Char.ofNat (48 + n) else Char.ofNat (87 + n)
  String.ofList (s.toList.flatMap (fun c => let n := c.toNat % 256; [hexd (n / 16), hexd (n % 16)]))

/-- The notation `BinaryExpr.Coq` prints. -/
def BinOp.notation : BinOp → String
  | .add => "+" | .sub => "-" | .mul => "*" | .and => "and" | .or => "or" | .xor => "xor"
  | .shl => "≪" | .shr => "≫"

def CmpOp.notation : CmpOp → String
  | .lt => "<" | .le => "≤" | .gt => ">" | .ge => "≥" | .eq => "=" | .ne => "≠"

def Tgt.canon : Tgt → String
  | .lit n => "(lit u64:" ++ toString n.toNat ++ ")"
  | .litB b => if b then "(lit true)" else "(lit false)"
  | .unit => "(lit unit)"
  | .skip => "(g Skip)"
  | .brk => "(g Break)"
  | .cont => "(g Continue)"
  | .var x => "(var " ++ hexStr x ++ ")"
  | .load x => "(load (g uint64T) (var " ++ hexStr x ++ "))"
  | .bin op a b => "(bin " ++ hexStr op.notation ++ " " ++ a.canon ++ " " ++ b.canon ++ ")"
  | .cmp c a b => "(bin " ++ hexStr c.notation ++ " " ++ a.canon ++ " " ++ b.canon ++ ")"
  | .and a b => "(bin " ++ hexStr "&&" ++ " " ++ a.canon ++ " " ++ b.canon ++ ")"
  | .or a b => "(bin " ++ hexStr "||" ++ " " ++ a.canon ++ " " ++ b.canon ++ ")"
  | .not a => "(not " ++ a.canon ++ ")"
  | .letE x a b => "(let [" ++ hexStr x ++ "] " ++ a.canon ++ " " ++ b.canon ++ ")"
  | .refTo a => "(app (g ref_to) (g uint64T) " ++ a.canon ++ ")"
  | .store x a => "(store (var " ++ hexStr x ++ ") (g uint64T) " ++ a.canon ++ ")"
  | .seq a b => "(seq " ++ a.canon ++ " " ++ b.canon ++ ")"
  | .ite c a b => "(if " ++ c.canon ++ " " ++ a.canon ++ " " ++ b.canon ++ ")"
  | .forLoop c p b => "(for (lam [5f] " ++ c.canon ++ ") (lam [5f] " ++ p.canon ++ ") (lam [5f] " ++ b.canon ++ "))"

def dashes (m : String) : String := String.ofList (m.toList.map (fun c => if c = ' ' then '-' else c))

def showResult : Except String Tgt → String
  | .ok t => t.canon
  | .error m => "error " ++ dashes m

/-- The static environment of the protocol's functions `func sK(p uint64) uint64`. -/
def protoSEnv : SEnv := [[("p", false)]]

/-- `core`: the canonical rendering of the translation, or the error. -/
def run (toks : List String) : String :=
  match parse toks with
  | some ss => showResult (tr protoSEnv ss)
  | none => "error parse"

/-- Iterations allowed per loop nest in the `corego` protocol. -/
def protoFuel : Nat := 100000

/-- `corego <p> <tokens>`: Go's result. -/
def runGoToks (ws : List String) : String :=
  match ws with
  | [] => "error parse"
  | pv :: toks =>
    if isNumTok pv then
      match parse toks with
      | some ss =>
        match runGo protoFuel [("p", BitVec.ofNat 64 pv.toNat!)] ss with
        | .ok (some v) => toString v.toNat
        | .ok none => "none"
        | .fuel => "fuel"
        | .stuck => "stuck"
      | none => "error parse"
    else "error parse"

/-- `corewf`: does the side condition of the correctness theorem hold? -/
def runWf (toks : List String) : String :=
  match parse toks with
  | some ss => if ss.loopVarsFresh protoSEnv then "ok" else "loopvar-hides"
  | none => "error parse"

/-- Evaluate the model's own translation with the model's target semantics (used by examples and by
the `coreeval` protocol: `coreeval <p> <tokens>`). -/
def runTgtToks (ws : List String) : String :=
  match ws with
  | [] => "error parse"
  | pv :: toks =>
    if isNumTok pv then
      match parse toks with
      | some ss =>
        match tr protoSEnv ss with
        | .error m => "error " ++ dashes m
        | .ok t =>
          match runT protoFuel [("p", BitVec.ofNat 64 pv.toNat!)] t with
          | .ok (.num v) => toString v.toNat
          | .ok .unit => "none"
          | .ok _ => "other"
          | .fuel => "fuel"
          | .stuck => "stuck"
      | none => "error parse"
    else "error parse"

/-! ## Example programs (used by `Props/C01Core.lean`); the parameter is `p` -/

private def sl : List Stmt → Stmts
  | [] => .nil
  | s :: r => .cons s (sl r)

/-- Statement lists from Lean lists. -/
def Stmts.ofList (l : List Stmt) : Stmts := sl l

/-- `var acc uint64 = p; for i := 0; i < 3; i++ { acc += i }; return acc` -/
def exSum : Stmts := .ofList
  [.declare "acc" (.var "p"),
   .loop (some ("i", .lit 0)) (some (.cmp .lt (.var "i") (.lit 3))) (some (.incr "i"))
     (.ofList [.opAssign "acc" .add (.var "i")]),
   .ret (.var "acc")]

/-- `var acc uint64 = p; var n uint64 = 0
    for n < 10 { n++; if n == 2 { continue }; if n > 4 { break }; acc += n }
    return acc` -/
def exBreakCont : Stmts := .ofList
  [.declare "acc" (.var "p"), .declare "n" (.lit 0),
   .loop none (some (.cmp .lt (.var "n") (.lit 10))) none
     (.ofList [.incr "n",
       .ite (.cmp .eq (.var "n") (.lit 2)) (.ofList [.cont]) .nil,
       .ite (.cmp .gt (.var "n") (.lit 4)) (.ofList [.brk]) .nil,
       .opAssign "acc" .add (.var "n")]),
   .ret (.var "acc")]

/-- `x := p; var acc uint64 = 0; { x := x + 1; acc = x }; return acc + x` -/
def exShadow : Stmts := .ofList
  [.define "x" (.var "p"), .declare "acc" (.lit 0),
   .block (.ofList [.define "x" (.bin .add (.var "x") (.lit 1)), .assign "acc" (.var "x")]),
   .ret (.bin .add (.var "acc") (.var "x"))]

/-- `if p < 5 { return 1 }; var y uint64 = p; if y > 100 && !(y == 200) { y -= 100 } else { y ^= 1 }; return y * 3` -/
def exEarly : Stmts := .ofList
  [.ite (.cmp .lt (.var "p") (.lit 5)) (.ofList [.ret (.lit 1)]) .nil,
   .declare "y" (.var "p"),
   .ite (.and (.cmp .gt (.var "y") (.lit 100)) (.not (.cmp .eq (.var "y") (.lit 200))))
     (.ofList [.opAssign "y" .sub (.lit 100)]) (.ofList [.opAssign "y" .xor (.lit 1)]),
   .ret (.bin .mul (.var "y") (.lit 3))]

/-- `var acc uint64 = p; for i := 0; i < 2; i++ { for j := 0; j < 3; j++ { if j == i { continue }; acc += j } }`
    (falls off the end) -/
def exNested : Stmts := .ofList
  [.declare "acc" (.var "p"),
   .loop (some ("i", .lit 0)) (some (.cmp .lt (.var "i") (.lit 2))) (some (.incr "i"))
     (.ofList [.loop (some ("j", .lit 0)) (some (.cmp .lt (.var "j") (.lit 3))) (some (.incr "j"))
       (.ofList [.ite (.cmp .eq (.var "j") (.var "i")) (.ofList [.cont]) .nil, .opAssign "acc" .add (.var "j")])])]

/-- `var x uint64 = p; for { x++ }` -/
def exForever : Stmts := .ofList [.declare "x" (.var "p"), .loop none none none (.ofList [.incr "x"])]

/-- `return p + 18446744073709551615` (that is, `p - 1` modulo 2^64) -/
def exWrap : Stmts := .ofList [.ret (.bin .add (.var "p") (.lit 18446744073709551615))]

/-- `var x uint64 = p; x++; return x` -/
def exInc : Stmts := .ofList [.declare "x" (.var "p"), .incr "x", .ret (.var "x")]

/-- `i := p; var acc uint64 = 0; for i := 0; i < 2; i++ { acc += i }; return acc + i`
    (the loop variable hides the outer `i` in what goose emits: known finding `loop-variable-scope`) -/
def exHide : Stmts := .ofList
  [.define "i" (.var "p"), .declare "acc" (.lit 0),
   .loop (some ("i", .lit 0)) (some (.cmp .lt (.var "i") (.lit 2))) (some (.incr "i"))
     (.ofList [.opAssign "acc" .add (.var "i")]),
   .ret (.bin .add (.var "acc") (.var "i"))]

/-- `x := p; x = 3; return x` -/
def exAssignDefine : Stmts := .ofList [.define "x" (.var "p"), .assign "x" (.lit 3), .ret (.var "x")]

/-- `for { return p }` -/
def exReturnInLoop : Stmts := .ofList [.loop none none none (.ofList [.ret (.var "p")])]

/-- `var x uint64 = p; if x < 3 { return 1 } else { x = 2 }; return x` -/
def exEarlyElse : Stmts := .ofList
  [.declare "x" (.var "p"),
   .ite (.cmp .lt (.var "x") (.lit 3)) (.ofList [.ret (.lit 1)]) (.ofList [.assign "x" (.lit 2)]),
   .ret (.var "x")]

/-- `var x uint64 = p; for x < 3 { break; x++ }; return x` -/
def exBreakMiddle : Stmts := .ofList
  [.declare "x" (.var "p"),
   .loop none (some (.cmp .lt (.var "x") (.lit 3))) none (.ofList [.brk, .incr "x"]),
   .ret (.var "x")]

end GooseVerif.Model.Core
