/-
Model of `machine/filesys/dir.go` (`DirFs`): every method as the system calls it issues, over a
modelled OS directory tree (`Os`): inodes with volatile (page cache) and durable contents, a root
directory holding regular files (the temporary files of `AtomicCreate`) and sub-directories, and
open descriptors. Descriptors are named by creation index (the harness renames kernel numbers).

`AtomicCreate` is a little machine (`acRun`) so that a crash after any number of system calls, a
failure of any one call, and short writes are expressible (C13).

Flags follow the constants evaluated by the extractor (`Gen/FsFacts.lean`):
Create `O_CREAT|O_EXCL|O_WRONLY`, Open `O_RDONLY`, AtomicCreate's temporary file
`O_CREAT|O_WRONLY|O_TRUNC` in the root directory under a name unique to the call
(`fname.<pid>.<counter>.tmp`).
Core Lean only.
-/
import GooseVerif.Model.Fs

namespace GooseVerif.Model.Fs

structure OsFd where
  ino : Nat
  off : Nat
  wr : Bool
  deriving Repr, DecidableEq

structure Os where
  inodes : List Bytes                             -- volatile contents; inode = index; never freed
  durable : List Bytes                            -- contents as of the last fsync of that inode
  root : List (String × Nat)                      -- regular files directly under the root
  dirs : List (String × List (String × Nat))      -- sub-directories and their entries
  fds : List (Nat × OsFd)
  nfds : Nat
  tmpCount : Nat                                  -- AtomicCreate calls so far (process id, call counter): unique temporary names
  deriving Repr

def Os.empty : Os := { inodes := [], durable := [], root := [], dirs := [], fds := [], nfds := 0, tmpCount := 0 }

inductive Errno where
  | EEXIST | ENOENT | EBADF | EIO | EISDIR
  deriving Repr, DecidableEq

structure OFlags where
  creat : Bool := false
  excl : Bool := false
  trunc : Bool := false
  wr : Bool := false
  deriving Repr, DecidableEq

/-- Where a path resolves: directly under the root, or inside a sub-directory. -/
abbrev Loc := Option String

def Os.entries (o : Os) : Loc → Option (List (String × Nat))
  | none => some o.root
  | some d => aget o.dirs d

def Os.setEntries (o : Os) (l : Loc) (es : List (String × Nat)) : Os :=
  match l with
  | none => { o with root := es }
  | some d => { o with dirs := aset o.dirs d es }

def Os.lookup (o : Os) (l : Loc) (n : String) : Option Nat := (o.entries l).bind (aget · n)

/-- `pwrite`-style update of file contents at an offset (zero-extends a gap). -/
def writeAt (file : Bytes) (off : Nat) (data : Bytes) : Bytes :=
  file.take off ++ List.replicate (off - file.length) 0 ++ data ++ file.drop (off + data.length)

def Os.mkdirat (o : Os) (d : String) : Os × Option Errno :=
  if (aget o.dirs d).isSome || (aget o.root d).isSome then (o, some .EEXIST)
  else ({ o with dirs := aset o.dirs d [] }, none)

/-- `openat`. `internal = false`: the descriptor is handed to the client, it is named by the
creation index `o.nfds`, which is then advanced. `internal = true` (the temporary file of
`AtomicCreate`, never seen by the client): it is named `internalFd` and the client-visible
numbering is left alone. -/
def internalFd : Nat := 4294967296

def Os.openat (o : Os) (l : Loc) (n : String) (f : OFlags) (internal : Bool := false) : Os × Option Errno :=
  let key := if internal then internalFd else o.nfds
  let bump := if internal then 0 else 1
  match o.entries l with
  | none => (o, some .ENOENT)
  | some es =>
    match aget es n with
    | some ino =>
      if f.creat && f.excl then (o, some .EEXIST)
      else
        let o1 := if f.trunc && f.wr then { o with inodes := o.inodes.set ino [] } else o
        ({ o1 with fds := aset o1.fds key { ino := ino, off := 0, wr := f.wr }, nfds := o1.nfds + bump }, none)
    | none =>
      if f.creat then
        let ino := o.inodes.length
        let o1 := { o with inodes := o.inodes ++ [[]], durable := o.durable ++ [[]] }
        let o2 := o1.setEntries l (aset es n ino)
        ({ o2 with fds := aset o2.fds key { ino := ino, off := 0, wr := f.wr }, nfds := o2.nfds + bump }, none)
      else (o, some .ENOENT)

/-- `write(fd, data)` accepting the first `n` bytes (`n = data.length` for a full write). -/
def Os.write (o : Os) (fd : Nat) (data : Bytes) (n : Nat) : Os × Option Errno :=
  match aget o.fds fd with
  | some d =>
    if !d.wr then (o, some .EBADF)
    else
      let chunk := data.take n
      ({ o with inodes := o.inodes.set d.ino (writeAt (o.inodes.getD d.ino []) d.off chunk),
                fds := aset o.fds fd { d with off := d.off + chunk.length } }, none)
  | none => (o, some .EBADF)

def Os.pread (o : Os) (fd : Nat) (off len : Nat) : Option Bytes :=
  match aget o.fds fd with
  | some d => if d.wr then none else some (readRange (o.inodes.getD d.ino []) off len)
  | none => none

def Os.fsync (o : Os) (fd : Nat) : Os × Option Errno :=
  match aget o.fds fd with
  | some d => ({ o with durable := o.durable.set d.ino (o.inodes.getD d.ino []) }, none)
  | none => (o, some .EBADF)

def Os.close (o : Os) (fd : Nat) : Os × Option Errno :=
  match aget o.fds fd with
  | some _ => ({ o with fds := adel o.fds fd }, none)
  | none => (o, some .EBADF)

def Os.unlinkat (o : Os) (l : Loc) (n : String) : Os × Option Errno :=
  match o.entries l with
  | none => (o, some .ENOENT)
  | some es =>
    match aget es n with
    | some _ => (o.setEntries l (adel es n), none)
    | none => (o, some .ENOENT)

def Os.linkat (o : Os) (ol : Loc) (on : String) (nl : Loc) (nn : String) : Os × Option Errno :=
  match o.lookup ol on, o.entries nl with
  | some ino, some es =>
    match aget es nn with
    | some _ => (o, some .EEXIST)
    | none => (o.setEntries nl (aset es nn ino), none)
  | _, _ => (o, some .ENOENT)

/-- `renameat(root/tmp → l/n)`: atomically (re)points `l/n` at the inode and removes the old name. -/
def Os.renameat (o : Os) (tmp : String) (l : Loc) (n : String) : Os × Option Errno :=
  match aget o.root tmp, o.entries l with
  | some ino, some _ =>
    let o1 := { o with root := adel o.root tmp }
    match o1.entries l with
    | some es => (o1.setEntries l (aset es n ino), none)
    | none => (o, some .ENOENT)
  | _, _ => (o, some .ENOENT)

/-- A crash of the process: descriptors vanish, the tree and the page cache stay. -/
def Os.crash (o : Os) : Os := { o with fds := [] }

/-! ### AtomicCreate as a machine over system calls -/

/-- How a run of `AtomicCreate` is disturbed: `shorts` are the byte counts accepted by successive
`write` calls (full writes once the list is exhausted; a `0` is treated as `1`, the kernel makes
progress), `stopAfter = some k` kills the process after `k` system calls, `failAt = some k` makes
the `k`-th system call (0-based) fail. -/
structure Disturb where
  shorts : List Nat := []
  stopAfter : Option Nat := none
  failAt : Option Nat := none
  deriving Repr

inductive AcOut where
  | ok | panic | crashed
  deriving Repr, DecidableEq

/-- `fname.<pid>.<counter>.tmp`: the pair (process, counter) is modelled by one counter that is
never reused (a new process has a new pid). -/
def tmpName (n : String) (k : Nat) : String := n ++ "." ++ toString k ++ ".tmp"

def acFlags : OFlags := { creat := true, wr := true, trunc := true }

/-- The write loop `for len(data) > 0 { n := write(fd, data); data = data[n:] }`, with the system
call counter `k`. Returns the state, the counter, and whether it finished / panicked / crashed. -/
def acWriteLoop (dist : Disturb) : Nat → Os → Nat → Bytes → List Nat → Nat → Os × Nat × Option AcOut
  | 0, o, _, _, _, k => (o, k, some .panic)       -- fuel exhausted: unreachable with fuel = data.length + 1
  | fuel + 1, o, fd, data, shorts, k =>
    if data.isEmpty then (o, k, none)
    else if dist.stopAfter = some k then (o.crash, k, some .crashed)
    else if dist.failAt = some k then (o, k + 1, some .panic)
    else
      let n := match shorts with
        | [] => data.length
        | s :: _ => max 1 (min s data.length)
      let r := o.write fd data n
      match r.2 with
      | some _ => (r.1, k + 1, some .panic)
      | none => acWriteLoop dist fuel r.1 fd (data.drop n) shorts.tail (k + 1)

/-- `DirFs.AtomicCreate(dir, fname, data)`. The deferred `close` runs on return and on panic. -/
def acRun (o0 : Os) (d n : String) (data : Bytes) (dist : Disturb) : Os × AcOut :=
  let tmp := tmpName n o0.tmpCount
  let o := { o0 with tmpCount := o0.tmpCount + 1 }
  -- syscall 0: openat(root, tmp, O_CREAT|O_WRONLY|O_TRUNC)
  if dist.stopAfter = some 0 then (o.crash, .crashed)
  else if dist.failAt = some 0 then (o, .panic)
  else
    let fd := internalFd
    let r := o.openat none tmp acFlags true
    match r.2 with
    | some _ => (r.1, .panic)
    | none =>
      let (o1, k, out) := acWriteLoop dist (data.length + 1) r.1 fd data dist.shorts 1
      match out with
      | some .crashed => (o1, .crashed)
      | some _ => ((o1.close fd).1, .panic)
      | none =>
        -- fsync
        if dist.stopAfter = some k then (o1.crash, .crashed)
        else if dist.failAt = some k then ((o1.close fd).1, .panic)
        else
          let o2 := (o1.fsync fd).1
          -- renameat
          if dist.stopAfter = some (k + 1) then (o2.crash, .crashed)
          else if dist.failAt = some (k + 1) then ((o2.close fd).1, .panic)
          else
            let r3 := o2.renameat tmp (some d) n
            match r3.2 with
            | some _ => ((r3.1.close fd).1, .panic)
            | none =>
              if dist.stopAfter = some (k + 2) then (r3.1.crash, .crashed)
              else ((r3.1.close fd).1, .ok)

/-! ### DirFs methods -/

def DirFs.step (o : Os) : Op → Os × Out
  | .mkdir d =>
    let r := o.mkdirat d
    (r.1, if r.2.isSome then .panic else .ok)
  | .create d n =>
    let r := o.openat (some d) n { creat := true, excl := true, wr := true }
    match r.2 with
    | none => (r.1, .fd o.nfds)
    | some .EEXIST => (o, .nofd)
    | some _ => (o, .panic)
  | .append k data =>
    let r := o.write k data data.length
    (r.1, if r.2.isSome then .panic else .ok)
  | .close k =>
    let r := o.close k
    (r.1, if r.2.isSome then .panic else .ok)
  | .open_ d n =>
    let r := o.openat (some d) n {}
    match r.2 with
    | none => (r.1, .fd o.nfds)
    | some _ => (o, .panic)
  | .readAt k off len =>
    match o.pread k off len with
    | some bs => (o, .bytes bs)
    | none => (o, .panic)
  | .delete d n =>
    let r := o.unlinkat (some d) n
    (r.1, if r.2.isSome then .panic else .ok)
  | .link od on nd nn =>
    let r := o.linkat (some od) on (some nd) nn
    (r.1, .bool r.2.isNone)
  | .atomic d n data =>
    let r := acRun o d n data {}
    (r.1, if r.2 = .ok then .ok else .panic)
  | .list d =>
    match aget o.dirs d with
    | some es => (o, .names (sortNames (es.map (·.1))))
    | none => (o, .panic)

def DirFs.run (o : Os) : List Op → Os × List Out
  | [] => (o, [])
  | op :: ops =>
    let r := DirFs.step o op
    let rest := DirFs.run r.1 ops
    (rest.1, r.2 :: rest.2)

end GooseVerif.Model.Fs
