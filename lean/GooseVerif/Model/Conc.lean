/-
C03 — "Conc": a model of how goose translates the concurrency constructs of Go, with small-step
interleaving semantics of both sides.

Source "ConcGo" (a closed function `func cK() uint64`):

  mu := new(sync.Mutex)     wg := new(sync.WaitGroup)     cv := sync.NewCond(mu)
  var x uint64 = e          (a shared CELL; goroutines capture it by reference)
  y := e                    (let-bound; immutable, so capture by value = capture by reference)
  x = e     mu.Lock()  mu.Unlock()   wg.Add(n)  wg.Done()  wg.Wait()   cv.Wait()  cv.Signal()  cv.Broadcast()
  go func() { … }()         (the body may itself spawn)
  if c { … } else { … }     for c { … }          final `return e`
  and three forms goose rejects: `go f()`, `defer mu.Unlock()`, a bare `return` inside a goroutine.

Values are `BitVec 64` (`Core.W`, Go's `uint64`, wrap-around); expressions and conditions are those of
`Model/Core.lean` (`Exp`, `Cond`: literals, variables, + - * & | ^ << >>, the six comparisons, && || !).

Translator `tr` (= what `/repo/goose.go` does: `goStmt`, `spawnExpr`, `lockMethod`, `condVarMethod`,
`waitGroupMethod`, `newExpr`, `packageMethod` (`sync.NewCond`), `varSpec`, `defineStmt`, `assignStmt`,
`ifStmt`, `forStmt`, `stmts`, `stmtInBlock`; printing by `/repo/internal/coq/coq.go`):

  mu := new(sync.Mutex)   ↦ let: "mu" := lock.new #() in …        wg := new(sync.WaitGroup) ↦ let: "wg" := waitgroup.New #() in …
  cv := sync.NewCond(mu)  ↦ let: "cv" := lock.newCond "mu" in …
  var x uint64 = e        ↦ let: "x" := ref_to uint64T ⟦e⟧ in …      y := e ↦ let: "y" := ⟦e⟧ in …
  use of x                ↦ ![uint64T] "x" (a `var`) or "x" (a `:=` name)
  x = e                   ↦ "x" <-[uint64T] ⟦e⟧                     (error "variable x is not assignable" for a `:=` name)
  mu.Lock() ↦ lock.acquire "mu"    mu.Unlock() ↦ lock.release "mu"    wg.Add(n) ↦ waitgroup.Add "wg" #n
  wg.Done() ↦ waitgroup.Done "wg"  wg.Wait() ↦ waitgroup.Wait "wg"
  cv.Wait() ↦ lock.condWait "cv"   cv.Signal() ↦ lock.condSignal "cv" cv.Broadcast() ↦ lock.condBroadcast "cv"
  go func() { b }()       ↦ Fork (⟦b⟧)          (usage "local": the body's last statement is printed alone, `#()` if empty)
  if c {A} else {B}; rest ↦ (if: ⟦c⟧ then ⟦A⟧ else ⟦B⟧);; rest       (as the LAST statement of a loop body the branches end in `Continue`)
  for c {B}; rest         ↦ Skip;; (for: (λ: <>, ⟦c⟧); (λ: <>, Skip) := λ: <>, ⟦B⟧;; Continue);; rest
  return e                ↦ ⟦e⟧

Semantics.  Both sides are SMALL-STEP over a thread pool and ONE shared heap of objects
(`cell w | mutex held | wg n | cond mu waiters`; allocation at the end of the heap on both sides, so that the
bijection of addresses between the two sides is the identity).  A schedule is a list of labels
`(thread id, choice)`; the choice is used only by `Signal` (which parked waiter is woken: index into the
waiter list; choice 0 = the longest-waiting one = FIFO, which is what Go's runtime and `GL/Sem.lean` do).

 * Go side (`gstep`): one step = one statement (expression evaluation + store is atomic: for data-race-free
   programs this is no restriction; it is the same granularity as the exhaustive scheduler of `GL/Explore`).
   `cv.Wait()` is three steps of the waiting goroutine: (1) atomically unlock and park (append the thread id
   to the waiter list), (2) resume — enabled only once a Signal/Broadcast has removed the id from the list —
   (3) re-acquire the mutex.  Unlock of an unlocked mutex, a negative wait-group counter and `Wait` without
   holding the mutex are fatal (`stuck`).
 * GooseLang side (`tstep`): a CEK-style machine (control + frames) with ADMINISTRATIVE steps (`astep`:
   `let:`/`;;` plumbing, `Skip`, `#()`, `Continue`, loop-frame bookkeeping; they neither read nor write
   the heap) and EFFECT steps (`estep`: everything that reads or writes the heap, forks or blocks).
   `Fork` copies the environment; cells are shared through their locations.  Two readings of condition
   variables: `strict` (as `World.strictCond := true` of `GL/Sem.lean`: `condWait` releases the lock and parks
   under the thread's id — here the thread id names the waiter and "woken" is represented as "no longer in
   the waiting list" —; Signal removes one waiter, Broadcast all) and `perennial` (`condWait` = release;
   acquire — it may always wake up; Signal and Broadcast do nothing).

Core Lean only (+ `Std.HashSet` for the driver's memoised explorer), executable; the line protocols `conc`,
`concx`, `concxa`, `conct`, `conctp` of the driver are at the end.
-/
import Std.Data.HashSet
import GooseVerif.Model.Core

namespace GooseVerif.Model.Conc
open GooseVerif.Model.Core (W BinOp CmpOp Exp Cond look hexStr dashes)

deriving instance DecidableEq for GooseVerif.Model.Core.Exp
deriving instance DecidableEq for GooseVerif.Model.Core.Cond
deriving instance Hashable for GooseVerif.Model.Core.BinOp
deriving instance Hashable for GooseVerif.Model.Core.CmpOp
deriving instance Hashable for GooseVerif.Model.Core.Exp
deriving instance Hashable for GooseVerif.Model.Core.Cond

/-! ## Source: ConcGo -/

mutual
inductive Stmt where
  | newMutex (m : String)                      -- m := new(sync.Mutex)
  | newWg (w : String)                         -- w := new(sync.WaitGroup)
  | newCond (c m : String)                     -- c := sync.NewCond(m)
  | declare (x : String) (e : Exp)             -- var x uint64 = e
  | define (y : String) (e : Exp)              -- y := e
  | assign (x : String) (e : Exp)              -- x = e
  | lock (m : String)                          -- m.Lock()
  | unlock (m : String)                        -- m.Unlock()
  | wgAdd (w : String) (n : W)                 -- w.Add(n)
  | wgDone (w : String)                        -- w.Done()
  | wgWait (w : String)                        -- w.Wait()
  | condWait (c : String)                      -- c.Wait()
  | condSignal (c : String)                    -- c.Signal()
  | condBroadcast (c : String)                 -- c.Broadcast()
  | go (body : Stmts)                          -- go func() { body }()
  | ite (c : Cond) (thn els : Stmts)           -- if c { thn } else { els }
  | loop (c : Cond) (body : Stmts)             -- for c { body }
  /-- `go f()` — not a function literal: goose rejects it. -/
  | goCall (f : String)
  /-- `defer m.Unlock()`: goose rejects it. -/
  | deferUnlock (m : String)
  /-- a bare `return` (legal Go inside a goroutine's function literal): goose rejects it. -/
  | retVoid
  deriving DecidableEq, Hashable, Repr
inductive Stmts where
  | nil
  | cons (s : Stmt) (rest : Stmts)
  deriving DecidableEq, Hashable, Repr
end

instance : Inhabited Stmts := ⟨.nil⟩
instance : Inhabited Stmt := ⟨.retVoid⟩

/-- A closed function `func cK() uint64 { body; return result }`. -/
structure Prog where
  body : Stmts
  result : Exp
  deriving DecidableEq, Repr

def Stmts.isNil : Stmts → Bool
  | .nil => true
  | .cons _ _ => false

def Stmts.ofList : List Stmt → Stmts
  | [] => .nil
  | s :: r => .cons s (Stmts.ofList r)

/-! ## The shared heap -/

inductive Obj where
  | cell (w : W)
  | mutex (held : Bool)
  | wg (n : Nat)
  /-- a condition variable on the mutex at `mu`; `waiters`: ids of the parked threads, in order of arrival -/
  | cond (mu : Nat) (waiters : List Nat)
  deriving DecidableEq, Hashable, Repr, Inhabited

abbrev Heap := List Obj

/-- Result of one step of one thread. -/
inductive Res (α : Type) where
  /-- new heap, new state of the thread, a spawned thread -/
  | ok (h : Heap) (t : α) (sp : Option α)
  /-- not enabled: waiting for a lock / a counter / a signal, or finished -/
  | blocked
  /-- no rule applies: Go's fatal errors and panics; a GooseLang term with no reduction -/
  | stuck
  deriving Repr

/-! ## Go semantics -/

/-- What a name is bound to at run time. -/
inductive Bnd where
  | val (w : W)         -- `y := e`
  | cell (a : Nat)      -- `var x uint64 = e`: the address of the cell
  | mutex (a : Nat)
  | wg (a : Nat)
  | cond (a : Nat)
  deriving DecidableEq, Hashable, Repr, Inhabited

abbrev Env := List (String × Bnd)

def evalE (env : Env) (h : Heap) : Exp → Option W
  | .lit n => some n
  | .var x => match look x env with
    | some (.val w) => some w
    | some (.cell a) => match h[a]? with
      | some (.cell w) => some w
      | _ => none
    | _ => none
  | .bin op a b => match evalE env h a, evalE env h b with
    | some m, some n => some (op.eval m n)
    | _, _ => none

/-- Go's `&&` and `||` short-circuit. -/
def evalC (env : Env) (h : Heap) : Cond → Option Bool
  | .cmp c a b => match evalE env h a, evalE env h b with
    | some m, some n => some (c.eval m n)
    | _, _ => none
  | .and p q => match evalC env h p with
    | some true => evalC env h q
    | some false => some false
    | none => none
  | .or p q => match evalC env h p with
    | some true => some true
    | some false => evalC env h q
    | none => none
  | .not p => match evalC env h p with
    | some b => some (!b)
    | none => none
  | .tt => some true
  | .ff => some false

/-- What remains to be done when the current block ends. -/
inductive Frame where
  /-- the block was a branch of an `if`; `rest` follows the `if`, in the environment `env` -/
  | seqF (rest : Stmts) (env : Env)
  /-- the block is the body of `for c { body }`, which is followed by `rest` -/
  | loopF (c : Cond) (body rest : Stmts) (env : Env)
  deriving DecidableEq, Hashable, Repr

inductive Status where
  | run
  /-- parked on the condition variable at `c` (whose mutex is at `l`): step (2) of `Wait` is pending -/
  | parked (c l : Nat)
  /-- woken up: step (3) of `Wait`, re-acquiring the mutex at `l`, is pending -/
  | relock (l : Nat)
  /-- the main thread has returned `v` -/
  | done (v : W)
  deriving DecidableEq, Hashable, Repr

structure Thread where
  st : Status
  /-- the rest of the current block -/
  cur : Stmts
  env : Env
  k : List Frame
  /-- `some e` for the main thread (`return e` follows its body), `none` for a goroutine -/
  ret : Option Exp
  deriving DecidableEq, Hashable, Repr

/-- Leave finished blocks: the state of a thread is always "in front of a statement" or finished. -/
def unwind (cur : Stmts) (env : Env) : List Frame → Stmts × Env × List Frame
  | [] => (cur, env, [])
  | f :: k =>
    match cur with
    | .cons _ _ => (cur, env, f :: k)
    | .nil =>
      match f with
      | .seqF rest env' => unwind rest env' k
      | .loopF c body rest env' => (.cons (.loop c body) rest, env', k)

/-- Continue with `rest` in the environment `env'` under the frames `k`. -/
def Thread.goto (t : Thread) (rest : Stmts) (env' : Env) (k : List Frame) : Thread :=
  { st := t.st, cur := (unwind rest env' k).1, env := (unwind rest env' k).2.1, k := (unwind rest env' k).2.2, ret := t.ret }

/-- The statement is done: continue with the rest of the block. -/
def Thread.next (t : Thread) (rest : Stmts) (env' : Env) : Thread := t.goto rest env' t.k

/-- Remove the `j`-th waiter. -/
def removeAt (ws : List Nat) (j : Nat) : List Nat := ws.take j ++ ws.drop (j + 1)

/-- One statement of a running thread `i`; `ch`: the label's choice. -/
def gstepStmt (h : Heap) (i ch : Nat) (t : Thread) (rest : Stmts) : Stmt → Res Thread
  | .newMutex m => .ok (h ++ [.mutex false]) (t.next rest ((m, .mutex h.length) :: t.env)) none
  | .newWg w => .ok (h ++ [.wg 0]) (t.next rest ((w, .wg h.length) :: t.env)) none
  | .newCond c m =>
    match look m t.env with
    | some (.mutex a) => .ok (h ++ [.cond a []]) (t.next rest ((c, .cond h.length) :: t.env)) none
    | _ => .stuck
  | .declare x e =>
    match evalE t.env h e with
    | some w => .ok (h ++ [.cell w]) (t.next rest ((x, .cell h.length) :: t.env)) none
    | none => .stuck
  | .define y e =>
    match evalE t.env h e with
    | some w => .ok h (t.next rest ((y, .val w) :: t.env)) none
    | none => .stuck
  | .assign x e =>
    match evalE t.env h e with
    | some w =>
      match look x t.env with
      | some (.cell a) =>
        match h[a]? with
        | some (.cell _) => .ok (h.set a (.cell w)) (t.next rest t.env) none
        | _ => .stuck
      | _ => .stuck
    | none => .stuck
  | .lock m =>
    match look m t.env with
    | some (.mutex a) =>
      match h[a]? with
      | some (.mutex false) => .ok (h.set a (.mutex true)) (t.next rest t.env) none
      | some (.mutex true) => .blocked
      | _ => .stuck
    | _ => .stuck
  | .unlock m =>
    match look m t.env with
    | some (.mutex a) =>
      match h[a]? with
      | some (.mutex true) => .ok (h.set a (.mutex false)) (t.next rest t.env) none
      | _ => .stuck                                   -- fatal error: sync: unlock of unlocked mutex
    | _ => .stuck
  | .wgAdd w n =>
    match look w t.env with
    | some (.wg a) =>
      match h[a]? with
      | some (.wg c) => .ok (h.set a (.wg (c + n.toNat))) (t.next rest t.env) none
      | _ => .stuck
    | _ => .stuck
  | .wgDone w =>
    match look w t.env with
    | some (.wg a) =>
      match h[a]? with
      | some (.wg (c + 1)) => .ok (h.set a (.wg c)) (t.next rest t.env) none
      | _ => .stuck                                   -- panic: sync: negative WaitGroup counter
    | _ => .stuck
  | .wgWait w =>
    match look w t.env with
    | some (.wg a) =>
      match h[a]? with
      | some (.wg 0) => .ok h (t.next rest t.env) none
      | some (.wg _) => .blocked
      | _ => .stuck
    | _ => .stuck
  | .condWait c =>
    match look c t.env with
    | some (.cond ca) =>
      match h[ca]? with
      | some (.cond l ws) =>
        match h[l]? with
        | some (.mutex true) =>
          .ok ((h.set l (.mutex false)).set ca (.cond l (ws ++ [i]))) { t.next rest t.env with st := .parked ca l } none
        | _ => .stuck                                 -- fatal error: sync: unlock of unlocked mutex
      | _ => .stuck
    | _ => .stuck
  | .condSignal c =>
    match look c t.env with
    | some (.cond ca) =>
      match h[ca]? with
      | some (.cond l ws) =>
        if ws.isEmpty then .ok h (t.next rest t.env) none
        else if ch < ws.length then .ok (h.set ca (.cond l (removeAt ws ch))) (t.next rest t.env) none
        else .blocked                                 -- there is no such waiter: the label is not enabled
      | _ => .stuck
    | _ => .stuck
  | .condBroadcast c =>
    match look c t.env with
    | some (.cond ca) =>
      match h[ca]? with
      | some (.cond l _) => .ok (h.set ca (.cond l [])) (t.next rest t.env) none
      | _ => .stuck
    | _ => .stuck
  | .go body =>
    .ok h (t.next rest t.env) (some { st := .run, cur := body, env := t.env, k := [], ret := none })
  | .ite c thn els =>
    match evalC t.env h c with
    | some true => .ok h (t.goto thn t.env (.seqF rest t.env :: t.k)) none
    | some false => .ok h (t.goto els t.env (.seqF rest t.env :: t.k)) none
    | none => .stuck
  | .loop c body =>
    match evalC t.env h c with
    | some true => .ok h (t.goto body t.env (.loopF c body rest t.env :: t.k)) none
    | some false => .ok h (t.next rest t.env) none
    | none => .stuck
  | .goCall _ => .stuck                               -- outside the modelled fragment (rejected by `tr`)
  | .deferUnlock _ => .stuck
  | .retVoid => .stuck

/-- One step of thread `i`. -/
def gstep (h : Heap) (i ch : Nat) (t : Thread) : Res Thread :=
  match t.st with
  | .done _ => .blocked
  | .parked c l =>
    match h[c]? with
    | some (.cond _ ws) => if ws.contains i then .blocked else .ok h { t with st := .relock l } none
    | _ => .stuck
  | .relock l =>
    match h[l]? with
    | some (.mutex false) => .ok (h.set l (.mutex true)) { t with st := .run } none
    | some (.mutex true) => .blocked
    | _ => .stuck
  | .run =>
    match t.cur with
    | .cons s rest => gstepStmt h i ch t rest s
    | .nil =>
      match t.ret with
      | some e =>
        match evalE t.env h e with
        | some v => .ok h { t with st := .done v } none
        | none => .stuck
      | none => .blocked                              -- a finished goroutine

def Thread.doneV (t : Thread) : Option W :=
  match t.st with
  | .done v => some v
  | _ => none

/-! ## Thread pools (both sides) -/

structure Cfg (α : Type) where
  heap : Heap
  threads : List α
  deriving Repr

instance {α : Type} [DecidableEq α] : DecidableEq (Cfg α) := fun a b =>
  match a, b with
  | ⟨h1, t1⟩, ⟨h2, t2⟩ =>
    if hh : h1 = h2 then
      if ht : t1 = t2 then isTrue (by rw [hh, ht])
      else isFalse (fun e => ht (by cases e; rfl))
    else isFalse (fun e => hh (by cases e; rfl))

instance {α : Type} [Hashable α] : Hashable (Cfg α) := ⟨fun c => mixHash (hash c.heap) (hash c.threads)⟩

/-- Result of one step of the pool. -/
inductive PRes (α : Type) where
  | ok (c : Cfg α)
  | blocked
  | stuck
  deriving Repr

abbrev Label := Nat × Nat

/-- The value the main thread (index 0) has returned, if it has. -/
def mainDone {α : Type} (doneV : α → Option W) (c : Cfg α) : Option W :=
  match c.threads[0]? with
  | some t => doneV t
  | none => none

/-- One step of the pool: thread `lab.1` moves with choice `lab.2`.  Once the main thread has returned
the program has exited: nothing is enabled. -/
def poolStep {α : Type} (stepT : Heap → Nat → Nat → α → Res α) (doneV : α → Option W) (c : Cfg α) (lab : Label) : PRes α :=
  match mainDone doneV c with
  | some _ => .blocked
  | none =>
    match c.threads[lab.1]? with
    | none => .blocked
    | some t =>
      match stepT c.heap lab.1 lab.2 t with
      | .ok h t' sp =>
        .ok { heap := h, threads := (c.threads.set lab.1 t') ++ sp.toList }
      | .blocked => .blocked
      | .stuck => .stuck

/-- Run a schedule: every label must be enabled. -/
def poolRun {α : Type} (stepT : Heap → Nat → Nat → α → Res α) (doneV : α → Option W) : Cfg α → List Label → Option (Cfg α)
  | c, [] => some c
  | c, lab :: rest =>
    match poolStep stepT doneV c lab with
    | .ok c' => poolRun stepT doneV c' rest
    | _ => none

abbrev GCfg := Cfg Thread

def gcstep (c : GCfg) (lab : Label) : PRes Thread := poolStep gstep Thread.doneV c lab
def grun (c : GCfg) (sched : List Label) : Option GCfg := poolRun gstep Thread.doneV c sched

/-- The initial configuration of a program: the main thread in front of its body, the empty heap. -/
def ginit (p : Prog) : GCfg :=
  { heap := [], threads := [{ st := .run, cur := p.body, env := [], k := [], ret := some p.result }] }

/-! ## Target: the GooseLang fragment -/

/-- Pure expressions (they read the heap, nothing else). -/
inductive TE where
  | lit (n : W)                              -- #n
  | litB (b : Bool)                          -- #true / #false
  | var (x : String)                         -- "x"
  | load (x : String)                        -- ![uint64T] "x"
  | bin (op : BinOp) (a b : TE)
  | cmp (c : CmpOp) (a b : TE)
  | and (a b : TE)
  | or (a b : TE)
  | not (a : TE)
  deriving DecidableEq, Hashable, Repr, Inhabited

/-- The library calls with one variable as argument. -/
inductive Prim where
  | newCond | acquire | release | wgDone | wgWait | condWait | condSignal | condBroadcast
  deriving DecidableEq, Hashable, Repr, Inhabited

inductive T where
  | pure (e : TE)
  | unit                                     -- #()
  | skip                                     -- Skip
  | cont                                     -- Continue
  | letE (x : String) (a b : T)              -- let: "x" := a in b
  | seq (a b : T)                            -- a;; b
  | ite (c : TE) (a b : T)                   -- (if: c then a else b)
  | forLoop (c : TE) (p b : T)               -- (for: (λ: <>, c); (λ: <>, p) := λ: <>, b)
  | refTo (e : TE)                           -- ref_to uint64T e
  | store (x : String) (e : TE)              -- "x" <-[uint64T] e
  | newLock                                  -- lock.new #()
  | newWg                                    -- waitgroup.New #()
  | prim (p : Prim) (x : String)             -- lock.acquire "x", lock.newCond "x", waitgroup.Done "x", …
  | wgAdd (x : String) (n : W)               -- waitgroup.Add "x" #n
  | fork (b : T)                             -- Fork (b)
  deriving DecidableEq, Hashable, Repr, Inhabited

inductive Val where
  | num (n : W)
  | bool (b : Bool)                          -- `Continue` is `#true`, `Break` is `#false`
  | unit
  | loc (a : Nat)
  deriving DecidableEq, Hashable, Repr, Inhabited

abbrev TEnv := List (String × Val)

def evalTE (ρ : TEnv) (h : Heap) : TE → Option Val
  | .lit n => some (.num n)
  | .litB b => some (.bool b)
  | .var x => look x ρ
  | .load x => match look x ρ with
    | some (.loc a) => match h[a]? with
      | some (.cell w) => some (.num w)
      | _ => none
    | _ => none
  | .bin op a b => match evalTE ρ h a, evalTE ρ h b with
    | some (.num m), some (.num n) => some (.num (op.eval m n))
    | _, _ => none
  | .cmp c a b => match evalTE ρ h a, evalTE ρ h b with
    | some (.num m), some (.num n) => some (.bool (c.eval m n))
    | _, _ => none
  | .and a b => match evalTE ρ h a with
    | some (.bool true) => evalTE ρ h b
    | some (.bool false) => some (.bool false)
    | _ => none
  | .or a b => match evalTE ρ h a with
    | some (.bool true) => some (.bool true)
    | some (.bool false) => evalTE ρ h b
    | _ => none
  | .not a => match evalTE ρ h a with
    | some (.bool b) => some (.bool (!b))
    | _ => none

inductive TFrame where
  | letK (x : String) (b : T) (ρ : TEnv)
  | seqK (b : T) (ρ : TEnv)
  | forBodyK (c : TE) (p b : T) (ρ : TEnv)       -- the body is running
  | forPostK (c : TE) (p b : T) (ρ : TEnv)       -- the post expression is running
  | wakeK (c : Nat)                              -- strict reading: parked on the condition variable at `c`
  | acquireK (l : Nat)                           -- second half of condWait: re-acquire the lock at `l`
  deriving DecidableEq, Hashable, Repr

inductive Ctl where
  | eval (e : T) (ρ : TEnv)
  | ret (v : Val)
  deriving DecidableEq, Hashable, Repr

structure TThread where
  ctl : Ctl
  k : List TFrame
  deriving DecidableEq, Hashable, Repr

/-- Administrative steps: they do not look at the heap (or at anything but the thread itself). -/
def astep (t : TThread) : Option TThread :=
  match t.ctl with
  | .eval .unit _ => some ⟨.ret .unit, t.k⟩
  | .eval .skip _ => some ⟨.ret .unit, t.k⟩
  | .eval .cont _ => some ⟨.ret (.bool true), t.k⟩
  | .eval (.letE x a b) ρ => some ⟨.eval a ρ, .letK x b ρ :: t.k⟩
  | .eval (.seq a b) ρ => some ⟨.eval a ρ, .seqK b ρ :: t.k⟩
  | .eval _ _ => none
  | .ret v =>
    match t.k with
    | .letK x b ρ :: k => some ⟨.eval b ((x, v) :: ρ), k⟩
    | .seqK b ρ :: k => some ⟨.eval b ρ, k⟩
    | .forBodyK c p b ρ :: k =>
      match v with
      | .bool true => some ⟨.eval p ρ, .forPostK c p b ρ :: k⟩
      | .bool false => some ⟨.ret .unit, k⟩
      | _ => none
    | .forPostK c p b ρ :: k => some ⟨.eval (.forLoop c p b) ρ, k⟩
    | _ => none

/-- The two readings of condition variables. -/
inductive Mode where
  | strict | perennial
  deriving DecidableEq, Repr

/-- The library calls. -/
def primStep (mode : Mode) (h : Heap) (i ch : Nat) (k : List TFrame) (a : Nat) : Prim → Res TThread
  | .newCond => .ok (h ++ [.cond a []]) ⟨.ret (.loc h.length), k⟩ none
  | .acquire =>
    match h[a]? with
    | some (.mutex false) => .ok (h.set a (.mutex true)) ⟨.ret .unit, k⟩ none
    | some (.mutex true) => .blocked
    | _ => .stuck
  | .release =>
    match h[a]? with
    | some (.mutex true) => .ok (h.set a (.mutex false)) ⟨.ret .unit, k⟩ none
    | _ => .stuck
  | .wgDone =>
    match h[a]? with
    | some (.wg (c + 1)) => .ok (h.set a (.wg c)) ⟨.ret .unit, k⟩ none
    | _ => .stuck
  | .wgWait =>
    match h[a]? with
    | some (.wg 0) => .ok h ⟨.ret .unit, k⟩ none
    | some (.wg _) => .blocked
    | _ => .stuck
  | .condWait =>
    match h[a]? with
    | some (.cond l ws) =>
      match h[l]? with
      | some (.mutex true) =>
        match mode with
        | .strict => .ok ((h.set l (.mutex false)).set a (.cond l (ws ++ [i]))) ⟨.ret .unit, .wakeK a :: .acquireK l :: k⟩ none
        | .perennial => .ok (h.set l (.mutex false)) ⟨.ret .unit, .acquireK l :: k⟩ none
      | _ => .stuck
    | _ => .stuck
  | .condSignal =>
    match h[a]? with
    | some (.cond l ws) =>
      match mode with
      | .strict =>
        if ws.isEmpty then .ok h ⟨.ret .unit, k⟩ none
        else if ch < ws.length then .ok (h.set a (.cond l (removeAt ws ch))) ⟨.ret .unit, k⟩ none
        else .blocked
      | .perennial => .ok h ⟨.ret .unit, k⟩ none
    | _ => .stuck
  | .condBroadcast =>
    match h[a]? with
    | some (.cond l _) =>
      match mode with
      | .strict => .ok (h.set a (.cond l [])) ⟨.ret .unit, k⟩ none
      | .perennial => .ok h ⟨.ret .unit, k⟩ none
    | _ => .stuck

/-- Effect steps: everything that reads or writes the heap, forks, or may block. -/
def estep (mode : Mode) (h : Heap) (i ch : Nat) (t : TThread) : Res TThread :=
  match t.ctl with
  | .eval (.pure e) ρ =>
    match evalTE ρ h e with
    | some v => .ok h ⟨.ret v, t.k⟩ none
    | none => .stuck
  | .eval (.ite c a b) ρ =>
    match evalTE ρ h c with
    | some (.bool true) => .ok h ⟨.eval a ρ, t.k⟩ none
    | some (.bool false) => .ok h ⟨.eval b ρ, t.k⟩ none
    | _ => .stuck
  | .eval (.forLoop c p b) ρ =>
    match evalTE ρ h c with
    | some (.bool true) => .ok h ⟨.eval b ρ, .forBodyK c p b ρ :: t.k⟩ none
    | some (.bool false) => .ok h ⟨.ret .unit, t.k⟩ none
    | _ => .stuck
  | .eval (.refTo e) ρ =>
    match evalTE ρ h e with
    | some (.num w) => .ok (h ++ [.cell w]) ⟨.ret (.loc h.length), t.k⟩ none
    | _ => .stuck
  | .eval (.store x e) ρ =>
    match evalTE ρ h e with
    | some (.num w) =>
      match look x ρ with
      | some (.loc a) =>
        match h[a]? with
        | some (.cell _) => .ok (h.set a (.cell w)) ⟨.ret .unit, t.k⟩ none
        | _ => .stuck
      | _ => .stuck
    | _ => .stuck
  | .eval .newLock _ => .ok (h ++ [.mutex false]) ⟨.ret (.loc h.length), t.k⟩ none
  | .eval .newWg _ => .ok (h ++ [.wg 0]) ⟨.ret (.loc h.length), t.k⟩ none
  | .eval (.prim p x) ρ =>
    match look x ρ with
    | some (.loc a) => primStep mode h i ch t.k a p
    | _ => .stuck
  | .eval (.wgAdd x n) ρ =>
    match look x ρ with
    | some (.loc a) =>
      match h[a]? with
      | some (.wg c) => .ok (h.set a (.wg (c + n.toNat))) ⟨.ret .unit, t.k⟩ none
      | _ => .stuck
    | _ => .stuck
  | .eval (.fork b) ρ => .ok h ⟨.ret .unit, t.k⟩ (some ⟨.eval b ρ, []⟩)
  | .eval _ _ => .stuck                             -- administrative forms: not reached (see `tstep`)
  | .ret v =>
    match t.k with
    | [] => .blocked                                -- finished
    | .wakeK c :: k =>
      match h[c]? with
      | some (.cond _ ws) => if ws.contains i then .blocked else .ok h ⟨.ret v, k⟩ none
      | _ => .stuck
    | .acquireK l :: k =>
      match h[l]? with
      | some (.mutex false) => .ok (h.set l (.mutex true)) ⟨.ret .unit, k⟩ none
      | some (.mutex true) => .blocked
      | _ => .stuck
    | _ => .stuck                                   -- a loop body whose value is neither Continue nor Break

/-- One step of a GooseLang thread. -/
def tstep (mode : Mode) (h : Heap) (i ch : Nat) (t : TThread) : Res TThread :=
  match astep t with
  | some t' => .ok h t' none
  | none => estep mode h i ch t

def TThread.doneV (t : TThread) : Option W :=
  match t.ctl, t.k with
  | .ret (.num v), [] => some v
  | _, _ => none

abbrev TCfg := Cfg TThread

def tcstep (mode : Mode) (c : TCfg) (lab : Label) : PRes TThread := poolStep (tstep mode) TThread.doneV c lab
def trun (mode : Mode) (c : TCfg) (sched : List Label) : Option TCfg := poolRun (tstep mode) TThread.doneV c sched

/-- The initial configuration of an emitted function body: the main thread evaluates it in the empty
environment, on the empty heap. -/
def tinit (t : T) : TCfg := { heap := [], threads := [⟨.eval t [], []⟩] }

/-! ## The translator -/

/-- What a name is, statically (the type checker's resolution together with `isPtrWrapped`). -/
inductive Kind where
  | val | cell | mutex | wg | cond
  deriving DecidableEq, Repr

abbrev SEnv := List (String × Kind)

/-- `ExprValUsage`: what happens to the value of the generated expression; `returned e`: the list is the
function body, which is followed by `return e`. -/
inductive Usage where
  | local
  | loop
  | returned (e : Exp)
  deriving DecidableEq, Repr

def Usage.isLocal : Usage → Bool
  | .local => true
  | _ => false

def Usage.isLoop : Usage → Bool
  | .loop => true
  | _ => false

def kindName : Kind → String
  | .val => "uint64" | .cell => "uint64" | .mutex => "*sync.Mutex" | .wg => "*sync.WaitGroup" | .cond => "*sync.Cond"

/-- The Go type checker's complaint (such a program does not compile; goose never sees it). -/
def typeError (x : String) (k : Kind) (want : String) : String :=
  "go type error: " ++ x ++ " is " ++ kindName k ++ ", not " ++ want

def trE (Γ : SEnv) : Exp → Except String TE
  | .lit n => .ok (.lit n)
  | .var x => match look x Γ with
    | some .cell => .ok (.load x)
    | some .val => .ok (.var x)
    | some k => .error (typeError x k "uint64")
    | none => .error ("undeclared name " ++ x)
  | .bin op a b => match trE Γ a with
    | .error m => .error m
    | .ok ta => match trE Γ b with
      | .error m => .error m
      | .ok tb => .ok (.bin op ta tb)

def trC (Γ : SEnv) : Cond → Except String TE
  | .cmp c a b => match trE Γ a with
    | .error m => .error m
    | .ok ta => match trE Γ b with
      | .error m => .error m
      | .ok tb => .ok (.cmp c ta tb)
  | .and p q => match trC Γ p with
    | .error m => .error m
    | .ok tp => match trC Γ q with
      | .error m => .error m
      | .ok tq => .ok (.and tp tq)
  | .or p q => match trC Γ p with
    | .error m => .error m
    | .ok tp => match trC Γ q with
      | .error m => .error m
      | .ok tq => .ok (.or tp tq)
  | .not p => match trC Γ p with
    | .error m => .error m
    | .ok tp => .ok (.not tp)
  | .tt => .ok (.litB true)
  | .ff => .ok (.litB false)

/-- `coq.Binding`: what one statement contributes to the enclosing `BlockExpr`. -/
inductive Bind where
  /-- `let: "x" := e in …` -/
  | named (x : String) (k : Kind) (e : T)
  /-- `e;; …` -/
  | anon (e : T)
  /-- a `ForLoopExpr` without init: printed `Skip;; (for: …)` -/
  | loopB (l : T)
  deriving Repr, Inhabited

/-- The static environment of the statements after the binding. -/
def Bind.scope : Bind → SEnv → SEnv
  | .named x k _, Γ => (x, k) :: Γ
  | _, Γ => Γ

/-- `Binding.AddTo` / `BlockExpr.Coq`: the binding in front of the rest of the block; the LAST binding of
a block (`none`) is printed as its expression only. -/
def Bind.addTo : Bind → Option T → T
  | .named _ _ e, none => e
  | .named x _ e, some r => .letE x e r
  | .anon e, none => e
  | .anon e, some r => .seq e r
  | .loopB l, none => .seq .skip l
  | .loopB l, some r => .seq .skip (.seq l r)

/-- Uses of a name that must have a given kind (Go's type checker). -/
def expectKind (Γ : SEnv) (x : String) (k : Kind) (ok : T) : Except String T :=
  match look x Γ with
  | some k' => if k' = k then .ok ok else .error (typeError x k' (kindName k))
  | none => .error ("undeclared name " ++ x)

/-- The binding appended by `stmts` when the last statement did not finalize the usage; also the
translation of the empty list. -/
def fin (Γ : SEnv) : Usage → Except String T
  | .local => .ok .unit
  | .loop => .ok .cont
  | .returned e => match trE Γ e with
    | .error m => .error m
    | .ok t => .ok (.pure t)

mutual
/-- `stmts`.  The rest of the block is printed after the statement's binding — except when the statement
is the last one of a block whose value is not used (`local`): then its expression ends the block. An `if`
that is the last statement of a loop body hands the usage down to its branches (they end in `Continue`). -/
def trStmts (Γ : SEnv) : Stmts → Usage → Except String T
  | .nil, u => fin Γ u
  | .cons s rest, u =>
    match s with
    | .ite c thn els =>
      match trC Γ c with
      | .error e => .error e
      | .ok tc =>
        match trStmts Γ thn (if rest.isNil && u.isLoop then .loop else .local) with
        | .error e => .error e
        | .ok a =>
          match trStmts Γ els (if rest.isNil && u.isLoop then .loop else .local) with
          | .error e => .error e
          | .ok b =>
            if rest.isNil && (u.isLocal || u.isLoop) then .ok (.ite tc a b)
            else
              match trStmts Γ rest u with
              | .error e => .error e
              | .ok r => .ok (.seq (.ite tc a b) r)
    | s =>
      match trBind Γ s with
      | .error e => .error e
      | .ok b =>
        if rest.isNil && u.isLocal then .ok (b.addTo none)
        else
          match trStmts (b.scope Γ) rest u with
          | .error e => .error e
          | .ok r => .ok (b.addTo (some r))
/-- `stmtInBlock` for everything but `if`. -/
def trBind (Γ : SEnv) : Stmt → Except String Bind
  | .newMutex m => .ok (.named m .mutex .newLock)
  | .newWg w => .ok (.named w .wg .newWg)
  | .newCond c m =>
    match expectKind Γ m .mutex (.prim .newCond m) with
    | .error e => .error e
    | .ok t => .ok (.named c .cond t)
  | .declare x e =>
    match trE Γ e with
    | .error m => .error m
    | .ok t => .ok (.named x .cell (.refTo t))
  | .define y e =>
    match trE Γ e with
    | .error m => .error m
    | .ok t => .ok (.named y .val (.pure t))
  | .assign x e =>
    match trE Γ e with
    | .error m => .error m
    | .ok t =>
      match look x Γ with
      | some .cell => .ok (.anon (.store x t))
      | some .val => .error ("variable " ++ x ++ " is not assignable")
      | some k => .error (typeError x k "uint64")
      | none => .error ("undeclared name " ++ x)
  | .lock m => match expectKind Γ m .mutex (.prim .acquire m) with
    | .error e => .error e
    | .ok t => .ok (.anon t)
  | .unlock m => match expectKind Γ m .mutex (.prim .release m) with
    | .error e => .error e
    | .ok t => .ok (.anon t)
  | .wgAdd w n => match expectKind Γ w .wg (.wgAdd w n) with
    | .error e => .error e
    | .ok t => .ok (.anon t)
  | .wgDone w => match expectKind Γ w .wg (.prim .wgDone w) with
    | .error e => .error e
    | .ok t => .ok (.anon t)
  | .wgWait w => match expectKind Γ w .wg (.prim .wgWait w) with
    | .error e => .error e
    | .ok t => .ok (.anon t)
  | .condWait c => match expectKind Γ c .cond (.prim .condWait c) with
    | .error e => .error e
    | .ok t => .ok (.anon t)
  | .condSignal c => match expectKind Γ c .cond (.prim .condSignal c) with
    | .error e => .error e
    | .ok t => .ok (.anon t)
  | .condBroadcast c => match expectKind Γ c .cond (.prim .condBroadcast c) with
    | .error e => .error e
    | .ok t => .ok (.anon t)
  | .go body =>
    match trStmts Γ body .local with
    | .error e => .error e
    | .ok b => .ok (.anon (.fork b))
  | .loop c body =>
    match trC Γ c with
    | .error e => .error e
    | .ok tc =>
      match trStmts Γ body .loop with
      | .error e => .error e
      | .ok tb => .ok (.loopB (.forLoop tc .skip tb))
  | .ite _ _ _ => .error "internal: if is handled by trStmts"
  | .goCall _ => .error "only function literal spawns are supported"
  | .deferUnlock _ => .error "statement"
  | .retVoid => .error "return in unsupported position"
end

/-- goose: translate the body of `func cK() uint64 { body; return result }`. -/
def tr (p : Prog) : Except String T := trStmts [] p.body (.returned p.result)

/-! ## Exhaustive exploration (executable; fuel = number of configurations taken from the work list) -/

inductive Outcome where
  | value (v : W)
  | deadlock
  | stuck
  deriving DecidableEq, Repr

def insertOutcome (o : Outcome) (os : List Outcome) : List Outcome := if os.contains o then os else o :: os

/-- The labels worth trying in `c`: every thread, and for each the choices `0 … nch - 1`. -/
def labelsOf {α : Type} (nch : Nat) (c : Cfg α) : List Label :=
  (List.range c.threads.length).flatMap (fun i => (List.range nch).map (fun ch => (i, ch)))

/-- The successors of `c`, and whether some label is stuck. -/
def successors {α : Type} (step : Cfg α → Label → PRes α) : Cfg α → List Label → List (Cfg α) × Bool
  | _, [] => ([], false)
  | c, lab :: rest =>
    match step c lab with
    | .ok c' => ((successors step c rest).1 ++ [c'], (successors step c rest).2)
    | .blocked => successors step c rest
    | .stuck => ((successors step c rest).1, true)

structure ExpState (σ : Type) where
  seen : σ
  outs : List Outcome
  count : Nat

/-- Memoised depth-first exploration.  `mem`/`ins`: how visited configurations are remembered (the
configurations themselves, or their hashes).  Returns the outcomes, the number of configurations expanded,
and whether the fuel sufficed. -/
def exploreGo {α σ : Type} (step : Cfg α → Label → PRes α) (doneV : α → Option W) (nch : Nat)
    (mem : σ → Cfg α → Bool) (ins : σ → Cfg α → σ) :
    Nat → List (Cfg α) → ExpState σ → ExpState σ × Bool
  | 0, [], st => (st, true)
  | 0, _ :: _, st => (st, false)
  | _ + 1, [], st => (st, true)
  | f + 1, c :: work, st =>
    if mem st.seen c then exploreGo step doneV nch mem ins f work st
    else
      match mainDone doneV c with
      | some v => exploreGo step doneV nch mem ins f work { seen := ins st.seen c, outs := insertOutcome (.value v) st.outs, count := st.count + 1 }
      | none =>
        let sc := successors step c (labelsOf nch c)
        let outs := if sc.2 then insertOutcome .stuck st.outs else st.outs
        let outs := if sc.1.isEmpty && !sc.2 then insertOutcome .deadlock outs else outs
        exploreGo step doneV nch mem ins f (sc.1 ++ work) { seen := ins st.seen c, outs := outs, count := st.count + 1 }

/-- Kernel-friendly instance: visited configurations are kept in a list. -/
def exploreList {α : Type} [DecidableEq α] (step : Cfg α → Label → PRes α) (doneV : α → Option W) (nch fuel : Nat) (c : Cfg α) :
    List Outcome × Bool :=
  let r := exploreGo step doneV nch (fun (s : List (Cfg α)) c => s.contains c) (fun s c => c :: s) fuel [c] { seen := [], outs := [], count := 0 }
  (r.1.outs, r.2)

/-- Fast instance for the driver: visited configurations are remembered by their hash. -/
def exploreHash {α : Type} [Hashable α] (step : Cfg α → Label → PRes α) (doneV : α → Option W) (nch fuel : Nat) (c : Cfg α) :
    List Outcome × Nat × Bool :=
  let r := exploreGo step doneV nch (fun (s : Std.HashSet UInt64) c => s.contains (hash c)) (fun s c => s.insert (hash c)) fuel [c]
    { seen := {}, outs := [], count := 0 }
  (r.1.outs, r.1.count, r.2)

/-- The outcomes of the Go semantics over all FIFO schedules (`nch = 1`) or over all schedules with up to
`nch` choices per label. -/
def goOutcomes (nch fuel : Nat) (p : Prog) : List Outcome × Bool := exploreList gcstep Thread.doneV nch fuel (ginit p)

/-- The outcomes of the emitted term. -/
def tgtOutcomes (mode : Mode) (nch fuel : Nat) (t : T) : List Outcome × Bool :=
  exploreList (tcstep mode) TThread.doneV nch fuel (tinit t)

/-! ## Line protocols

Token syntax (space-separated tokens; expressions and conditions in the prefix syntax of `Model/Core.lean`):

  E  ::= <digits> | <name> | + E E | - E E | * E E | & E E | | E E | ^ E E | << E E | >> E E
  C  ::= < E E | <= E E | > E E | >= E E | == E E | != E E | && C C | || C C | ! C | true | false
  S  ::= newmu <m> | newwg <w> | newcond <c> <m> | var <x> E | def <y> E | set <x> E
       | lock <m> | unlock <m> | add <w> <digits> | done <w> | wait <w> | cwait <c> | signal <c> | bcast <c>
       | go [ SS ] | if C [ SS ] [ SS ] | for C [ SS ] | gocall <f> | defer <m> | retvoid
  SS ::= ε | S | S ; SS
  P  ::= ret E | S ; P

  e.g.  newmu mu ; newwg wg ; var x 0 ; add wg 1 ; go [ lock mu ; set x + x 1 ; unlock mu ; done wg ] ; wait wg ; ret x

`conc`   : the translation of the body in the canonical rendering of `GooseVerif.GL.Expr.canon`, or
           `error <message-with-dashes>`, or `error parse`.
`concx`  : `outcomes <o> …` — the outcomes of the Go semantics over ALL FIFO schedules (Signal wakes the longest
           waiting goroutine), sorted: `value:<n>`, `deadlock`, `stuck`; `truncated` if the fuel did not suffice.
`concxa` : the same over all schedules in which Signal may wake ANY parked waiter (up to 3 waiters).
`conct`  : the outcomes of the model's TARGET semantics (strict reading) on the model's translation.
`conctp` : the same in Perennial's reading of condition variables.
-/

def kwds : List String :=
  ["newmu", "newwg", "newcond", "var", "def", "set", "lock", "unlock", "add", "done", "wait", "cwait", "signal", "bcast",
   "go", "if", "for", "gocall", "defer", "retvoid", "ret", "[", "]", ";"]

def isName (s : String) : Bool := !(Core.reserved.contains s) && !(kwds.contains s) && !(Core.isNumTok s) && !s.isEmpty

mutual
def parseS : Nat → List String → Option (Stmt × List String)
  | 0, _ => none
  | _ + 1, "newmu" :: m :: r => if isName m then some (.newMutex m, r) else none
  | _ + 1, "newwg" :: w :: r => if isName w then some (.newWg w, r) else none
  | _ + 1, "newcond" :: c :: m :: r => if isName c && isName m then some (.newCond c m, r) else none
  | f + 1, "var" :: x :: r => match Core.parseE f r with
    | some (e, r1) => if isName x then some (.declare x e, r1) else none
    | none => none
  | f + 1, "def" :: x :: r => match Core.parseE f r with
    | some (e, r1) => if isName x then some (.define x e, r1) else none
    | none => none
  | f + 1, "set" :: x :: r => match Core.parseE f r with
    | some (e, r1) => if isName x then some (.assign x e, r1) else none
    | none => none
  | _ + 1, "lock" :: m :: r => if isName m then some (.lock m, r) else none
  | _ + 1, "unlock" :: m :: r => if isName m then some (.unlock m, r) else none
  | _ + 1, "add" :: w :: n :: r => if isName w && Core.isNumTok n then some (.wgAdd w (BitVec.ofNat 64 n.toNat!), r) else none
  | _ + 1, "done" :: w :: r => if isName w then some (.wgDone w, r) else none
  | _ + 1, "wait" :: w :: r => if isName w then some (.wgWait w, r) else none
  | _ + 1, "cwait" :: c :: r => if isName c then some (.condWait c, r) else none
  | _ + 1, "signal" :: c :: r => if isName c then some (.condSignal c, r) else none
  | _ + 1, "bcast" :: c :: r => if isName c then some (.condBroadcast c, r) else none
  | _ + 1, "gocall" :: g :: r => if isName g then some (.goCall g, r) else none
  | _ + 1, "defer" :: m :: r => if isName m then some (.deferUnlock m, r) else none
  | _ + 1, "retvoid" :: r => some (.retVoid, r)
  | f + 1, "go" :: "[" :: r => match parseSS f r with
    | some (b, "]" :: r1) => some (.go b, r1)
    | _ => none
  | f + 1, "if" :: r => match Core.parseC f r with
    | some (c, "[" :: r1) => match parseSS f r1 with
      | some (t, "]" :: "[" :: r2) => match parseSS f r2 with
        | some (e, "]" :: r3) => some (.ite c t e, r3)
        | _ => none
      | _ => none
    | _ => none
  | f + 1, "for" :: r => match Core.parseC f r with
    | some (c, "[" :: r1) => match parseSS f r1 with
      | some (b, "]" :: r2) => some (.loop c b, r2)
      | _ => none
    | _ => none
  | _ + 1, _ => none
def parseSS : Nat → List String → Option (Stmts × List String)
  | 0, _ => none
  | _ + 1, [] => some (.nil, [])
  | _ + 1, "]" :: r => some (.nil, "]" :: r)
  | _ + 1, "ret" :: r => some (.nil, "ret" :: r)
  | f + 1, toks => match parseS f toks with
    | some (s, ";" :: r1) => match parseSS f r1 with
      | some (ss, r2) => some (.cons s ss, r2)
      | none => none
    | some (s, r1) => some (.cons s .nil, r1)
    | none => none
end

def parse (toks : List String) : Option Prog :=
  match parseSS (toks.length + 1) toks with
  | some (ss, "ret" :: r) =>
    match Core.parseE (toks.length + 1) r with
    | some (e, []) => some { body := ss, result := e }
    | _ => none
  | _ => none

def TE.canon : TE → String
  | .lit n => "(lit u64:" ++ toString n.toNat ++ ")"
  | .litB b => if b then "(lit true)" else "(lit false)"
  | .var x => "(var " ++ hexStr x ++ ")"
  | .load x => "(load (g uint64T) (var " ++ hexStr x ++ "))"
  | .bin op a b => "(bin " ++ hexStr op.notation ++ " " ++ a.canon ++ " " ++ b.canon ++ ")"
  | .cmp c a b => "(bin " ++ hexStr c.notation ++ " " ++ a.canon ++ " " ++ b.canon ++ ")"
  | .and a b => "(bin " ++ hexStr "&&" ++ " " ++ a.canon ++ " " ++ b.canon ++ ")"
  | .or a b => "(bin " ++ hexStr "||" ++ " " ++ a.canon ++ " " ++ b.canon ++ ")"
  | .not a => "(not " ++ a.canon ++ ")"

def Prim.name : Prim → String
  | .newCond => "lock.newCond" | .acquire => "lock.acquire" | .release => "lock.release"
  | .wgDone => "waitgroup.Done" | .wgWait => "waitgroup.Wait" | .condWait => "lock.condWait"
  | .condSignal => "lock.condSignal" | .condBroadcast => "lock.condBroadcast"

def T.canon : T → String
  | .pure e => e.canon
  | .unit => "(lit unit)"
  | .skip => "(g Skip)"
  | .cont => "(g Continue)"
  | .letE x a b => "(let [" ++ hexStr x ++ "] " ++ a.canon ++ " " ++ b.canon ++ ")"
  | .seq a b => "(seq " ++ a.canon ++ " " ++ b.canon ++ ")"
  | .ite c a b => "(if " ++ c.canon ++ " " ++ a.canon ++ " " ++ b.canon ++ ")"
  | .forLoop c p b => "(for (lam [5f] " ++ c.canon ++ ") (lam [5f] " ++ p.canon ++ ") (lam [5f] " ++ b.canon ++ "))"
  | .refTo e => "(app (g ref_to) (g uint64T) " ++ e.canon ++ ")"
  | .store x e => "(store (var " ++ hexStr x ++ ") (g uint64T) " ++ e.canon ++ ")"
  | .newLock => "(app (g lock.new) (lit unit))"
  | .newWg => "(app (g waitgroup.New) (lit unit))"
  | .prim p x => "(app (g " ++ p.name ++ ") (var " ++ hexStr x ++ "))"
  | .wgAdd x n => "(app (g waitgroup.Add) (var " ++ hexStr x ++ ") (lit u64:" ++ toString n.toNat ++ "))"
  | .fork b => "(app (g Fork) " ++ b.canon ++ ")"

def showResult : Except String T → String
  | .ok t => t.canon
  | .error m => "error " ++ dashes m

/-- `conc` -/
def run (toks : List String) : String :=
  match parse toks with
  | some p => showResult (tr p)
  | none => "error parse"

def Outcome.show : Outcome → String
  | .value v => "value:" ++ toString v.toNat
  | .deadlock => "deadlock"
  | .stuck => "stuck"

def showOutcomes (os : List Outcome) (complete : Bool) : String :=
  let ss := (os.map Outcome.show).mergeSort (fun a b => decide (a ≤ b))
  "outcomes" ++ String.join (ss.map (fun s => " " ++ s)) ++ (if complete then "" else " truncated")

def protoFuel : Nat := 400000

/-- `concx` / `concxa` -/
def runExplore (nch : Nat) (toks : List String) : String :=
  match parse toks with
  | some p =>
    let r := exploreHash gcstep Thread.doneV nch protoFuel (ginit p)
    showOutcomes r.1 r.2.2
  | none => "error parse"

/-- `conct` / `conctp` -/
def runExploreT (mode : Mode) (toks : List String) : String :=
  match parse toks with
  | some p =>
    match tr p with
    | .error m => "error " ++ dashes m
    | .ok t =>
      let r := exploreHash (tcstep mode) TThread.doneV 1 protoFuel (tinit t)
      showOutcomes r.1 r.2.2
  | none => "error parse"

/-! ## Example programs (used by `Props/C03Conc.lean`) -/

private def ol : List Stmt → Stmts := Stmts.ofList

/-- `mu := new(sync.Mutex); wg := new(sync.WaitGroup); var total uint64 = 0; wg.Add(2)
    go func() { mu.Lock(); total = total + 5; mu.Unlock(); wg.Done() }()
    go func() { mu.Lock(); total = total + 7; mu.Unlock(); wg.Done() }()
    wg.Wait(); return total`   (template `t_counter`) -/
def exCounter : Prog := Prog.mk (ol
  [.newMutex "mu", .newWg "wg", .declare "total" (.lit 0), .wgAdd "wg" 2,
   .go (ol [.lock "mu", .assign "total" (.bin .add (.var "total") (.lit 5)), .unlock "mu", .wgDone "wg"]),
   .go (ol [.lock "mu", .assign "total" (.bin .add (.var "total") (.lit 7)), .unlock "mu", .wgDone "wg"]),
   .wgWait "wg"]) (.var "total")

/-- One worker: `… wg.Add(1); go func() { mu.Lock(); total = total + 5; mu.Unlock(); wg.Done() }(); wg.Wait(); return total` -/
def exCounter1 : Prog := Prog.mk (ol
  [.newMutex "mu", .newWg "wg", .declare "total" (.lit 0), .wgAdd "wg" 1,
   .go (ol [.lock "mu", .assign "total" (.bin .add (.var "total") (.lit 5)), .unlock "mu", .wgDone "wg"]),
   .wgWait "wg"]) (.var "total")

/-- `acc = acc*10 + k` by two workers: the result depends on the schedule (template `t_order`). -/
def exOrder : Prog := Prog.mk (ol
  [.newMutex "mu", .newWg "wg", .declare "acc" (.lit 0), .wgAdd "wg" 2,
   .go (ol [.lock "mu", .assign "acc" (.bin .add (.bin .mul (.var "acc") (.lit 10)) (.lit 1)), .unlock "mu", .wgDone "wg"]),
   .go (ol [.lock "mu", .assign "acc" (.bin .add (.bin .mul (.var "acc") (.lit 10)) (.lit 2)), .unlock "mu", .wgDone "wg"]),
   .wgWait "wg"]) (.var "acc")

/-- `mu; cv := sync.NewCond(mu); var flag uint64 = 0; var result uint64 = 0
    go func() { mu.Lock(); result = 7; flag = 1; cv.Signal(); mu.Unlock() }()
    mu.Lock(); for flag != 1 { cv.Wait() }; res := result; mu.Unlock(); return res`   (template `t_cond`) -/
def exHandoff : Prog := Prog.mk (ol
  [.newMutex "mu", .newCond "cv" "mu", .declare "flag" (.lit 0), .declare "result" (.lit 0),
   .go (ol [.lock "mu", .assign "result" (.lit 7), .assign "flag" (.lit 1), .condSignal "cv", .unlock "mu"]),
   .lock "mu", .loop (.cmp .ne (.var "flag") (.lit 1)) (ol [.condWait "cv"]), .define "res" (.var "result"), .unlock "mu"])
  (.var "res")

/-- `go func() { mu.Lock(); for open == 0 { cv.Wait() }; mu.Unlock(); wg.Done() }()` -/
def exWaiter : Stmt :=
  .go (ol [.lock "mu", .loop (.cmp .eq (.var "open") (.lit 0)) (ol [.condWait "cv"]), .unlock "mu", .wgDone "wg"])

/-- Two waiters released by ONE Broadcast (template `t_bcast`):
    `mu; cv; wg; var open uint64 = 0; wg.Add(2); <waiter>; <waiter>; mu.Lock(); open = 1; cv.Broadcast(); mu.Unlock(); wg.Wait(); return open` -/
def exTwoWaiters : Prog := Prog.mk (ol
  [.newMutex "mu", .newCond "cv" "mu", .newWg "wg", .declare "open" (.lit 0), .wgAdd "wg" 2, exWaiter, exWaiter,
   .lock "mu", .assign "open" (.lit 1), .condBroadcast "cv", .unlock "mu", .wgWait "wg"]) (.var "open")

/-- A two-way hand-off (template `t_handoff`): the goroutine waits for the parent, the parent for the goroutine. -/
def exPingPong : Prog := Prog.mk (ol
  [.newMutex "mu", .newCond "cv" "mu", .declare "stage" (.lit 0), .declare "out" (.lit 0),
   .go (ol [.lock "mu", .loop (.cmp .ne (.var "stage") (.lit 1)) (ol [.condWait "cv"]),
      .assign "out" (.lit 5), .assign "stage" (.lit 2), .condBroadcast "cv", .unlock "mu"]),
   .lock "mu", .assign "stage" (.lit 1), .condBroadcast "cv",
   .loop (.cmp .ne (.var "stage") (.lit 2)) (ol [.condWait "cv"]), .define "res" (.var "out"), .unlock "mu"]) (.var "res")

/-- `var x uint64 = 0; …; go func() { mu.Lock(); x = 1; mu.Unlock(); wg.Done() }(); wg.Wait(); return x` -/
def exCaptured : Prog := Prog.mk (ol
  [.newMutex "mu", .newWg "wg", .declare "x" (.lit 0), .wgAdd "wg" 1,
   .go (ol [.lock "mu", .assign "x" (.lit 1), .unlock "mu", .wgDone "wg"]),
   .wgWait "wg"]) (.var "x")

/-- A `Wait` that is NOT in a loop and is never signalled: `mu; cv; var x uint64 = 1; mu.Lock(); cv.Wait(); mu.Unlock(); return x` -/
def exBareWait : Prog := Prog.mk (ol
  [.newMutex "mu", .newCond "cv" "mu", .declare "x" (.lit 1), .lock "mu", .condWait "cv", .unlock "mu"]) (.var "x")

/-- A goroutine that spawns: `go func() { go func() { mu.Lock(); x = x + 2; mu.Unlock(); wg.Done() }(); mu.Lock(); x = x + 1; mu.Unlock(); wg.Done() }()` -/
def exNested : Prog := Prog.mk (ol
  [.newMutex "mu", .newWg "wg", .declare "x" (.lit 0), .wgAdd "wg" 2,
   .go (ol [.go (ol [.lock "mu", .assign "x" (.bin .add (.var "x") (.lit 2)), .unlock "mu", .wgDone "wg"]),
            .lock "mu", .assign "x" (.bin .add (.var "x") (.lit 1)), .unlock "mu", .wgDone "wg"]),
   .wgWait "wg"]) (.var "x")

/-- `mu.Unlock()` of a free mutex: Go dies. -/
def exUnlockFree : Prog := Prog.mk (ol [.newMutex "mu", .unlock "mu"]) (.lit 1)

/-- `wg.Add(2)` but one `Done`: Go deadlocks. -/
def exMissingDone : Prog := Prog.mk (ol [.newWg "wg", .wgAdd "wg" 2, .go (ol [.wgDone "wg"]), .wgWait "wg"]) (.lit 1)

end GooseVerif.Model.Conc
