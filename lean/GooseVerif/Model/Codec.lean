/-
Model of the little-endian integer codecs of `machine/prims.go`
(`UInt64Put/Get`, `UInt32Put/Get`), which delegate to `encoding/binary.LittleEndian`.

The model is an interpreter of the (index, shift) tables that the extractor reads from
`GOROOT/src/encoding/binary/binary.go` (see `Gen/PrimFacts.lean`), so the theorems of
`Props/C15.lean` are about what that source says now.

Core Lean only (linked into the driver).
-/
namespace GooseVerif.Model.Codec

abbrev Byte := BitVec 8

/-- Outcome of a Go call that may panic. -/
inductive Res (α : Type) where
  | ok (a : α)
  | panic
  deriving DecidableEq, Repr

/-- `PutUintN`: `_ = b[bound]` (panics when `bound ≥ len b`, before any write), then
`b[i] = byte(v >> s)` for every `(i, s)` of the table, in order. -/
def putLE {w : Nat} (bound : Nat) (tbl : List (Nat × Nat)) (b : List Byte) (v : BitVec w) :
    Res (List Byte) :=
  if bound < b.length then
    .ok (tbl.foldl (fun b p => b.set p.1 ((v >>> p.2).setWidth 8)) b)
  else .panic

/-- `UintN`: `_ = b[bound]`, then the OR of `uintN(b[i]) << s` over the table. -/
def getLE (w : Nat) (bound : Nat) (tbl : List (Nat × Nat)) (b : List Byte) : Res (BitVec w) :=
  if bound < b.length then
    .ok (tbl.foldl (fun acc p => acc ||| ((b.getD p.1 0).setWidth w <<< p.2)) 0)
  else .panic

/-- Executable specification used to judge the real code directly (`Spec.check`):
the little-endian layout stated without reference to any table. -/
def specByte {w : Nat} (v : BitVec w) (i : Nat) : Byte := (v >>> (8 * i)).setWidth 8

def specPut {w : Nat} (nbytes : Nat) (b : List Byte) (v : BitVec w) : Res (List Byte) :=
  if nbytes ≤ b.length then
    .ok ((List.range nbytes).map (specByte v) ++ b.drop nbytes)
  else .panic

def specGet (w : Nat) (nbytes : Nat) (b : List Byte) : Res (BitVec w) :=
  if nbytes ≤ b.length then
    .ok ((List.range nbytes).foldl (fun acc i => acc ||| ((b.getD i 0).setWidth w <<< (8 * i))) 0)
  else .panic

end GooseVerif.Model.Codec
