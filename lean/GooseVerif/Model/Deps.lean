/-
Model of the order in which goose emits the top-level declarations of a package
(`Ctx.Decls` in `/repo/interface.go`).

Declarations are numbered `0 .. n-1` in (sorted file, position in file) order.  Translating a
declaration records the names it defines (`ctx.dep.names`) and the names it mentions
(`ctx.dep.deps`).  `nameDecls[n] = id` is executed for every declaration in order, so a name
resolves to the LAST declaration that defines it.  Emission (`processDecl`) is a depth-first
post-order traversal whose `generated` set is marked BEFORE the dependencies are visited, so
cycles and self-references terminate.

Core Lean only, executable.
-/
namespace GooseVerif.Model.Deps

structure DeclInfo where
  /-- names defined by the declaration (`ctx.dep.names`) -/
  names : List String
  /-- names mentioned by the declaration (`ctx.dep.deps`), in order of occurrence -/
  deps : List String
  deriving Repr, DecidableEq

/-- The loop `for _, n := range names { nameDecls[n] = id }` over the declarations `ds`, the first of
which has index `k`, restricted to the single key `s`: `acc` is the current value of
`nameDecls[s]`, every declaration defining `s` overwrites it. -/
def nameTableFrom (s : String) : List DeclInfo → Nat → Option Nat → Option Nat
  | [], _, acc => acc
  | d :: ds, k, acc => nameTableFrom s ds (k + 1) (if s ∈ d.names then some k else acc)

/-- index of the LAST declaration whose `names` contains `s` -/
def nameTable (ds : List DeclInfo) (s : String) : Option Nat :=
  nameTableFrom s ds 0 none

/-- resolved adjacency: indices of the declarations that declaration `i` mentions (in order,
unresolved names dropped) -/
def adj (ds : List DeclInfo) (i : Nat) : List Nat :=
  match ds[i]? with
  | some d => d.deps.filterMap (nameTable ds)
  | none => []

/-- `processDecl`: `vis` is the `generated` set, `out` the declarations emitted so far (in order).
The fuel is only there to make the recursion structural; `ds.length + 1` is always enough. -/
def visit (ds : List DeclInfo) : Nat → List Nat → List Nat → Nat → List Nat × List Nat
  | 0, vis, out, _ => (vis, out)
  | f + 1, vis, out, v =>
    if v ∈ vis then (vis, out)
    else
      let r := (adj ds v).foldl (fun st w => visit ds f st.1 st.2 w) (v :: vis, out)
      (r.1, r.2 ++ [v])

/-- the final `generated` set and output of the top-level loop -/
def emitState (ds : List DeclInfo) : List Nat × List Nat :=
  (List.range ds.length).foldl (fun st v => visit ds (ds.length + 1) st.1 st.2 v) ([], [])

/-- the order in which the declarations are emitted (a list of indices) -/
def emitOrder (ds : List DeclInfo) : List Nat :=
  (emitState ds).2

/-! ### The units of ordering (`declUnits`, interface.go)

A top-level Go declaration is a function, a type, an import group — one unit — or a `const (…)` / `var (…)` group of specs.
`declUnits` makes every spec of a group with more than one spec a unit of its own (Go lets the specs of a group, and of
different groups, mention each other in any order); a group of at most one spec stays the unit it is. -/

inductive TopDecl where
  /-- a function, method, type or import declaration, or a const/var declaration without parentheses -/
  | single (d : DeclInfo)
  /-- a parenthesised const or var group: what each of its specs defines and mentions -/
  | group (specs : List DeclInfo)
  deriving Repr

/-- what translating a whole group as ONE unit records: all names, all dependencies (the behaviour before the repair
374b9a4, and still that of a group with at most one spec) -/
def mergeSpecs (specs : List DeclInfo) : DeclInfo :=
  ⟨specs.flatMap (·.names), specs.flatMap (·.deps)⟩

def unitsOf : TopDecl → List DeclInfo
  | .single d => [d]
  | .group specs => if specs.length ≤ 1 then [mergeSpecs specs] else specs

/-- the units `Decls` numbers, records and orders: file by file, declaration by declaration, spec by spec -/
def declUnits (tops : List TopDecl) : List DeclInfo :=
  tops.flatMap unitsOf

/-- the old granularity (every group one unit), for comparison -/
def declGroups (tops : List TopDecl) : List DeclInfo :=
  tops.map (fun t => match t with | .single d => d | .group specs => mergeSpecs specs)

end GooseVerif.Model.Deps
