/-
Model of `machine.UInt64ToString` (= `fmt.Sprintf("%d", x)`): canonical decimal rendering.
Core Lean only.
-/
namespace GooseVerif.Model.Decimal

/-- Least-significant-first decimal digits; `fuel` bounds the recursion (any `fuel > n` suffices). -/
def digitsRev : Nat → Nat → List Nat
  | 0, _ => []
  | fuel + 1, n => if n < 10 then [n] else (n % 10) :: digitsRev fuel (n / 10)

/-- Most-significant-first digits of `n`. -/
def digits (n : Nat) : List Nat := (digitsRev (n + 1) n).reverse

def digitChar : Nat → Char
  | 0 => '0' | 1 => '1' | 2 => '2' | 3 => '3' | 4 => '4'
  | 5 => '5' | 6 => '6' | 7 => '7' | 8 => '8' | 9 => '9'
  | _ => '?'

/-- The rendering: characters of the decimal numeral of `n`. -/
def dec (n : Nat) : List Char := (digits n).map digitChar

def decString (n : Nat) : String := String.ofList (dec n)

/-- Value of a least-significant-first digit list. -/
def valRev : List Nat → Nat
  | [] => 0
  | d :: ds => d + 10 * valRev ds

/-- Parsing back: value of a most-significant-first digit list. -/
def value (ds : List Nat) : Nat := valRev ds.reverse

def charDigit (c : Char) : Nat := c.toNat - 48

def parse (cs : List Char) : Nat := value (cs.map charDigit)

end GooseVerif.Model.Decimal
