/-
C01 — Control-flow translation of goose (`/repo/goose.go`: `stmts`, `stmtInBlock`, `stmt`,
`ifStmt`, `endsWithReturn`, `stmtsEndWithReturn`, `blockStmt`, `branchStmt`, `forStmt`).

Go has early `return`, `break`, `continue`; GooseLang has none.  goose turns a statement list
into ONE expression: `return e` becomes "the value of the expression is e", `break`/`continue`
become the loop-body values `Break`/`Continue`, and `a ;; b` evaluates `a`, discards the value
and evaluates `b`.  The statements following an `if` whose then-branch returns are therefore
moved into the else-branch.

This file (core library only, executable):
* the source AST `Stmt`/`Stmts`, the three usages, the target AST `Tgt`;
* the translator `trStmtsWith ewr` (parameterised by the "ends with return" test so that a
  mutant can be plugged in), `trStmts := trStmtsWith endsWithReturn`;
* a big-step Go semantics of the source (`exec`) and a semantics of the target (`evalT`) over an
  arbitrary interpretation of atoms/conditions/expressions; fuel is consumed per LOOP ITERATION
  only, identically on both sides;
* a line protocol (`parseStmts`, `showTgt`, `run`) for differential testing against goose.
-/

namespace GooseVerif.Model.Tr

/-! ## Syntax -/

mutual
/-- Source statements.  `atom k` stands for any statement without a control effect. -/
inductive Stmt where
  | atom (k : Nat)
  | ite (c : Nat) (thn els : Stmts)
  | ret (e : Nat)
  | brk
  | cont
  | loop (c : Nat) (body : Stmts)
  | block (b : Stmts)
/-- Statement lists (own list type: keeps mutual structural recursion and induction simple). -/
inductive Stmts where
  | nil
  | cons (s : Stmt) (rest : Stmts)
end

/-- `ExprValUsage`: what happens to the value of the generated expression. -/
inductive Usage where
  | local | returned | loop
  deriving DecidableEq, Repr

/-- Target expressions.  `seq a b` is `a ;; b`; `retv e` is `return: e`; `unit` is `return: #()`
(or `#()`); `brk`/`cont` are the values `Break`/`Continue`. -/
inductive Tgt where
  | unit
  | atom (k : Nat)
  | seq (a b : Tgt)
  | ite (c : Nat) (a b : Tgt)
  | retv (e : Nat)
  | brk
  | cont
  | loop (c : Nat) (body : Tgt)
  deriving DecidableEq, Repr

def Stmts.isNil : Stmts → Bool
  | .nil => true
  | .cons _ _ => false

def Stmt.isIte : Stmt → Bool
  | .ite _ _ _ => true
  | _ => false

/-! ## The translator -/

/-- `stmtsEndWithReturn` (with `endsWithReturn` inlined: a missing else is the empty list, an
`else if` is the one-element list).  Looks at the LAST statement only; a block is not looked
into. -/
def endsWithReturn : Stmts → Bool
  | .nil => false
  | .cons s .nil =>
    match s with
    | .ret _ => true
    | .brk => true
    | .cont => true
    | .ite _ thn els => endsWithReturn thn && endsWithReturn els
    | _ => false
  | .cons _ rest => endsWithReturn rest

/-- The binding appended by `stmts` when the last statement did not finalize the usage (also the
translation of the empty list). -/
def finalizer : Usage → Tgt
  | .returned => .unit
  | .loop => .cont
  | .local => .unit

/-- `ifStmt`, given the translations of the three sub-lists as functions of the usage
(`remEmpty`: the remainder is empty; `thnEnds`: `endsWithReturn` of the then-branch; `elsEmpty`:
the else-branch is absent or empty).  The order of the calls is the order of goose, so that the
FIRST error is the one goose reports. -/
def trIf (c : Nat) (remEmpty thnEnds elsEmpty : Bool) (u : Usage)
    (thn els rem : Usage → Except String Tgt) : Except String Tgt :=
  if remEmpty then
    match thn u with
    | .error e => .error e
    | .ok a =>
      match els u with
      | .error e => .error e
      | .ok b => .ok (.ite c a b)
  else if thnEnds then
    match thn u with
    | .error e => .error e
    | .ok a =>
      if elsEmpty then
        match rem u with
        | .error e => .error e
        | .ok r => .ok (.ite c a r)
      else .error "early return in if with an else branch"
  else
    match thn .local with
    | .error e => .error e
    | .ok a =>
      match els .local with
      | .error e => .error e
      | .ok b =>
        match rem u with
        | .error e => .error e
        | .ok r => .ok (.seq (.ite c a b) r)

mutual
/-- `stmts`: the bindings `b1, …, bn` are returned as the right-nested `seq b1 (seq b2 (… bn))`. -/
def trStmtsWith (ewr : Stmts → Bool) : Stmts → Usage → Except String Tgt
  | .nil, u => .ok (finalizer u)
  | .cons s rest, u =>
    match s with
    | .ite c thn els =>
      trIf c rest.isNil (ewr thn) els.isNil u
        (fun u' => trStmtsWith ewr thn u') (fun u' => trStmtsWith ewr els u')
        (fun u' => trStmtsWith ewr rest u')
    | s =>
      if rest.isNil then
        match trInBlockWith ewr s u with
        | .error e => .error e
        | .ok (b, fin) => .ok (if fin then b else .seq b (finalizer u))
      else
        match trInBlockWith ewr s .local with
        | .error e => .error e
        | .ok (b, _) =>
          match trStmtsWith ewr rest u with
          | .error e => .error e
          | .ok r => .ok (.seq b r)
/-- `stmtInBlock`: the binding and whether the usage has been finalized. -/
def trInBlockWith (ewr : Stmts → Bool) : Stmt → Usage → Except String (Tgt × Bool)
  | .ret e, u =>
    match u with
    | .returned => .ok (.retv e, true)
    | _ => .error "return in unsupported position"
  | .brk, u =>
    match u with
    | .loop => .ok (.brk, true)
    | _ => .error "break/continue in unsupported position"
  | .cont, u =>
    match u with
    | .loop => .ok (.cont, true)
    | _ => .error "break/continue in unsupported position"
  | .ite c thn els, u =>
    match trIf c true (ewr thn) els.isNil u
        (fun u' => trStmtsWith ewr thn u') (fun u' => trStmtsWith ewr els u')
        (fun u' => .ok (finalizer u')) with
    | .error e => .error e
    | .ok t => .ok (t, true)
  | .block b, u =>
    match trStmtsWith ewr b u with
    | .error e => .error e
    | .ok t => .ok (t, true)
  | .atom k, u => .ok (.atom k, u == .local)
  | .loop c body, u =>
    match trStmtsWith ewr body .loop with
    | .error e => .error e
    | .ok t => .ok (.loop c t, u == .local)
end

/-- The translator of goose. -/
def trStmts : Stmts → Usage → Except String Tgt := trStmtsWith endsWithReturn
/-- `stmtInBlock` of goose. -/
def trInBlock : Stmt → Usage → Except String (Tgt × Bool) := trInBlockWith endsWithReturn

/-! ## Semantics -/

/-- Interpretation of the uninterpreted atoms, conditions and returned expressions. -/
structure Interp (σ ν : Type) where
  atom : Nat → σ → σ
  cond : Nat → σ → Bool
  expr : Nat → σ → ν

/-- Outcome of running Go statements. -/
inductive Out (σ ν : Type) where
  | normal (s : σ)
  | returned (v : ν) (s : σ)
  | broke (s : σ)
  | continued (s : σ)
  | fuel

/-- Go `for cond { body }`; `body f` runs the body with fuel `f`.  One unit of fuel per
iteration. -/
def loopIter {σ ν : Type} (cond : σ → Bool) (body : Nat → σ → Out σ ν) : Nat → σ → Out σ ν
  | 0, s => if cond s then .fuel else .normal s
  | f + 1, s =>
    if cond s then
      match body f s with
      | .normal s' => loopIter cond body f s'
      | .continued s' => loopIter cond body f s'
      | .broke s' => .normal s'
      | .returned v s' => .returned v s'
      | .fuel => .fuel
    else .normal s

mutual
/-- Big-step Go semantics of a statement list. -/
def exec {σ ν : Type} (I : Interp σ ν) (f : Nat) : Stmts → σ → Out σ ν
  | .nil, s => .normal s
  | .cons st rest, s =>
    match execStmt I f st s with
    | .normal s' => exec I f rest s'
    | o => o
/-- Big-step Go semantics of a statement. -/
def execStmt {σ ν : Type} (I : Interp σ ν) (f : Nat) : Stmt → σ → Out σ ν
  | .atom k, s => .normal (I.atom k s)
  | .ite c thn els, s => if I.cond c s then exec I f thn s else exec I f els s
  | .ret e, s => .returned (I.expr e s) s
  | .brk, s => .broke s
  | .cont, s => .continued s
  | .loop c body, s => loopIter (I.cond c) (fun f' s' => exec I f' body s') f s
  | .block b, s => exec I f b s
end

/-- Values of target expressions. -/
inductive TV (ν : Type) where
  | unit
  | val (v : ν)
  | brk
  | cont

/-- GooseLang `for:` — the body must evaluate to `Continue` or `Break`, anything else is stuck. -/
def loopIterT {σ ν : Type} (cond : σ → Bool) (body : Nat → σ → Option (TV ν × σ)) :
    Nat → σ → Option (TV ν × σ)
  | 0, s => if cond s then none else some (.unit, s)
  | f + 1, s =>
    if cond s then
      match body f s with
      | some (.cont, s') => loopIterT cond body f s'
      | some (.brk, s') => some (.unit, s')
      | _ => none
    else some (.unit, s)

/-- Semantics of the target: `none` is "stuck or out of fuel". -/
def evalT {σ ν : Type} (I : Interp σ ν) (f : Nat) : Tgt → σ → Option (TV ν × σ)
  | .unit, s => some (.unit, s)
  | .atom k, s => some (.unit, I.atom k s)
  | .seq a b, s =>
    match evalT I f a s with
    | some (_, s') => evalT I f b s'
    | none => none
  | .ite c a b, s => if I.cond c s then evalT I f a s else evalT I f b s
  | .retv e, s => some (.val (I.expr e s), s)
  | .brk, s => some (.brk, s)
  | .cont, s => some (.cont, s)
  | .loop c body, s => loopIterT (I.cond c) (fun f' s' => evalT I f' body s') f s

/-! ## Line protocol -/

mutual
/-- Parses `Stmt* "]"` (the opening bracket has been consumed). -/
def parseList : Nat → List String → Option (Stmts × List String)
  | 0, _ => none
  | n + 1, toks =>
    match toks with
    | [] => none
    | "]" :: rest => some (.nil, rest)
    | _ =>
      match parseStmt n toks with
      | none => none
      | some (s, rest) =>
        match parseList n rest with
        | none => none
        | some (ss, rest') => some (.cons s ss, rest')
/-- Parses `"[" Stmt* "]"`. -/
def parseBlock : Nat → List String → Option (Stmts × List String)
  | 0, _ => none
  | n + 1, toks =>
    match toks with
    | "[" :: rest => parseList n rest
    | _ => none
/-- Parses one statement. -/
def parseStmt : Nat → List String → Option (Stmt × List String)
  | 0, _ => none
  | n + 1, toks =>
    match toks with
    | "a" :: k :: rest => k.toNat?.map fun k => (.atom k, rest)
    | "r" :: k :: rest => k.toNat?.map fun k => (.ret k, rest)
    | "brk" :: rest => some (.brk, rest)
    | "cont" :: rest => some (.cont, rest)
    | "if" :: c :: rest =>
      match c.toNat? with
      | none => none
      | some c =>
        match parseBlock n rest with
        | none => none
        | some (thn, rest') =>
          match parseBlock n rest' with
          | none => none
          | some (els, rest'') => some (.ite c thn els, rest'')
    | "loop" :: c :: rest =>
      match c.toNat? with
      | none => none
      | some c =>
        match parseBlock n rest with
        | none => none
        | some (b, rest') => some (.loop c b, rest')
    | "blk" :: rest =>
      match parseBlock n rest with
      | none => none
      | some (b, rest') => some (.block b, rest')
    | _ => none
end

/-- `Stmts ::= "[" Stmt* "]"`, `Stmt ::= "a" N | "r" N | "brk" | "cont" | "if" N Stmts Stmts |
"loop" N Stmts | "blk" Stmts`. -/
def parseStmts (toks : List String) : Option Stmts :=
  match parseBlock (2 * toks.length + 2) toks with
  | some (ss, []) => some ss
  | _ => none

/-- `inSeq = true`: the items of a sequence, without the surrounding `( seq … )`. -/
def showAux : Bool → Tgt → String
  | _, .unit => "unit"
  | _, .atom k => "a " ++ toString k
  | _, .retv e => "r " ++ toString e
  | _, .brk => "brk"
  | _, .cont => "cont"
  | _, .ite c a b =>
    "( if " ++ toString c ++ " " ++ showAux false a ++ " " ++ showAux false b ++ " )"
  | _, .loop c b => "( loop " ++ toString c ++ " " ++ showAux false b ++ " )"
  | inSeq, .seq a b =>
    let items := showAux true a ++ " " ++ showAux true b
    if inSeq then items else "( seq " ++ items ++ " )"

/-- Sequences are flattened: `( seq T1 … Tn )` lists the leaves of a maximal tree of `seq`. -/
def showTgt (t : Tgt) : String := showAux false t

def parseUsage : String → Option Usage
  | "local" => some .local
  | "returned" => some .returned
  | "loop" => some .loop
  | _ => none

/-- One line of the protocol: `showTgt t`, `error <message with '-' for ' '>`, or `bad-input`. -/
def run (usage : String) (toks : List String) : String :=
  match parseUsage usage, parseStmts toks with
  | some u, some ss =>
    match trStmts ss u with
    | .ok t => showTgt t
    | .error e => "error " ++ e.replace " " "-"
  | _, _ => "bad-input"

/-! ## A mutant, for the mutation witness of C01 -/

/-- MUTANT of `endsWithReturn`: an `if` WITHOUT else counts as "ends with return" as soon as its
then-branch does (`left` instead of `left && right`). -/
def endsWithReturn' : Stmts → Bool
  | .nil => false
  | .cons s .nil =>
    match s with
    | .ret _ => true
    | .brk => true
    | .cont => true
    | .ite _ thn els =>
      if els.isNil then endsWithReturn' thn else endsWithReturn' thn && endsWithReturn' els
    | _ => false
  | .cons _ rest => endsWithReturn' rest

/-- The translator with the mutant plugged in. -/
def trStmts' : Stmts → Usage → Except String Tgt := trStmtsWith endsWithReturn'

/-- `if 0 { if 1 { return 1 } }; return 2`. -/
def mutantWitness : Stmts :=
  .cons (.ite 0 (.cons (.ite 1 (.cons (.ret 1) .nil) .nil) .nil) .nil) (.cons (.ret 2) .nil)

/-- Condition `0` holds, every other condition fails; expression `e` has the value `e`. -/
def witnessInterp : Interp Unit Nat where
  atom := fun _ s => s
  cond := fun c _ => c == 0
  expr := fun e _ => e

end GooseVerif.Model.Tr
