/-
Canonical, fully bracketed rendering of a parsed GooseLang expression: two texts have the same
canonical rendering iff the parser read the same tree from them.  Used by C05 (flag invariance,
nesting) and C04.  Core Lean only.
-/
import GooseVerif.GL.Syntax

namespace GooseVerif.GL

def hexStr (s : String) : String :=
  let hexd (n : Nat) : Char := if n < 10 then Char.ofNat (48 + n) else Char.ofNat (87 + n)
  String.ofList (s.toList.flatMap (fun c => let n := c.toNat % 256; [hexd (n / 16), hexd (n % 16)]))

def Lit.canon : Lit → String
  | .u64 n => s!"u64:{n}"
  | .u32 n => s!"u32:{n}"
  | .u8 n => s!"u8:{n}"
  | .bool b => if b then "true" else "false"
  | .unit => "unit"
  | .str s => "str:" ++ hexStr s
  | .null => "null"

mutual
partial def Expr.canon : Expr → String
  | .lit l => "(lit " ++ l.canon ++ ")"
  | .var x => "(var " ++ hexStr x ++ ")"
  | .gvar x => "(g " ++ x ++ ")"
  | .anon => "(anon)"
  | .app f args => "(app " ++ f.canon ++ " " ++ canonList args ++ ")"
  | .binop op a b => "(bin " ++ hexStr op ++ " " ++ a.canon ++ " " ++ b.canon ++ ")"
  | .not e => "(not " ++ e.canon ++ ")"
  | .letIn bs e b => "(let [" ++ " ".intercalate (bs.map hexStr) ++ "] " ++ e.canon ++ " " ++ b.canon ++ ")"
  | .seq a b => "(seq " ++ a.canon ++ " " ++ b.canon ++ ")"
  | .ite c t e => "(if " ++ c.canon ++ " " ++ t.canon ++ " " ++ e.canon ++ ")"
  | .lam ps b => "(lam [" ++ " ".intercalate (ps.map hexStr) ++ "] " ++ b.canon ++ ")"
  | .recf f ps b => "(rec " ++ hexStr f ++ " [" ++ " ".intercalate (ps.map hexStr) ++ "] " ++ b.canon ++ ")"
  | .load t e => "(load " ++ t.canon ++ " " ++ e.canon ++ ")"
  | .store d t v => "(store " ++ d.canon ++ " " ++ t.canon ++ " " ++ v.canon ++ ")"
  | .tuple es => "(tuple " ++ canonList es ++ ")"
  | .forLoop c p b => "(for " ++ c.canon ++ " " ++ p.canon ++ " " ++ b.canon ++ ")"
  | .fields fs => "(fields " ++ " ".intercalate (fs.map (fun f => "(" ++ hexStr f.1 ++ " " ++ f.2.canon ++ ")")) ++ ")"
  | .list es => "(list " ++ canonList es ++ ")"
partial def canonList : List Expr → String
  | [] => ""
  | [e] => e.canon
  | e :: es => e.canon ++ " " ++ canonList es
end

def Decl.canon : Decl → String
  | .func n tps b => "(func " ++ n ++ " [" ++ " ".intercalate tps ++ "] " ++ b.canon ++ ")"
  | .const n b => "(const " ++ n ++ " " ++ b.canon ++ ")"
  | .struct n fs => "(struct " ++ n ++ " " ++ (Expr.fields fs).canon ++ ")"
  | .typeDef n t => "(type " ++ n ++ " " ++ t.canon ++ ")"
  | .notation n t => "(notation " ++ n ++ " " ++ t.canon ++ ")"
  | .other k => "(other " ++ k ++ ")"

end GooseVerif.GL
