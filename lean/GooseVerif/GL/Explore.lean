/-
Exhaustive scheduler for the emitted GooseLang programs (C03).  Threads are interleaved at
synchronisation operations only (Fork, lock acquire/release, condition wait/signal, wait-group
operations, Sleep): for data-race-free programs every interleaving of memory accesses is equivalent to
one of these.  A thread runs from just after one synchronisation operation up to and including its
next one ("segment"); at every state every thread that can complete its segment is tried.  States are
memoised (condition waits may wake up spuriously, so waiting loops revisit states).
Outcomes: the value returned by the main thread (with everything reachable from it), `deadlock` when
no thread can move, `stuck …` when some thread has no rule to apply.  Core Lean + Std.HashSet.
-/
import Std.Data.HashSet
import GooseVerif.GL.Sem

namespace GooseVerif.GL

inductive SegOut where
  | sync (t : Thread) (w : World) (spawn : Option Thread)
  | blocked
  | done (v : Val) (w : World) (spawn : Option Thread := none)
  | stuck (why : String)
  | fuel
  deriving Inhabited

partial def runSegment (p : Prog) (fuel : Nat) (w : World) (t : Thread) : SegOut :=
  if fuel == 0 then .fuel else
  match step p w t with
  | .next t' w' sp sync => if sync then .sync t' w' sp else runSegment p (fuel - 1) w' t'
  | .blocked => .blocked
  | .done v => .done v w
  | .stuck why => .stuck why

/-- The second segmentation: a segment starts WITH the thread's pending synchronisation operation and
continues through the local steps after it, stopping just before the next synchronisation operation.
For data-race-free programs both segmentations yield the same outcomes; when the emitted program has
a race on a heap cell (e.g. a store the Go program orders before a `go` statement's argument is
read), the two place the unsynchronised access on different sides of the other thread's operations,
so the union of both outcome sets exposes it. -/
partial def runSegmentB (p : Prog) (fuel : Nat) (w : World) (t : Thread) (first : Bool) (spawn : Option Thread) : SegOut :=
  if fuel == 0 then .fuel else
  match step p w t with
  | .next t' w' sp sync =>
    if sync && !first then .sync t w spawn
    else runSegmentB p (fuel - 1) w' t' false (if sync then sp else spawn)
  | .blocked => if first then .blocked else .sync t w spawn
  | .done v => .done v w spawn        -- a thread that ends with a `Fork` still hands over the thread it spawned
  | .stuck why => .stuck why

structure ExpState where
  visited : Std.HashSet UInt64 := {}
  outcomes : List String := []
  states : Nat := 0
  truncated : Bool := false
  deriving Inhabited

def ExpState.add (s : ExpState) (o : String) : ExpState :=
  if s.outcomes.contains o then s else { s with outcomes := o :: s.outcomes }

partial def explore (p : Prog) (modeB : Bool) (maxStates segFuel : Nat) (w : World) (threads : Array (Option Thread)) (st : ExpState) : ExpState :=
  if st.states ≥ maxStates then { st with truncated := true } else
  let key := hash (toString (repr (w.heap, threads)))
  if st.visited.contains key then st else
  let st := { st with visited := st.visited.insert key, states := st.states + 1 }
  let idxs := List.range threads.size
  let (st, moved, live) := idxs.foldl (fun (acc : ExpState × Bool × Bool) i =>
    let (st, moved, live) := acc
    match threads[i]? with
    | some (some t) =>
      match (if modeB then runSegmentB p segFuel w t true none else runSegment p segFuel w t) with
      | .sync t' w' sp =>
        let ths := threads.set! i (some t')
        let ths := match sp with | some nt => ths.push (some nt) | none => ths
        (explore p modeB maxStates segFuel w' ths st, true, true)
      | .done v w' sp =>
        if i == 0 then (st.add ("value " ++ showVal w' 6 v), true, true)
        else
          let ths := threads.set! i none
          let ths := match sp with | some nt => ths.push (some nt) | none => ths
          (explore p modeB maxStates segFuel w' ths st, true, true)
      | .blocked => (st, moved, true)
      | .stuck why => (st.add ("stuck " ++ why), true, true)
      | .fuel => (st.add "fuel", true, true)
    | _ => (st, moved, live)) (st, false, false)
  if !moved && live then st.add "deadlock"
  else if !live then st.add "deadlock"      -- the main thread never returned and nothing is left to run
  else st

def exploreCall (p : Prog) (maxStates segFuel : Nat) (fn : String) (args : List Val) (strict : Bool := false) : ExpState :=
  let call : Ctl := if args.isEmpty then .eval (.app (.gvar fn) [.lit .unit]) [] else .eval (.gvar fn) []
  let k : List Frame := if args.isEmpty then [] else [.funK args]
  let a := explore p false maxStates segFuel { strictCond := strict } #[some { ctl := call, k := k }] {}
  let b := explore p true maxStates segFuel { strictCond := strict } #[some { ctl := call, k := k }] {}
  { a with outcomes := b.outcomes.foldl (fun acc o => if acc.contains o then acc else o :: acc) a.outcomes,
           states := a.states + b.states, truncated := a.truncated || b.truncated }

end GooseVerif.GL
