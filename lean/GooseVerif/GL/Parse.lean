/-
Parser for the notations goose emits, with Coq's levels as far as they can be reconstructed
(Perennial's notation file is not available offline):
  200  let: … in …   λ: …, …   rec: … := …   if: … then … else …   for: …      (extend to the right)
  100  e ;; e        (right operand at 200)
   99  t -> t        (types)
   80  e <-[t] e
   75  ~ e
   70  = ≠ < ≤ > ≥                     (non-associative)
   50  + - || `or` `xor`               (left)
   40  * && `quot` `rem` `and` ≪ ≫     (left)
   10  application f a b               (left, arguments are atoms)
    9  ![t] e
goose parenthesises every compound operand, so which of the levels 40/50/70 an operator sits at
only matters for text that goose does not emit today; list elements, tuple components and the
right-hand sides of `::=` are read at level 200 (lenient).
Total: every function recurses structurally on a fuel.  Core Lean only.
-/
import GooseVerif.GL.Syntax
import GooseVerif.GL.Lex

namespace GooseVerif.GL

abbrev R := Except String

def showTok : Tok → String
  | .ident s => s
  | .str s => "\"" ++ s ++ "\""
  | .num n => toString n
  | .sym s => s
  | .dot => "."

def errAt {α : Type} (what : String) (ts : List Tok) : R α :=
  .error (what ++ " at: " ++ " ".intercalate ((ts.take 8).map showTok))

def expect (s : String) : List Tok → R (Unit × List Tok)
  | .sym t :: ts => if t == s then .ok ((), ts) else errAt ("expected " ++ s) (.sym t :: ts)
  | ts => errAt ("expected " ++ s) ts

def binLevel (op : String) : Option (Nat × Bool) :=   -- (level, left associative)
  if ["*", "&&", "quot", "rem", "and", "≪", "≫"].contains op then some (40, true)
  else if ["+", "-", "||", "or", "xor"].contains op then some (50, true)
  else if ["=", "≠", "<", "≤", ">", "≥"].contains op then some (70, false)
  else if op == "->" then some (99, false)
  else none

/-- binders of `λ:` / `rec:`: quoted names and `<>` -/
def parseBinders : Nat → List Tok → List String → List String × List Tok
  | 0, ts, acc => (acc.reverse, ts)
  | fuel + 1, .str s :: ts, acc => parseBinders fuel ts (s :: acc)
  | fuel + 1, .sym "<>" :: ts, acc => parseBinders fuel ts ("_" :: acc)
  | _, ts, acc => (acc.reverse, ts)

/-- a destructuring pattern `(("a", "b"), "c")` flattened to its names, or a single binder -/
def parsePattern : Nat → List Tok → R (List String × List Tok)
  | 0, ts => errAt "pattern too deep" ts
  | _, .str s :: ts => .ok ([s], ts)
  | _, .sym "<>" :: ts => .ok (["_"], ts)
  | fuel + 1, .sym "(" :: ts => do
    let (l, ts1) ← parsePattern fuel ts
    let ((), ts2) ← expect "," ts1
    let (r, ts3) ← parsePattern fuel ts2
    let ((), ts4) ← expect ")" ts3
    .ok (l ++ r, ts4)
  | _, ts => errAt "expected a binder" ts

mutual

/-- literals after `#` -/
def parseHash : Nat → List Tok → R (Expr × List Tok)
  | 0, ts => errAt "out of fuel" ts
  | _, .num n :: ts => .ok (.lit (.u64 n), ts)
  | _, .ident "true" :: ts => .ok (.lit (.bool true), ts)
  | _, .ident "false" :: ts => .ok (.lit (.bool false), ts)
  | _, .ident "null" :: ts => .ok (.lit .null, ts)
  | _, .sym "(" :: .sym ")" :: ts => .ok (.lit .unit, ts)
  | _, .sym "(" :: .ident "U32" :: .num n :: .sym ")" :: ts => .ok (.lit (.u32 n), ts)
  | _, .sym "(" :: .ident "U8" :: .num n :: .sym ")" :: ts => .ok (.lit (.u8 n), ts)
  | _, .sym "(" :: .ident "str" :: .str s :: .sym ")" :: ts => .ok (.lit (.str s), ts)
  | _, ts => errAt "bad literal after #" ts

def parseAtom : Nat → List Tok → R (Expr × List Tok)
  | 0, ts => errAt "out of fuel" ts
  | fuel + 1, ts =>
    match ts with
    | .sym "#" :: ts' => parseHash fuel ts'
    | .str s :: ts' => .ok (.var s, ts')
    | .ident x :: ts' => .ok (.gvar x, ts')
    | .num n :: ts' => .ok (.lit (.u64 n), ts')     -- bare numbers only occur in vernacular we skip
    | .sym "<>" :: ts' => .ok (.anon, ts')
    | .sym "![" :: ts' => do
      let (ty, ts1) ← parseExpr fuel 200 ts'
      let ((), ts2) ← expect "]" ts1
      let (e, ts3) ← parseAtom fuel ts2
      .ok (.load ty e, ts3)
    | .sym "(" :: ts' => do
      let (e, ts1) ← parseExpr fuel 200 ts'
      match ts1 with
      | .sym ")" :: ts2 => parseScope e ts2
      | .sym "," :: _ => do
        let (es, ts2) ← parseTupleRest fuel ts1 [e]
        parseScope (.tuple es) ts2
      | _ => errAt "expected ) or ," ts1
    | .sym "[" :: .sym "]" :: ts' => .ok (.list [], ts')
    | .sym "[" :: ts' => parseListElems fuel ts' [] []
    | _ => errAt "expected an expression" ts

/-- an optional scope annotation `%ht` after a parenthesis -/
def parseScope (e : Expr) : List Tok → R (Expr × List Tok)
  | .sym "%" :: .ident _ :: ts => .ok (e, ts)
  | ts => .ok (e, ts)

def parseTupleRest : Nat → List Tok → List Expr → R (List Expr × List Tok)
  | 0, ts, _ => errAt "out of fuel" ts
  | fuel + 1, .sym "," :: ts, acc => do
    let (e, ts1) ← parseExpr fuel 200 ts
    parseTupleRest fuel ts1 (e :: acc)
  | _, .sym ")" :: ts, acc => .ok (acc.reverse, ts)
  | _, ts, _ => errAt "expected , or )" ts

/-- `[ "f" ::= e; … ]`, `[ "f" :: t; … ]` or `[ e; … ]` -/
def parseListElems : Nat → List Tok → List (String × Expr) → List Expr → R (Expr × List Tok)
  | 0, ts, _, _ => errAt "out of fuel" ts
  | fuel + 1, ts, fs, es =>
    match ts with
    | .str f :: .sym "::=" :: ts' => do
      let (e, ts1) ← parseExpr fuel 200 ts'
      parseListSep fuel ts1 ((f, e) :: fs) es
    | .str f :: .sym "::" :: ts' => do
      let (e, ts1) ← parseExpr fuel 200 ts'
      parseListSep fuel ts1 ((f, e) :: fs) es
    | _ => do
      let (e, ts1) ← parseExpr fuel 200 ts
      parseListSep fuel ts1 fs (e :: es)

def parseListSep : Nat → List Tok → List (String × Expr) → List Expr → R (Expr × List Tok)
  | 0, ts, _, _ => errAt "out of fuel" ts
  | fuel + 1, .sym ";" :: ts, fs, es => parseListElems fuel ts fs es
  | _, .sym "]" :: ts, fs, es => if es.isEmpty then .ok (.fields fs.reverse, ts) else .ok (.list es.reverse, ts)
  | _, ts, _, _ => errAt "expected ; or ]" ts

/-- application: an atom followed by atoms -/
def parseApp : Nat → List Tok → R (Expr × List Tok)
  | 0, ts => errAt "out of fuel" ts
  | fuel + 1, ts => do
    let (f, ts1) ← parseAtom fuel ts
    let (args, ts2) ← parseArgs fuel ts1 []
    .ok (if args.isEmpty then f else .app f args, ts2)

def startsAtom : List Tok → Bool
  | .sym "#" :: _ | .str _ :: _ | .num _ :: _ | .sym "<>" :: _ | .sym "![" :: _ | .sym "(" :: _ | .sym "[" :: _ => true
  | .ident x :: _ => !(["then", "else", "in"].contains x)
  | _ => false

def parseArgs : Nat → List Tok → List Expr → R (List Expr × List Tok)
  | 0, ts, acc => .ok (acc.reverse, ts)
  | fuel + 1, ts, acc =>
    if startsAtom ts then do
      let (a, ts1) ← parseAtom fuel ts
      parseArgs fuel ts1 (a :: acc)
    else .ok (acc.reverse, ts)

/-- binary operators below `maxLevel`, by precedence climbing -/
def parseBin : Nat → Nat → List Tok → R (Expr × List Tok)
  | 0, _, ts => errAt "out of fuel" ts
  | fuel + 1, maxLevel, ts => do
    let (lhs, ts1) ← (match ts with
      | .sym "~" :: ts' => do
        let (e, ts2) ← parseBin fuel 75 ts'
        .ok (Expr.not e, ts2)
      | _ => parseApp fuel ts)
    parseBinRest fuel maxLevel lhs ts1

def parseBinRest : Nat → Nat → Expr → List Tok → R (Expr × List Tok)
  | 0, _, lhs, ts => .ok (lhs, ts)
  | fuel + 1, maxLevel, lhs, ts =>
    match ts with
    | .sym op :: ts' =>
      match binLevel op with
      | some (lvl, leftAssoc) =>
        if lvl ≤ maxLevel then do
          -- the right operand binds tighter (left-associative) or as tight (right/none)
          let (rhs, ts1) ← parseBin fuel (if leftAssoc then lvl - 1 else lvl - 1) ts'
          parseBinRest fuel maxLevel (.binop op lhs rhs) ts1
        else .ok (lhs, ts)
      | none =>
        if op == "<-[" && 80 ≤ maxLevel then do
          let (ty, ts1) ← parseExpr fuel 200 ts'
          let ((), ts2) ← expect "]" ts1
          let (v, ts3) ← parseBin fuel 79 ts2
          .ok (.store lhs ty v, ts3)
        else .ok (lhs, ts)
    | _ => .ok (lhs, ts)

def parseExpr : Nat → Nat → List Tok → R (Expr × List Tok)
  | 0, _, ts => errAt "out of fuel" ts
  | fuel + 1, maxLevel, ts =>
    match ts with
    | .sym "let:" :: ts' => do
      let (names, ts1) ← parsePattern fuel ts'
      let ((), ts2) ← expect ":=" ts1
      let (e, ts3) ← parseExpr fuel 200 ts2
      match ts3 with
      | .ident "in" :: ts4 => do
        let (body, ts5) ← parseExpr fuel 200 ts4
        .ok (.letIn names e body, ts5)
      | _ => errAt "expected in" ts3
    | .sym "λ:" :: ts' => do
      let (params, ts1) := parseBinders fuel ts' []
      let ((), ts2) ← expect "," ts1
      let (body, ts3) ← parseExpr fuel 200 ts2
      .ok (.lam params body, ts3)
    | .sym "rec:" :: .str f :: ts' => do
      let (params, ts1) := parseBinders fuel ts' []
      let ((), ts2) ← expect ":=" ts1
      let (body, ts3) ← parseExpr fuel 200 ts2
      .ok (.recf f params body, ts3)
    | .sym "if:" :: ts' => do
      let (c, ts1) ← parseExpr fuel 200 ts'
      match ts1 with
      | .ident "then" :: ts2 => do
        let (t, ts3) ← parseExpr fuel 200 ts2
        match ts3 with
        | .ident "else" :: ts4 => do
          let (e, ts5) ← parseExpr fuel 200 ts4
          .ok (.ite c t e, ts5)
        | _ => errAt "expected else" ts3
      | _ => errAt "expected then" ts1
    | .sym "for:" :: ts' => do
      let (c, ts1) ← parseAtom fuel ts'
      let ((), ts2) ← expect ";" ts1
      let (p, ts3) ← parseAtom fuel ts2
      let ((), ts4) ← expect ":=" ts3
      let (b, ts5) ← parseExpr fuel 200 ts4
      .ok (.forLoop c p b, ts5)
    | _ => do
      let (lhs, ts1) ← parseBin fuel (min maxLevel 99) ts
      match ts1 with
      | .sym ";;" :: ts2 =>
        if 100 ≤ maxLevel then do
          let (rhs, ts3) ← parseExpr fuel 200 ts2
          .ok (.seq lhs rhs, ts3)
        else .ok (lhs, ts1)
      | _ => .ok (lhs, ts1)

end

/-- skip to the end of the current sentence -/
def skipSentence : List Tok → List Tok
  | [] => []
  | .dot :: ts => ts
  | _ :: ts => skipSentence ts

/-- `(T:ty)` binders of a Definition -/
def parseTypeParams : Nat → List Tok → List String → List String × List Tok
  | 0, ts, acc => (acc.reverse, ts)
  | fuel + 1, .sym "(" :: .ident t :: .sym ":" :: .ident "ty" :: .sym ")" :: ts, acc => parseTypeParams fuel ts (t :: acc)
  | _, ts, acc => (acc.reverse, ts)

def parseDecl (fuel : Nat) : List Tok → R (Decl × List Tok)
  | .ident "Definition" :: .ident name :: ts =>
    let (tps, ts0) := parseTypeParams fuel ts []
    match ts0 with
    | .sym ":" :: .ident "val" :: .sym ":=" :: ts1 => do
      let (e, ts2) ← parseExpr fuel 200 ts1
      match ts2 with
      | .dot :: ts3 => .ok (.func name tps e, ts3)
      | _ => errAt ("expected . after Definition " ++ name) ts2
    | .sym ":" :: .ident "expr" :: .sym ":=" :: ts1 => do
      let (e, ts2) ← parseExpr fuel 200 ts1
      match ts2 with
      | .dot :: ts3 => .ok (.const name e, ts3)
      | _ => errAt ("expected . after Definition " ++ name) ts2
    | .sym ":" :: .ident "ty" :: .sym ":=" :: ts1 => do
      let (e, ts2) ← parseExpr fuel 200 ts1
      match ts2 with
      | .dot :: ts3 => .ok (.typeDef name e, ts3)
      | _ => errAt ("expected . after Definition " ++ name) ts2
    | .sym ":=" :: .ident "struct.decl" :: ts1 => do
      let (e, ts2) ← parseAtom fuel ts1
      match e, ts2 with
      | .fields fs, .dot :: ts3 => .ok (.struct name fs, ts3)
      | .list [], .dot :: ts3 => .ok (.struct name [], ts3)
      | _, _ => errAt ("bad struct.decl " ++ name) ts2
    | _ => errAt ("unrecognised Definition " ++ name) ts0
  | .ident "Notation" :: .ident name :: .sym ":=" :: ts => do
    let (e, ts1) ← parseBin fuel 99 ts
    -- `(only parsing)` follows
    .ok (.notation name e, skipSentence ts1)
  | .ident kw :: ts => .ok (.other kw, skipSentence ts)
  | ts => errAt "expected a vernacular command" ts

def parseDecls : Nat → List Tok → List Decl → Except String (List Decl)
  | 0, _, acc => .ok acc.reverse
  | _, [], acc => .ok acc.reverse
  | fuel + 1, ts, acc =>
    match parseDecl (ts.length + 10) ts with
    | .ok (d, rest) => parseDecls fuel rest (d :: acc)
    | .error e => .error e

def parseFile (text : String) : Except String (List Decl) :=
  match lex text with
  | .error e => .error ("lexical error: " ++ reprStr e)
  | .ok ts => parseDecls (ts.length + 1) ts []

end GooseVerif.GL
