/-
Lexer for the Coq/GooseLang text goose emits. Follows Coq's lexical conventions where they
matter for C05: comments `(* … *)` nest, and inside a comment a `"` starts a string in which
`*)` does not end the comment; strings are `"…"` with `""` as the only escape.
Total, structurally recursive on a fuel equal to the input length.  Core Lean only.
-/
import GooseVerif.GL.Syntax
namespace GooseVerif.GL

inductive Tok where
  | ident (s : String)       -- Gallina identifier, possibly qualified: slice.len, S__m, x'
  | str (s : String)         -- "…"
  | num (n : Nat)
  | sym (s : String)         -- punctuation, operators and the keywords let: rec: if: for: λ:
  | dot                      -- sentence terminator: '.' followed by white space or end of input
  deriving DecidableEq, Repr, Inhabited

inductive LexError where
  | unterminatedComment
  | unterminatedString
  | unexpected (c : Char)
  deriving DecidableEq, Repr

def isIdStart (c : Char) : Bool := c.isAlpha || c == '_' || c.toNat ≥ 128
def isIdChar (c : Char) : Bool := c.isAlphanum || c == '_' || c == '\'' || c.toNat ≥ 128

/-- the non-ASCII operator glyphs goose prints -/
def isGlyph (c : Char) : Bool := c == '≠' || c == '≤' || c == '≥' || c == '≪' || c == '≫' || c == 'λ' || c == '⊢' || c == 'Γ'

/-- Skip a comment body. `depth` ≥ 1 is the nesting depth; `inStr` says whether we are inside a
string inside the comment. Returns the rest after the closing `*)`. -/
def skipComment : Nat → Nat → Bool → List Char → Option (List Char)
  | 0, _, _, _ => none
  | _, _, _, [] => none
  | fuel + 1, depth, true, c :: cs =>
    if c == '"' then skipComment fuel depth false cs else skipComment fuel depth true cs
  | fuel + 1, depth, false, c :: cs =>
    match c, cs with
    | '"', _ => skipComment fuel depth true cs
    | '(', '*' :: cs' => skipComment fuel (depth + 1) false cs'
    | '*', ')' :: cs' => if depth ≤ 1 then some cs' else skipComment fuel (depth - 1) false cs'
    | _, _ => skipComment fuel depth false cs

/-- Read a string body after the opening quote: `""` is an escaped quote. -/
def readString : Nat → List Char → List Char → Option (String × List Char)
  | 0, _, _ => none
  | _, _, [] => none
  | fuel + 1, acc, c :: cs =>
    if c == '"' then
      match cs with
      | '"' :: cs' => readString fuel ('"' :: acc) cs'
      | _ => some (String.ofList acc.reverse, cs)
    else readString fuel (c :: acc) cs

def takeWhileChars (p : Char → Bool) : List Char → List Char × List Char
  | [] => ([], [])
  | c :: cs => if p c then let r := takeWhileChars p cs; (c :: r.1, r.2) else ([], c :: cs)

/-- An identifier may continue over `.x` when `x` starts an identifier (qualified names). -/
def readIdent : Nat → List Char → List Char → String × List Char
  | 0, acc, cs => (String.ofList acc.reverse, cs)
  | fuel + 1, acc, cs =>
    let r := takeWhileChars isIdChar cs
    let acc' := r.1.reverse ++ acc
    match r.2 with
    | '.' :: c :: rest =>
      if isIdStart c && !isGlyph c then readIdent fuel ('.' :: acc') (c :: rest)
      else (String.ofList acc'.reverse, r.2)
    | _ => (String.ofList acc'.reverse, r.2)

def keywords : List String := ["let", "rec", "if", "for"]

def lexAux : Nat → List Char → List Tok → Except LexError (List Tok)
  | 0, _, acc => .ok acc.reverse
  | _, [], acc => .ok acc.reverse
  | fuel + 1, c :: cs, acc =>
    if c == ' ' || c == '\n' || c == '\t' || c == '\r' then lexAux fuel cs acc
    else if c == '(' then
      match cs with
      | '*' :: cs' =>
        match skipComment (cs'.length + 1) 1 false cs' with
        | some rest => lexAux fuel rest acc
        | none => .error .unterminatedComment
      | _ => lexAux fuel cs (.sym "(" :: acc)
    else if c == '"' then
      match readString (cs.length + 1) [] cs with
      | some (s, rest) => lexAux fuel rest (.str (bytesView s) :: acc)
      | none => .error .unterminatedString
    else if c == 'λ' then
      match cs with
      | ':' :: cs' => lexAux fuel cs' (.sym "λ:" :: acc)
      | _ => lexAux fuel cs (.sym "λ" :: acc)
    else if isGlyph c then lexAux fuel cs (.sym (String.singleton c) :: acc)
    else if c.isDigit then
      let r := takeWhileChars Char.isDigit (c :: cs)
      lexAux fuel r.2 (.num ((String.ofList r.1).toNat!) :: acc)
    else if isIdStart c then
      let r := readIdent (cs.length + 2) [] (c :: cs)
      match r.2 with
      | ':' :: rest =>
        if keywords.contains r.1 then
          -- `let:` etc., but not `x :=` / `f: val`
          match rest with
          | '=' :: _ => lexAux fuel r.2 (.ident r.1 :: acc)
          | _ => lexAux fuel rest (.sym (r.1 ++ ":") :: acc)
        else lexAux fuel r.2 (.ident r.1 :: acc)
      | _ => lexAux fuel r.2 (.ident r.1 :: acc)
    else if c == '.' then
      match cs with
      | [] => lexAux fuel cs (.dot :: acc)
      | d :: _ => if d == ' ' || d == '\n' || d == '\t' || d == '\r' then lexAux fuel cs (.dot :: acc)
                  else lexAux fuel cs (.sym "." :: acc)
    else
      -- multi-character symbols first
      match c, cs with
      | ';', ';' :: r => lexAux fuel r (.sym ";;" :: acc)
      | ':', ':' :: '=' :: r => lexAux fuel r (.sym "::=" :: acc)
      | ':', ':' :: r => lexAux fuel r (.sym "::" :: acc)
      | ':', '=' :: r => lexAux fuel r (.sym ":=" :: acc)
      | '<', '>' :: r => lexAux fuel r (.sym "<>" :: acc)
      | '<', '-' :: '[' :: r => lexAux fuel r (.sym "<-[" :: acc)
      | '!', '[' :: r => lexAux fuel r (.sym "![" :: acc)
      | '&', '&' :: r => lexAux fuel r (.sym "&&" :: acc)
      | '|', '|' :: r => lexAux fuel r (.sym "||" :: acc)
      | '-', '>' :: r => lexAux fuel r (.sym "->" :: acc)
      | '=', '>' :: r => lexAux fuel r (.sym "=>" :: acc)
      | '`', _ =>
        -- `quot` `rem` `and` `or` `xor`, and the backquote of Context `{…}
        let r := takeWhileChars Char.isAlpha cs
        match r.2 with
        | '`' :: rest => if r.1.isEmpty then lexAux fuel cs (.sym "`" :: acc)
                         else lexAux fuel rest (.sym (String.ofList r.1) :: acc)
        | _ => lexAux fuel cs (.sym "`" :: acc)
      | _, _ =>
        if "()[]{},;:~+-*=<>#%|@!&/^?$\\".toList.contains c then lexAux fuel cs (.sym (String.singleton c) :: acc)
        else .error (.unexpected c)

def lex (s : String) : Except LexError (List Tok) :=
  lexAux (s.length + 1) s.toList []

end GooseVerif.GL
