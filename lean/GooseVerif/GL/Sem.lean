/-
A reference interpreter for the GooseLang that goose emits — a RECONSTRUCTION of Perennial's
semantics (Perennial is not available offline), given at the abstraction level of Go's own data
types; see DESIGN.md Appendix A.  It is calibrated against what the repository records
(`internal/examples/semantics`: every `test*` evaluates to `#true`) and is used (a) to validate
the translator end to end against natively executed Go and (b) to search for failing inputs.

Call-by-value; operands of binary operators and arguments of applications are evaluated right to
left; `e1 ;; e2` and `let:` left to right.  Anything without a rule is *stuck* (`Res.stuck`).
Integer operators need operands of one width.  Executable (driver) code: uses fuel and `partial`.
-/
import GooseVerif.GL.Syntax

namespace GooseVerif.GL

inductive Sel where
  | field (f : String)
  | index (i : Nat)
  deriving DecidableEq, Repr, Inhabited

inductive Val where
  | u64 (n : Nat) | u32 (n : Nat) | u8 (n : Nat)
  | bool (b : Bool) | unit | str (s : String) | null
  | loc (obj : Nat) (path : List Sel)
  | pair (a b : Val)
  | clo (env : List (String × Val)) (self : Option String) (params : List String) (body : Expr)
  | slice (obj off len cap : Nat)
  | sliceNil
  | structV (fs : List (String × Val))
  | sym (head : String) (args : List Val)       -- library names, types, partially applied globals
  deriving Repr, Inhabited

inductive HeapObj where
  | cell (v : Val)
  | arr (vs : List Val)
  | map (entries : List (Val × Val)) (dflt : Val)
  | lock (held : Bool)
  | waitgroup (n : Nat)
  | cond (lockObj : Nat) (waiting : List Nat := []) (woken : List Nat := [])   -- waiter ids, used by the strict semantics only
  deriving Repr, Inhabited

structure World where
  heap : Array HeapObj := #[]
  disk : Array (List Val) := #[]        -- lazily initialised 30-block disk of the generated tests
  /-- `false`: Perennial's semantics — `condWait` is release-then-acquire (it may always wake up), signal and broadcast do
  nothing. `true`: Go's `sync.Cond` — `Wait` returns only after a `Signal` (one waiter) or `Broadcast` (all waiters); used
  to check that a program which cannot deadlock in Go cannot deadlock as emitted either. `condWaitTimeout` may return by
  its timeout in both. -/
  strictCond : Bool := false
  deriving Inhabited, Repr

inductive Res (α : Type) where
  | ok (a : α) (w : World)
  | stuck (why : String)
  | diverged
  deriving Inhabited

abbrev Env := List (String × Val)

structure Prog where
  decls : List Decl

def Prog.find (p : Prog) (n : String) : Option Decl := p.decls.find? (fun d => d.name? == some n)

partial def Val.beq : Val → Val → Bool
  | .u64 a, .u64 b | .u32 a, .u32 b | .u8 a, .u8 b => a == b
  | .bool a, .bool b => a == b
  | .unit, .unit | .null, .null | .sliceNil, .sliceNil => true
  | .str a, .str b => a == b
  | .loc o p, .loc o' p' => o == o' && p == p'
  | .pair a b, .pair a' b' => Val.beq a a' && Val.beq b b'
  | .slice o f l c, .slice o' f' l' c' => o == o' && f == f' && l == l' && c == c'
  | .slice _ _ l _, .sliceNil => l == 0 && false
  | .structV fs, .structV gs => fs.length == gs.length && (fs.zip gs).all (fun (x, y) => x.1 == y.1 && Val.beq x.2 y.2)
  | .sym h as, .sym h' bs => h == h' && as.length == bs.length && (as.zip bs).all (fun (x, y) => Val.beq x y)
  | _, _ => false

def width : Val → Option (Nat × Nat)       -- (bits, value)
  | .u64 n => some (64, n) | .u32 n => some (32, n) | .u8 n => some (8, n) | _ => none

def mkInt (bits n : Nat) : Val :=
  let m := n % (2 ^ bits)
  if bits == 64 then .u64 m else if bits == 32 then .u32 m else .u8 m

/-- zero value of a type expression (already evaluated to a symbolic value) -/
partial def zeroVal (p : Prog) : Val → Option Val
  | .sym "uint64T" [] => some (.u64 0)
  | .sym "uint32T" [] => some (.u32 0)
  | .sym "byteT" [] => some (.u8 0)
  | .sym "boolT" [] => some (.bool false)
  | .sym "stringT" [] => some (.str "")
  | .sym "unitT" [] => some .unit
  | .sym "ptrT" [] | .sym "refT" _ | .sym "mapT" _ | .sym "ProphIdT" [] | .sym "anyT" [] | .sym "arrowT" _ => some .null
  | .sym "fileT" [] => some (.u64 0)
  | .sym "slice.T" _ | .sym "disk.blockT" [] => some .sliceNil
  | .sym "struct.t" [.sym s []] =>
    match p.find s with
    | some (.struct _ fs) => do
      -- field types are expressions over globals only: evaluate symbolically
      let vs ← fs.mapM (fun (f, te) => do
        let tv ← symOfTypeExpr te
        let z ← zeroVal p tv
        pure (f, z))
      some (.structV vs)
    | _ => none
  | .sym n [] =>
    -- a named type: Definition n: ty := t   or   Notation n := t
    match p.find n with
    | some (.typeDef _ te) | some (.notation _ te) => (symOfTypeExpr te) >>= zeroVal p
    | _ => none
  | _ => none
where
  symOfTypeExpr : Expr → Option Val
    | .gvar x => some (.sym x [])
    | .app (.gvar f) args => do
      let as ← args.mapM symOfTypeExpr
      some (.sym f as)
    | .binop _ _ _ => some (.sym "ptrT" [])     -- tuple / arrow types: never materialised
    | .tuple _ => some (.sym "ptrT" [])
    | _ => none

def World.alloc (w : World) (o : HeapObj) : World × Nat := ({ w with heap := w.heap.push o }, w.heap.size)

/-- read through a path inside a value -/
def getPath : Val → List Sel → Option Val
  | v, [] => some v
  | .structV fs, .field f :: rest => (fs.find? (·.1 == f)).bind (fun e => getPath e.2 rest)
  | _, _ => none

def setPath : Val → List Sel → Val → Option Val
  | _, [], x => some x
  | .structV fs, .field f :: rest, x =>
    if fs.any (·.1 == f) then
      some (.structV (fs.map (fun e => if e.1 == f then (e.1, (setPath e.2 rest x).getD e.2) else e)))
    else none
  | _, _, _ => none

def World.load (w : World) (obj : Nat) (path : List Sel) : Option Val :=
  match w.heap[obj]?, path with
  | some (.cell v), p => getPath v p
  | some (.arr vs), .index i :: p => vs[i]?.bind (getPath · p)
  | _, _ => none

def World.store (w : World) (obj : Nat) (path : List Sel) (x : Val) : Option World :=
  match w.heap[obj]?, path with
  | some (.cell v), p => (setPath v p x).map (fun v' => { w with heap := w.heap.set! obj (.cell v') })
  | some (.arr vs), .index i :: p =>
    match vs[i]? with
    | some old => (setPath old p x).map (fun v' => { w with heap := w.heap.set! obj (.arr (vs.set i v')) })
    | none => none
  | _, _ => none

def binopInt (op : String) (bits a b : Nat) : Option Val :=
  let m := 2 ^ bits
  match op with
  | "+" => some (mkInt bits (a + b))
  | "-" => some (mkInt bits (a + m - b))
  | "*" => some (mkInt bits (a * b))
  | "quot" => if b == 0 then none else some (mkInt bits (a / b))
  | "rem" => if b == 0 then none else some (mkInt bits (a % b))
  | "and" => some (mkInt bits (a &&& b))
  | "or" => some (mkInt bits (a ||| b))
  | "xor" => some (mkInt bits (a ^^^ b))
  | "≪" => some (mkInt bits (if b ≥ bits then 0 else a <<< b))
  | "≫" => some (mkInt bits (if b ≥ bits then 0 else a >>> b))
  | "<" => some (.bool (a < b))
  | "≤" => some (.bool (a ≤ b))
  | ">" => some (.bool (a > b))
  | "≥" => some (.bool (a ≥ b))
  | _ => none

def isNilLike : Val → Bool
  | .null | .sliceNil => true
  | _ => false

def evalBinop (op : String) (a b : Val) : Option Val :=
  match op with
  | "=" | "≠" =>
    -- HeapLang/GooseLang: equality is defined when one side is an unboxed literal (compare-safe) and is
    -- then plain structural equality, so values of different shapes or widths are simply different
    let unboxed : Val → Bool
      | .u64 _ | .u32 _ | .u8 _ | .bool _ | .unit | .str _ | .null | .loc _ _ => true
      | _ => false
    let eq :=
      match a, b with
      | .loc _ _, .null | .null, .loc _ _ => some false
      | .slice _ _ _ _, .sliceNil | .sliceNil, .slice _ _ _ _ => some false
      | .clo _ _ _ _, _ | _, .clo _ _ _ _ => none
      | _, _ =>
        match width a, width b with
        | some (wa, x), some (wb, y) => some (wa == wb && x == y)
        | some _, none | none, some _ => if unboxed a || unboxed b then some false else none
        -- structural equality on everything else (the repository's testStructConstructions compares struct values)
        | none, none => some (Val.beq a b)
    eq.map (fun e => .bool (if op == "=" then e else !e))
  | "+" =>
    match a, b with
    | .str x, .str y => some (.str (x ++ y))
    | _, _ => match width a, width b with
      | some (wa, x), some (wb, y) => if wa == wb then binopInt op wa x y else none
      | _, _ => none
  | "≪" | "≫" =>
    -- "shifts do not require matching bit width": the result has the width of the left operand
    match width a, width b with
    | some (wa, x), some (_, y) => binopInt op wa x y
    | _, _ => none
  | _ =>
    match width a, width b with
    | some (wa, x), some (wb, y) => if wa == wb then binopInt op wa x y else none
    | _, _ => none

/-- the names the interpreter implements itself, with their arities -/
def builtinArity : String → Option Nat
  | "ref" => some 1 | "ref_to" => some 2 | "zero_val" => some 1 | "zero_array" => some 2
  | "struct.mk" => some 2 | "struct.new" => some 2 | "struct.alloc" => some 2 | "struct.get" => some 3
  | "struct.loadF" => some 3 | "struct.storeF" => some 4 | "struct.load" => some 2 | "struct.store" => some 3
  | "struct.fieldRef" => some 3
  | "NewSlice" => some 2 | "NewSliceWithCap" => some 3 | "SliceSingleton" => some 1 | "slice.len" => some 1
  | "slice.cap" => some 1 | "SliceGet" => some 3 | "SliceSet" => some 4 | "SliceRef" => some 3
  | "SliceSkip" => some 3 | "SliceTake" => some 2 | "SliceSubslice" => some 4 | "SliceAppend" => some 3
  | "SliceAppendSlice" => some 3 | "SliceCopy" => some 3
  | "NewMap" => some 3 | "MapGet" => some 2 | "MapInsert" => some 3 | "MapDelete" => some 2 | "MapLen" => some 1
  | "MapIter" => some 2 | "MapClear" => some 1 | "Fst" => some 1 | "Snd" => some 1
  | "ForSlice" => some 5
  | "StringLength" => some 1 | "StringToBytes" => some 1 | "StringFromBytes" => some 1 | "uint64_to_string" => some 1
  | "to_u64" => some 1 | "to_u32" => some 1 | "to_u8" => some 1
  | "UInt64Put" => some 2 | "UInt64Get" => some 1 | "UInt32Put" => some 2 | "UInt32Get" => some 1
  | "Panic" => some 1 | "control.impl.Assert" => some 1 | "control.impl.Assume" => some 1 | "control.impl.Exit" => some 1
  | "Fork" => some 1
  | "lock.new" => some 1 | "lock.acquire" => some 1 | "lock.release" => some 1 | "lock.newCond" => some 1
  | "lock.condWait" => some 1 | "lock.condSignal" => some 1 | "lock.condBroadcast" => some 1 | "lock.condWaitTimeout" => some 2
  | "waitgroup.New" => some 1 | "waitgroup.Add" => some 2 | "waitgroup.Done" => some 1 | "waitgroup.Wait" => some 1
  | "disk.Read" => some 1 | "disk.Write" => some 2 | "disk.Size" => some 1 | "disk.Barrier" => some 1
  | "rand.RandomUint64" => some 1 | "time.Sleep" => some 1 | "time.TimeNow" => some 1
  | "NewProph" => some 1 | "ResolveProph" => some 2 | "Linearize" => some 0
  | _ => none

def natOf : Val → Option Nat
  | .u64 n | .u32 n | .u8 n => some n
  | _ => none

def bytesOfNat (n k : Nat) : List Val := (List.range k).map (fun i => .u8 ((n >>> (8 * i)) % 256))

def natOfBytes (vs : List Val) : Option Nat :=
  (vs.mapM natOf).map (fun bs => (bs.zipIdx.map (fun (b, i) => b <<< (8 * i))).foldl (· + ·) 0)

/-- Go's growth rule is not observable through the properties we compare; double, at least 1 more -/
def growCap (oldCap need : Nat) : Nat := max need (if oldCap == 0 then need else 2 * oldCap)

end GooseVerif.GL

namespace GooseVerif.GL

/-! ### the abstract machine (control / environment / continuation), one thread at a time -/

inductive Frame where
  | letK (names : List String) (body : Expr) (env : Env)
  | seqK (b : Expr) (env : Env)
  | ifK (t e : Expr) (env : Env)
  | argsK (f : Expr) (todo : List Expr) (done : List Val) (env : Env)   -- todo is in reverse order (right to left)
  | funK (args : List Val)
  | binR (op : String) (a : Expr) (env : Env)      -- right operand being evaluated
  | binL (op : String) (b : Val)                   -- left operand being evaluated
  | andK (b : Expr) (env : Env)
  | orK (b : Expr) (env : Env)
  | notK
  | loadK
  | storeV (dst : Expr) (env : Env)                -- value being evaluated, then the destination
  | storeD (v : Val)
  | tupleK (todo : List Expr) (done : List Val) (env : Env)
  | fieldsK (todo : List (String × Expr)) (done : List (String × Val)) (name : String) (env : Env)
  | forCondK (c p b : Val)                         -- the three closures of for:
  | forBodyK (c p b : Val)
  | forPostK (c p b : Val)
  | iterK (f : Val) (todo : List (List Val))       -- ForSlice / MapIter: remaining argument lists for f
  | discardK (v : Val)                             -- return v after the current evaluation
  | sliceIterK (f : Val) (s : Val) (i n : Nat)     -- ForSlice: element i is read when iteration i starts; n = length at loop start
  | acquireK (lockObj : Nat)                       -- second half of condWait
  | wakeK (condObj : Nat) (id : Nat)               -- strict semantics: parked until a signal/broadcast names this waiter
  deriving Inhabited, Repr

inductive Ctl where
  | eval (e : Expr) (env : Env)
  | ret (v : Val)
  | apply (f : Val) (args : List Val)
  deriving Inhabited, Repr

structure Thread where
  ctl : Ctl
  k : List Frame
  deriving Inhabited, Repr

inductive StepOut where
  | next (t : Thread) (w : World) (spawn : Option Thread) (sync : Bool)   -- sync: this step was a synchronisation operation
  | blocked
  | done (v : Val)
  | stuck (why : String)

def pairsOf : List Val → Val
  | [] => .unit
  | [v] => v
  | v :: w :: rest => rest.foldl (fun acc x => .pair acc x) (.pair v w)

/-- destructure a left-nested tuple into `n` components -/
def unpair : Nat → Val → Option (List Val)
  | 0, _ => some []
  | 1, v => some [v]
  | n + 2, .pair a b => (unpair (n + 1) a).map (· ++ [b])
  | _, _ => none

def bindNames (env : Env) (names : List String) (vs : List Val) : Env :=
  (names.zip vs).foldl (fun e (n, v) => if n == "_" then e else (n, v) :: e) env

def ensureDisk (w : World) : World :=
  if w.disk.size == 0 then { w with disk := Array.replicate 30 (List.replicate 4096 (.u8 0)) } else w

def sliceParts : Val → Option (Nat × Nat × Nat × Nat)
  | .slice o f l c => some (o, f, l, c)
  | .sliceNil => some (0, 0, 0, 0)
  | _ => none

def sliceElems (w : World) (s : Val) : Option (List Val) :=
  match s with
  | .sliceNil => some []
  | .slice o f l _ =>
    match w.heap[o]? with
    | some (.arr vs) => if f + l ≤ vs.length then some ((vs.drop f).take l) else none
    | _ => none
  | _ => none

def decString (n : Nat) : String := toString n

/-- Execute a builtin whose arguments are all evaluated. Returns the next control. -/
def runBuiltin (p : Prog) (w : World) (f : String) (args : List Val) (k : List Frame) : StepOut :=
  let ret (v : Val) (w : World) : StepOut := .next { ctl := .ret v, k := k } w none false
  let retS (v : Val) (w : World) : StepOut := .next { ctl := .ret v, k := k } w none true
  let stuck (m : String) : StepOut := .stuck (f ++ ": " ++ m)
  match f, args with
  | "ref", [v] => let (w', o) := w.alloc (.cell v); ret (.loc o []) w'
  | "ref_to", [_, v] => let (w', o) := w.alloc (.cell v); ret (.loc o []) w'
  | "zero_val", [t] => match zeroVal p t with | some z => ret z w | none => stuck "unknown type"
  | "zero_array", [t, n] =>
    match zeroVal p t, natOf n with
    | some z, some n => let (w', o) := w.alloc (.arr (List.replicate n z)); ret (.loc o []) w'
    | _, _ => stuck "bad arguments"
  | "struct.mk", [.sym s [], .structV given] | "struct.new", [.sym s [], .structV given] =>
    match zeroVal p (.sym "struct.t" [.sym s []]) with
    | some (.structV zs) =>
      if given.all (fun g => zs.any (·.1 == g.1)) then
        let v := Val.structV (zs.map (fun z => match given.find? (·.1 == z.1) with | some g => g | none => z))
        if f == "struct.new" then let (w', o) := w.alloc (.cell v); ret (.loc o []) w' else ret v w
      else stuck "unknown field"
    | _ => stuck ("unknown struct " ++ s)
  | "struct.alloc", [_, v] => let (w', o) := w.alloc (.cell v); ret (.loc o []) w'
  | "struct.get", [_, .str fld, v] =>
    match getPath v [.field fld] with | some x => ret x w | none => stuck ("no field " ++ fld ++ " in a value")
  | "struct.loadF", [_, .str fld, .loc o path] =>
    match w.load o (path ++ [.field fld]) with | some x => ret x w | none => stuck ("cannot load field " ++ fld)
  | "struct.storeF", [_, .str fld, .loc o path, x] =>
    match w.store o (path ++ [.field fld]) x with | some w' => ret .unit w' | none => stuck ("cannot store field " ++ fld)
  | "struct.load", [_, .loc o path] => match w.load o path with | some x => ret x w | none => stuck "bad pointer"
  | "struct.store", [_, .loc o path, x] => match w.store o path x with | some w' => ret .unit w' | none => stuck "bad pointer"
  | "struct.fieldRef", [_, .str fld, .loc o path] => ret (.loc o (path ++ [.field fld])) w
  | "NewSlice", [t, n] | "NewSliceWithCap", [t, n, _] =>
    match zeroVal p t, natOf n, (if f == "NewSlice" then natOf n else (args[2]?.bind natOf)) with
    | some z, some n, some c =>
      if c < n then stuck "cap < len" else
      -- NewSlice of size 0 is slice.nil in GooseLang (why the repository lists failing_testCompareSliceToNil)
      if c == 0 then ret .sliceNil w else
      let (w', o) := w.alloc (.arr (List.replicate c z)); ret (.slice o 0 n c) w'
    | _, _, _ => stuck "bad arguments"
  | "SliceSingleton", [v] => let (w', o) := w.alloc (.arr [v]); ret (.slice o 0 1 1) w'
  | "slice.len", [s] => match sliceParts s with | some (_, _, l, _) => ret (.u64 l) w | none => stuck "not a slice"
  | "slice.cap", [s] => match sliceParts s with | some (_, _, _, c) => ret (.u64 c) w | none => stuck "not a slice"
  | "SliceGet", [_, s, i] =>
    match sliceParts s, natOf i with
    | some (o, off, l, _), some i =>
      if i < l then match w.load o [.index (off + i)] with | some x => ret x w | none => stuck "bad slice" else stuck "index out of range"
    | _, _ => stuck "bad arguments"
  | "SliceSet", [_, s, i, x] =>
    match sliceParts s, natOf i with
    | some (o, off, l, _), some i =>
      if i < l then match w.store o [.index (off + i)] x with | some w' => ret .unit w' | none => stuck "bad slice" else stuck "index out of range"
    | _, _ => stuck "bad arguments"
  | "SliceRef", [_, s, i] =>
    match sliceParts s, natOf i with
    | some (o, off, l, _), some i => if i < l then ret (.loc o [.index (off + i)]) w else stuck "index out of range"
    | _, _ => stuck "bad arguments"
  | "SliceSkip", [_, s, n] =>
    match sliceParts s, natOf n with
    | some (o, off, l, c), some n => if n ≤ l then ret (if c == 0 then .sliceNil else .slice o (off + n) (l - n) (c - n)) w else stuck "out of range"
    | _, _ => stuck "bad arguments"
  | "SliceTake", [s, n] =>
    match sliceParts s, natOf n with
    | some (o, off, _, c), some n => if n ≤ c then ret (if c == 0 then .sliceNil else .slice o off n c) w else stuck "out of range"
    | _, _ => stuck "bad arguments"
  | "SliceSubslice", [_, s, a, b] =>
    match sliceParts s, natOf a, natOf b with
    | some (o, off, _, c), some a, some b =>
      if a ≤ b && b ≤ c then ret (if c == 0 then .sliceNil else .slice o (off + a) (b - a) (c - a)) w else stuck "out of range"
    | _, _, _ => stuck "bad arguments"
  | "SliceAppend", [_, s, x] | "SliceAppendSlice", [_, s, x] =>
    match sliceParts s, sliceElems w s, (if f == "SliceAppend" then some [x] else sliceElems w x) with
    | some (o, off, l, c), some old, some extra =>
      if extra.isEmpty then ret s w else      -- appending nothing (also to a nil slice) returns the slice itself
      if l + extra.length ≤ c then
        -- in place, into the shared backing array
        match w.heap[o]? with
        | some (.arr vs) =>
          let vs' := (vs.take (off + l)) ++ extra ++ (vs.drop (off + l + extra.length))
          ret (.slice o off (l + extra.length) c) { w with heap := w.heap.set! o (.arr vs') }
        | _ => stuck "bad slice"
      else
        let c' := growCap c (l + extra.length)
        let (w', o') := w.alloc (.arr (old ++ extra ++ List.replicate (c' - l - extra.length) (extra.headD (old.headD .unit))))
        ret (.slice o' 0 (l + extra.length) c') w'
    | _, _, _ => stuck "bad arguments"
  | "SliceCopy", [_, d, s] =>
    match sliceParts d, sliceElems w s with
    | some (o, off, l, _), some src =>
      let n := min l src.length
      if n == 0 then ret (.u64 0) w else
      match w.heap[o]? with
      | some (.arr vs) =>
        let vs' := vs.take off ++ src.take n ++ vs.drop (off + n)
        ret (.u64 n) { w with heap := w.heap.set! o (.arr vs') }
      | _ => stuck "bad slice"
    | _, _ => stuck "bad arguments"
  | "NewMap", [_, vt, _] =>
    match zeroVal p vt with
    | some z => let (w', o) := w.alloc (.map [] z); ret (.loc o []) w'
    | none => stuck "unknown value type"
  | "MapGet", [.loc o [], key] =>
    match w.heap[o]? with
    | some (.map es d) =>
      match es.find? (fun e => Val.beq e.1 key) with
      | some e => ret (.pair e.2 (.bool true)) w
      | none => ret (.pair d (.bool false)) w
    | _ => stuck "not a map"
  | "MapInsert", [.loc o [], key, x] =>
    match w.heap[o]? with
    | some (.map es d) =>
      let es' := if es.any (fun e => Val.beq e.1 key) then es.map (fun e => if Val.beq e.1 key then (e.1, x) else e) else es ++ [(key, x)]
      ret .unit { w with heap := w.heap.set! o (.map es' d) }
    | _ => stuck "not a map"
  | "MapDelete", [.loc o [], key] =>
    match w.heap[o]? with
    | some (.map es d) => ret .unit { w with heap := w.heap.set! o (.map (es.filter (fun e => !Val.beq e.1 key)) d) }
    | _ => stuck "not a map"
  | "MapLen", [.loc o []] =>
    match w.heap[o]? with | some (.map es _) => ret (.u64 es.length) w | _ => stuck "not a map"
  | "MapClear", [.loc o []] =>
    match w.heap[o]? with | some (.map _ d) => ret .unit { w with heap := w.heap.set! o (.map [] d) } | _ => stuck "not a map"
  | "MapIter", [.loc o [], fn] =>
    match w.heap[o]? with
    | some (.map es _) => .next { ctl := .ret .unit, k := .iterK fn (es.map (fun e => [e.1, e.2])) :: k } w none false
    | _ => stuck "not a map"
  | "ForSlice", [_, _, _, s, _] =>
    -- printed as: ForSlice ty "i" "x" s (body): the binders are strings, the body an expression that
    -- was evaluated in the caller's environment — handled in `step` (needs the syntax); never reached
    match s with | _ => stuck "internal: ForSlice is handled syntactically"
  | "Fst", [.pair a _] => ret a w
  | "Snd", [.pair _ b] => ret b w
  | "StringLength", [.str s] => ret (.u64 s.length) w
  | "StringToBytes", [.str s] =>
    let bs := s.toList.map (fun c => Val.u8 (c.toNat % 256))
    if bs.isEmpty then ret .sliceNil w else
    let (w', o) := w.alloc (.arr bs); ret (.slice o 0 bs.length bs.length) w'
  | "StringFromBytes", [s] =>
    match sliceElems w s with
    | some vs =>
      match vs.mapM natOf with
      | some ns => ret (.str (String.ofList (ns.map (fun n => Char.ofNat (n % 256))))) w
      | none => stuck "not bytes"
    | none => stuck "not a slice"
  | "uint64_to_string", [.u64 n] => ret (.str (decString n)) w
  | "to_u64", [v] => match natOf v with | some n => ret (mkInt 64 n) w | none => stuck "not an integer"
  | "to_u32", [v] => match natOf v with | some n => ret (mkInt 32 n) w | none => stuck "not an integer"
  | "to_u8", [v] => match natOf v with | some n => ret (mkInt 8 n) w | none => stuck "not an integer"
  | "UInt64Put", [s, .u64 n] | "UInt32Put", [s, .u32 n] =>
    let nb := if f == "UInt64Put" then 8 else 4
    match sliceParts s with
    | some (o, off, l, _) =>
      if l < nb then stuck "short buffer" else
      match w.heap[o]? with
      | some (.arr vs) => ret .unit { w with heap := w.heap.set! o (.arr (vs.take off ++ bytesOfNat n nb ++ vs.drop (off + nb))) }
      | _ => stuck "bad slice"
    | none => stuck "not a slice"
  | "UInt64Get", [s] | "UInt32Get", [s] =>
    let nb := if f == "UInt64Get" then 8 else 4
    match sliceElems w s with
    | some vs =>
      if vs.length < nb then stuck "short buffer" else
      match natOfBytes (vs.take nb) with
      | some n => ret (mkInt (8 * nb) n) w
      | none => stuck "not bytes"
    | none => stuck "not a slice"
  | "Panic", _ => stuck "Panic"
  | "control.impl.Assert", [.bool true] => ret .unit w
  | "control.impl.Assert", _ => stuck "Assert failed"
  | "control.impl.Assume", [.bool true] => ret .unit w
  | "control.impl.Assume", _ => .blocked          -- loops forever
  | "control.impl.Exit", _ => stuck "Exit"
  | "lock.new", _ => let (w', o) := w.alloc (.lock false); retS (.loc o []) w'
  | "lock.acquire", [.loc o []] =>
    match w.heap[o]? with
    | some (.lock false) => retS .unit { w with heap := w.heap.set! o (.lock true) }
    | some (.lock true) => .blocked
    | _ => stuck "not a lock"
  | "lock.release", [.loc o []] =>
    match w.heap[o]? with
    | some (.lock true) => retS .unit { w with heap := w.heap.set! o (.lock false) }
    | some (.lock false) => stuck "release of a free lock"
    | _ => stuck "not a lock"
  | "lock.newCond", [.loc o []] => let (w', c) := w.alloc (.cond o); retS (.loc c []) w'
  | "lock.condWait", [.loc c []] | "lock.condWaitTimeout", [.loc c [], _] =>
    match w.heap[c]? with
    | some (.cond l wt wk) =>
      match w.heap[l]? with
      | some (.lock true) =>
        if w.strictCond && f == "lock.condWait" then
          -- the smallest id not in use names this waiter; a signal sent later cannot be taken by a waiter that arrives later
          let id := ((List.range (wt.length + wk.length + 1)).find? (fun i => !(wt.contains i) && !(wk.contains i))).getD 0
          .next { ctl := .ret .unit, k := .wakeK c id :: .acquireK l :: k }
            { w with heap := (w.heap.set! l (.lock false)).set! c (.cond l (wt ++ [id]) wk) } none true
        else .next { ctl := .ret .unit, k := .acquireK l :: k } { w with heap := w.heap.set! l (.lock false) } none true
      | _ => stuck "condWait without holding the lock"
    | _ => stuck "not a condition variable"
  | "lock.condSignal", [.loc c []] =>
    match w.heap[c]? with
    | some (.cond l wt wk) =>
      match w.strictCond, wt with
      | true, id :: rest => retS .unit { w with heap := w.heap.set! c (.cond l rest (wk ++ [id])) }   -- the longest waiting one (as sync.Cond's notify list)
      | _, _ => retS .unit w
    | _ => stuck "not a condition variable"
  | "lock.condBroadcast", [.loc c []] =>
    match w.heap[c]? with
    | some (.cond l wt wk) => if w.strictCond then retS .unit { w with heap := w.heap.set! c (.cond l [] (wk ++ wt)) } else retS .unit w
    | _ => stuck "not a condition variable"
  | "waitgroup.New", _ => let (w', o) := w.alloc (.waitgroup 0); retS (.loc o []) w'
  | "waitgroup.Add", [.loc o [], n] =>
    match w.heap[o]?, natOf n with
    | some (.waitgroup c), some n => retS .unit { w with heap := w.heap.set! o (.waitgroup (c + n)) }
    | _, _ => stuck "not a wait group"
  | "waitgroup.Done", [.loc o []] =>
    match w.heap[o]? with
    | some (.waitgroup (c + 1)) => retS .unit { w with heap := w.heap.set! o (.waitgroup c) }
    | some (.waitgroup 0) => stuck "negative wait group counter"
    | _ => stuck "not a wait group"
  | "waitgroup.Wait", [.loc o []] =>
    match w.heap[o]? with
    | some (.waitgroup 0) => retS .unit w
    | some (.waitgroup _) => .blocked
    | _ => stuck "not a wait group"
  | "disk.Size", _ => ret (.u64 30) (ensureDisk w)
  | "disk.Barrier", _ => ret .unit w
  | "disk.Read", [a] =>
    let w1 := ensureDisk w
    match natOf a >>= (w1.disk[·]?) with
    | some blk => let (w', o) := w1.alloc (.arr blk); ret (.slice o 0 4096 4096) w'
    | none => stuck "out-of-bounds disk read"
  | "disk.Write", [a, s] =>
    let w1 := ensureDisk w
    match natOf a, sliceElems w1 s with
    | some a, some vs =>
      if a < w1.disk.size && vs.length == 4096 then ret .unit { w1 with disk := w1.disk.set! a vs } else stuck "bad disk write"
    | _, _ => stuck "bad arguments"
  | "rand.RandomUint64", _ => ret (.u64 4) w
  | "time.TimeNow", _ => ret (.u64 0) w
  | "time.Sleep", _ => retS .unit w
  | "NewProph", _ => ret .null w
  | "ResolveProph", _ => ret .unit w
  | _, _ => stuck "wrong kind or number of arguments"

end GooseVerif.GL

namespace GooseVerif.GL

def lookupEnv (env : Env) (x : String) : Option Val := (env.find? (·.1 == x)).map (·.2)

def closureOfDecl (name : String) (tps : List String) : Expr → Option Val
  | .recf f params body => some (.clo [] (some f) (tps ++ params) body)
  | .lam params body => some (.clo [] none (tps ++ params) body)
  | _ => if name == "" then none else none

def bitNot (v : Val) : Option Val :=
  match v with
  | .bool b => some (.bool (!b))
  | .u64 n => some (.u64 (2 ^ 64 - 1 - n))
  | .u32 n => some (.u32 (2 ^ 32 - 1 - n))
  | .u8 n => some (.u8 (2 ^ 8 - 1 - n))
  | _ => none

/-- One machine step of a thread. -/
def step (p : Prog) (w : World) (t : Thread) : StepOut :=
  let go (ctl : Ctl) (k : List Frame) : StepOut := .next { ctl := ctl, k := k } w none false
  match t.ctl with
  | .eval e env =>
    match e with
    | .lit (.u64 n) => go (.ret (.u64 (n % 2 ^ 64))) t.k
    | .lit (.u32 n) => go (.ret (.u32 (n % 2 ^ 32))) t.k
    | .lit (.u8 n) => go (.ret (.u8 (n % 2 ^ 8))) t.k
    | .lit (.bool b) => go (.ret (.bool b)) t.k
    | .lit .unit => go (.ret .unit) t.k
    | .lit (.str s) => go (.ret (.str s)) t.k
    | .lit .null => go (.ret .null) t.k
    | .anon => go (.ret .unit) t.k
    | .var x =>
      match lookupEnv env x with
      | some v => go (.ret v) t.k
      | none => .stuck ("unbound variable \"" ++ x ++ "\"")
    | .gvar x =>
      match lookupEnv env x with
      | some v => go (.ret v) t.k
      | none =>
        match p.find x with
        | some (.func n tps body) =>
          match closureOfDecl n tps body with
          | some c => go (.ret c) t.k
          | none => .stuck ("definition " ++ x ++ " is not a function")
        | some (.const _ body) => go (.eval body []) t.k
        | some _ => go (.ret (.sym x [])) t.k
        | none =>
          if x == "Skip" || x == "Linearize" then go (.ret .unit) t.k
          else if x == "slice.nil" then go (.ret .sliceNil) t.k
          else if x == "null" then go (.ret .null) t.k
          else if x == "Continue" then go (.ret (.bool true)) t.k
          else if x == "Break" then go (.ret (.bool false)) t.k
          else go (.ret (.sym x [])) t.k
    | .app (.gvar "Fork") [body] =>
      .next { ctl := .ret .unit, k := t.k } w (some { ctl := .eval body env, k := [] }) true
    | .app (.gvar "ForSlice") [_, kx, vx, s, body] =>
      let nameOf : Expr → String := fun b => match b with | .var n => n | _ => "_"
      go (.eval s env) (.funK [] :: .discardK (.clo env none [nameOf kx, nameOf vx] body) :: t.k)
    | .app f args =>
      -- the field-name argument of the struct primitives (and Panic's message) is a Gallina string,
      -- printed exactly like a GooseLang variable
      let args := match f, args with
        | .gvar h, a0 :: .var s :: rest =>
          if ["struct.get", "struct.loadF", "struct.storeF", "struct.fieldRef"].contains h then a0 :: .lit (.str s) :: rest else args
        | .gvar "Panic", [.var s] => [.lit (.str s)]
        | _, _ => args
      match args.reverse with
      | [] => go (.eval f env) t.k
      | a :: rest => go (.eval a env) (.argsK f rest [] env :: t.k)
    | .binop "&&" a b => go (.eval a env) (.andK b env :: t.k)
    | .binop "||" a b => go (.eval a env) (.orK b env :: t.k)
    | .binop op a b => go (.eval b env) (.binR op a env :: t.k)
    | .not a => go (.eval a env) (.notK :: t.k)
    | .letIn names e1 body => go (.eval e1 env) (.letK names body env :: t.k)
    | .seq a b => go (.eval a env) (.seqK b env :: t.k)
    | .ite c a b => go (.eval c env) (.ifK a b env :: t.k)
    | .lam params body => go (.ret (.clo env none params body)) t.k
    | .recf f params body => go (.ret (.clo env (some f) params body)) t.k
    | .load _ a => go (.eval a env) (.loadK :: t.k)
    | .store d _ v => go (.eval v env) (.storeV d env :: t.k)
    | .tuple es =>
      match es.reverse with
      | [] => go (.ret .unit) t.k
      | a :: rest => go (.eval a env) (.tupleK rest [] env :: t.k)
    | .forLoop c po b =>
      let cl : Expr → Val := fun x => match x with
        | .lam ps body => .clo env none ps body
        | other => .clo env none ["_"] other
      go (.apply (cl c) [.unit]) (.forCondK (cl c) (cl po) (cl b) :: t.k)
    | .fields fs =>
      match fs.reverse with
      | [] => go (.ret (.structV [])) t.k
      | (n, a) :: rest => go (.eval a env) (.fieldsK rest [] n env :: t.k)
    | .list [] => go (.ret (.structV [])) t.k
    | .list _ => .stuck "a bracketed list is not an expression"
  | .apply f args =>
    match f with
    | .clo cenv self params body =>
      if args.isEmpty then go (.ret f) t.k else
      let cenv1 := match self with | some s => (s, f) :: cenv | none => cenv
      if args.length < params.length then
        go (.ret (.clo (bindNames cenv1 (params.take args.length) args) none (params.drop args.length) body)) t.k
      else
        let env' := bindNames cenv1 params (args.take params.length)
        let extra := args.drop params.length
        if params.isEmpty then
          -- a thunk `λ: <>, e` printed with binder `<>` is params = ["_"]; no parameters at all cannot happen
          .stuck "application of a closure without parameters"
        else go (.eval body env') (if extra.isEmpty then t.k else .funK extra :: t.k)
    | .sym h as =>
      let all := as ++ args
      match builtinArity h with
      | some n =>
        if all.length ≥ n then
          let rest := all.drop n
          runBuiltin p w h (all.take n) (if rest.isEmpty then t.k else .funK rest :: t.k)
        else go (.ret (.sym h all)) t.k
      | none => go (.ret (.sym h all)) t.k
    | _ => if args.isEmpty then go (.ret f) t.k else .stuck "application of a non-function"
  | .ret v =>
    match t.k with
    | [] => .done v
    | fr :: k =>
      match fr with
      | .letK names body env =>
        match unpair names.length v with
        | some vs => go (.eval body (bindNames env names vs)) k
        | none => .stuck "let: cannot destructure the value"
      | .seqK b env => go (.eval b env) k
      | .ifK a b env =>
        match v with
        | .bool true => go (.eval a env) k
        | .bool false => go (.eval b env) k
        | _ => .stuck "if: on a non-boolean"
      | .argsK f todo done env =>
        match todo with
        | a :: rest => go (.eval a env) (.argsK f rest (v :: done) env :: k)
        | [] => go (.eval f env) (.funK (v :: done) :: k)
      | .funK args => go (.apply v args) k
      | .binR op a env => go (.eval a env) (.binL op v :: k)
      | .binL op b =>
        match evalBinop op v b with
        | some r => go (.ret r) k
        | none => .stuck ("binary operator " ++ op ++ " on operands it is not defined for")
      | .andK b env =>
        match v with
        | .bool true => go (.eval b env) k
        | .bool false => go (.ret (.bool false)) k
        | _ => .stuck "&& on a non-boolean"
      | .orK b env =>
        match v with
        | .bool true => go (.ret (.bool true)) k
        | .bool false => go (.eval b env) k
        | _ => .stuck "|| on a non-boolean"
      | .notK => match bitNot v with | some r => go (.ret r) k | none => .stuck "~ on a non-boolean, non-integer"
      | .loadK =>
        match v with
        | .loc o path => match w.load o path with | some x => go (.ret x) k | none => .stuck "load through a bad pointer"
        | _ => .stuck "load of a non-pointer"
      | .storeV d env => go (.eval d env) (.storeD v :: k)
      | .storeD x =>
        match v with
        | .loc o path =>
          match w.store o path x with
          | some w' => .next { ctl := .ret .unit, k := k } w' none false
          | none => .stuck "store through a bad pointer"
        | _ => .stuck "store to a non-pointer"
      | .tupleK todo done env =>
        match todo with
        | a :: rest => go (.eval a env) (.tupleK rest (v :: done) env :: k)
        | [] => go (.ret (pairsOf (v :: done))) k
      | .fieldsK todo done n env =>
        match todo with
        | (n', a) :: rest => go (.eval a env) (.fieldsK rest ((n, v) :: done) n' env :: k)
        | [] => go (.ret (.structV ((n, v) :: done))) k
      | .forCondK c po b =>
        match v with
        | .bool true => go (.apply b [.unit]) (.forBodyK c po b :: k)
        | .bool false => go (.ret .unit) k
        | _ => .stuck "for: condition is not a boolean"
      | .forBodyK c po b =>
        match v with
        | .bool true => go (.apply po [.unit]) (.forPostK c po b :: k)
        | .bool false => go (.ret .unit) k
        | _ => .stuck "for: the body did not evaluate to Continue or Break"
      | .forPostK c po b => go (.apply c [.unit]) (.forCondK c po b :: k)
      | .iterK f todo =>
        match todo with
        | args :: rest => go (.apply f args) (.iterK f rest :: k)
        | [] => go (.ret .unit) k
      | .discardK x =>
        -- used by ForSlice: `v` is the evaluated slice, `x` the loop-body closure
        match sliceElems w v with
        | some vs => go (.ret .unit) (.sliceIterK x v 0 vs.length :: k)
        | none => .stuck "ForSlice over a non-slice"
      | .sliceIterK f sl i n =>
        if i < n then
          match sliceElems w sl with
          | some vs =>
            match vs[i]? with
            | some e => go (.apply f [.u64 i, e]) (.sliceIterK f sl (i + 1) n :: k)
            | none => .stuck "ForSlice: element out of range"
          | none => .stuck "ForSlice over a non-slice"
        else go (.ret .unit) k
      | .wakeK c id =>
        match w.heap[c]? with
        | some (.cond l wt wk) =>
          if wk.contains id then .next { ctl := .ret .unit, k := k } { w with heap := w.heap.set! c (.cond l wt (wk.erase id)) } none true
          else .blocked
        | _ => .stuck "not a condition variable"
      | .acquireK l =>
        match w.heap[l]? with
        | some (.lock false) => .next { ctl := .ret .unit, k := k } { w with heap := w.heap.set! l (.lock true) } none true
        | some (.lock true) => .blocked
        | _ => .stuck "not a lock"

/-- Outcome of running a program from one call. -/
inductive Outcome where
  | value (v : Val) (w : World)
  | stuck (why : String)
  | deadlock
  | outOfFuel
  deriving Inhabited

/-- Sequential scheduler: the running thread keeps the processor until it blocks or finishes; forked
threads are queued; the result is the main thread's (index 0). -/
partial def runThreads (p : Prog) (fuel : Nat) (w : World) (threads : Array (Option Thread)) (cur : Nat) (blockedSince : Nat) : Outcome :=
  if fuel == 0 then .outOfFuel else
  match threads[cur]? with
  | some (some t) =>
    match step p w t with
    | .next t' w' sp _ =>
      let ths := threads.set! cur (some t')
      let ths := match sp with | some nt => ths.push (some nt) | none => ths
      runThreads p (fuel - 1) w' ths cur 0
    | .done v =>
      if cur == 0 then .value v w
      else
        let ths := threads.set! cur none
        runThreads p (fuel - 1) w ths ((cur + 1) % ths.size) 0
    | .blocked =>
      if blockedSince ≥ threads.size then .deadlock
      else runThreads p (fuel - 1) w threads ((cur + 1) % threads.size) (blockedSince + 1)
    | .stuck why => .stuck why
  | _ =>
    if blockedSince ≥ threads.size then .deadlock
    else runThreads p (fuel - 1) w threads ((cur + 1) % threads.size) (blockedSince + 1)

def runCall (p : Prog) (fuel : Nat) (fn : String) (args : List Val) : Outcome :=
  let call : Ctl := if args.isEmpty then .eval (.app (.gvar fn) [.lit .unit]) [] else .eval (.gvar fn) []
  let k : List Frame := if args.isEmpty then [] else [.funK args]
  runThreads p fuel {} #[some { ctl := call, k := k }] 0 0

/-! ### canonical rendering of a result and everything reachable from it -/

def hexOfString (s : String) : String :=
  let hexd (n : Nat) : Char := if n < 10 then Char.ofNat (48 + n) else Char.ofNat (87 + n)
  String.ofList (s.toList.flatMap (fun c => [hexd (c.toNat % 256 / 16), hexd (c.toNat % 16)]))

partial def showVal (w : World) (depth : Nat) : Val → String
  | .u64 n => s!"u64:{n}"
  | .u32 n => s!"u32:{n}"
  | .u8 n => s!"u8:{n}"
  | .bool b => if b then "true" else "false"
  | .unit => "()"
  | .str s => "s:" ++ hexOfString s
  | .null => "null"
  | .sliceNil => "[]"
  | .pair a b => "(" ++ ",".intercalate (flattenPair (.pair a b) |>.map (showVal w depth)) ++ ")"
  | .structV fs => "{" ++ ",".intercalate (fs.map (fun f => textView f.1 ++ "=" ++ showVal w depth f.2)) ++ "}"
  | .clo _ _ _ _ => "<func>"
  | .sym h _ => "<" ++ h ++ ">"
  | .slice o f l c =>
    if depth == 0 then "[…]" else
    match sliceElems w (.slice o f l c) with
    | some vs => "[" ++ ",".intercalate (vs.map (showVal w (depth - 1))) ++ "]"
    | none => "[bad]"
  | .loc o path =>
    if depth == 0 then "&…" else
    match w.heap[o]?, path with
    | some (.map es _), [] =>
      let items := (es.map (fun e => showVal w (depth - 1) e.1 ++ "=" ++ showVal w (depth - 1) e.2)).mergeSort (fun a b => decide (a ≤ b))
      "map{" ++ ",".intercalate items ++ "}"
    | some (.lock _), _ => "<lock>"
    | some (.waitgroup _), _ => "<waitgroup>"
    | some (.cond _ _ _), _ => "<cond>"
    | _, _ =>
      match w.load o path with
      | some v => "&" ++ showVal w (depth - 1) v
      | none => "&bad"
where
  flattenPair : Val → List Val
    | .pair a b => flattenPair a ++ [b]
    | v => [v]

end GooseVerif.GL
