/-
Abstract syntax of the GooseLang/Coq text that goose emits (one constructor per printing form of
`internal/coq/coq.go`), and of the vernacular declarations around it.  Core Lean only.
-/
namespace GooseVerif.GL

inductive Lit where
  | u64 (n : Nat)
  | u32 (n : Nat)
  | u8 (n : Nat)
  | bool (b : Bool)
  | unit
  | str (s : String)
  | null
  deriving DecidableEq, Repr, Inhabited

inductive Expr where
  | lit (l : Lit)
  | var (x : String)                                   -- "x": a GooseLang variable / Gallina string
  | gvar (x : String)                                  -- a Gallina identifier (possibly qualified)
  | anon                                               -- <>
  | app (f : Expr) (args : List Expr)                  -- f a₁ … aₙ
  | binop (op : String) (a b : Expr)
  | not (e : Expr)                                     -- ~ e
  | letIn (binders : List String) (e body : Expr)      -- let: "x" := e in body; tuples are left-nested
  | seq (a b : Expr)                                   -- a ;; b
  | ite (c t e : Expr)
  | lam (params : List String) (body : Expr)           -- λ: x y, body
  | recf (f : String) (params : List String) (body : Expr)   -- rec: "f" x y := body
  | load (ty e : Expr)                                 -- ![ty] e
  | store (dst ty v : Expr)                            -- dst <-[ty] v
  | tuple (es : List Expr)                             -- (a, b, c)
  | forLoop (cond post body : Expr)                    -- for: (λ: <>, c); (λ: <>, p) := λ: <>, body
  | fields (fs : List (String × Expr))                 -- [ "a" ::= e; … ]  and  [ "a" :: ty; … ]
  | list (es : List Expr)                              -- [ e; … ] (other bracketed lists)
  deriving Repr, Inhabited

inductive Decl where
  | func (name : String) (typeParams : List String) (body : Expr)      -- Definition f (T:ty)… : val := rec: …
  | const (name : String) (body : Expr)                                -- Definition c : expr := e
  | struct (name : String) (fields : List (String × Expr))             -- Definition S := struct.decl [ … ]
  | typeDef (name : String) (ty : Expr)                                -- Definition T: ty := t
  | notation (name : String) (ty : Expr)                               -- Notation A := t (only parsing)
  | other (keyword : String)                                           -- Theorem / Proof / Hint / Section / From …
  deriving Repr, Inhabited

def Decl.name? : Decl → Option String
  | .func n _ _ | .const n _ | .struct n _ | .typeDef n _ | .notation n _ => some n
  | .other _ => none

/-- GooseLang strings are Coq strings: lists of bytes. A string is represented by a Lean `String`
with one character below 256 per byte (the UTF-8 bytes of the text between the quotes). -/
def bytesView (s : String) : String := String.ofList (s.toUTF8.toList.map (fun b => Char.ofNat b.toNat))

/-- inverse of `bytesView` on valid UTF-8, for display -/
def textView (s : String) : String :=
  match String.fromUTF8? (ByteArray.mk (s.toList.map (fun c => UInt8.ofNat c.toNat)).toArray) with
  | some t => t
  | none => s

end GooseVerif.GL
