/-
C04, "distinct declarations yield distinct names": a method `m` of type `T` is emitted under the
name `T__m` (`coq.MethodName`).  The name determines `T` and `m` provided `T` contains no double
underscore and does not end in an underscore; otherwise two different (type, method) pairs — or a
method and a plain function — can collide (known finding).
-/
namespace GooseVerif.Lemmas.Names

/-- `coq.MethodName` on character lists -/
def methodName (t m : List Char) : List Char := t ++ '_' :: '_' :: m

/-- split at the FIRST double underscore -/
def splitDU : List Char → Option (List Char × List Char)
  | [] => none
  | [_] => none
  | c :: d :: rest =>
    if c = '_' ∧ d = '_' then some ([], rest)
    else (splitDU (d :: rest)).map (fun p => (c :: p.1, p.2))

/-- no double underscore inside, and the last character is not an underscore -/
def Clean : List Char → Prop
  | [] => True
  | [c] => c ≠ '_'
  | c :: d :: rest => ¬ (c = '_' ∧ d = '_') ∧ Clean (d :: rest)

theorem splitDU_methodName (t m : List Char) (h : Clean t) : splitDU (methodName t m) = some (t, m) := by
  induction t with
  | nil => simp [methodName, splitDU]
  | cons c t ih =>
    cases t with
    | nil =>
      have hc : c ≠ '_' := h
      simp [methodName, splitDU, hc]
    | cons d rest =>
      obtain ⟨h1, h2⟩ := h
      have := ih h2
      simp only [methodName, List.cons_append] at this ⊢
      simp only [splitDU, h1, if_false, this, Option.map_some]

/-- The emitted method name determines the receiver type and the method. -/
theorem methodName_injective (t t' m m' : List Char) (h : Clean t) (h' : Clean t')
    (e : methodName t m = methodName t' m') : t = t' ∧ m = m' := by
  have a := splitDU_methodName t m h
  have b := splitDU_methodName t' m' h'
  rw [e, b] at a
  simp only [Option.some.injEq, Prod.mk.injEq] at a
  exact ⟨a.1.symm, a.2.symm⟩

/-- A plain function whose name contains no double underscore never collides with a method name. -/
theorem function_name_differs (f t m : List Char) (hf : splitDU f = none) (ht : Clean t) : f ≠ methodName t m := by
  intro e
  rw [e, splitDU_methodName t m ht] at hf
  cases hf

/-- the collision behind the known finding: `T_` / `x` and `T` / `_x` print the same name -/
theorem unclean_names_collide :
    methodName "T_".toList "x".toList = methodName "T".toList "_x".toList ∧ ("T_".toList, "x".toList) ≠ ("T".toList, "_x".toList) := by
  decide

end GooseVerif.Lemmas.Names
