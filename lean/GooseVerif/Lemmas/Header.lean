import GooseVerif.Model.Header

namespace GooseVerif.Model.Header

def leS (a b : String) : Bool := decide (a ≤ b)

theorem leS_trans (a b c : String) : leS a b = true → leS b c = true → leS a c = true := by
  simp only [leS, decide_eq_true_eq]; exact String.le_trans

theorem leS_total (a b : String) : (leS a b || leS b a) = true := by
  simp only [leS, Bool.or_eq_true, decide_eq_true_eq]; exact String.le_total a b

theorem sortS_sorted (l : List String) : (l.mergeSort leS).Pairwise (fun a b => leS a b = true) :=
  List.pairwise_mergeSort leS_trans leS_total l

/-- Sorting is invariant under permutation of the input. -/
theorem sortS_perm (l1 l2 : List String) (h : l1.Perm l2) : l1.mergeSort leS = l2.mergeSort leS := by
  apply List.Perm.eq_of_pairwise (le := fun a b => leS a b = true)
  · intro a b _ _ hab hba
    simp only [leS, decide_eq_true_eq] at hab hba
    exact String.le_antisymm hab hba
  · exact sortS_sorted l1
  · exact sortS_sorted l2
  · exact ((List.mergeSort_perm l1 leS).trans h).trans (List.mergeSort_perm l2 leS).symm

theorem mem_dedup (l : List String) (x : String) : x ∈ dedup l ↔ x ∈ l := by
  induction l with
  | nil => simp [dedup]
  | cons y ys ih =>
    simp only [dedup]
    split
    · rename_i hc
      simp only [List.mem_cons, ih]
      constructor
      · exact Or.inr
      · rintro (rfl | h)
        · simpa using hc
        · exact h
    · simp [ih]

theorem nodup_dedup (l : List String) : (dedup l).Nodup := by
  induction l with
  | nil => simp [dedup]
  | cons y ys ih =>
    simp only [dedup]
    split
    · exact ih
    · rename_i hc
      simp only [List.nodup_cons, mem_dedup]
      exact ⟨by simpa using hc, ih⟩

theorem mapChar_ne (c : Char) : mapChar c ≠ '.' ∧ mapChar c ≠ '-' := by
  unfold mapChar
  split
  · exact ⟨by decide, by decide⟩
  · rename_i h
    simp only [Bool.or_eq_true, beq_iff_eq, not_or] at h
    exact h

end GooseVerif.Model.Header
