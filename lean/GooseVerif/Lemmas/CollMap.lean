/-
Helper lemmas for the collections theorem, part 4: maps as association lists without duplicate keys
(lookup after insert/delete, the keys, the length), and the ORDER of `range` over a map: for bodies that only
accumulate (`accumBody`), running the loop over any permutation of the entries gives the same heap.
-/
import GooseVerif.Lemmas.Coll

set_option linter.unusedSimpArgs false

namespace GooseVerif.Model.Coll
open GooseVerif.Model.Heap (look lookStk bindStk Res ofOpt Res.bind_ok ofOpt_ok)

/-! ### association lists -/

def keys (es : List (Nat × Nat)) : List Nat := es.map (·.1)

theorem mapFind_ins (es : List (Nat × Nat)) (k x k' : Nat) :
    mapFind (mapIns es k x) k' = if k' = k then some x else mapFind es k' := by
  induction es with
  | nil =>
    by_cases h : k' = k
    · simp [mapIns, mapFind, h]
    · have h' : ¬ k = k' := fun e => h e.symm
      simp [mapIns, mapFind, h, h']
  | cons p es ih =>
    obtain ⟨a, b⟩ := p
    by_cases ha : a = k
    · subst ha
      by_cases h : k' = a
      · simp [mapIns, mapFind, h]
      · have h' : ¬ a = k' := fun e => h e.symm
        simp [mapIns, mapFind, h, h']
    · by_cases hk : a = k'
      · subst hk
        simp [mapIns, mapFind, ha]
      · simp [mapIns, mapFind, ha, hk, ih]

theorem mapFind_del (es : List (Nat × Nat)) (k k' : Nat) :
    mapFind (mapDel es k) k' = if k' = k then none else mapFind es k' := by
  induction es with
  | nil => simp [mapDel, mapFind]
  | cons p es ih =>
    obtain ⟨a, b⟩ := p
    by_cases ha : a = k
    · subst ha
      by_cases h : k' = a
      · subst h
        simp [mapDel, ih]
      · have h' : ¬ a = k' := fun e => h e.symm
        simp [mapDel, mapFind, ih, h, h']
    · by_cases hk : a = k'
      · subst hk
        simp [mapDel, mapFind, ha]
      · simp [mapDel, mapFind, ha, hk, ih]

theorem mapFind_isSome (es : List (Nat × Nat)) (k : Nat) : (mapFind es k).isSome = true ↔ k ∈ keys es := by
  induction es with
  | nil => simp [mapFind, keys]
  | cons p es ih =>
    obtain ⟨a, b⟩ := p
    by_cases ha : a = k
    · simp [mapFind, keys, ha]
    · have h' : ¬ k = a := fun e => ha e.symm
      simp only [mapFind, ha, if_false, ih]
      simp [keys, h']

theorem mapFind_none (es : List (Nat × Nat)) (k : Nat) : mapFind es k = none ↔ k ∉ keys es := by
  rw [← mapFind_isSome]
  cases mapFind es k <;> simp

theorem keys_ins (es : List (Nat × Nat)) (k x : Nat) :
    keys (mapIns es k x) = if k ∈ keys es then keys es else keys es ++ [k] := by
  induction es with
  | nil => simp [mapIns, keys]
  | cons p es ih =>
    obtain ⟨a, b⟩ := p
    by_cases ha : a = k
    · simp [mapIns, keys, ha]
    · have h' : ¬ k = a := fun e => ha e.symm
      simp only [mapIns, ha, if_false]
      simp only [keys, List.map_cons, List.mem_cons, h', false_or] at ih ⊢
      rw [ih]
      split <;> simp [*]

theorem keys_del (es : List (Nat × Nat)) (k : Nat) : keys (mapDel es k) = (keys es).filter (fun a => a != k) := by
  induction es with
  | nil => simp [mapDel, keys]
  | cons p es ih =>
    obtain ⟨a, b⟩ := p
    by_cases ha : a = k
    · simp only [mapDel, ha, if_true]
      simp only [keys] at ih ⊢
      simp [ih]
    · simp only [mapDel, ha, if_false]
      simp only [keys] at ih ⊢
      simp [ih, ha]

/-- insert and delete keep the keys free of duplicates -/
theorem nodup_ins {es : List (Nat × Nat)} (h : (keys es).Nodup) (k x : Nat) : (keys (mapIns es k x)).Nodup := by
  rw [keys_ins]
  split
  · exact h
  · next hk =>
    rw [List.nodup_append]
    refine ⟨h, by simp, ?_⟩
    intro a ha b hb
    simp at hb
    subst hb
    intro e
    subst e
    exact hk ha

theorem nodup_del {es : List (Nat × Nat)} (h : (keys es).Nodup) (k : Nat) : (keys (mapDel es k)).Nodup := by
  rw [keys_del]
  exact h.filter _

theorem length_keys (es : List (Nat × Nat)) : (keys es).length = es.length := by simp [keys]

theorem length_ins (es : List (Nat × Nat)) (k x : Nat) :
    (mapIns es k x).length = if k ∈ keys es then es.length else es.length + 1 := by
  rw [← length_keys, keys_ins]
  split <;> simp [keys]

theorem length_del {es : List (Nat × Nat)} (h : (keys es).Nodup) (k : Nat) :
    (mapDel es k).length = if k ∈ keys es then es.length - 1 else es.length := by
  induction es with
  | nil => simp [mapDel, keys]
  | cons p es ih =>
    obtain ⟨a, b⟩ := p
    have hcons : keys ((a, b) :: es) = a :: keys es := rfl
    rw [hcons] at h ⊢
    rw [List.nodup_cons] at h
    have ih := ih h.2
    by_cases ha : a = k
    · subst ha
      simp only [mapDel, if_true, List.mem_cons, true_or, List.length_cons, Nat.add_sub_cancel]
      rw [ih]
      simp [h.1]
    · have h' : ¬ k = a := fun e => ha e.symm
      simp only [mapDel, ha, if_false, List.length_cons, List.mem_cons, h', false_or, ih]
      by_cases hk : k ∈ keys es
      · have : 0 < es.length := by
          rw [← length_keys]
          exact List.length_pos_of_mem hk
        simp only [hk, if_true]
        omega
      · simp [hk]

/-! ### histories of inserts and deletes -/

inductive MapOp where
  | ins (k v : Nat)
  | del (k : Nat)
  deriving Repr, DecidableEq

/-- the entries after a history (most recent operation first), starting from the empty map -/
def stateOf : List MapOp → List (Nat × Nat)
  | [] => []
  | .ins k v :: h => mapIns (stateOf h) k v
  | .del k :: h => mapDel (stateOf h) k

/-- the value the history leaves for `k`: that of the most recent insert not followed by a delete -/
def valueOf : List MapOp → Nat → Option Nat
  | [], _ => none
  | .ins k v :: h, k' => if k' = k then some v else valueOf h k'
  | .del k :: h, k' => if k' = k then none else valueOf h k'

theorem stateOf_nodup (h : List MapOp) : (keys (stateOf h)).Nodup := by
  induction h with
  | nil => simp [stateOf, keys]
  | cons op h ih =>
    cases op with
    | ins k v => exact nodup_ins ih k v
    | del k => exact nodup_del ih k

theorem stateOf_find (h : List MapOp) (k : Nat) : mapFind (stateOf h) k = valueOf h k := by
  induction h with
  | nil => rfl
  | cons op h ih =>
    cases op with
    | ins a v => simp [stateOf, valueOf, mapFind_ins, ih]
    | del a => simp [stateOf, valueOf, mapFind_del, ih]

/-! ### the loop variables' scope -/

theorem look_loopScope (k v : Option String) (kk vv : Nat) (x : String) :
    look x (loopScope k v kk vv) =
      if v = some x then some (.val (.num vv)) else if k = some x then some (.val (.num kk)) else none := by
  cases k with
  | none =>
    cases v with
    | none => simp [loopScope, bindO, look]
    | some b =>
      by_cases hb : b = x
      · simp [loopScope, bindO, look, hb]
      · simp [loopScope, bindO, look, hb]
  | some a =>
    cases v with
    | none =>
      by_cases ha : a = x
      · simp [loopScope, bindO, look, ha]
      · simp [loopScope, bindO, look, ha]
    | some b =>
      by_cases hb : b = x
      · simp [loopScope, bindO, look, hb]
      · by_cases ha : a = x
        · simp [loopScope, bindO, look, hb, ha]
        · simp [loopScope, bindO, look, hb, ha]

/-- the value of an expression over the loop variables -/
def evalKV (k v : Option String) (kk vv : Nat) : Exp → Nat
  | .lit n => n
  | .var x => if v = some x then vv else kk
  | .add a b => evalKV k v kk vv a + evalKV k v kk vv b
  | .mul a b => evalKV k v kk vv a * evalKV k v kk vv b
  | _ => 0

theorem eval_kvExp (k v : Option String) (kk vv : Nat) (st : Stack) (G : GHeap) :
    (e : Exp) → kvExp k v e = true → evalE (loopScope k v kk vv :: st) G e = .ok (.num (evalKV k v kk vv e), G)
  | .lit n, _ => by simp [evalE, evalKV]
  | .var x, h => by
    simp only [kvExp, Bool.or_eq_true, beq_iff_eq] at h
    simp only [evalE, lookStk, look_loopScope, evalKV]
    by_cases hv : v = some x
    · simp [hv, ofOpt, Res.bind]
    · have hk : k = some x := by
        rcases h with h | h
        · exact h
        · exact absurd h hv
      simp [hv, hk, ofOpt, Res.bind]
  | .add a b, h => by
    simp only [kvExp, Bool.and_eq_true] at h
    simp [evalE, eval_kvExp k v kk vv st G a h.1, eval_kvExp k v kk vv st G b h.2, Res.bind, asNum, evalKV]
  | .mul a b, h => by
    simp only [kvExp, Bool.and_eq_true] at h
    simp [evalE, eval_kvExp k v kk vv st G a h.1, eval_kvExp k v kk vv st G b h.2, Res.bind, asNum, evalKV]
  | .blit _, h => by simp [kvExp] at h
  | .cmp _ _ _, h => by simp [kvExp] at h
  | .mkMap _, h => by simp [kvExp] at h
  | .asM _, h => by simp [kvExp] at h
  | .mkMapK32, h => by simp [kvExp] at h
  | .mapGet _ _, h => by simp [kvExp] at h
  | .mapLen _, h => by simp [kvExp] at h
  | .mkSlice _, h => by simp [kvExp] at h
  | .mkSliceCap _ _, h => by simp [kvExp] at h
  | .idx _ _, h => by simp [kvExp] at h
  | .len _, h => by simp [kvExp] at h
  | .cap _, h => by simp [kvExp] at h
  | .sub _ _ _, h => by simp [kvExp] at h
  | .take _ _, h => by simp [kvExp] at h
  | .skip _ _, h => by simp [kvExp] at h

/-! ### adding to cells -/

/-- add `oc.2` to the number in cell `oc.1`; anything else is left alone -/
def addT (G : GHeap) (oc : Nat × Nat) : GHeap :=
  match getCell G oc.1 with
  | some (.num n) => G.set oc.1 (.cell (.num (n + oc.2)))
  | _ => G

theorem addT_def (G : GHeap) (oc : Nat × Nat) :
    addT G oc = match getCell G oc.1 with
      | some (.num n) => G.set oc.1 (.cell (.num (n + oc.2)))
      | _ => G := rfl

def isNumCell (G : GHeap) (o : Nat) : Bool :=
  match getCell G o with
  | some (.num _) => true
  | _ => false

/-- what Go does: fails unless the cell holds a number -/
def addCell (G : GHeap) (oc : Nat × Nat) : Res GHeap :=
  match getCell G oc.1 with
  | some (.num n) => .ok (G.set oc.1 (.cell (.num (n + oc.2))))
  | _ => .bad

theorem addCell_eq (G : GHeap) (oc : Nat × Nat) :
    addCell G oc = if isNumCell G oc.1 then .ok (addT G oc) else .bad := by
  unfold addCell addT isNumCell
  cases getCell G oc.1 with
  | none => rfl
  | some w => cases w <;> rfl

theorem getCell_set_cell (G : GHeap) (o o' : Nat) (w : Val) (h : ∃ w0, getCell G o = some w0) :
    getCell (G.set o (.cell w)) o' = if o' = o then some w else getCell G o' := by
  obtain ⟨w0, hw0⟩ := h
  have hlt : o < G.length := by
    unfold getCell at hw0
    rcases Nat.lt_or_ge o G.length with hlt | hge
    · exact hlt
    · rw [List.getElem?_eq_none hge] at hw0
      simp at hw0
  by_cases ho : o' = o
  · subst ho
    simp [getCell, hlt]
  · have hne : o ≠ o' := fun e => ho e.symm
    simp [getCell, List.getElem?_set_ne hne, ho]

theorem getCell_addT (G : GHeap) (oc : Nat × Nat) (o' : Nat) :
    getCell (addT G oc) o' =
      if o' = oc.1 then (match getCell G oc.1 with | some (.num n) => some (.num (n + oc.2)) | w => w)
      else getCell G o' := by
  unfold addT
  match hc : getCell G oc.1 with
  | some (.num n) =>
    simp only []
    rw [getCell_set_cell G oc.1 o' _ ⟨_, hc⟩]
  | some (.bool b) =>
    simp only []
    by_cases ho : o' = oc.1
    · simp [ho, hc]
    · simp [ho]
  | some (.map b) =>
    simp only []
    by_cases ho : o' = oc.1
    · simp [ho, hc]
    · simp [ho]
  | some (.sl p l c) =>
    simp only []
    by_cases ho : o' = oc.1
    · simp [ho, hc]
    · simp [ho]
  | none =>
    simp only []
    by_cases ho : o' = oc.1
    · simp [ho, hc]
    · simp [ho]

theorem isNumCell_addT (G : GHeap) (oc : Nat × Nat) (o' : Nat) : isNumCell (addT G oc) o' = isNumCell G o' := by
  unfold isNumCell
  rw [getCell_addT]
  by_cases ho : o' = oc.1
  · subst ho
    simp only [if_true]
    cases getCell G oc.1 with
    | none => rfl
    | some w => cases w <;> rfl
  · simp [ho]

theorem getMap_addT (G : GHeap) (oc : Nat × Nat) (o' : Nat) : getMap (addT G oc) o' = getMap G o' := by
  unfold addT
  match hc : getCell G oc.1 with
  | some (.num n) =>
    simp only []
    by_cases ho : oc.1 = o'
    · subst ho
      unfold getCell at hc
      unfold getMap
      have hlt : oc.1 < G.length := by
        rcases Nat.lt_or_ge oc.1 G.length with hlt | hge
        · exact hlt
        · rw [List.getElem?_eq_none hge] at hc
          simp at hc
      rw [List.getElem?_set_self hlt]
      cases hx : G[oc.1]? with
      | none => rfl
      | some x =>
        rw [hx] at hc
        cases x <;> simp at hc ⊢
    · unfold getMap
      rw [List.getElem?_set_ne ho]
  | some (.bool b) => rfl
  | some (.map b) => rfl
  | some (.sl p l c) => rfl
  | none => rfl

theorem addT_comm (G : GHeap) (a b : Nat × Nat) : addT (addT G a) b = addT (addT G b) a := by
  by_cases hab : a.1 = b.1
  · -- the same cell
    obtain ⟨o, x⟩ := a
    obtain ⟨o', y⟩ := b
    simp at hab
    subst hab
    match hc : getCell G o with
    | some (.num n) =>
      have h1 : addT G (o, x) = G.set o (.cell (.num (n + x))) := by simp [addT, hc]
      have h2 : addT G (o, y) = G.set o (.cell (.num (n + y))) := by simp [addT, hc]
      have g1 : getCell (G.set o (.cell (.num (n + x)))) o = some (.num (n + x)) := by
        rw [getCell_set_cell G o o _ ⟨_, hc⟩]; simp
      have g2 : getCell (G.set o (.cell (.num (n + y)))) o = some (.num (n + y)) := by
        rw [getCell_set_cell G o o _ ⟨_, hc⟩]; simp
      rw [h1, h2]
      simp only [addT, g1, g2, List.set_set]
      rw [Nat.add_right_comm]
    | some (.bool _) => simp [addT, hc]
    | some (.map _) => simp [addT, hc]
    | some (.sl _ _ _) => simp [addT, hc]
    | none => simp [addT, hc]
  · -- different cells
    have hba : ¬ b.1 = a.1 := fun e => hab e.symm
    have ga : getCell (addT G b) a.1 = getCell G a.1 := by rw [getCell_addT]; simp [hab]
    have gb : getCell (addT G a) b.1 = getCell G b.1 := by rw [getCell_addT]; simp [hba]
    rw [addT_def (addT G a) b, addT_def (addT G b) a, gb, ga]
    cases ha : getCell G a.1 with
    | none =>
      cases hb : getCell G b.1 with
      | none => simp [addT, ha, hb]
      | some w => cases w <;> simp [addT, ha, hb]
    | some wa =>
      cases hb : getCell G b.1 with
      | none => cases wa <;> simp [addT, ha, hb]
      | some wb =>
        cases wa <;> cases wb <;> simp [addT, ha, hb]
        exact List.set_comm _ _ hab

/-- add a list of amounts -/
def addAll (cs : List (Nat × Nat)) (G : GHeap) : GHeap := cs.foldl addT G

theorem addAll_addT (cs : List (Nat × Nat)) (G : GHeap) (a : Nat × Nat) : addAll cs (addT G a) = addT (addAll cs G) a := by
  induction cs generalizing G with
  | nil => rfl
  | cons c cs ih =>
    simp only [addAll, List.foldl_cons] at ih ⊢
    rw [← ih, addT_comm]

theorem addAll_comm (cs1 cs2 : List (Nat × Nat)) (G : GHeap) : addAll cs1 (addAll cs2 G) = addAll cs2 (addAll cs1 G) := by
  induction cs1 generalizing G with
  | nil => rfl
  | cons c cs ih =>
    show addAll cs (addT (addAll cs2 G) c) = addAll cs2 (addAll cs (addT G c))
    rw [← addAll_addT cs2, ih]

theorem isNumCell_addAll (cs : List (Nat × Nat)) (G : GHeap) (o : Nat) : isNumCell (addAll cs G) o = isNumCell G o := by
  induction cs generalizing G with
  | nil => rfl
  | cons c cs ih =>
    show isNumCell (addAll cs (addT G c)) o = _
    rw [ih, isNumCell_addT]

theorem getMap_addAll (cs : List (Nat × Nat)) (G : GHeap) (o : Nat) : getMap (addAll cs G) o = getMap G o := by
  induction cs generalizing G with
  | nil => rfl
  | cons c cs ih =>
    show getMap (addAll cs (addT G c)) o = _
    rw [ih, getMap_addT]

/-- what Go does with a list of amounts: all the cells must hold numbers -/
theorem loopGo_addCell (cs : List (Nat × Nat)) (G : GHeap) :
    loopGo (fun oc G => addCell G oc) cs G = if cs.all (fun oc => isNumCell G oc.1) then .ok (addAll cs G) else .bad := by
  induction cs generalizing G with
  | nil => rfl
  | cons c cs ih =>
    rw [loopGo, addCell_eq G c, List.all_cons]
    by_cases hc : isNumCell G c.1 = true
    · simp only [hc, if_true, Res.bind, Bool.true_and]
      rw [ih]
      have : (cs.all fun oc => isNumCell (addT G c) oc.1) = cs.all fun oc => isNumCell G oc.1 := by
        congr 1
        funext oc
        exact isNumCell_addT G c oc.1
      rw [this]
      rfl
    · simp [hc, Res.bind]

/-! ### an accumulating body -/

/-- the cells and the increment expressions of an accumulating body (`none`: some accumulator is not a `var`
variable, or the body is not of that form) -/
def addrsOf (st : Stack) : Stmts → Option (List (Nat × Exp))
  | .nil => some []
  | .ret _ => none
  | .cons (.assign a (.e (.add _ e))) rest =>
    match lookStk a st with
    | some (.cell o) => (addrsOf st rest).map fun cs => (o, e) :: cs
    | _ => none
  | .cons _ _ => none

/-- the increments for one entry -/
def amounts (k v : Option String) (kk vv : Nat) (cs : List (Nat × Exp)) : List (Nat × Nat) :=
  cs.map fun oe => (oe.1, evalKV k v kk vv oe.2)

theorem all_amounts (k v : Option String) (kk vv : Nat) (cs : List (Nat × Exp)) (G : GHeap) :
    ((amounts k v kk vv cs).all fun oc => isNumCell G oc.1) = cs.all fun oe => isNumCell G oe.1 := by
  simp [amounts, List.all_map, Function.comp_def]

/-- One iteration of an accumulating body, executed by Go. -/
theorem exec_accumBody (grow : Nat → Nat → Nat) (ord : List (Nat × Nat) → List (Nat × Nat)) (k v : Option String)
    (kk vv : Nat) (st : Stack) : (body : Stmts) → accumBody k v body = true → ∀ (G : GHeap),
    bodyOut (execStmts grow ord (loopScope k v kk vv :: st) G body) =
      match addrsOf st body with
      | some cs => loopGo (fun oc G => addCell G oc) (amounts k v kk vv cs) G
      | none => .bad
  | .nil, _, G => by simp [execStmts, bodyOut, addrsOf, amounts, loopGo]
  | .ret e, h, _ => by simp [accumBody] at h
  | .cons s rest, h, G => by
    simp only [accumBody, Bool.and_eq_true] at h
    obtain ⟨hs, hrest⟩ := h
    have ih := exec_accumBody grow ord k v kk vv st rest hrest
    match s, hs with
    | .assign a (.e (.add (.var a') e)), hs =>
      simp only [accumStmt, Bool.and_eq_true, beq_iff_eq, bne_iff_ne, ne_eq] at hs
      obtain ⟨⟨⟨haa, hkv⟩, hka⟩, hva⟩ := hs
      subst haa
      have hlook : lookStk a (loopScope k v kk vv :: st) = lookStk a st := by
        simp [lookStk, look_loopScope, hka, hva]
      have he := eval_kvExp k v kk vv st G e hkv
      simp only [execStmts, execStmt, evalR, evalE, he, hlook, addrsOf]
      cases hl : lookStk a st with
      | none => simp [ofOpt, Res.bind, asNum, bodyOut]
      | some b =>
        cases b with
        | val w =>
          cases w <;> simp [ofOpt, Res.bind, asNum, bodyOut]
        | cell o =>
          cases hc : getCell G o with
          | none => simp [ofOpt, Res.bind, asNum, bodyOut, hc, amounts, loopGo, addCell]
                    cases addrsOf st rest <;> simp [loopGo, addCell, hc, Res.bind]
          | some w =>
            cases w with
            | num n =>
              simp only [ofOpt, Res.bind, asNum, hc]
              rw [ih]
              cases addrsOf st rest with
              | none => simp
              | some cs => simp [amounts, loopGo, addCell, hc, Res.bind]
            | bool b => simp [ofOpt, Res.bind, asNum, bodyOut, hc]
                        cases addrsOf st rest <;> simp [amounts, loopGo, addCell, hc, Res.bind]
            | map b => simp [ofOpt, Res.bind, asNum, bodyOut, hc]
                       cases addrsOf st rest <;> simp [amounts, loopGo, addCell, hc, Res.bind]
            | sl p l c => simp [ofOpt, Res.bind, asNum, bodyOut, hc]
                          cases addrsOf st rest <;> simp [amounts, loopGo, addCell, hc, Res.bind]

end GooseVerif.Model.Coll
