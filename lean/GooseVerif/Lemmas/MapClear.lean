import GooseVerif.Model.MapClear

namespace GooseVerif.Model.MapClear

variable {κ ν : Type} [DecidableEq κ]

theorem erase_length_le (m : GoMap κ ν) (k : κ) : (erase m k).length ≤ m.length :=
  List.length_filter_le _ _

theorem erase_length_lt (m : GoMap κ ν) (p : κ × ν) (h : p ∈ m) : (erase m p.1).length < m.length := by
  unfold erase
  apply List.length_filter_lt_length_iff_exists.mpr
  exact ⟨p, h, by simp⟩

theorem stepClear_lt (pick : Nat) (m : GoMap κ ν) (h : m ≠ []) : (stepClear pick m).length < m.length := by
  unfold stepClear
  have hpos : 0 < m.length := List.length_pos_iff.mpr h
  have hlt : pick % m.length < m.length := Nat.mod_lt _ hpos
  rw [List.getElem?_eq_getElem hlt]
  exact erase_length_lt m _ (List.getElem_mem hlt)

theorem runClear_empty (fuel : Nat) (picks : Nat → Nat) (m : GoMap κ ν) (h : m.length ≤ fuel) :
    runClear fuel picks m = [] := by
  induction fuel generalizing picks m with
  | zero =>
    have : m = [] := List.eq_nil_of_length_eq_zero (by omega)
    simp [runClear, this]
  | succ f ih =>
    unfold runClear
    split
    · rename_i he; simpa using he
    · rename_i he
      have hne : m ≠ [] := by intro h0; simp [h0] at he
      apply ih
      have := stepClear_lt (picks 0) m hne
      omega

theorem mapClear_empty' (picks : Nat → Nat) (m : GoMap κ ν) : mapClear picks m = [] :=
  runClear_empty _ _ _ (Nat.le_refl _)

theorem lookup_insert_nil (k : κ) (v : ν) : lookup (insert ([] : GoMap κ ν) k v) k = some v := by
  simp [lookup, insert, erase]

end GooseVerif.Model.MapClear
