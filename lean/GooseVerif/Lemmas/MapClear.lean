import GooseVerif.Model.MapClear

namespace GooseVerif.Model.MapClear

variable {κ ν : Type}

/-- The loop keeps exactly the entries whose key equals none of the produced keys. -/
theorem loopClear_eq_filter (eq : κ → κ → Bool) (order : List (κ × ν)) (m : GoMap κ ν) :
    loopClear eq order m = m.filter (fun q => order.all (fun p => !eq q.1 p.1)) := by
  unfold loopClear
  induction order generalizing m with
  | nil =>
    simp only [List.foldl_nil, List.all_nil]
    exact (List.filter_eq_self.mpr (fun _ _ => rfl)).symm
  | cons p ps ih =>
    rw [List.foldl_cons, ih]
    simp only [eraseBy, List.filter_filter, List.all_cons]
    congr 1
    funext q
    exact Bool.and_comm _ _

/-- Reflexive key equality (every key type except those containing floats): when `range` produces
every entry, the loop empties the map, in whatever order. -/
theorem loopClear_empty_of_refl (eq : κ → κ → Bool) (order : List (κ × ν)) (m : GoMap κ ν)
    (hrefl : ∀ q ∈ m, eq q.1 q.1 = true) (hall : ∀ q ∈ m, q ∈ order) :
    loopClear eq order m = [] := by
  rw [loopClear_eq_filter]
  apply List.filter_eq_nil_iff.mpr
  intro q hq
  intro h
  have h2 := (List.all_eq_true.mp h) q (hall q hq)
  simp [hrefl q hq] at h2

/-- A key that is equal to nothing (NaN) survives the loop, in whatever order. -/
theorem loopClear_keeps_irreflexive (eq : κ → κ → Bool) (order : List (κ × ν)) (m : GoMap κ ν)
    (q : κ × ν) (hq : q ∈ m) (hnan : ∀ k, eq q.1 k = false) :
    q ∈ loopClear eq order m := by
  rw [loopClear_eq_filter]
  apply List.mem_filter.mpr
  refine ⟨hq, ?_⟩
  simp [hnan]

theorem lookup_insert_nil [DecidableEq κ] (k : κ) (v : ν) : lookup (insert ([] : GoMap κ ν) k v) k = some v := by
  simp [lookup, insert, erase]

end GooseVerif.Model.MapClear
