import GooseVerif.Model.Decimal

namespace GooseVerif.Model.Decimal

theorem valRev_digitsRev (fuel n : Nat) (h : n < fuel) : valRev (digitsRev fuel n) = n := by
  induction fuel generalizing n with
  | zero => omega
  | succ f ih =>
    unfold digitsRev
    split
    · simp [valRev]
    · simp only [valRev]
      rw [ih (n / 10) (by omega)]
      omega

theorem digitsRev_lt (fuel n : Nat) : ∀ d ∈ digitsRev fuel n, d < 10 := by
  induction fuel generalizing n with
  | zero => simp [digitsRev]
  | succ f ih =>
    unfold digitsRev
    split
    · intro d hd; simp at hd; omega
    · intro d hd
      simp only [List.mem_cons] at hd
      rcases hd with rfl | hd
      · omega
      · exact ih _ d hd

theorem digitsRev_ne_nil (fuel n : Nat) (h : n < fuel) : digitsRev fuel n ≠ [] := by
  cases fuel with
  | zero => omega
  | succ f => unfold digitsRev; split <;> simp

/-- The most significant digit is non-zero unless the number is a single digit. -/
theorem digitsRev_getLast (fuel n : Nat) (h : n < fuel) :
    ∀ hne : digitsRev fuel n ≠ [], (digitsRev fuel n).getLast hne ≠ 0 ∨ digitsRev fuel n = [0] := by
  induction fuel generalizing n with
  | zero => omega
  | succ f ih =>
    intro hne
    by_cases hn : n < 10
    · have hd : digitsRev (f + 1) n = [n] := by simp [digitsRev, hn]
      by_cases h0 : n = 0
      · right; rw [hd, h0]
      · left; simp [hd, h0]
    · have hd : digitsRev (f + 1) n = (n % 10) :: digitsRev f (n / 10) := by simp [digitsRev, hn]
      have hlt : n / 10 < f := by omega
      have hne' := digitsRev_ne_nil f (n / 10) hlt
      left
      simp only [hd]
      rw [List.getLast_cons hne']
      rcases ih (n / 10) hlt hne' with h1 | h1
      · exact h1
      · exfalso
        have := valRev_digitsRev f (n / 10) hlt
        rw [h1] at this
        simp [valRev] at this
        omega

theorem value_digits (n : Nat) : value (digits n) = n := by
  simp [value, digits, valRev_digitsRev]

theorem charDigit_digitChar (d : Nat) (h : d < 10) : charDigit (digitChar d) = d := by
  match d, h with
  | 0, _ | 1, _ | 2, _ | 3, _ | 4, _ | 5, _ | 6, _ | 7, _ | 8, _ | 9, _ => rfl

theorem isDigit_digitChar (d : Nat) (h : d < 10) : (digitChar d).isDigit = true := by
  match d, h with
  | 0, _ | 1, _ | 2, _ | 3, _ | 4, _ | 5, _ | 6, _ | 7, _ | 8, _ | 9, _ => rfl

theorem digits_lt (n : Nat) : ∀ d ∈ digits n, d < 10 := by
  intro d hd
  simp only [digits, List.mem_reverse] at hd
  exact digitsRev_lt _ _ d hd

theorem parse_dec' (n : Nat) : parse (dec n) = n := by
  unfold parse dec
  rw [List.map_map]
  have : (digits n).map (charDigit ∘ digitChar) = digits n := by
    conv => rhs; rw [← List.map_id (digits n)]
    apply List.map_congr_left
    intro d hd
    exact charDigit_digitChar d (digits_lt n d hd)
  rw [this, value_digits]

theorem dec_injective' (m n : Nat) (h : dec m = dec n) : m = n := by
  rw [← parse_dec' m, ← parse_dec' n, h]

theorem dec_digits_only' (n : Nat) : ∀ c ∈ dec n, c.isDigit = true := by
  intro c hc
  simp only [dec, List.mem_map] at hc
  obtain ⟨d, hd, rfl⟩ := hc
  exact isDigit_digitChar d (digits_lt n d hd)

theorem dec_ne_nil' (n : Nat) : dec n ≠ [] := by
  simp [dec, digits, digitsRev_ne_nil]

theorem digitChar_zero_iff (d : Nat) (h : d < 10) : digitChar d = '0' ↔ d = 0 := by
  match d, h with
  | 0, _ => simp [digitChar]
  | 1, _ | 2, _ | 3, _ | 4, _ | 5, _ | 6, _ | 7, _ | 8, _ | 9, _ => simp [digitChar]

/-- No leading zero: the first character is '0' only for the numeral "0" itself. -/
theorem dec_no_leading_zero' (n : Nat) : (dec n).head? = some '0' → dec n = ['0'] := by
  have hne := digitsRev_ne_nil (n + 1) n (by omega)
  have hl := digitsRev_getLast (n + 1) n (by omega) hne
  intro h
  simp only [dec, digits] at h ⊢
  rw [List.head?_map, List.head?_reverse] at h
  rw [List.getLast?_eq_some_getLast hne] at h
  simp only [Option.map_some, Option.some.injEq] at h
  have hlt := digitsRev_lt (n + 1) n _ (List.getLast_mem hne)
  rw [digitChar_zero_iff _ hlt] at h
  rcases hl with hl | hl
  · exact absurd h hl
  · rw [hl]; rfl

/-! number of digits -/

theorem digitsRev_length_le : ∀ (fuel n k : Nat), n < fuel → 0 < k → n < 10 ^ k → (digitsRev fuel n).length ≤ k := by
  intro fuel
  induction fuel with
  | zero => intro n k h; omega
  | succ fuel ih =>
    intro n k hf hpos hk
    unfold digitsRev
    by_cases h10 : n < 10
    · simp [h10]
      omega
    · simp only [h10, if_false, List.length_cons]
      cases k with
      | zero => omega
      | succ k =>
        rw [Nat.pow_succ] at hk
        have hk' : 0 < k := by
          cases k with
          | zero => simp at hk; omega
          | succ k => omega
        have := ih (n / 10) k (by omega) hk' (by omega)
        omega

theorem digitsRev_length_gt : ∀ (fuel n k : Nat), n < fuel → 10 ^ k ≤ n → k < (digitsRev fuel n).length := by
  intro fuel
  induction fuel with
  | zero => intro n k h; omega
  | succ fuel ih =>
    intro n k hf hk
    unfold digitsRev
    by_cases h10 : n < 10
    · simp [h10]
      cases k with
      | zero => rfl
      | succ k =>
        rw [Nat.pow_succ] at hk
        have : 0 < 10 ^ k := Nat.pow_pos (by omega)
        omega
    · simp only [h10, if_false, List.length_cons]
      cases k with
      | zero => omega
      | succ k =>
        rw [Nat.pow_succ] at hk
        have := ih (n / 10) k (by omega) (by omega)
        omega

theorem dec_length_le' (n k : Nat) (hk : 0 < k) (h : n < 10 ^ k) : (dec n).length ≤ k := by
  simp only [dec, digits, List.length_map, List.length_reverse]
  exact digitsRev_length_le (n + 1) n k (by omega) hk h

theorem dec_length_gt' (n k : Nat) (h : 10 ^ k ≤ n) : k < (dec n).length := by
  simp only [dec, digits, List.length_map, List.length_reverse]
  exact digitsRev_length_gt (n + 1) n k (by omega) h

end GooseVerif.Model.Decimal
