/-
Helper lemmas for `Model/Conc.lean`, part 2: the simulation relation between a Go thread and a GooseLang
thread, and what happens when a block ends.

`KRel ub k u K`: Go's frames `k` (innermost first) of a thread whose bottom usage is `ub` (`returned e` for
the main thread, `local` for a goroutine) correspond to the GooseLang frames `K`; `u` is the usage with which
the CURRENT block was translated.  `CanonRun cur env k ret t0`: `t0` is the canonical GooseLang state of a
running Go thread — the translation of the rest of its current block, in the image of its environment, under
the frames of `KRel` — or a finished goroutine with any final value.  `TRelRun`: joinable (by administrative
steps) with the canonical state.  `TRel`: all thread states (parked, woken, returned).
-/
import GooseVerif.Lemmas.ConcBase

namespace GooseVerif.Model.Conc
open GooseVerif.Model.Core (W BinOp CmpOp Exp Cond look)

def botUsage : Option Exp → Usage
  | some e => .returned e
  | none => .local

def tailFrames (ρ : TEnv) : Option T → List TFrame
  | none => []
  | some R => [.seqK R ρ]

/-- What follows a statement that is not an `if`: nothing (`none`: it ends a block whose value is unused), or
the translation of the rest of the block. -/
def TailOK (Γ : SEnv) (rest : Stmts) (u : Usage) : Option T → Prop
  | none => (rest.isNil && u.isLocal) = true
  | some R => (rest.isNil && u.isLocal) = false ∧ trStmts Γ rest u = .ok R

def Bind.expr : Bind → T
  | .named _ _ e => e
  | .anon e => e
  | .loopB l => l

def Bind.frames (b : Bind) (ρ : TEnv) : Option T → List TFrame
  | none => []
  | some R => match b with
    | .named x _ _ => [.letK x R ρ]
    | _ => [.seqK R ρ]

def Bind.bindV (b : Bind) (v : Val) (ρ : TEnv) : TEnv :=
  match b with
  | .named x _ _ => (x, v) :: ρ
  | _ => ρ

inductive KRel (ub : Usage) : List Frame → Usage → List TFrame → Prop where
  | nil : KRel ub [] ub []
  /-- an `if` that is the last statement of a block whose usage is handed down: nothing was pushed -/
  | seqNil {k : List Frame} {u : Usage} {K : List TFrame} (env : Env) :
      KRel ub k u K → (u.isLocal || u.isLoop) = true → KRel ub (.seqF .nil env :: k) u K
  | seq {k : List Frame} {u : Usage} {K : List TFrame} (rest : Stmts) (env : Env) (R : T) :
      KRel ub k u K → (rest.isNil && (u.isLocal || u.isLoop)) = false → trStmts (senv env) rest u = .ok R →
      KRel ub (.seqF rest env :: k) .local (.seqK R (tenv env) :: K)
  | loop {k : List Frame} {u : Usage} {K : List TFrame} (c : Cond) (body rest : Stmts) (env : Env) (tc : TE) (tb : T)
      (tl : Option T) :
      KRel ub k u K → trC (senv env) c = .ok tc → trStmts (senv env) body .loop = .ok tb → TailOK (senv env) rest u tl →
      KRel ub (.loopF c body rest env :: k) .loop (.forBodyK tc .skip tb (tenv env) :: (tailFrames (tenv env) tl ++ K))

def CanonRun (cur : Stmts) (env : Env) (k : List Frame) (ret : Option Exp) (t0 : TThread) : Prop :=
  (∃ u K term, KRel (botUsage ret) k u K ∧ trStmts (senv env) cur u = .ok term ∧ t0 = ⟨.eval term (tenv env), K⟩ ∧
    (cur = .nil → k = [])) ∨
  (cur = .nil ∧ k = [] ∧ ret = none ∧ ∃ v, t0 = ⟨.ret v, []⟩)

def TRelRun (cur : Stmts) (env : Env) (k : List Frame) (ret : Option Exp) (t : TThread) : Prop :=
  ∃ t0, CanonRun cur env k ret t0 ∧ Join t t0

/-- The simulation relation on threads. -/
def TRel (s : Thread) (t : TThread) : Prop :=
  match s.st with
  | .run => TRelRun s.cur s.env s.k s.ret t
  | .parked c l => ∃ K', t = ⟨.ret .unit, .wakeK c :: .acquireK l :: K'⟩ ∧ TRelRun s.cur s.env s.k s.ret ⟨.ret .unit, K'⟩
  | .relock l => ∃ K', t = ⟨.ret .unit, .acquireK l :: K'⟩ ∧ TRelRun s.cur s.env s.k s.ret ⟨.ret .unit, K'⟩
  | .done v => t = ⟨.ret (.num v), []⟩

theorem TRelRun.of_astep {cur : Stmts} {env : Env} {k : List Frame} {ret : Option Exp} {t t' : TThread}
    (hs : astep t = some t') (h : TRelRun cur env k ret t') : TRelRun cur env k ret t := by
  obtain ⟨t0, hc, hj⟩ := h
  exact ⟨t0, hc, hj.step_left hs⟩

theorem TRelRun.of_astar {cur : Stmts} {env : Env} {k : List Frame} {ret : Option Exp} {t t' : TThread}
    (hs : AStar t t') (h : TRelRun cur env k ret t') : TRelRun cur env k ret t := by
  obtain ⟨t0, hc, hj⟩ := h
  exact ⟨t0, hc, hj.astar_left hs⟩

/-! ### `unwind` -/

@[simp] theorem unwind_cons (s : Stmt) (rest : Stmts) (env : Env) (k : List Frame) :
    unwind (.cons s rest) env k = (.cons s rest, env, k) := by
  cases k <;> rfl

@[simp] theorem unwind_nil_nil (env : Env) : unwind .nil env [] = (.nil, env, []) := rfl

@[simp] theorem unwind_nil_seqF (env env' : Env) (rest : Stmts) (k : List Frame) :
    unwind .nil env (.seqF rest env' :: k) = unwind rest env' k := rfl

@[simp] theorem unwind_nil_loopF (env env' : Env) (c : Cond) (body rest : Stmts) (k : List Frame) :
    unwind .nil env (.loopF c body rest env' :: k) = (.cons (.loop c body) rest, env', k) := rfl

/-- After unwinding, a thread is in front of a statement or has no frames left. -/
theorem unwind_unwound (cur : Stmts) (env : Env) (k : List Frame) :
    (unwind cur env k).1 = .nil → (unwind cur env k).2.2 = [] := by
  induction k generalizing cur env with
  | nil => intro _; rfl
  | cons f k ih =>
    cases cur with
    | cons s rest => simp
    | nil =>
      cases f with
      | seqF rest env' => simpa using ih rest env'
      | loopF c body rest env' => simp

/-! ### inversion of the translation -/

theorem KRel.returned_inv {ub : Usage} {k : List Frame} {e : Exp} {K : List TFrame} (h : KRel ub k (.returned e) K) :
    k = [] ∧ K = [] ∧ ub = .returned e := by
  generalize hu : Usage.returned e = u at h
  induction h with
  | nil => exact ⟨rfl, rfl, rfl⟩
  | seqNil env _ hl ih => subst hu; simp [Usage.isLocal, Usage.isLoop] at hl
  | seq => cases hu
  | loop => cases hu

theorem trStmts_bind_inv {Γ : SEnv} {s : Stmt} {rest : Stmts} {u : Usage} {term : T}
    (hs : ∀ c thn els, s = Stmt.ite c thn els → False) (h : trStmts Γ (.cons s rest) u = .ok term) :
    ∃ b tl, trBind Γ s = .ok b ∧ TailOK (b.scope Γ) rest u tl ∧ term = b.addTo tl := by
  rw [trStmts.eq_3 _ _ _ _ hs] at h
  cases hb : trBind Γ s with
  | error m => simp [hb] at h
  | ok b =>
    simp only [hb] at h
    by_cases hl : (rest.isNil && u.isLocal) = true
    · simp only [hl, if_true] at h
      exact ⟨b, none, rfl, hl, by cases h; rfl⟩
    · simp only [hl] at h
      cases hr : trStmts (b.scope Γ) rest u with
      | error m => simp [hr] at h
      | ok r =>
        simp only [hr] at h
        exact ⟨b, some r, rfl, ⟨by simpa using hl, hr⟩, by cases h; rfl⟩

theorem trStmts_bind_intro {Γ : SEnv} {s : Stmt} {rest : Stmts} {u : Usage} {b : Bind} {tl : Option T}
    (hs : ∀ c thn els, s = Stmt.ite c thn els → False) (hb : trBind Γ s = .ok b) (htl : TailOK (b.scope Γ) rest u tl) :
    trStmts Γ (.cons s rest) u = .ok (b.addTo tl) := by
  rw [trStmts.eq_3 _ _ _ _ hs, hb]
  cases tl with
  | none => simp only [TailOK] at htl; simp [htl]
  | some R => obtain ⟨h1, h2⟩ := htl; simp [h1, h2]

/-- The usage of the branches of an `if`. -/
def branchUsage (rest : Stmts) (u : Usage) : Usage := if (rest.isNil && u.isLoop) = true then .loop else .local

theorem trStmts_ite_inv {Γ : SEnv} {c : Cond} {thn els rest : Stmts} {u : Usage} {term : T}
    (h : trStmts Γ (.cons (.ite c thn els) rest) u = .ok term) :
    ∃ tc a b, trC Γ c = .ok tc ∧ trStmts Γ thn (branchUsage rest u) = .ok a ∧ trStmts Γ els (branchUsage rest u) = .ok b ∧
      (((rest.isNil && (u.isLocal || u.isLoop)) = true ∧ term = .ite tc a b) ∨
       ((rest.isNil && (u.isLocal || u.isLoop)) = false ∧ ∃ R, trStmts Γ rest u = .ok R ∧ term = .seq (.ite tc a b) R)) := by
  rw [trStmts.eq_2] at h
  unfold branchUsage
  generalize (if (rest.isNil && u.isLoop) = true then Usage.loop else Usage.local) = bu at h ⊢
  split at h
  · cases h
  · rename_i tc hc
    split at h
    · cases h
    · rename_i a ha
      split at h
      · cases h
      · rename_i b hb
        refine ⟨tc, a, b, hc, ha, hb, ?_⟩
        split at h
        · rename_i hl
          exact .inl ⟨hl, by cases h; rfl⟩
        · rename_i hl
          split at h
          · cases h
          · rename_i r hr
            exact .inr ⟨by simpa using hl, r, hr, by cases h; rfl⟩

/-! ### reaching the statement's own expression -/

theorem reach_bind (b : Bind) (tl : Option T) (ρ : TEnv) (K : List TFrame) :
    AStar ⟨.eval (b.addTo tl) ρ, K⟩ ⟨.eval b.expr ρ, b.frames ρ tl ++ K⟩ := by
  cases b with
  | named x k e =>
    cases tl with
    | none => exact .refl _
    | some R => exact .one rfl
  | anon e =>
    cases tl with
    | none => exact .refl _
    | some R => exact .one rfl
  | loopB l =>
    cases tl with
    | none => exact .step rfl (.step rfl (.one rfl))
    | some R => exact .step rfl (.step rfl (.step rfl (.one rfl)))

/-! ### the end of a block -/

/-- Lemma P: a block whose value is unused (`local`, any value) or a loop body (`loop`, value `Continue`) has
ended; the GooseLang thread then does what Go's `unwind` does. -/
theorem block_end {ub : Usage} {k : List Frame} {u : Usage} {K : List TFrame} (hk : KRel ub k u K) :
    ∀ (ret : Option Exp) (env' : Env) (v : Val), ub = botUsage ret → (u = .local ∨ (u = .loop ∧ v = .bool true)) →
      TRelRun (unwind .nil env' k).1 (unwind .nil env' k).2.1 (unwind .nil env' k).2.2 ret ⟨.ret v, K⟩ := by
  induction hk with
  | nil =>
    intro ret env' v hub hu
    have hret : ret = none := by
      cases ret with
      | none => rfl
      | some e => rcases hu with hu | ⟨hu, _⟩ <;> rw [hub] at hu <;> cases hu
    exact ⟨⟨.ret v, []⟩, .inr ⟨rfl, rfl, hret, v, rfl⟩, Join.refl _⟩
  | seqNil env _ _ ih =>
    intro ret env' v hub hu
    simpa using ih ret env v hub hu
  | @seq k2 u2 K2 rest env R hk2 hside hR _ =>
    intro ret env' v hub _
    simp only [unwind_nil_seqF]
    apply TRelRun.of_astep (t' := ⟨.eval R (tenv env), K2⟩) rfl
    cases rest with
    | cons s r =>
      simp only [unwind_cons]
      exact ⟨_, .inl ⟨u2, K2, R, hub ▸ hk2, hR, rfl, by intro h; cases h⟩, Join.refl _⟩
    | nil =>
      cases u2 with
      | «local» => simp [Stmts.isNil, Usage.isLocal] at hside
      | loop => simp [Stmts.isNil, Usage.isLoop] at hside
      | returned e =>
        obtain ⟨h1, h2, _⟩ := hk2.returned_inv
        subst h1; subst h2
        simp only [unwind_nil_nil]
        exact ⟨_, .inl ⟨.returned e, [], R, hub ▸ hk2, hR, rfl, fun _ => rfl⟩, Join.refl _⟩
  | @loop k2 u2 K2 c body rest env tc tb tl hk2 hc hb htl _ =>
    intro ret env' v hub hu
    have hv : v = .bool true := by
      rcases hu with hu | ⟨_, hv⟩
      · cases hu
      · exact hv
    subst hv
    simp only [unwind_nil_loopF]
    have hterm : trStmts (senv env) (.cons (.loop c body) rest) u2 = .ok ((Bind.loopB (.forLoop tc .skip tb)).addTo tl) := by
      apply trStmts_bind_intro (by intro _ _ _ h; cases h)
      · simp [trBind, hc, hb]
      · exact htl
    refine ⟨⟨.eval ((Bind.loopB (.forLoop tc .skip tb)).addTo tl) (tenv env), K2⟩,
      .inl ⟨u2, K2, _, hub ▸ hk2, hterm, rfl, by intro h; cases h⟩, ?_⟩
    refine ⟨⟨.eval (.forLoop tc .skip tb) (tenv env), tailFrames (tenv env) tl ++ K2⟩, ?_, ?_⟩
    · exact .step rfl (.step rfl (.one rfl))
    · have := reach_bind (.loopB (.forLoop tc .skip tb)) tl (tenv env) K2
      cases tl <;> exact this

/-- Lemma A: the GooseLang thread is about to run the translation of `rest` under frames related to `k`. -/
theorem block_rest {ub : Usage} {k : List Frame} {u : Usage} {K : List TFrame} (hk : KRel ub k u K)
    (ret : Option Exp) (hub : ub = botUsage ret) (rest : Stmts) (env' : Env) (R : T)
    (hR : trStmts (senv env') rest u = .ok R) :
    TRelRun (unwind rest env' k).1 (unwind rest env' k).2.1 (unwind rest env' k).2.2 ret ⟨.eval R (tenv env'), K⟩ := by
  cases rest with
  | cons s r =>
    simp only [unwind_cons]
    exact ⟨_, .inl ⟨u, K, R, hub ▸ hk, hR, rfl, by intro h; cases h⟩, Join.refl _⟩
  | nil =>
    cases u with
    | «local» =>
      simp [trStmts, fin] at hR; subst hR
      exact TRelRun.of_astep (t' := ⟨.ret .unit, K⟩) rfl (block_end hk ret env' .unit hub (.inl rfl))
    | loop =>
      simp [trStmts, fin] at hR; subst hR
      exact TRelRun.of_astep (t' := ⟨.ret (.bool true), K⟩) rfl (block_end hk ret env' (.bool true) hub (.inr ⟨rfl, rfl⟩))
    | returned e =>
      obtain ⟨h1, h2, _⟩ := hk.returned_inv
      subst h1; subst h2
      simp only [unwind_nil_nil]
      exact ⟨_, .inl ⟨.returned e, [], R, hub ▸ hk, hR, rfl, fun _ => rfl⟩, Join.refl _⟩

/-- After a statement that is not an `if`: the value `v` has been computed, the binding's frame is on top. -/
theorem after_bind {ub : Usage} {k : List Frame} {u : Usage} {K : List TFrame} (hk : KRel ub k u K)
    (ret : Option Exp) (hub : ub = botUsage ret) (b : Bind) (rest : Stmts) (env env' : Env) (tl : Option T) (v : Val)
    (htl : TailOK (b.scope (senv env)) rest u tl)
    (henv : senv env' = b.scope (senv env)) (hρ : tenv env' = b.bindV v (tenv env)) :
    TRelRun (unwind rest env' k).1 (unwind rest env' k).2.1 (unwind rest env' k).2.2 ret
      ⟨.ret v, b.frames (tenv env) tl ++ K⟩ := by
  cases tl with
  | none =>
    simp only [TailOK, Bool.and_eq_true] at htl
    obtain ⟨h1, h2⟩ := htl
    cases rest with
    | cons _ _ => simp [Stmts.isNil] at h1
    | nil =>
      cases u with
      | «local» => exact block_end hk ret env' v hub (.inl rfl)
      | loop => simp [Usage.isLocal] at h2
      | returned _ => simp [Usage.isLocal] at h2
  | some R =>
    obtain ⟨_, hR⟩ := htl
    rw [← henv] at hR
    have := block_rest hk ret hub rest env' R hR
    rw [hρ] at this
    cases b with
    | named x kd e => exact TRelRun.of_astep (t' := ⟨.eval R ((x, v) :: tenv env), K⟩) rfl this
    | anon e => exact TRelRun.of_astep (t' := ⟨.eval R (tenv env), K⟩) rfl this
    | loopB l => exact TRelRun.of_astep (t' := ⟨.eval R (tenv env), K⟩) rfl this

end GooseVerif.Model.Conc
