/-
Helper lemmas for C13 (`Props/C13.lean`): `DirFs.AtomicCreate` as the system-call machine `acRun`
of `Model/DirFs.lean` is all-or-nothing, exact after return, durable before visible, and frames
every other name.

Core Lean only.
-/
import GooseVerif.Model.DirFs

namespace GooseVerif.Lemmas.AtomicCreate
open GooseVerif.Model.Fs

/-! ### association lists -/

section assoc
variable {κ ν : Type} [BEq κ] [LawfulBEq κ]

omit [LawfulBEq κ] in
theorem aget_nil (k : κ) : aget ([] : List (κ × ν)) k = none := rfl

omit [LawfulBEq κ] in
theorem aget_cons (e : κ × ν) (m : List (κ × ν)) (k : κ) :
    aget (e :: m) k = if e.1 == k then some e.2 else aget m k := by
  simp only [aget, List.find?_cons]
  cases e.1 == k <;> rfl

theorem aget_aset_same (m : List (κ × ν)) (k : κ) (v : ν) : aget (aset m k v) k = some v := by
  induction m with
  | nil => simp [aset, aget_cons]
  | cons e m ih =>
    simp only [aset]
    split
    · simp [aget_cons]
    · rename_i h
      rw [aget_cons]
      simp [h, ih]

theorem aget_aset_ne (m : List (κ × ν)) (k k' : κ) (v : ν) (h : k' ≠ k) :
    aget (aset m k v) k' = aget m k' := by
  induction m with
  | nil =>
    have : (k == k') = false := by simp; exact fun h' => h h'.symm
    simp [aset, aget_cons, this, aget_nil]
  | cons e m ih =>
    simp only [aset]
    split
    · rename_i he
      have hk : e.1 = k := eq_of_beq he
      have : (k == k') = false := by simp; exact fun h' => h h'.symm
      rw [aget_cons, aget_cons, hk]
      simp [this]
    · rw [aget_cons, aget_cons, ih]

theorem aget_adel_ne (m : List (κ × ν)) (k k' : κ) (h : k' ≠ k) :
    aget (adel m k) k' = aget m k' := by
  induction m with
  | nil => rfl
  | cons e m ih =>
    simp only [adel, List.filter_cons] at ih ⊢
    cases he : e.1 == k with
    | true =>
      have hk : e.1 = k := eq_of_beq he
      have : (e.1 == k') = false := by rw [hk]; simp; exact fun h' => h h'.symm
      simp only [Bool.not_true, Bool.false_eq_true, ↓reduceIte]
      rw [aget_cons, this, ih]; rfl
    | false =>
      simp only [Bool.not_false, ↓reduceIte]
      rw [aget_cons, aget_cons, ih]

omit [LawfulBEq κ] in
theorem aget_adel_same (m : List (κ × ν)) (k : κ) : aget (adel m k) k = none := by
  induction m with
  | nil => rfl
  | cons e m ih =>
    simp only [adel, List.filter_cons] at ih ⊢
    cases he : e.1 == k with
    | true => simpa using ih
    | false =>
      simp only [Bool.not_false, ↓reduceIte]
      rw [aget_cons, he, ih]; rfl

/-- Whatever `adel` leaves was there before. -/
theorem aget_adel_some (m : List (κ × ν)) (k k' : κ) (v : ν) (h : aget (adel m k) k' = some v) :
    aget m k' = some v := by
  by_cases hk : k' = k
  · subst hk; rw [aget_adel_same] at h; cases h
  · rwa [aget_adel_ne _ _ _ hk] at h

end assoc

/-! ### lists of inode contents -/

theorem getD_set_same (l : List Bytes) (i : Nat) (v : Bytes) (h : i < l.length) :
    (l.set i v).getD i [] = v := by
  simp [List.getD_eq_getElem?_getD, h]

theorem getD_set_ne (l : List Bytes) (i j : Nat) (v : Bytes) (h : j ≠ i) :
    (l.set i v).getD j [] = l.getD j [] := by
  simp [List.getD_eq_getElem?_getD, h.symm]

theorem getD_set_nil (l : List Bytes) (i : Nat) : (l.set i []).getD i [] = [] := by
  by_cases h : i < l.length
  · exact getD_set_same l i [] h
  · have : (l.set i [])[i]? = none := by simp; omega
    simp [List.getD_eq_getElem?_getD, this]

theorem getD_snoc_nil (l : List Bytes) (i : Nat) : (l ++ [[]]).getD i [] = l.getD i [] := by
  simp only [List.getD_eq_getElem?_getD]
  by_cases h : i < l.length
  · rw [List.getElem?_append_left h]
  · rw [List.getElem?_append_right (by omega)]
    have : l[i]? = none := by simp; omega
    rw [this]
    cases i - l.length <;> simp

theorem writeAt_end (file chunk : Bytes) : writeAt file file.length chunk = file ++ chunk := by
  simp [writeAt]


/-! ### contents of a name, well-formed states -/

/-- Volatile (page-cache) contents of `d/n`; `none` when the name is absent. -/
def content (o : Os) (d n : String) : Option Bytes :=
  (o.lookup (some d) n).map (fun ino => o.inodes.getD ino [])

/-- Durable contents of `d/n` (as of the last fsync of its inode); `none` when the name is absent. -/
def durableContent (o : Os) (d n : String) : Option Bytes :=
  (o.lookup (some d) n).map (fun ino => o.durable.getD ino [])

/-- Well-formed OS states: both content tables have one slot per inode, and every directory
entry (in the root or in a sub-directory) refers to an existing inode. -/
structure WF (o : Os) : Prop where
  len : o.inodes.length = o.durable.length
  rootB : ∀ k ino, aget o.root k = some ino → ino < o.inodes.length
  dirsB : ∀ d es n ino, aget o.dirs d = some es → aget es n = some ino → ino < o.inodes.length

theorem WF.empty : WF Os.empty :=
  ⟨rfl, fun _ _ h => (by cases h), fun _ _ _ _ h => (by cases h)⟩

/-- `WF` only looks at the sizes of the tables and at the directory tree. -/
theorem WF.of_eq {o o' : Os} (h : WF o) (hi : o'.inodes.length = o.inodes.length)
    (hd : o'.durable.length = o.durable.length) (hr : o'.root = o.root) (hds : o'.dirs = o.dirs) :
    WF o' :=
  ⟨by rw [hi, hd]; exact h.len, by rw [hi, hr]; exact h.rootB, by rw [hi, hds]; exact h.dirsB⟩

theorem WF.lookup_lt {o : Os} (h : WF o) {d n : String} {i : Nat}
    (hl : o.lookup (some d) n = some i) : i < o.inodes.length := by
  simp only [Os.lookup, Os.entries] at hl
  cases hd : aget o.dirs d with
  | none => rw [hd] at hl; cases hl
  | some es => rw [hd] at hl; exact h.dirsB d es n i hd hl

theorem WF.crash {o : Os} (h : WF o) : WF o.crash := h.of_eq rfl rfl rfl rfl

theorem WF.close {o : Os} (h : WF o) (fd : Nat) : WF (o.close fd).1 := by
  unfold Os.close; split
  · exact h.of_eq rfl rfl rfl rfl
  · exact h

theorem WF.mkdirat {o : Os} (h : WF o) (d : String) : WF (o.mkdirat d).1 := by
  unfold Os.mkdirat; split
  · exact h
  · refine ⟨h.len, h.rootB, ?_⟩
    intro d' es n ino hd he
    by_cases hdd : d' = d
    · subst hdd
      simp only [aget_aset_same, Option.some.injEq] at hd
      subst hd; cases he
    · simp only [aget_aset_ne _ _ _ _ hdd] at hd
      exact h.dirsB d' es n ino hd he


/-! ### the system calls of `AtomicCreate`, as equations -/

theorem openat_tmp_some (o : Os) (tmp : String) (ino : Nat) (h : aget o.root tmp = some ino) :
    o.openat none tmp acFlags true =
      ({ o with inodes := o.inodes.set ino [],
                fds := aset o.fds internalFd { ino := ino, off := 0, wr := true } }, none) := by
  simp [Os.openat, Os.entries, acFlags, h]

theorem openat_tmp_none (o : Os) (tmp : String) (h : aget o.root tmp = none) :
    o.openat none tmp acFlags true =
      ({ o with inodes := o.inodes ++ [[]], durable := o.durable ++ [[]],
                root := aset o.root tmp o.inodes.length,
                fds := aset o.fds internalFd { ino := o.inodes.length, off := 0, wr := true } }, none) := by
  simp [Os.openat, Os.entries, Os.setEntries, acFlags, h]

theorem write_eq (o : Os) (fd t off : Nat) (data : Bytes) (n : Nat)
    (h : aget o.fds fd = some { ino := t, off := off, wr := true }) :
    o.write fd data n =
      ({ o with inodes := o.inodes.set t (writeAt (o.inodes.getD t []) off (data.take n)),
                fds := aset o.fds fd { ino := t, off := off + (data.take n).length, wr := true } },
        none) := by
  simp [Os.write, h]

theorem fsync_eq (o : Os) (fd t off : Nat) (h : aget o.fds fd = some { ino := t, off := off, wr := true }) :
    o.fsync fd = ({ o with durable := o.durable.set t (o.inodes.getD t []) }, none) := by
  simp [Os.fsync, h]

theorem renameat_eq (o : Os) (tmp d n : String) (t : Nat) (es : List (String × Nat))
    (h : aget o.root tmp = some t) (hd : aget o.dirs d = some es) :
    o.renameat tmp (some d) n =
      ({ o with root := adel o.root tmp, dirs := aset o.dirs d (aset es n t) }, none) := by
  simp [Os.renameat, Os.entries, Os.setEntries, h, hd]

theorem renameat_nodir (o : Os) (tmp d n : String) (hd : aget o.dirs d = none) :
    o.renameat tmp (some d) n = (o, some .ENOENT) := by
  simp only [Os.renameat, Os.entries, hd]
  split <;> simp_all


/-! ### the invariant of a run before the rename -/

/-- The inode that `openat(root, tmp, O_CREAT|O_WRONLY|O_TRUNC)` yields: the one already linked
under the temporary name (a leftover), or a brand new one. -/
def TmpIno (o0 : Os) (tmp : String) (t : Nat) : Prop :=
  aget o0.root tmp = some t ∨ (aget o0.root tmp = none ∧ t = o0.inodes.length)

/-- Between `openat` and `renameat`: the temporary name points to inode `t` holding `w`, the
sub-directories are as they were, every other inode is untouched (volatile and durable). -/
structure Inv (o0 : Os) (tmp : String) (t : Nat) (w : Bytes) (o : Os) : Prop where
  wf : WF o
  root : aget o.root tmp = some t
  cur : o.inodes.getD t [] = w
  dirs : o.dirs = o0.dirs
  oth : ∀ i, i ≠ t → o.inodes.getD i [] = o0.inodes.getD i []
  dur : ∀ i, i ≠ t → o.durable.getD i [] = o0.durable.getD i []
  cnt : o.tmpCount = o0.tmpCount + 1
  /-- the root holds what it held, plus possibly the temporary name -/
  rootSub : ∀ k i, aget o.root k = some i → aget o0.root k = some i ∨ (k = tmp ∧ i = t)

def HasFd (o : Os) (t off : Nat) : Prop :=
  aget o.fds internalFd = some { ino := t, off := off, wr := true }

theorem Inv.lt {o0 o : Os} {tmp : String} {t : Nat} {w : Bytes} (h : Inv o0 tmp t w o) :
    t < o.inodes.length := h.wf.rootB _ _ h.root

/-- Only the descriptor table differs. -/
theorem Inv.of_fds {o0 o o' : Os} {tmp : String} {t : Nat} {w : Bytes} (h : Inv o0 tmp t w o)
    (hi : o'.inodes = o.inodes) (hd : o'.durable = o.durable) (hr : o'.root = o.root)
    (hds : o'.dirs = o.dirs) (hc : o'.tmpCount = o.tmpCount) : Inv o0 tmp t w o' :=
  ⟨h.wf.of_eq (by rw [hi]) (by rw [hd]) hr hds, by rw [hr]; exact h.root, by rw [hi]; exact h.cur,
   by rw [hds]; exact h.dirs, by rw [hi]; exact h.oth, by rw [hd]; exact h.dur, by rw [hc]; exact h.cnt,
   by rw [hr]; exact h.rootSub⟩

theorem Inv.crash {o0 o : Os} {tmp : String} {t : Nat} {w : Bytes} (h : Inv o0 tmp t w o) :
    Inv o0 tmp t w o.crash := h.of_fds rfl rfl rfl rfl rfl

theorem Inv.close {o0 o : Os} {tmp : String} {t : Nat} {w : Bytes} (h : Inv o0 tmp t w o) (fd : Nat) :
    Inv o0 tmp t w (o.close fd).1 := by
  unfold Os.close; split
  · exact h.of_fds rfl rfl rfl rfl rfl
  · exact h

theorem Inv.write {o0 o : Os} {tmp : String} {t : Nat} {w : Bytes} (h : Inv o0 tmp t w o)
    (hfd : HasFd o t w.length) (rem : Bytes) (n : Nat) :
    Inv o0 tmp t (w ++ rem.take n) (o.write internalFd rem n).1 ∧
    HasFd (o.write internalFd rem n).1 t (w ++ rem.take n).length ∧
    (o.write internalFd rem n).2 = none := by
  rw [write_eq o internalFd t w.length rem n hfd]
  refine ⟨⟨h.wf.of_eq (by simp) rfl rfl rfl, h.root, ?_, h.dirs, ?_, h.dur, h.cnt, h.rootSub⟩, ?_, rfl⟩
  · show (o.inodes.set t _).getD t [] = _
    rw [getD_set_same _ _ _ h.lt, h.cur, writeAt_end]
  · intro i hi
    show (o.inodes.set t _).getD i [] = _
    rw [getD_set_ne _ _ _ _ hi]; exact h.oth i hi
  · show aget (aset o.fds internalFd _) internalFd = _
    rw [aget_aset_same, List.length_append]


/-! ### the write loop -/

/-- Bytes accepted by the next `write`: everything, or the next short count (at least one). -/
def chunkLen (shorts : List Nat) (data : Bytes) : Nat :=
  match shorts with
  | [] => data.length
  | s :: _ => max 1 (min s data.length)

theorem chunkLen_pos (shorts : List Nat) (data : Bytes) (h : data ≠ []) : 1 ≤ chunkLen shorts data := by
  unfold chunkLen
  split
  · cases data with
    | nil => exact absurd rfl h
    | cons _ _ => simp
  · omega

theorem acWriteLoop_succ (dist : Disturb) (fuel : Nat) (o : Os) (fd : Nat) (data : Bytes)
    (shorts : List Nat) (k : Nat) :
    acWriteLoop dist (fuel + 1) o fd data shorts k =
      if data.isEmpty then (o, k, none)
      else if dist.stopAfter = some k then (o.crash, k, some .crashed)
      else if dist.failAt = some k then (o, k + 1, some .panic)
      else
        match (o.write fd data (chunkLen shorts data)).2 with
        | some _ => ((o.write fd data (chunkLen shorts data)).1, k + 1, some .panic)
        | none => acWriteLoop dist fuel (o.write fd data (chunkLen shorts data)).1 fd
                    (data.drop (chunkLen shorts data)) shorts.tail (k + 1) := rfl

/-- The loop invariant: `w` is what the temporary inode holds, `w ++ rem = data`, the descriptor
offset is `w.length`. Whatever way the loop ends, the state is still "before the rename"; when it
ends normally every byte has been written; it ends normally unless disturbed. -/
theorem loop_spec (dist : Disturb) (o0 : Os) (tmp : String) (t : Nat) (data : Bytes) :
    ∀ (fuel : Nat) (o : Os) (rem : Bytes) (shorts : List Nat) (k : Nat) (w : Bytes),
      Inv o0 tmp t w o → HasFd o t w.length → w ++ rem = data → rem.length < fuel →
      ∃ w', Inv o0 tmp t w' (acWriteLoop dist fuel o internalFd rem shorts k).1 ∧
        ((acWriteLoop dist fuel o internalFd rem shorts k).2.2 = none →
            w' = data ∧ HasFd (acWriteLoop dist fuel o internalFd rem shorts k).1 t data.length) ∧
        ((acWriteLoop dist fuel o internalFd rem shorts k).2.2 = some .crashed → dist.stopAfter.isSome) ∧
        (dist.stopAfter = none → dist.failAt = none →
            (acWriteLoop dist fuel o internalFd rem shorts k).2.2 = none) := by
  intro fuel
  induction fuel with
  | zero => intro o rem shorts k w _ _ _ hf; omega
  | succ fuel ih =>
    intro o rem shorts k w hinv hfd hw hf
    rw [acWriteLoop_succ]
    split
    · rename_i he
      have : rem = [] := by simpa using he
      subst this
      simp only [List.append_nil] at hw
      subst hw
      exact ⟨w, hinv, fun _ => ⟨rfl, hfd⟩, fun h => (by cases h), fun _ _ => rfl⟩
    · rename_i he
      have hne : rem ≠ [] := by simpa using he
      split
      · rename_i hs
        exact ⟨w, hinv.crash, fun h => (by cases h), fun _ => (by simp [hs]),
          fun h => (by rw [h] at hs; cases hs)⟩
      · split
        · rename_i hfa
          exact ⟨w, hinv, fun h => (by cases h), fun h => (by cases h),
            fun _ h => (by rw [h] at hfa; cases hfa)⟩
        · obtain ⟨hi', hfd', hnone⟩ := hinv.write hfd rem (chunkLen shorts rem)
          rw [hnone]
          have hpos := chunkLen_pos shorts rem hne
          have hlen : 0 < rem.length := List.length_pos_iff.mpr hne
          exact ih _ (rem.drop (chunkLen shorts rem)) shorts.tail (k + 1) _ hi' hfd'
            (by rw [List.append_assoc, List.take_append_drop]; exact hw)
            (by rw [List.length_drop]; omega)



theorem tmpIno_exists (o0 : Os) (tmp : String) : ∃ t, TmpIno o0 tmp t := by
  cases h : aget o0.root tmp with
  | none => exact ⟨_, Or.inr ⟨h, rfl⟩⟩
  | some t => exact ⟨t, Or.inl h⟩

/-- `openat` of the temporary file never fails and establishes the invariant with nothing written:
an existing file is truncated (`O_TRUNC`), a missing one is created empty. -/
theorem open_spec (o0 : Os) (tmp : String) (hwf : WF o0) :
    (Os.openat { o0 with tmpCount := o0.tmpCount + 1 } none tmp acFlags true).2 = none ∧
    ∃ t, TmpIno o0 tmp t ∧
      Inv o0 tmp t [] (Os.openat { o0 with tmpCount := o0.tmpCount + 1 } none tmp acFlags true).1 ∧
      HasFd (Os.openat { o0 with tmpCount := o0.tmpCount + 1 } none tmp acFlags true).1 t 0 := by
  cases h : aget o0.root tmp with
  | some ino =>
    rw [openat_tmp_some { o0 with tmpCount := o0.tmpCount + 1 } tmp ino h]
    refine ⟨rfl, ino, Or.inl h, ⟨hwf.of_eq (by simp) rfl rfl rfl, h, ?_, rfl, ?_, fun _ _ => rfl, rfl, fun _ _ hk => Or.inl hk⟩, ?_⟩
    · exact getD_set_nil _ _
    · intro i hi; exact getD_set_ne _ _ _ _ hi
    · exact aget_aset_same _ _ _
  | none =>
    rw [openat_tmp_none { o0 with tmpCount := o0.tmpCount + 1 } tmp h]
    refine ⟨rfl, o0.inodes.length, Or.inr ⟨h, rfl⟩, ⟨⟨?_, ?_, ?_⟩, ?_, ?_, rfl, ?_, ?_, rfl, ?_⟩, ?_⟩
    · show (o0.inodes ++ [[]]).length = (o0.durable ++ [[]]).length
      simp [hwf.len]
    · intro k ino hk
      show ino < (o0.inodes ++ [[]]).length
      have hk : aget (aset o0.root tmp o0.inodes.length) k = some ino := hk
      rw [List.length_append]
      by_cases hkt : k = tmp
      · subst hkt; rw [aget_aset_same] at hk; cases hk; simp
      · rw [aget_aset_ne _ _ _ _ hkt] at hk
        have := hwf.rootB k ino hk; omega
    · intro d es n ino hd he
      show ino < (o0.inodes ++ [[]]).length
      rw [List.length_append]
      have := hwf.dirsB d es n ino hd he; omega
    · exact aget_aset_same _ _ _
    · show (o0.inodes ++ [[]]).getD o0.inodes.length [] = []
      rw [getD_snoc_nil]; simp [List.getD_eq_getElem?_getD]
    · intro i _; exact getD_snoc_nil _ _
    · intro i _; exact getD_snoc_nil _ _
    · intro k i hk
      have hk : aget (aset o0.root tmp o0.inodes.length) k = some i := hk
      by_cases hkt : k = tmp
      · subst hkt; rw [aget_aset_same] at hk; cases hk; exact Or.inr ⟨rfl, rfl⟩
      · rw [aget_aset_ne _ _ _ _ hkt] at hk; exact Or.inl hk
    · exact aget_aset_same _ _ _


/-! ### the two outcomes of a run -/

/-- Outcome "the rename did not happen": the sub-directories are as they were, every inode but the
temporary one is untouched. -/
structure Before (o0 : Os) (tmp : String) (t : Nat) (o : Os) : Prop where
  wf : WF o
  dirs : o.dirs = o0.dirs
  oth : ∀ i, i ≠ t → o.inodes.getD i [] = o0.inodes.getD i []
  dur : ∀ i, i ≠ t → o.durable.getD i [] = o0.durable.getD i []
  cnt : o.tmpCount = o0.tmpCount + 1
  rootSub : ∀ k i, aget o.root k = some i → aget o0.root k = some i ∨ (k = tmp ∧ i = t)

/-- Outcome "the rename happened": `d/n` points to the temporary inode, whose volatile *and*
durable contents are exactly `data`; nothing else changed in the sub-directories. -/
structure Done (o0 : Os) (tmp d n : String) (t : Nat) (data : Bytes) (o : Os) : Prop where
  wf : WF o
  dirs : ∃ es, aget o0.dirs d = some es ∧ o.dirs = aset o0.dirs d (aset es n t)
  cur : o.inodes.getD t [] = data
  durc : o.durable.getD t [] = data
  oth : ∀ i, i ≠ t → o.inodes.getD i [] = o0.inodes.getD i []
  dur : ∀ i, i ≠ t → o.durable.getD i [] = o0.durable.getD i []
  cnt : o.tmpCount = o0.tmpCount + 1
  /-- the temporary name is gone from the root, nothing else changed there -/
  rootSub : ∀ k i, aget o.root k = some i → k ≠ tmp ∧ aget o0.root k = some i

theorem Inv.before {o0 o : Os} {tmp : String} {t : Nat} {w : Bytes} (h : Inv o0 tmp t w o) :
    Before o0 tmp t o := ⟨h.wf, h.dirs, h.oth, h.dur, h.cnt, h.rootSub⟩

theorem Before.early (o0 : Os) (tmp : String) (t : Nat) (hwf : WF o0) :
    Before o0 tmp t { o0 with tmpCount := o0.tmpCount + 1 } :=
  ⟨hwf.of_eq rfl rfl rfl rfl, rfl, fun _ _ => rfl, fun _ _ => rfl, rfl, fun _ _ hk => Or.inl hk⟩

theorem Before.of_fds {o0 o o' : Os} {tmp : String} {t : Nat} (h : Before o0 tmp t o)
    (hi : o'.inodes = o.inodes) (hd : o'.durable = o.durable) (hr : o'.root = o.root)
    (hds : o'.dirs = o.dirs) (hc : o'.tmpCount = o.tmpCount) : Before o0 tmp t o' :=
  ⟨h.wf.of_eq (by rw [hi]) (by rw [hd]) hr hds, by rw [hds]; exact h.dirs, by rw [hi]; exact h.oth,
   by rw [hd]; exact h.dur, by rw [hc]; exact h.cnt, by rw [hr]; exact h.rootSub⟩

theorem Before.crash {o0 o : Os} {tmp : String} {t : Nat} (h : Before o0 tmp t o) :
    Before o0 tmp t o.crash :=
  h.of_fds rfl rfl rfl rfl rfl

theorem Before.close {o0 o : Os} {tmp : String} {t : Nat} (h : Before o0 tmp t o) (fd : Nat) :
    Before o0 tmp t (o.close fd).1 := by
  unfold Os.close; split
  · exact h.of_fds rfl rfl rfl rfl rfl
  · exact h

theorem Done.of_fds {o0 o o' : Os} {tmp d n : String} {t : Nat} {data : Bytes} (h : Done o0 tmp d n t data o)
    (hi : o'.inodes = o.inodes) (hd : o'.durable = o.durable) (hr : o'.root = o.root)
    (hds : o'.dirs = o.dirs) (hc : o'.tmpCount = o.tmpCount) : Done o0 tmp d n t data o' :=
  ⟨h.wf.of_eq (by rw [hi]) (by rw [hd]) hr hds, by rw [hds]; exact h.dirs, by rw [hi]; exact h.cur,
   by rw [hd]; exact h.durc, by rw [hi]; exact h.oth, by rw [hd]; exact h.dur, by rw [hc]; exact h.cnt,
   by rw [hr]; exact h.rootSub⟩

theorem Done.crash {o0 o : Os} {tmp d n : String} {t : Nat} {data : Bytes} (h : Done o0 tmp d n t data o) :
    Done o0 tmp d n t data o.crash := h.of_fds rfl rfl rfl rfl rfl

theorem Done.close {o0 o : Os} {tmp d n : String} {t : Nat} {data : Bytes} (h : Done o0 tmp d n t data o)
    (fd : Nat) : Done o0 tmp d n t data (o.close fd).1 := by
  unfold Os.close; split
  · exact h.of_fds rfl rfl rfl rfl rfl
  · exact h

/-- `fsync` of the fully written temporary file: the invariant still holds and the durable
contents of the temporary inode are now `data`. -/
theorem Inv.fsync {o0 o : Os} {tmp : String} {t : Nat} {w : Bytes} {off : Nat} (h : Inv o0 tmp t w o)
    (hfd : HasFd o t off) :
    Inv o0 tmp t w (o.fsync internalFd).1 ∧ (o.fsync internalFd).1.durable.getD t [] = w := by
  rw [fsync_eq o internalFd t off hfd]
  have hlt : t < o.durable.length := by rw [← h.wf.len]; exact h.lt
  refine ⟨⟨h.wf.of_eq rfl (by simp) rfl rfl, h.root, h.cur, h.dirs, h.oth, ?_, h.cnt, h.rootSub⟩, ?_⟩
  · intro i hi
    show (o.durable.set t _).getD i [] = _
    rw [getD_set_ne _ _ _ _ hi]; exact h.dur i hi
  · show (o.durable.set t _).getD t [] = _
    rw [getD_set_same _ _ _ hlt, h.cur]

/-- `renameat(tmp → d/n)` when `d` exists: succeeds and yields the `Done` outcome. -/
theorem Inv.rename {o0 o : Os} {tmp d n : String} {t : Nat} {data : Bytes} {es : List (String × Nat)}
    (h : Inv o0 tmp t data o) (hdur : o.durable.getD t [] = data) (hd : aget o0.dirs d = some es) :
    (o.renameat tmp (some d) n).2 = none ∧ Done o0 tmp d n t data (o.renameat tmp (some d) n).1 := by
  have hd' : aget o.dirs d = some es := by rw [h.dirs]; exact hd
  rw [renameat_eq o tmp d n t es h.root hd']
  refine ⟨rfl, ⟨⟨h.wf.len, ?_, ?_⟩, ⟨es, hd, by rw [← h.dirs]⟩, h.cur, hdur, h.oth, h.dur, h.cnt, ?_⟩⟩
  · intro k ino hk
    exact h.wf.rootB k ino (aget_adel_some _ _ _ _ hk)
  · intro d' es' n' ino hd'' he
    have hd'' : aget (aset o.dirs d (aset es n t)) d' = some es' := hd''
    show ino < o.inodes.length
    by_cases hdd : d' = d
    · subst hdd
      rw [aget_aset_same] at hd''
      cases hd''
      by_cases hnn : n' = n
      · subst hnn; rw [aget_aset_same] at he; cases he; exact h.lt
      · rw [aget_aset_ne _ _ _ _ hnn] at he
        exact h.wf.dirsB d' es n' ino hd' he
    · rw [aget_aset_ne _ _ _ _ hdd] at hd''
      exact h.wf.dirsB d' es' n' ino hd'' he
  · intro k i hk
    have hk : aget (adel o.root tmp) k = some i := hk
    have hkt : k ≠ tmp := fun e => by rw [e, aget_adel_same] at hk; cases hk
    rw [aget_adel_ne _ _ _ hkt] at hk
    rcases h.rootSub k i hk with h' | ⟨h', _⟩
    · exact ⟨hkt, h'⟩
    · exact absurd h' hkt


/-! ### the whole call -/

/-- What a run leaves behind, and how it ended. Either the rename did not happen: the call did not
return normally, and it was disturbed or the directory is missing. Or it happened: the call returned
normally, or the process was killed after the rename. -/
def Outcome (o0 : Os) (tmp d n : String) (data : Bytes) (dist : Disturb) (t : Nat) (r : Os × AcOut) :
    Prop :=
  (Before o0 tmp t r.1 ∧ (r.2 = .panic ∨ (r.2 = .crashed ∧ dist.stopAfter.isSome)) ∧
      (dist.stopAfter = none → dist.failAt = none → aget o0.dirs d = none)) ∨
  (Done o0 tmp d n t data r.1 ∧ (r.2 = .ok ∨ (r.2 = .crashed ∧ dist.stopAfter.isSome)))

/-- The part of `acRun` after the write loop (same text). -/
def acFinish (dist : Disturb) (tmp d n : String) (o1 : Os) (k : Nat) (out : Option AcOut) : Os × AcOut :=
  let fd := internalFd
  match out with
  | some .crashed => (o1, .crashed)
  | some _ => ((o1.close fd).1, .panic)
  | none =>
    if dist.stopAfter = some k then (o1.crash, .crashed)
    else if dist.failAt = some k then ((o1.close fd).1, .panic)
    else
      let o2 := (o1.fsync fd).1
      if dist.stopAfter = some (k + 1) then (o2.crash, .crashed)
      else if dist.failAt = some (k + 1) then ((o2.close fd).1, .panic)
      else
        let r3 := o2.renameat tmp (some d) n
        match r3.2 with
        | some _ => ((r3.1.close fd).1, .panic)
        | none =>
          if dist.stopAfter = some (k + 2) then (r3.1.crash, .crashed)
          else ((r3.1.close fd).1, .ok)

theorem acRun_eq (o0 : Os) (d n : String) (data : Bytes) (dist : Disturb) :
    acRun o0 d n data dist =
      if dist.stopAfter = some 0 then (Os.crash { o0 with tmpCount := o0.tmpCount + 1 }, .crashed)
      else if dist.failAt = some 0 then ({ o0 with tmpCount := o0.tmpCount + 1 }, .panic)
      else
        match (Os.openat { o0 with tmpCount := o0.tmpCount + 1 } none (tmpName n o0.tmpCount) acFlags true).2 with
        | some _ => ((Os.openat { o0 with tmpCount := o0.tmpCount + 1 } none (tmpName n o0.tmpCount) acFlags true).1, .panic)
        | none =>
          acFinish dist (tmpName n o0.tmpCount) d n
            (acWriteLoop dist (data.length + 1)
              (Os.openat { o0 with tmpCount := o0.tmpCount + 1 } none (tmpName n o0.tmpCount) acFlags true).1
              internalFd data dist.shorts 1).1
            (acWriteLoop dist (data.length + 1)
              (Os.openat { o0 with tmpCount := o0.tmpCount + 1 } none (tmpName n o0.tmpCount) acFlags true).1
              internalFd data dist.shorts 1).2.1
            (acWriteLoop dist (data.length + 1)
              (Os.openat { o0 with tmpCount := o0.tmpCount + 1 } none (tmpName n o0.tmpCount) acFlags true).1
              internalFd data dist.shorts 1).2.2 := rfl

theorem finish_spec (dist : Disturb) (o0 : Os) (tmp d n : String) (t : Nat) (data w' : Bytes)
    (o1 : Os) (k : Nat) (out : Option AcOut) (hinv : Inv o0 tmp t w' o1)
    (hnone : out = none → w' = data ∧ HasFd o1 t data.length)
    (hcr : out = some .crashed → dist.stopAfter.isSome)
    (hund : dist.stopAfter = none → dist.failAt = none → out = none) :
    Outcome o0 tmp d n data dist t (acFinish dist tmp d n o1 k out) := by
  unfold acFinish
  simp only []
  split
  · exact Or.inl ⟨hinv.before, Or.inr ⟨rfl, hcr rfl⟩, fun h1 h2 => by cases hund h1 h2⟩
  · exact Or.inl ⟨(hinv.close _).before, Or.inl rfl, fun h1 h2 => by cases hund h1 h2⟩
  · obtain ⟨hw, hfd⟩ := hnone rfl
    subst hw
    split
    · rename_i hs
      exact Or.inl ⟨hinv.crash.before, Or.inr ⟨rfl, by simp [hs]⟩, fun h => by rw [h] at hs; cases hs⟩
    split
    · rename_i hf
      exact Or.inl ⟨(hinv.close _).before, Or.inl rfl, fun _ h => by rw [h] at hf; cases hf⟩
    obtain ⟨hinv2, hdur2⟩ := hinv.fsync hfd
    split
    · rename_i hs
      exact Or.inl ⟨hinv2.crash.before, Or.inr ⟨rfl, by simp [hs]⟩, fun h => by rw [h] at hs; cases hs⟩
    split
    · rename_i hf
      exact Or.inl ⟨(hinv2.close _).before, Or.inl rfl, fun _ h => by rw [h] at hf; cases hf⟩
    cases hd : aget o0.dirs d with
    | none =>
      have hd' : aget (o1.fsync internalFd).1.dirs d = none := by rw [hinv2.dirs]; exact hd
      rw [renameat_nodir _ _ _ _ hd']
      exact Or.inl ⟨(hinv2.close _).before, Or.inl rfl, fun _ _ => hd⟩
    | some es =>
      obtain ⟨hr, hdone⟩ := hinv2.rename (n := n) hdur2 hd
      rw [hr]
      simp only []
      split
      · rename_i hs
        exact Or.inr ⟨hdone.crash, Or.inr ⟨rfl, by simp [hs]⟩⟩
      · exact Or.inr ⟨hdone.close _, Or.inl rfl⟩

/-- Every run ends in one of the two outcomes, for the inode the temporary name resolves to. -/
theorem acRun_cases (o0 : Os) (d n : String) (data : Bytes) (dist : Disturb) (hwf : WF o0) :
    ∃ t, TmpIno o0 (tmpName n o0.tmpCount) t ∧
      Outcome o0 (tmpName n o0.tmpCount) d n data dist t (acRun o0 d n data dist) := by
  rw [acRun_eq]
  split
  · rename_i hs
    obtain ⟨t, ht⟩ := tmpIno_exists o0 (tmpName n o0.tmpCount)
    exact ⟨t, ht, Or.inl ⟨(Before.early o0 _ t hwf).crash, Or.inr ⟨rfl, by simp [hs]⟩,
      fun h => by rw [h] at hs; cases hs⟩⟩
  split
  · rename_i hf
    obtain ⟨t, ht⟩ := tmpIno_exists o0 (tmpName n o0.tmpCount)
    exact ⟨t, ht, Or.inl ⟨Before.early o0 _ t hwf, Or.inl rfl, fun _ h => by rw [h] at hf; cases hf⟩⟩
  obtain ⟨hopen, t, ht, hinv, hfd⟩ := open_spec o0 (tmpName n o0.tmpCount) hwf
  rw [hopen]
  refine ⟨t, ht, ?_⟩
  obtain ⟨w', hinv1, h1, h2, h3⟩ := loop_spec dist o0 (tmpName n o0.tmpCount) t data (data.length + 1) _ data
    dist.shorts 1 [] hinv hfd rfl (Nat.lt_succ_self _)
  exact finish_spec dist o0 _ d n t data w' _ _ _ hinv1 h1 h2 h3



/-! ### what the outcomes say about the contents of names -/

theorem lookup_of_dirs {o o0 : Os} (h : o.dirs = o0.dirs) (d n : String) :
    o.lookup (some d) n = o0.lookup (some d) n := by
  simp only [Os.lookup, Os.entries, h]

theorem lookup_isSome_dir {o : Os} {d n : String} {i : Nat} (h : o.lookup (some d) n = some i) :
    (aget o.dirs d).isSome := by
  simp only [Os.lookup, Os.entries] at h
  cases hd : aget o.dirs d with
  | none => rw [hd] at h; cases h
  | some _ => rfl

/-- The temporary name of this call is not a hard link of `d/n` (in particular: it is fresh). -/
def TmpNotLinked (o0 : Os) (n d' n' : String) : Prop :=
  ∀ ino, aget o0.root (tmpName n o0.tmpCount) = some ino → o0.lookup (some d') n' ≠ some ino

theorem TmpNotLinked.of_fresh {o0 : Os} {n : String} (h : aget o0.root (tmpName n o0.tmpCount) = none)
    (d' n' : String) : TmpNotLinked o0 n d' n' := by
  intro ino hi; rw [h] at hi; cases hi

/-- The inode the temporary file gets is not the one `d'/n'` points to: an existing temporary file
is not linked there by hypothesis, a new inode is linked nowhere (`WF`). -/
theorem TmpIno.ne {o0 : Os} {n d' n' : String} {t : Nat} (ht : TmpIno o0 (tmpName n o0.tmpCount) t)
    (hwf : WF o0) (h : TmpNotLinked o0 n d' n') : o0.lookup (some d') n' ≠ some t := by
  rcases ht with ht | ⟨_, ht⟩
  · exact h t ht
  · intro hl
    have := hwf.lookup_lt hl
    omega

theorem Before.content {o0 o : Os} {tmp : String} {t : Nat} (h : Before o0 tmp t o) {d n : String}
    (hne : o0.lookup (some d) n ≠ some t) :
    content o d n = content o0 d n ∧ durableContent o d n = durableContent o0 d n := by
  simp only [AtomicCreate.content, durableContent, lookup_of_dirs h.dirs]
  cases hl : o0.lookup (some d) n with
  | none => exact ⟨rfl, rfl⟩
  | some i =>
    have hi : i ≠ t := fun e => hne (by rw [hl, e])
    simp only [Option.map_some, h.oth i hi, h.dur i hi, and_self]

theorem Done.lookup_target {o0 o : Os} {tmp d n : String} {t : Nat} {data : Bytes}
    (h : Done o0 tmp d n t data o) : o.lookup (some d) n = some t := by
  obtain ⟨es, _, hd⟩ := h.dirs
  simp only [Os.lookup, Os.entries, hd, aget_aset_same, Option.bind_some]

theorem Done.content_target {o0 o : Os} {tmp d n : String} {t : Nat} {data : Bytes}
    (h : Done o0 tmp d n t data o) : content o d n = some data ∧ durableContent o d n = some data := by
  simp only [AtomicCreate.content, durableContent, h.lookup_target, Option.map_some, h.cur, h.durc, and_self]

theorem Done.lookup_other {o0 o : Os} {tmp d n : String} {t : Nat} {data : Bytes}
    (h : Done o0 tmp d n t data o) {d' n' : String} (hne : (d', n') ≠ (d, n)) :
    o.lookup (some d') n' = o0.lookup (some d') n' := by
  obtain ⟨es, hes, hd⟩ := h.dirs
  simp only [Os.lookup, Os.entries, hd]
  by_cases hdd : d' = d
  · subst hdd
    have hnn : n' ≠ n := fun e => hne (by rw [e])
    rw [aget_aset_same, hes, Option.bind_some, Option.bind_some, aget_aset_ne _ _ _ _ hnn]
  · rw [aget_aset_ne _ _ _ _ hdd]

theorem Done.content_other {o0 o : Os} {tmp d n : String} {t : Nat} {data : Bytes}
    (h : Done o0 tmp d n t data o) {d' n' : String} (hne : (d', n') ≠ (d, n))
    (hnt : o0.lookup (some d') n' ≠ some t) :
    content o d' n' = content o0 d' n' ∧ durableContent o d' n' = durableContent o0 d' n' := by
  simp only [AtomicCreate.content, durableContent, h.lookup_other hne]
  cases hl : o0.lookup (some d') n' with
  | none => exact ⟨rfl, rfl⟩
  | some i =>
    have hi : i ≠ t := fun e => hnt (by rw [hl, e])
    simp only [Option.map_some, h.oth i hi, h.dur i hi, and_self]

theorem Done.dir_isSome {o0 o : Os} {tmp d n : String} {t : Nat} {data : Bytes}
    (h : Done o0 tmp d n t data o) : (aget o.dirs d).isSome := by
  obtain ⟨es, _, hd⟩ := h.dirs
  rw [hd, aget_aset_same]; rfl


/-! ### consequences used for chaining calls -/

theorem acRun_wf (o0 : Os) (d n : String) (data : Bytes) (dist : Disturb) (hwf : WF o0) :
    WF (acRun o0 d n data dist).1 := by
  obtain ⟨t, _, hB | hD⟩ := acRun_cases o0 d n data dist hwf
  · exact hB.1.wf
  · exact hD.1.wf

theorem acRun_dir_isSome (o0 : Os) (d n : String) (data : Bytes) (dist : Disturb) (hwf : WF o0)
    (hdir : (aget o0.dirs d).isSome) : (aget (acRun o0 d n data dist).1.dirs d).isSome := by
  obtain ⟨t, _, hB | hD⟩ := acRun_cases o0 d n data dist hwf
  · rw [hB.1.dirs]; exact hdir
  · exact hD.1.dir_isSome

theorem acRun_tmpCount (o0 : Os) (d n : String) (data : Bytes) (dist : Disturb) (hwf : WF o0) :
    (acRun o0 d n data dist).1.tmpCount = o0.tmpCount + 1 := by
  obtain ⟨t, _, hB | hD⟩ := acRun_cases o0 d n data dist hwf
  · exact hB.1.cnt
  · exact hD.1.cnt


/-! ### every state reachable through the `DirFs` methods is well-formed -/

theorem WF.entries_lt {o : Os} (h : WF o) {l : Loc} {es : List (String × Nat)} {n : String} {i : Nat}
    (he : o.entries l = some es) (hn : aget es n = some i) : i < o.inodes.length := by
  cases l with
  | none => simp only [Os.entries, Option.some.injEq] at he; subst he; exact h.rootB n i hn
  | some d => exact h.dirsB d es n i he hn

/-- Replacing the entries of a directory by entries that all refer to existing inodes. -/
theorem WF.setEntries {o : Os} (h : WF o) (l : Loc) (es' : List (String × Nat))
    (hes : ∀ k i, aget es' k = some i → i < o.inodes.length) : WF (o.setEntries l es') := by
  cases l with
  | none => exact ⟨h.len, hes, h.dirsB⟩
  | some d =>
    refine ⟨h.len, h.rootB, ?_⟩
    intro d' es'' n ino hd he
    have hd : aget (aset o.dirs d es') d' = some es'' := hd
    show ino < o.inodes.length
    by_cases hdd : d' = d
    · subst hdd; rw [aget_aset_same] at hd; cases hd; exact hes n ino he
    · rw [aget_aset_ne _ _ _ _ hdd] at hd; exact h.dirsB d' es'' n ino hd he

theorem WF.setEntries_aset {o : Os} (h : WF o) {l : Loc} {es : List (String × Nat)} (n : String)
    {ino : Nat} (he : o.entries l = some es) (hi : ino < o.inodes.length) :
    WF (o.setEntries l (aset es n ino)) := by
  apply h.setEntries
  intro k i hk
  by_cases hkn : k = n
  · subst hkn; rw [aget_aset_same] at hk; cases hk; exact hi
  · rw [aget_aset_ne _ _ _ _ hkn] at hk; exact h.entries_lt he hk

theorem WF.setEntries_adel {o : Os} (h : WF o) {l : Loc} {es : List (String × Nat)} (n : String)
    (he : o.entries l = some es) : WF (o.setEntries l (adel es n)) := by
  apply h.setEntries
  intro k i hk
  exact h.entries_lt he (aget_adel_some _ _ _ _ hk)

/-- Growing both content tables by one slot. -/
theorem WF.grow {o : Os} (h : WF o) :
    WF { o with inodes := o.inodes ++ [[]], durable := o.durable ++ [[]] } := by
  refine ⟨?_, ?_, ?_⟩
  · show (o.inodes ++ [[]]).length = (o.durable ++ [[]]).length
    simp [h.len]
  · intro k i hk
    show i < (o.inodes ++ [[]]).length
    have := h.rootB k i hk
    rw [List.length_append]; omega
  · intro d es n i hd he
    show i < (o.inodes ++ [[]]).length
    have := h.dirsB d es n i hd he
    rw [List.length_append]; omega

theorem WF.openat {o : Os} (h : WF o) (l : Loc) (n : String) (f : OFlags) (internal : Bool) :
    WF (o.openat l n f internal).1 := by
  unfold Os.openat
  simp only []
  split
  · exact h
  · rename_i es hes
    split
    · split
      · exact h
      · split
        · exact h.of_eq (by simp) rfl rfl rfl
        · exact h.of_eq rfl rfl rfl rfl
    · split
      · have hg := h.grow
        have hes' : Os.entries { o with inodes := o.inodes ++ [[]], durable := o.durable ++ [[]] } l = some es := by
          cases l <;> exact hes
        have := hg.setEntries_aset n (ino := o.inodes.length) hes'
          (by show o.inodes.length < (o.inodes ++ [[]]).length; simp)
        exact this.of_eq rfl rfl rfl rfl
      · exact h

theorem WF.write {o : Os} (h : WF o) (fd : Nat) (data : Bytes) (n : Nat) : WF (o.write fd data n).1 := by
  unfold Os.write
  split
  · split
    · exact h
    · exact h.of_eq (by simp) rfl rfl rfl
  · exact h

theorem WF.fsync {o : Os} (h : WF o) (fd : Nat) : WF (o.fsync fd).1 := by
  unfold Os.fsync
  split
  · exact h.of_eq rfl (by simp) rfl rfl
  · exact h

theorem WF.unlinkat {o : Os} (h : WF o) (l : Loc) (n : String) : WF (o.unlinkat l n).1 := by
  unfold Os.unlinkat
  split
  · exact h
  · rename_i es hes
    split
    · exact h.setEntries_adel n hes
    · exact h

theorem WF.linkat {o : Os} (h : WF o) (ol : Loc) (on : String) (nl : Loc) (nn : String) :
    WF (o.linkat ol on nl nn).1 := by
  unfold Os.linkat
  split
  · rename_i ino es hl hes
    split
    · exact h
    · refine h.setEntries_aset nn hes ?_
      simp only [Os.lookup] at hl
      cases he : o.entries ol with
      | none => rw [he] at hl; cases hl
      | some es0 => rw [he] at hl; exact h.entries_lt he hl
  · exact h

theorem WF.renameat {o : Os} (h : WF o) (tmp : String) (l : Loc) (n : String) :
    WF (o.renameat tmp l n).1 := by
  unfold Os.renameat
  split
  · rename_i ino es0 hr _
    have h1 : WF { o with root := adel o.root tmp } :=
      ⟨h.len, fun k i hk => h.rootB k i (aget_adel_some _ _ _ _ hk), h.dirsB⟩
    simp only []
    split
    · rename_i es hes
      exact h1.setEntries_aset n hes (h.rootB tmp ino hr)
    · exact h
  · exact h

theorem WF.step {o : Os} (h : WF o) (op : Op) : WF (DirFs.step o op).1 := by
  cases op with
  | mkdir d => exact h.mkdirat d
  | create d n =>
    simp only [DirFs.step]
    split
    · exact h.openat _ _ _ _
    · exact h
    · exact h
  | append k data => exact h.write _ _ _
  | close k => exact h.close _
  | open_ d n =>
    simp only [DirFs.step]
    split
    · exact h.openat _ _ _ _
    · exact h
  | readAt k off len =>
    simp only [DirFs.step]
    split <;> exact h
  | delete d n => exact h.unlinkat _ _
  | link od on nd nn => exact h.linkat _ _ _ _
  | atomic d n data => exact acRun_wf o d n data {} h
  | list d =>
    simp only [DirFs.step]
    split <;> exact h

/-- Every state reachable from the empty tree through the `DirFs` methods is well-formed. -/
theorem WF.run {o : Os} (h : WF o) (ops : List Op) : WF (DirFs.run o ops).1 := by
  induction ops generalizing o with
  | nil => exact h
  | cons op ops ih => exact ih (h.step op)



/-! ### reachable states keep the root (temporary files) apart from the sub-directories

This discharges `TmpNotLinked` on every state reachable through the `DirFs` methods, without any
reasoning about the text of temporary names. -/

/-- No file of the root is also linked in a sub-directory, and no two root names share an inode. -/
structure Sep (o : Os) : Prop where
  rootDirs : ∀ k i d n, aget o.root k = some i → o.lookup (some d) n ≠ some i
  rootInj : ∀ k k' i, aget o.root k = some i → aget o.root k' = some i → k = k'

theorem Sep.empty : Sep Os.empty :=
  ⟨fun _ _ _ _ h => (by cases h), fun _ _ _ h => (by cases h)⟩

theorem Sep.tmpNotLinked {o : Os} (h : Sep o) (n d' n' : String) : TmpNotLinked o n d' n' :=
  fun ino hi => h.rootDirs _ ino d' n' hi

/-- The root is the same and every sub-directory link was a sub-directory link before. -/
theorem Sep.of_lookup {o o' : Os} (h : Sep o) (hr : o'.root = o.root)
    (hl : ∀ d n i, o'.lookup (some d) n = some i → ∃ d0 n0, o.lookup (some d0) n0 = some i) :
    Sep o' := by
  refine ⟨?_, by rw [hr]; exact h.rootInj⟩
  intro k i d n hk hln
  rw [hr] at hk
  obtain ⟨d0, n0, h0⟩ := hl d n i hln
  exact h.rootDirs k i d0 n0 hk h0

theorem Sep.of_eq {o o' : Os} (h : Sep o) (hr : o'.root = o.root) (hd : o'.dirs = o.dirs) : Sep o' :=
  h.of_lookup hr (fun d n i hl => ⟨d, n, by rw [← lookup_of_dirs hd]; exact hl⟩)

theorem lookup_setEntries {o : Os} (d : String) (es : List (String × Nat)) (d' n' : String) :
    (o.setEntries (some d) es).lookup (some d') n' =
      if d' = d then aget es n' else o.lookup (some d') n' := by
  simp only [Os.lookup, Os.entries, Os.setEntries]
  by_cases h : d' = d
  · subst h; simp only [aget_aset_same, Option.bind_some, ↓reduceIte]
  · simp only [aget_aset_ne _ _ _ _ h, h, ↓reduceIte]

theorem lookup_of_entries {o : Os} {d n : String} {es : List (String × Nat)}
    (he : o.entries (some d) = some es) : o.lookup (some d) n = aget es n := by
  simp only [Os.lookup, he, Option.bind_some]

theorem Sep.mkdirat {o : Os} (h : Sep o) (d : String) : Sep (o.mkdirat d).1 := by
  unfold Os.mkdirat; split
  · exact h
  · refine h.of_lookup rfl ?_
    intro d' n' i hl
    replace hl : (o.setEntries (some d) []).lookup (some d') n' = some i := hl
    rw [lookup_setEntries] at hl
    split at hl
    · cases hl
    · exact ⟨d', n', hl⟩

theorem Sep.close {o : Os} (h : Sep o) (fd : Nat) : Sep (o.close fd).1 := by
  unfold Os.close; split
  · exact h.of_eq rfl rfl
  · exact h

theorem Sep.write {o : Os} (h : Sep o) (fd : Nat) (data : Bytes) (n : Nat) : Sep (o.write fd data n).1 := by
  unfold Os.write; split
  · split
    · exact h
    · exact h.of_eq rfl rfl
  · exact h

theorem Sep.unlinkat {o : Os} (h : Sep o) (d n : String) : Sep (o.unlinkat (some d) n).1 := by
  unfold Os.unlinkat
  split
  · exact h
  · rename_i es hes
    split
    · refine h.of_lookup (by simp [Os.setEntries]) ?_
      intro d' n' i hl
      rw [lookup_setEntries] at hl
      split at hl
      · rename_i hdd; subst hdd
        exact ⟨d', n', by rw [lookup_of_entries hes]; exact aget_adel_some _ _ _ _ hl⟩
      · exact ⟨d', n', hl⟩
    · exact h

theorem Sep.linkat {o : Os} (h : Sep o) (od on nd nn : String) :
    Sep (o.linkat (some od) on (some nd) nn).1 := by
  unfold Os.linkat
  split
  · rename_i ino es hlk hes
    split
    · exact h
    · refine h.of_lookup (by simp [Os.setEntries]) ?_
      intro d' n' i hl
      rw [lookup_setEntries] at hl
      split at hl
      · rename_i hdd; subst hdd
        by_cases hnn : n' = nn
        · subst hnn; rw [aget_aset_same] at hl; cases hl; exact ⟨od, on, hlk⟩
        · rw [aget_aset_ne _ _ _ _ hnn] at hl
          exact ⟨d', n', by rw [lookup_of_entries hes]; exact hl⟩
      · exact ⟨d', n', hl⟩
  · exact h

/-- `openat` inside a sub-directory: an existing file changes no link; a created one gets a brand
new inode, which no root name can have (`WF`). -/
theorem Sep.openat {o : Os} (h : Sep o) (hwf : WF o) (d n : String) (f : OFlags) (internal : Bool) :
    Sep (o.openat (some d) n f internal).1 := by
  unfold Os.openat
  simp only []
  split
  · exact h
  · rename_i es hes
    split
    · split
      · exact h
      · split
        · exact h.of_eq rfl rfl
        · exact h.of_eq rfl rfl
    · split
      · refine ⟨?_, h.rootInj⟩
        intro k i d' n' hk hl
        replace hk : aget o.root k = some i := hk
        replace hl : (Os.setEntries { o with inodes := o.inodes ++ [[]], durable := o.durable ++ [[]] }
            (some d) (aset es n o.inodes.length)).lookup (some d') n' = some i := hl
        rw [lookup_setEntries] at hl
        split at hl
        · rename_i hdd; subst hdd
          by_cases hnn : n' = n
          · subst hnn; rw [aget_aset_same] at hl; cases hl
            have := hwf.rootB k _ hk; omega
          · rw [aget_aset_ne _ _ _ _ hnn] at hl
            exact h.rootDirs k i d' n' hk (by rw [lookup_of_entries hes]; exact hl)
        · exact h.rootDirs k i d' n' hk hl
      · exact h

theorem TmpIno.not_root {o0 : Os} {tmp : String} {t : Nat} (ht : TmpIno o0 tmp t) (hwf : WF o0)
    (hsep : Sep o0) {k : String} (hk : aget o0.root k = some t) : k = tmp := by
  rcases ht with ht | ⟨_, ht⟩
  · exact hsep.rootInj k tmp t hk ht
  · have := hwf.rootB k t hk; omega

theorem acRun_sep (o0 : Os) (d n : String) (data : Bytes) (dist : Disturb) (hwf : WF o0)
    (hsep : Sep o0) : Sep (acRun o0 d n data dist).1 := by
  obtain ⟨t, ht, hB | hD⟩ := acRun_cases o0 d n data dist hwf
  · have hB := hB.1
    refine ⟨?_, ?_⟩
    · intro k i d' n' hk hl
      rw [lookup_of_dirs hB.dirs] at hl
      rcases hB.rootSub k i hk with h0 | ⟨_, hi⟩
      · exact hsep.rootDirs k i d' n' h0 hl
      · subst hi; exact ht.ne hwf (hsep.tmpNotLinked n d' n') hl
    · intro k k' i hk hk'
      rcases hB.rootSub k i hk with h0 | ⟨hkt, hi⟩ <;> rcases hB.rootSub k' i hk' with h0' | ⟨hkt', hi'⟩
      · exact hsep.rootInj k k' i h0 h0'
      · subst hi'; rw [hkt']; exact ht.not_root hwf hsep h0
      · subst hi; rw [hkt]; exact (ht.not_root hwf hsep h0').symm
      · rw [hkt, hkt']
  · have hD := hD.1
    refine ⟨?_, ?_⟩
    · intro k i d' n' hk hl
      obtain ⟨hkt, h0⟩ := hD.rootSub k i hk
      by_cases hdn : (d', n') = (d, n)
      · cases hdn
        rw [hD.lookup_target] at hl; cases hl
        exact hkt (ht.not_root hwf hsep h0)
      · rw [hD.lookup_other hdn] at hl
        exact hsep.rootDirs k i d' n' h0 hl
    · intro k k' i hk hk'
      exact hsep.rootInj k k' i (hD.rootSub k i hk).2 (hD.rootSub k' i hk').2

theorem Sep.step {o : Os} (h : Sep o) (hwf : WF o) (op : Op) : Sep (DirFs.step o op).1 := by
  cases op with
  | mkdir d => exact h.mkdirat d
  | create d n =>
    simp only [DirFs.step]
    split
    · exact h.openat hwf _ _ _ _
    · exact h
    · exact h
  | append k data => exact h.write _ _ _
  | close k => exact h.close _
  | open_ d n =>
    simp only [DirFs.step]
    split
    · exact h.openat hwf _ _ _ _
    · exact h
  | readAt k off len =>
    simp only [DirFs.step]
    split <;> exact h
  | delete d n => exact h.unlinkat _ _
  | link od on nd nn => exact h.linkat _ _ _ _
  | atomic d n data => exact acRun_sep o d n data {} hwf h
  | list d =>
    simp only [DirFs.step]
    split <;> exact h

theorem Sep.run {o : Os} (h : Sep o) (hwf : WF o) (ops : List Op) : Sep (DirFs.run o ops).1 := by
  induction ops generalizing o with
  | nil => exact h
  | cons op ops ih => exact ih (h.step hwf op) (hwf.step op)



/-- States reachable from the empty tree: through the `DirFs` methods, through `AtomicCreate` calls
disturbed in any way (killed after any number of system calls, a failing system call, short
writes), and through process crashes. -/
inductive Reach : Os → Prop
  | empty : Reach Os.empty
  | step (o : Os) (op : Op) : Reach o → Reach (DirFs.step o op).1
  | atomic (o : Os) (d n : String) (data : Bytes) (dist : Disturb) : Reach o → Reach (acRun o d n data dist).1
  | crash (o : Os) : Reach o → Reach o.crash

theorem Reach.run {o : Os} (h : Reach o) (ops : List Op) : Reach (DirFs.run o ops).1 := by
  induction ops generalizing o with
  | nil => exact h
  | cons op ops ih => exact ih (Reach.step o op h)

theorem Reach.wf_sep {o : Os} (h : Reach o) : WF o ∧ Sep o := by
  induction h with
  | empty => exact ⟨WF.empty, Sep.empty⟩
  | step o op _ ih => exact ⟨ih.1.step op, ih.2.step ih.1 op⟩
  | atomic o d n data dist _ ih => exact ⟨acRun_wf o d n data dist ih.1, acRun_sep o d n data dist ih.1 ih.2⟩
  | crash o _ ih => exact ⟨ih.1.crash, ih.2.of_eq rfl rfl⟩

end GooseVerif.Lemmas.AtomicCreate
