import GooseVerif.Model.MemFs

namespace GooseVerif.Model.Fs

/-! ### association lists under a renaming of keys and values -/

section assoc
variable {κ ν κ' ν' : Type} [BEq κ] [BEq κ']

theorem find_map (g : κ → κ') (h : ν → ν') (hg : ∀ a b, (g a == g b) = (a == b))
    (m : List (κ × ν)) (k : κ) :
    (m.map (fun e => (g e.1, h e.2))).find? (fun e => e.1 == g k) =
      (m.find? (fun e => e.1 == k)).map (fun e => (g e.1, h e.2)) := by
  induction m with
  | nil => rfl
  | cons e m ih =>
    rw [List.map_cons, List.find?_cons, List.find?_cons]
    show (match g e.1 == g k with | true => _ | false => _) = _
    rw [hg]
    cases e.1 == k
    · exact ih
    · rfl

theorem aget_map (g : κ → κ') (h : ν → ν') (hg : ∀ a b, (g a == g b) = (a == b))
    (m : List (κ × ν)) (k : κ) :
    aget (m.map (fun e => (g e.1, h e.2))) (g k) = (aget m k).map h := by
  unfold aget
  rw [find_map g h hg]
  cases m.find? (fun e => e.1 == k) <;> rfl

theorem adel_map (g : κ → κ') (h : ν → ν') (hg : ∀ a b, (g a == g b) = (a == b))
    (m : List (κ × ν)) (k : κ) :
    adel (m.map (fun e => (g e.1, h e.2))) (g k) = (adel m k).map (fun e => (g e.1, h e.2)) := by
  induction m with
  | nil => rfl
  | cons e m ih =>
    simp only [adel, List.map_cons, List.filter_cons, hg] at ih ⊢
    cases hk : e.1 == k <;> simp [ih]

theorem aset_map (g : κ → κ') (h : ν → ν') (hg : ∀ a b, (g a == g b) = (a == b))
    (m : List (κ × ν)) (k : κ) (v : ν) :
    aset (m.map (fun e => (g e.1, h e.2))) (g k) (h v) = (aset m k v).map (fun e => (g e.1, h e.2)) := by
  induction m with
  | nil => rfl
  | cons e m ih =>
    simp only [aset, List.map_cons, hg]
    cases hk : e.1 == k <;> simp [ih]

end assoc

/-! ### inode numbering: `len(inodes)+1` over a map from which nothing is removed -/

def number : List Bytes → Nat → List (Nat × Bytes)
  | [], _ => []
  | b :: l, k => (k + 1, b) :: number l (k + 1)

theorem number_length (l : List Bytes) (k : Nat) : (number l k).length = l.length := by
  induction l generalizing k with
  | nil => rfl
  | cons b l ih => simp [number, ih]

theorem aget_number (l : List Bytes) (k i : Nat) : aget (number l k) (k + i + 1) = l[i]? := by
  induction l generalizing k i with
  | nil => simp [number, aget]
  | cons b l ih =>
    cases i with
    | zero => simp [number, aget]
    | succ j =>
      have : ((k + 1) == (k + (j + 1) + 1)) = false := by simp <;> omega
      simp only [number, aget, List.find?_cons, this] at ih ⊢
      have := ih (k + 1) j
      rw [show k + 1 + j + 1 = k + (j + 1) + 1 by omega] at this
      simpa using this

theorem aget_number_none (l : List Bytes) (k j : Nat) (h : j ≤ k ∨ k + l.length < j) : aget (number l k) j = none := by
  induction l generalizing k with
  | nil => simp [number, aget]
  | cons b l ih =>
    have hne : ((k + 1) == j) = false := by
      simp only [List.length_cons] at h; simp; omega
    simp only [number, aget, List.find?_cons, hne] at ih ⊢
    have := ih (k + 1) (by simp only [List.length_cons] at h; omega)
    simpa using this

theorem aset_number_set (l : List Bytes) (k i : Nat) (v : Bytes) (hi : i < l.length) :
    aset (number l k) (k + i + 1) v = number (l.set i v) k := by
  induction l generalizing k i with
  | nil => simp at hi
  | cons b l ih =>
    cases i with
    | zero => simp [number, aset]
    | succ j =>
      have : ((k + 1) == (k + (j + 1) + 1)) = false := by simp <;> omega
      simp only [number, aset, this, List.set_cons_succ]
      have := ih (k + 1) j (by simpa using hi)
      rw [show k + 1 + j + 1 = k + (j + 1) + 1 by omega] at this
      simp [this]

theorem aset_number_append (l : List Bytes) (k : Nat) (v : Bytes) :
    aset (number l k) (k + l.length + 1) v = number (l ++ [v]) k := by
  induction l generalizing k with
  | nil => simp [number, aset]
  | cons b l ih =>
    have : ((k + 1) == (k + (l.length + 1) + 1)) = false := by simp <;> omega
    simp only [number, aset, List.length_cons, this, List.cons_append]
    have := ih (k + 1)
    rw [show k + 1 + l.length + 1 = k + (l.length + 1) + 1 by omega] at this
    simp [this]

/-! ### the simulation between MemFs and Ref -/

def shE (e : (String × String) × Nat) : (String × String) × Nat := (e.1, e.2 + 1)
def shF (e : Nat × (Nat × FMode)) : Nat × (Nat × FMode) := (e.1 + 1, (e.2.1 + 1, e.2.2))

structure MemSim (m : MemFs) (r : Ref) : Prop where
  dirs : m.validDirs = r.dirs
  inodes : m.inodes = number r.inodes 0
  dirents : m.dirents = r.dirents.map (fun e => (id e.1, (· + 1) e.2))
  fds : m.openFiles = r.fds.map (fun e => ((· + 1) e.1, (fun v : Nat × FMode => (v.1 + 1, v.2)) e.2))
  lastFd : m.lastFd = r.nfds
  /-- every inode referred to exists -/
  wfD : ∀ e ∈ r.dirents, e.2 < r.inodes.length
  wfF : ∀ e ∈ r.fds, e.2.1 < r.inodes.length

theorem beq_id_pair (a b : String × String) : (id a == id b) = (a == b) := rfl
theorem beq_succ (a b : Nat) : ((a + 1) == (b + 1)) = (a == b) := by
  cases h : a == b <;> simp_all

theorem mem_aset {κ ν : Type} [BEq κ] (m : List (κ × ν)) (k : κ) (v : ν) (e : κ × ν)
    (h : e ∈ aset m k v) : e ∈ m ∨ e = (k, v) := by
  induction m with
  | nil => simp [aset] at h; exact Or.inr h
  | cons x m ih =>
    simp only [aset] at h
    split at h
    · simp only [List.mem_cons] at h ⊢
      rcases h with h | h
      · exact Or.inr h
      · exact Or.inl (Or.inr h)
    · simp only [List.mem_cons] at h ⊢
      rcases h with h | h
      · exact Or.inl (Or.inl h)
      · rcases ih h with h | h
        · exact Or.inl (Or.inr h)
        · exact Or.inr h

theorem mem_adel {κ ν : Type} [BEq κ] (m : List (κ × ν)) (k : κ) (e : κ × ν) (h : e ∈ adel m k) : e ∈ m :=
  (List.mem_filter.mp h).1

theorem aget_mem {κ ν : Type} [BEq κ] (m : List (κ × ν)) (k : κ) (v : ν) (h : aget m k = some v) :
    ∃ k', (k', v) ∈ m := by
  simp only [aget, Option.map_eq_some_iff] at h
  obtain ⟨e, he, rfl⟩ := h
  exact ⟨e.1, List.mem_of_find?_eq_some he⟩

end GooseVerif.Model.Fs

namespace GooseVerif.Model.Fs

theorem getD_number (l : List Bytes) (ino : Nat) :
    (aget (number l 0) (ino + 1)).getD [] = l.getD ino [] := by
  have := aget_number l 0 ino
  rw [Nat.zero_add] at this
  rw [this, List.getD_eq_getElem?_getD]

theorem aget_dirents (r : Ref) (d n : String) :
    aget (r.dirents.map (fun e => (id e.1, (· + 1) e.2))) (d, n) = (aget r.dirents (d, n)).map (· + 1) :=
  aget_map id (· + 1) beq_id_pair r.dirents (d, n)

theorem aget_fds (r : Ref) (k : Nat) :
    aget (r.fds.map (fun e => ((· + 1) e.1, (fun v : Nat × FMode => (v.1 + 1, v.2)) e.2))) (k + 1)
      = (aget r.fds k).map (fun v => (v.1 + 1, v.2)) :=
  aget_map (· + 1) (fun v : Nat × FMode => (v.1 + 1, v.2)) beq_succ r.fds k

theorem mem_step_sim (m : MemFs) (r : Ref) (hs : MemSim m r) (op : Op) (hv : (r.step op).2 ≠ .invalid) :
    (m.step (shiftOp op)).2 = shiftOut (r.step op).2 ∧ MemSim (m.step (shiftOp op)).1 (r.step op).1 := by
  obtain ⟨hd, hi, he, hf, hl, wd, wf⟩ := hs
  obtain ⟨validDirs, inodes, dirents, openFiles, lastFd⟩ := m
  simp only at hd hi he hf hl
  subst hd hi he hf hl
  cases op with
  | mkdir d =>
    cases hc : r.dirs.contains d with
    | true => exfalso; apply hv; simp only [Ref.step, hc, ↓reduceIte]
    | false =>
      simp only [shiftOp, Ref.step, MemFs.step, hc, Bool.false_eq_true, ↓reduceIte, shiftOut, true_and]
      exact ⟨rfl, rfl, rfl, rfl, rfl, wd, wf⟩
  | create d n =>
    cases hc : r.dirs.contains d
    · exfalso; apply hv; simp only [Ref.step, hc, Bool.not_false, ↓reduceIte]
    simp only [shiftOp, Ref.step, MemFs.step, Ref.lookup, hc, Bool.not_true, Bool.false_eq_true, ↓reduceIte, aget_dirents]
    cases hlk : aget r.dirents (d, n) with
    | some ino => exact ⟨rfl, rfl, rfl, rfl, rfl, rfl, wd, wf⟩
    | none =>
      simp only [Option.map_none, shiftOut, true_and, number_length]
      refine ⟨rfl, ?_, ?_, ?_, rfl, ?_, ?_⟩
      · have := aset_number_append r.inodes 0 []
        simpa using this
      · exact aset_map id (· + 1) beq_id_pair r.dirents (d, n) r.inodes.length
      · exact aset_map (· + 1) (fun v : Nat × FMode => (v.1 + 1, v.2)) beq_succ r.fds r.nfds (r.inodes.length, .append)
      · intro e hmem
        simp only [List.length_append, List.length_cons, List.length_nil]
        rcases mem_aset _ _ _ _ hmem with h | h
        · have := wd e h; omega
        · rw [h]; simp
      · intro e hmem
        simp only [List.length_append, List.length_cons, List.length_nil]
        rcases mem_aset _ _ _ _ hmem with h | h
        · have := wf e h; omega
        · rw [h]; simp
  | append k data =>
    simp only [shiftOp, Ref.step, MemFs.step, MemFs.checkMode, aget_fds] at hv ⊢
    cases hk : aget r.fds k with
    | none => simp [hk] at hv
    | some v =>
      obtain ⟨ino, mode⟩ := v
      cases mode with
      | read => simp [hk] at hv
      | append =>
        simp only [Option.map_some, ↓reduceIte, shiftOut, true_and]
        obtain ⟨k', hk'⟩ := aget_mem _ _ _ hk
        have hino : ino < r.inodes.length := wf _ hk'
        refine ⟨rfl, ?_, rfl, rfl, rfl, ?_, ?_⟩
        · simp only [getD_number]
          have := aset_number_set r.inodes 0 ino (r.inodes.getD ino [] ++ data) hino
          simpa using this
        · intro e hmem; simp only [List.length_set]; exact wd e hmem
        · intro e hmem; simp only [List.length_set]; exact wf e hmem
  | close k =>
    simp only [shiftOp, Ref.step, MemFs.step, aget_fds] at hv ⊢
    cases hk : aget r.fds k with
    | none => simp [hk] at hv
    | some v =>
      simp only [Option.map_some, shiftOut, true_and]
      refine ⟨rfl, rfl, rfl, ?_, rfl, wd, ?_⟩
      · exact adel_map (· + 1) (fun v : Nat × FMode => (v.1 + 1, v.2)) beq_succ r.fds k
      · intro e hmem; exact wf e (mem_adel _ _ _ hmem)
  | open_ d n =>
    cases hc : r.dirs.contains d
    · exfalso; apply hv; simp only [Ref.step, hc, Bool.not_false, ↓reduceIte]
    simp only [shiftOp, Ref.step, MemFs.step, Ref.lookup, hc, Bool.not_true, Bool.false_eq_true, ↓reduceIte, aget_dirents] at hv ⊢
    cases hlk : aget r.dirents (d, n) with
    | none => simp [hlk] at hv
    | some ino =>
      simp only [Option.map_some, shiftOut, true_and]
      obtain ⟨k', hk'⟩ := aget_mem _ _ _ hlk
      refine ⟨rfl, rfl, rfl, ?_, rfl, wd, ?_⟩
      · exact aset_map (· + 1) (fun v : Nat × FMode => (v.1 + 1, v.2)) beq_succ r.fds r.nfds (ino, .read)
      · intro e hmem
        rcases mem_aset _ _ _ _ hmem with h | h
        · exact wf e h
        · rw [h]; exact wd _ hk'
  | readAt k off len =>
    simp only [shiftOp, Ref.step, MemFs.step, MemFs.checkMode, aget_fds] at hv ⊢
    cases hk : aget r.fds k with
    | none => simp [hk] at hv
    | some v =>
      obtain ⟨ino, mode⟩ := v
      cases mode with
      | append => simp [hk] at hv
      | read =>
        simp only [Option.map_some, ↓reduceIte, shiftOut, getD_number, true_and]
        exact ⟨rfl, rfl, rfl, rfl, rfl, wd, wf⟩
  | delete d n =>
    simp only [shiftOp, Ref.step, MemFs.step, Ref.lookup] at hv ⊢
    cases hlk : aget r.dirents (d, n) with
    | none => simp [hlk] at hv
    | some ino =>
      simp only [shiftOut, true_and]
      refine ⟨rfl, rfl, ?_, rfl, rfl, ?_, wf⟩
      · exact adel_map id (· + 1) beq_id_pair r.dirents (d, n)
      · intro e hmem; exact wd e (mem_adel _ _ _ hmem)
  | link od on nd nn =>
    by_cases hc : (!r.dirs.contains od || !r.dirs.contains nd) = true
    · exfalso; apply hv; simp only [Ref.step, hc, ↓reduceIte]
    simp only [shiftOp, Ref.step, MemFs.step, Ref.lookup, hc, Bool.false_eq_true, ↓reduceIte, aget_dirents] at hv ⊢
    cases hlk : aget r.dirents (od, on) with
    | none => simp [hlk] at hv
    | some ino =>
      simp only [Option.map_some]
      obtain ⟨k', hk'⟩ := aget_mem _ _ _ hlk
      cases hlk2 : aget r.dirents (nd, nn) with
      | some _ => simp only [Option.map_some, shiftOut, true_and]; exact ⟨rfl, rfl, rfl, rfl, rfl, wd, wf⟩
      | none =>
        simp only [Option.map_none, shiftOut, true_and]
        refine ⟨rfl, rfl, ?_, rfl, rfl, ?_, wf⟩
        · exact aset_map id (· + 1) beq_id_pair r.dirents (nd, nn) ino
        · intro e hmem
          rcases mem_aset _ _ _ _ hmem with h | h
          · exact wd e h
          · rw [h]; exact wd (k', ino) hk'
  | atomic d n data =>
    cases hc : r.dirs.contains d
    · exfalso; apply hv; simp only [Ref.step, hc, Bool.not_false, ↓reduceIte]
    simp only [shiftOp, Ref.step, MemFs.step, hc, Bool.not_true, Bool.false_eq_true, ↓reduceIte, shiftOut, true_and, number_length]
    refine ⟨rfl, ?_, ?_, rfl, rfl, ?_, ?_⟩
    · have := aset_number_append r.inodes 0 data
      simpa using this
    · exact aset_map id (· + 1) beq_id_pair r.dirents (d, n) r.inodes.length
    · intro e hmem
      simp only [List.length_append, List.length_cons, List.length_nil]
      rcases mem_aset _ _ _ _ hmem with h | h
      · have := wd e h; omega
      · rw [h]; simp
    · intro e hmem
      simp only [List.length_append, List.length_cons, List.length_nil]
      have := wf e hmem; omega
  | list d =>
    cases hc : r.dirs.contains d
    · exfalso; apply hv; simp only [Ref.step, hc, Bool.not_false, ↓reduceIte]
    simp only [shiftOp, Ref.step, MemFs.step, hc, Bool.not_true, Bool.false_eq_true, ↓reduceIte, shiftOut]
    refine ⟨?_, rfl, rfl, rfl, rfl, rfl, wd, wf⟩
    simp only [namesIn, List.filter_map, List.map_map]
    rfl

end GooseVerif.Model.Fs

namespace GooseVerif.Model.Fs

theorem memSim_empty : MemSim MemFs.empty Ref.empty :=
  ⟨rfl, rfl, rfl, rfl, rfl, (fun e h => by simp [Ref.empty] at h), (fun e h => by simp [Ref.empty] at h)⟩

theorem mem_run_sim (ops : List Op) (m : MemFs) (r : Ref) (hs : MemSim m r)
    (hv : ∀ o ∈ (r.run ops).2, o ≠ .invalid) :
    (m.run (ops.map shiftOp)).2 = (r.run ops).2.map shiftOut ∧
    MemSim (m.run (ops.map shiftOp)).1 (r.run ops).1 := by
  induction ops generalizing m r with
  | nil => exact ⟨rfl, hs⟩
  | cons op ops ih =>
    simp only [Ref.run, List.mem_cons, forall_eq_or_imp] at hv
    obtain ⟨h1, h2⟩ := mem_step_sim m r hs op hv.1
    have := ih _ _ h2 hv.2
    simp only [List.map_cons, MemFs.run, Ref.run]
    exact ⟨by rw [h1, this.1], this.2⟩

end GooseVerif.Model.Fs

namespace GooseVerif.Model.Fs

theorem aget_aset_same {κ ν : Type} [BEq κ] [LawfulBEq κ] (m : List (κ × ν)) (k : κ) (v : ν) :
    aget (aset m k v) k = some v := by
  induction m with
  | nil => simp [aset, aget]
  | cons e m ih =>
    simp only [aset]
    by_cases h : (e.1 == k) = true
    · simp [h, aget]
    · simp only [h, Bool.false_eq_true, ↓reduceIte]
      simp only [aget, List.find?_cons] at ih ⊢
      simp only [h]
      exact ih

end GooseVerif.Model.Fs
