import GooseVerif.Model.MemFsConc
import GooseVerif.Lemmas.Lock

namespace GooseVerif.Model.MemFsConc
open GooseVerif.Model.Lock GooseVerif.Model.Fs

theorem all_writers (op : Op) : memFsProtocol.mode op = .W := by
  cases op <;> simp only [memFsProtocol, methodName] <;> decide +kernel

theorem readers_read_only :
    ∀ op, memFsProtocol.mode op = .R → ∀ k x, (memFsProtocol.micro op k x).1 = x.1 := by
  intro op hm
  rw [all_writers op] at hm
  cases hm

theorem runAlone_eq (s : MemFs) (op : Op) : runAlone memFsProtocol op s = s.step op := by
  simp [runAlone, memFsProtocol, iter]

end GooseVerif.Model.MemFsConc
