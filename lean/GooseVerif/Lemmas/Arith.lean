/-
C01, "unsigned 64/32/8-bit wrap-around": the operator tables of the translator (regenerated from
goose.go `binExpr` and coq.go `BinaryExpr.Coq` on every run) send every Go operator to a GooseLang
operator with the same meaning on w-bit unsigned integers, for w = 64, 32, 8 and ALL operands.
Go's meaning is stated over `BitVec w` (wrap-around +, -, *; truncated / and %; bitwise ops; shifts
by any count, ≥ w giving 0; unsigned comparisons); GooseLang's meaning is `GL.evalBinop`, the
function the reference interpreter runs.
-/
import GooseVerif.GL.Sem
import GooseVerif.Gen.OpTables

namespace GooseVerif.Lemmas.Arith
open GooseVerif.GL

inductive Op where
  | add | sub | mul | quo | rem | and | or | xor | shl | shr | lt | le | gt | ge | eq | ne | land | lor
  deriving DecidableEq, Repr

/-- the Go operator token, as the extractor renders it -/
def goTok : String → Option Op
  | "‹go/token›.ADD" => some .add | "‹go/token›.SUB" => some .sub | "‹go/token›.MUL" => some .mul
  | "‹go/token›.QUO" => some .quo | "‹go/token›.REM" => some .rem | "‹go/token›.AND" => some .and
  | "‹go/token›.OR" => some .or | "‹go/token›.XOR" => some .xor | "‹go/token›.SHL" => some .shl
  | "‹go/token›.SHR" => some .shr | "‹go/token›.LSS" => some .lt | "‹go/token›.LEQ" => some .le
  | "‹go/token›.GTR" => some .gt | "‹go/token›.GEQ" => some .ge | "‹go/token›.EQL" => some .eq
  | "‹go/token›.NEQ" => some .ne | "‹go/token›.LAND" => some .land | "‹go/token›.LOR" => some .lor
  | _ => none

/-- the printer constant of internal/coq, as the extractor renders it -/
def coqConst : String → Option String
  | "‹github.com/goose-lang/goose/internal/coq›.OpPlus" => some "OpPlus"
  | "‹github.com/goose-lang/goose/internal/coq›.OpMinus" => some "OpMinus"
  | "‹github.com/goose-lang/goose/internal/coq›.OpMul" => some "OpMul"
  | "‹github.com/goose-lang/goose/internal/coq›.OpQuot" => some "OpQuot"
  | "‹github.com/goose-lang/goose/internal/coq›.OpRem" => some "OpRem"
  | "‹github.com/goose-lang/goose/internal/coq›.OpAnd" => some "OpAnd"
  | "‹github.com/goose-lang/goose/internal/coq›.OpOr" => some "OpOr"
  | "‹github.com/goose-lang/goose/internal/coq›.OpXor" => some "OpXor"
  | "‹github.com/goose-lang/goose/internal/coq›.OpShl" => some "OpShl"
  | "‹github.com/goose-lang/goose/internal/coq›.OpShr" => some "OpShr"
  | "‹github.com/goose-lang/goose/internal/coq›.OpLessThan" => some "OpLessThan"
  | "‹github.com/goose-lang/goose/internal/coq›.OpLessEq" => some "OpLessEq"
  | "‹github.com/goose-lang/goose/internal/coq›.OpGreaterThan" => some "OpGreaterThan"
  | "‹github.com/goose-lang/goose/internal/coq›.OpGreaterEq" => some "OpGreaterEq"
  | "‹github.com/goose-lang/goose/internal/coq›.OpEquals" => some "OpEquals"
  | "‹github.com/goose-lang/goose/internal/coq›.OpNotEquals" => some "OpNotEquals"
  | "‹github.com/goose-lang/goose/internal/coq›.OpLAnd" => some "OpLAnd"
  | "‹github.com/goose-lang/goose/internal/coq›.OpLOr" => some "OpLOr"
  | _ => none

/-- the GooseLang operator a printed notation denotes (the Go string literal of the printer's table)
and the name under which the parser hands it to `evalBinop` -/
def glOp : String → Option (Op × String)
  | "\"+\"" => some (.add, "+") | "\"-\"" => some (.sub, "-") | "\"*\"" => some (.mul, "*")
  | "\"`quot`\"" => some (.quo, "quot") | "\"`rem`\"" => some (.rem, "rem")
  | "\"`and`\"" => some (.and, "and") | "\"`or`\"" => some (.or, "or") | "\"`xor`\"" => some (.xor, "xor")
  | "\"≪\"" => some (.shl, "≪") | "\"≫\"" => some (.shr, "≫")
  | "\"<\"" => some (.lt, "<") | "\"≤\"" => some (.le, "≤") | "\">\"" => some (.gt, ">") | "\"≥\"" => some (.ge, "≥")
  | "\"=\"" => some (.eq, "=") | "\"≠\"" => some (.ne, "≠")
  | "\"&&\"" => some (.land, "&&") | "\"||\"" => some (.lor, "||")
  | _ => none

/-- name under which the parser hands an operator to the interpreter -/
def Op.name : Op → String
  | .add => "+" | .sub => "-" | .mul => "*" | .quo => "quot" | .rem => "rem" | .and => "and" | .or => "or"
  | .xor => "xor" | .shl => "≪" | .shr => "≫" | .lt => "<" | .le => "≤" | .gt => ">" | .ge => "≥"
  | .eq => "=" | .ne => "≠" | .land => "&&" | .lor => "||"

/-- one row of goose.go's table composed with coq.go's table: the Go token and the GooseLang
operator it is printed as agree -/
def rowOk (row : String × String) : Bool :=
  match goTok row.1, coqConst row.2 with
  | some g, some c =>
    match (Gen.OpTables.coqBinOps.lookup c).bind glOp with
    | some (o, n) => o == g && n == g.name
    | none => false
  | _, _ => false

/-- Go's result on w-bit unsigned operands (`none`: Go panics — division by zero — outside C01's quantifier) -/
def goArith {w : Nat} : Op → BitVec w → BitVec w → Option (BitVec w)
  | .add, a, b => some (a + b)
  | .sub, a, b => some (a - b)
  | .mul, a, b => some (a * b)
  | .quo, a, b => if b = 0 then none else some (a / b)
  | .rem, a, b => if b = 0 then none else some (a % b)
  | .and, a, b => some (a &&& b)
  | .or, a, b => some (a ||| b)
  | .xor, a, b => some (a ^^^ b)
  | .shl, a, b => some (a <<< b.toNat)
  | .shr, a, b => some (a >>> b.toNat)
  | _, _, _ => none

def goCompare {w : Nat} : Op → BitVec w → BitVec w → Option Bool
  | .lt, a, b => some (decide (a < b))
  | .le, a, b => some (decide (a ≤ b))
  | .gt, a, b => some (decide (a > b))
  | .ge, a, b => some (decide (a ≥ b))
  | .eq, a, b => some (decide (a = b))
  | .ne, a, b => some (decide (a ≠ b))
  | _, _, _ => none

def Supported (w : Nat) : Prop := w = 64 ∨ w = 32 ∨ w = 8

theorem width_mkInt {w : Nat} (hw : Supported w) (n : Nat) : width (mkInt w n) = some (w, n % 2 ^ w) := by
  rcases hw with h | h | h <;> subst h <;> simp [mkInt, width]

theorem mkInt_toNat {w : Nat} (a : BitVec w) : mkInt w a.toNat = mkInt w (a.toNat % 2 ^ w) := by
  simp [mkInt]

theorem toNat_mod {w : Nat} (a : BitVec w) : a.toNat % 2 ^ w = a.toNat := Nat.mod_eq_of_lt a.isLt

theorem mkInt_congr {w n m : Nat} (h : n % 2 ^ w = m % 2 ^ w) : mkInt w n = mkInt w m := by
  simp [mkInt, h]

/-- on two integers of the same supported width every operator except the string case of `+` goes to `binopInt` -/
theorem evalBinop_int {w : Nat} (hw : Supported w) (op : Op) (hop : op ≠ .eq ∧ op ≠ .ne ∧ op ≠ .land ∧ op ≠ .lor) (x y : Nat) :
    evalBinop op.name (mkInt w x) (mkInt w y) = binopInt op.name w (x % 2 ^ w) (y % 2 ^ w) := by
  rcases hw with h | h | h <;> subst h <;> cases op <;> simp_all [evalBinop, Op.name, mkInt, width]

theorem evalBinop_eq {w : Nat} (hw : Supported w) (x y : Nat) :
    evalBinop "=" (mkInt w x) (mkInt w y) = some (.bool (x % 2 ^ w == y % 2 ^ w)) ∧
    evalBinop "≠" (mkInt w x) (mkInt w y) = some (.bool (!(x % 2 ^ w == y % 2 ^ w))) := by
  rcases hw with h | h | h <;> subst h <;> simp [evalBinop, mkInt, width]

/-- every arithmetic / bitwise / shift operator: the interpreter computes Go's wrap-around result -/
theorem arith_sound {w : Nat} (hw : Supported w) (op : Op) (a b r : BitVec w) (h : goArith op a b = some r) :
    evalBinop op.name (mkInt w a.toNat) (mkInt w b.toNat) = some (mkInt w r.toNat) := by
  have hop : op ≠ .eq ∧ op ≠ .ne ∧ op ≠ .land ∧ op ≠ .lor := by
    cases op <;> simp_all [goArith]
  rw [evalBinop_int hw op hop, toNat_mod, toNat_mod]
  cases op <;> simp only [goArith, Option.some.injEq, reduceCtorEq] at h
  case add => subst h; simp only [binopInt, Op.name]; exact congrArg some (mkInt_congr (by simp [BitVec.toNat_add]))
  case sub =>
    subst h; simp only [binopInt, Op.name]
    refine congrArg some (mkInt_congr ?_)
    simp only [BitVec.toNat_sub, Nat.mod_mod]
    have := b.isLt; congr 1; omega
  case mul => subst h; simp only [binopInt, Op.name]; exact congrArg some (mkInt_congr (by simp [BitVec.toNat_mul]))
  case quo =>
    split at h
    · cases h
    · rename_i hb0
      simp only [Option.some.injEq] at h; subst h
      have hbn : (b.toNat == 0) = false := by
        simp only [beq_eq_false_iff_ne, ne_eq]
        intro hz; exact hb0 (BitVec.eq_of_toNat_eq (by simpa using hz))
      simp only [binopInt, Op.name, hbn, Bool.false_eq_true, ↓reduceIte]; exact congrArg some (mkInt_congr (by simp [BitVec.toNat_udiv]))
  case rem =>
    split at h
    · cases h
    · rename_i hb0
      simp only [Option.some.injEq] at h; subst h
      have hbn : (b.toNat == 0) = false := by
        simp only [beq_eq_false_iff_ne, ne_eq]
        intro hz; exact hb0 (BitVec.eq_of_toNat_eq (by simpa using hz))
      simp only [binopInt, Op.name, hbn, Bool.false_eq_true, ↓reduceIte]; exact congrArg some (mkInt_congr (by simp [BitVec.toNat_umod]))
  case and => subst h; simp only [binopInt, Op.name]; exact congrArg some (mkInt_congr (by simp [BitVec.toNat_and]))
  case or => subst h; simp only [binopInt, Op.name]; exact congrArg some (mkInt_congr (by simp [BitVec.toNat_or]))
  case xor => subst h; simp only [binopInt, Op.name]; exact congrArg some (mkInt_congr (by simp [BitVec.toNat_xor]))
  case shl =>
    subst h; simp only [binopInt, Op.name]
    refine congrArg some (mkInt_congr ?_)
    by_cases hge : b.toNat ≥ w
    · have hd : 2 ^ w ∣ a.toNat * 2 ^ b.toNat := Nat.dvd_trans (Nat.pow_dvd_pow 2 hge) (Nat.dvd_mul_left _ _)
      simp only [hge, ↓reduceIte, BitVec.toNat_shiftLeft, Nat.shiftLeft_eq, Nat.mod_mod, Nat.mod_eq_zero_of_dvd hd, Nat.zero_mod]
    · simp [hge, BitVec.toNat_shiftLeft]
  case shr =>
    subst h; simp only [binopInt, Op.name]
    refine congrArg some (mkInt_congr ?_)
    by_cases hge : b.toNat ≥ w
    · have hz : a.toNat >>> b.toNat = 0 := by
        rw [Nat.shiftRight_eq_div_pow]
        apply Nat.div_eq_of_lt
        exact Nat.lt_of_lt_of_le a.isLt (Nat.pow_le_pow_right (by decide) hge)
      simp [hge, BitVec.toNat_ushiftRight, hz]
    · simp [hge, BitVec.toNat_ushiftRight]

/-- every comparison: the interpreter computes Go's unsigned comparison -/
theorem compare_sound {w : Nat} (hw : Supported w) (op : Op) (a b : BitVec w) (r : Bool) (h : goCompare op a b = some r) :
    evalBinop op.name (mkInt w a.toNat) (mkInt w b.toNat) = some (.bool r) := by
  by_cases hop : op ≠ .eq ∧ op ≠ .ne ∧ op ≠ .land ∧ op ≠ .lor
  · rw [evalBinop_int hw op hop, toNat_mod, toNat_mod]
    cases op <;> simp only [goCompare, Option.some.injEq, reduceCtorEq] at h <;> subst h
    case lt => simp [binopInt, Op.name, BitVec.lt_def]
    case le => simp [binopInt, Op.name, BitVec.le_def]
    case gt => simp [binopInt, Op.name, BitVec.lt_def, GT.gt]
    case ge => simp [binopInt, Op.name, BitVec.le_def, GE.ge]
    case eq => simp at hop
    case ne => simp at hop
  · have he := evalBinop_eq hw a.toNat b.toNat
    rw [toNat_mod, toNat_mod] at he
    cases op <;> simp only [goCompare, Option.some.injEq, reduceCtorEq] at h <;> try (exfalso; simp at hop; done)
    case eq =>
      subst h; rw [Op.name, he.1]; congr 2
      by_cases hab : a = b
      · subst hab; simp
      · have : ¬ a.toNat = b.toNat := fun h => hab (BitVec.eq_of_toNat_eq h)
        simp [hab, this]
    case ne =>
      subst h; rw [Op.name, he.2]; congr 2
      by_cases hab : a = b
      · subst hab; simp
      · have : ¬ a.toNat = b.toNat := fun h => hab (BitVec.eq_of_toNat_eq h)
        simp [hab, this]

/-- conversions: `to_uN` keeps the value modulo 2^N — Go's conversion between unsigned widths -/
theorem conversion_sound {w v : Nat} (a : BitVec w) : mkInt v a.toNat = mkInt v (a.setWidth v).toNat := by
  simp [mkInt, BitVec.toNat_setWidth]

end GooseVerif.Lemmas.Arith
